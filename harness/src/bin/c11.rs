//! C11 — the formatter preserves meaning, keeps comments, is idempotent and total.
//!
//! Translation validation of `koto_format::format` per (program, options) pair:
//!   (1) returns without panic / hang / error,
//!   (2) the output parses and its canonical Ast equals the input's,
//!   (3) where runnable: same result + stdout before and after,
//!   (4) same comment token sequence,
//!   (5) format(format(p)) == format(p),
//!   (6) same multiset of string/number literal token texts.
//! (K) for the two modelled pieces (Lean `Model/FmtOptions.lean`, `Model/SrcSlice.lean`).
//!
//! Process layout: the orchestrator (this `main`) generates the cases and talks to worker children
//! (`--worker`, the same binary) which run the real koto code, so a hang / abort / stack overflow is
//! attributed to one (program, options) pair.
use koto_format::{FormatOptions, format};
use koto_lexer::{Lexer, Token};
use koto_parser::{
    Ast, AstIndex, AstString, ChainNode, ConstantIndex, Node, Parser, StringContents, StringNode,
};
use kvh::worker::{Reply, Worker};
use kvh::{Args, Driver, Report, Rng};
use serde_json::{Value, json};
use std::collections::BTreeMap;
use std::time::Duration;
use unicode_segmentation::UnicodeSegmentation;
use unicode_width::UnicodeWidthChar;

// ------------------------------------------------------------------------------------------------
// options grid
// ------------------------------------------------------------------------------------------------

const LINE_LENGTHS: [u8; 4] = [20, 40, 100, 255];
const INDENT_WIDTHS: [u8; 4] = [1, 2, 4, 8];
const CHAIN_THRESHOLDS: [u8; 3] = [0, 1, 4];

#[derive(Clone, Copy, Debug, PartialEq, Eq)]
struct Opt {
    ll: u8,
    iw: u8,
    cbt: u8,
    aia: bool,
}

impl Opt {
    fn to_fo(self) -> FormatOptions {
        FormatOptions {
            always_indent_arms: self.aia,
            indent_width: self.iw,
            line_length: self.ll,
            chain_break_threshold: self.cbt,
        }
    }
    fn text(self) -> String {
        format!("{},{},{},{}", self.ll, self.iw, self.cbt, self.aia as u8)
    }
    fn parse(s: &str) -> Option<Opt> {
        let v: Vec<&str> = s.split(',').collect();
        if v.len() != 4 {
            return None;
        }
        Some(Opt { ll: v[0].parse().ok()?, iw: v[1].parse().ok()?, cbt: v[2].parse().ok()?, aia: v[3] == "1" })
    }
    fn default() -> Opt {
        Opt { ll: 100, iw: 2, cbt: 4, aia: false }
    }
}

fn full_grid() -> Vec<Opt> {
    let mut g = vec![];
    for ll in LINE_LENGTHS {
        for iw in INDENT_WIDTHS {
            for cbt in CHAIN_THRESHOLDS {
                for aia in [false, true] {
                    g.push(Opt { ll, iw, cbt, aia });
                }
            }
        }
    }
    g
}

/// default options first, then `n - 1` seeded grid points (without repetition)
fn sample_grid(rng: &mut Rng, n: usize) -> Vec<Opt> {
    let g = full_grid();
    let mut out = vec![Opt::default()];
    let mut guard = 0;
    while out.len() < n.min(g.len()) && guard < 10 * n {
        guard += 1;
        let o = *rng.pick(&g);
        if !out.contains(&o) {
            out.push(o);
        }
    }
    out
}

// ------------------------------------------------------------------------------------------------
// canonical Ast
// ------------------------------------------------------------------------------------------------

/// What is erased (everything else is compared):
///  * spans (the `span` index of every AstNode), node indices (children are compared recursively);
///  * constant-pool indices: constants are compared by value (strings by content, `SmallInt`/`Int`
///    by i64 value, floats by bit pattern);
///  * `Node::Debug::expression_string` (a copy of the source text of the expression) is compared
///    with all white space removed.
/// Compared, not erased: `Nested`, `Tuple.parentheses`, `Map.braces`, `Call.with_parens`, `If.inline`,
/// string quote kind and raw-string hash count, `let_assignment`, `local_count`, `accessed_non_locals`
/// (as a sorted set of names: the parser's order is HashSet iteration order), `is_generator`, `variadic`, `allow_null`.
const ERASED: &str = "spans; AstIndex numbering; ConstantIndex numbering (constants compared by value: strings by content, SmallInt/Int by i64 value, floats by bits); Debug.expression_string compared modulo white space; a one-statement Block in the body position of a MatchArm/SwitchArm/Function is identified with its statement (the formatter places a space-or-indented-break in front of these bodies — always_indent_arms is documented to do so —, and the parser reads a body on its own indented line as a Block). Everything else is compared, including Nested, Tuple.parentheses, Map.braces, Call.with_parens, If.inline, string quote kind, raw-string hash count, let_assignment, local_count, accessed_non_locals (as a sorted set of names; the parser emits them in HashSet iteration order), is_generator";

struct Canon<'a> {
    ast: &'a Ast,
    out: String,
    kinds: BTreeMap<&'static str, u32>,
    nodes: u32,
}

impl<'a> Canon<'a> {
    fn s(&mut self, c: ConstantIndex) {
        let t = self.ast.constants().get_str(c);
        self.out.push_str(&format!("{:?}", t));
    }
    fn kind(&mut self, k: &'static str) {
        *self.kinds.entry(k).or_insert(0) += 1;
        self.nodes += 1;
        self.out.push('(');
        self.out.push_str(k);
    }
    fn opt(&mut self, i: &Option<AstIndex>) {
        match i {
            Some(i) => self.node(*i),
            None => self.out.push_str(" ~"),
        }
    }
    fn list(&mut self, xs: &[AstIndex]) {
        self.out.push_str(" [");
        for x in xs {
            self.node(*x);
        }
        self.out.push(']');
    }
    fn string(&mut self, s: &AstString) {
        self.out.push_str(&format!(" (str {:?}", s.quote));
        match &s.contents {
            StringContents::Literal(c) => {
                self.out.push_str(" lit ");
                self.s(*c);
            }
            StringContents::Raw { constant, hash_count } => {
                self.out.push_str(&format!(" raw{} ", hash_count));
                self.s(*constant);
            }
            StringContents::Interpolated(nodes) => {
                for n in nodes {
                    match n {
                        StringNode::Literal(c) => {
                            self.out.push_str(" lit ");
                            self.s(*c);
                        }
                        StringNode::Expression { expression, format } => {
                            self.out.push_str(" (expr");
                            self.node(*expression);
                            self.out.push_str(&format!(
                                " fmt:{:?}/{:?}/{:?}/{:?}/",
                                format.alignment, format.min_width, format.precision, format.representation
                            ));
                            match format.fill_character {
                                Some(c) => self.s(c),
                                None => self.out.push('~'),
                            }
                            self.out.push(')');
                        }
                    }
                }
            }
        }
        self.out.push(')');
    }
    /// The body of a match/switch arm: `always_indent_arms` is documented to move the body onto its
    /// own indented line, which the parser reads as a `Block` with one statement. A one-statement
    /// Block in arm-body position is identified with its statement (same value, same scope).
    fn arm_body(&mut self, idx: AstIndex) {
        if let Node::Block(xs) = &self.ast.node(idx).node {
            if xs.len() == 1 {
                self.out.push_str(" =");
                return self.node(xs[0]);
            }
        }
        self.out.push_str(" =");
        self.node(idx)
    }
    fn node(&mut self, idx: AstIndex) {
        self.out.push(' ');
        let n = &self.ast.node(idx).node;
        match n {
            Node::Null => self.kind("Null"),
            Node::Nested(i) => {
                self.kind("Nested");
                self.node(*i);
            }
            Node::Id(c, hint) => {
                self.kind("Id");
                self.out.push(' ');
                self.s(*c);
                self.opt(hint);
            }
            Node::Meta(id, name) => {
                self.kind("Meta");
                self.out.push_str(&format!(" {:?} ", id));
                match name {
                    Some(c) => self.s(*c),
                    None => self.out.push('~'),
                }
            }
            Node::Chain((cn, next)) => {
                self.kind("Chain");
                match cn {
                    ChainNode::Root(i) => {
                        self.out.push_str(" root");
                        self.node(*i);
                    }
                    ChainNode::Id(c) => {
                        self.out.push_str(" .");
                        self.s(*c);
                    }
                    ChainNode::Str(s) => {
                        self.out.push_str(" .str");
                        self.string(s);
                    }
                    ChainNode::Index(i) => {
                        self.out.push_str(" index");
                        self.node(*i);
                    }
                    ChainNode::Call { args, with_parens } => {
                        self.out.push_str(if *with_parens { " call()" } else { " call_" });
                        self.list(args);
                    }
                    ChainNode::NullCheck => self.out.push_str(" ?"),
                }
                self.opt(next);
            }
            Node::BoolTrue => self.kind("True"),
            Node::BoolFalse => self.kind("False"),
            Node::SmallInt(v) => {
                self.kind("Int");
                self.out.push_str(&format!(" {}", *v as i64));
            }
            Node::Int(c) => {
                self.kind("Int");
                let v = self.ast.constants().get_i64(*c);
                self.out.push_str(&format!(" {}", v));
            }
            Node::Float(c) => {
                self.kind("Float");
                let v = self.ast.constants().get_f64(*c);
                self.out.push_str(&format!(" {:016x}", v.to_bits()));
            }
            Node::Str(s) => {
                self.kind("Str");
                self.string(s);
            }
            Node::List(xs) => {
                self.kind("List");
                self.list(xs);
            }
            Node::Tuple { elements, parentheses } => {
                self.kind("Tuple");
                self.out.push_str(if *parentheses { " ()" } else { " _" });
                self.list(elements);
            }
            Node::TempTuple(xs) => {
                self.kind("TempTuple");
                self.list(xs);
            }
            Node::Range { start, end, inclusive } => {
                self.kind("Range");
                self.out.push_str(if *inclusive { " incl" } else { " excl" });
                self.node(*start);
                self.node(*end);
            }
            Node::RangeFrom { start } => {
                self.kind("RangeFrom");
                self.node(*start);
            }
            Node::RangeTo { end, inclusive } => {
                self.kind("RangeTo");
                self.out.push_str(if *inclusive { " incl" } else { " excl" });
                self.node(*end);
            }
            Node::RangeFull => self.kind("RangeFull"),
            Node::Map { entries, braces } => {
                self.kind("Map");
                self.out.push_str(if *braces { " {}" } else { " _" });
                self.list(entries);
            }
            Node::MapEntry(k, v) => {
                self.kind("MapEntry");
                self.node(*k);
                self.node(*v);
            }
            Node::MapPattern { entries, type_hint } => {
                self.kind("MapPattern");
                self.list(entries);
                self.opt(type_hint);
            }
            Node::MapKeyRebind { key, id_or_ignored } => {
                self.kind("MapKeyRebind");
                self.node(*key);
                self.node(*id_or_ignored);
            }
            Node::Self_ => self.kind("Self"),
            Node::MainBlock { body, local_count } => {
                self.kind("MainBlock");
                self.out.push_str(&format!(" locals={}", local_count));
                self.list(body);
            }
            Node::Block(xs) => {
                self.kind("Block");
                self.list(xs);
            }
            Node::Function(f) => {
                self.kind("Function");
                self.out.push_str(&format!(" locals={} gen={} nonlocals=[", f.local_count, f.is_generator));
                // the parser collects them through a HashSet: order differs from run to run
                let mut names: Vec<&str> =
                    f.accessed_non_locals.iter().map(|c| self.ast.constants().get_str(*c)).collect();
                names.sort();
                for n in names {
                    self.out.push_str(&format!("{:?},", n));
                }
                self.out.push(']');
                self.node(f.args);
                self.arm_body(f.body);
            }
            Node::FunctionArgs { args, variadic, output_type } => {
                self.kind("FunctionArgs");
                self.out.push_str(if *variadic { " variadic" } else { " fixed" });
                self.list(args);
                self.opt(output_type);
            }
            Node::Import { from, items } => {
                self.kind("Import");
                self.out.push_str(" from");
                self.list(from);
                self.out.push_str(" items[");
                for it in items {
                    self.out.push_str(" (item");
                    self.node(it.item);
                    self.opt(&it.name);
                    self.out.push(')');
                }
                self.out.push(']');
            }
            Node::Export(i) => {
                self.kind("Export");
                self.node(*i);
            }
            Node::Assign { target, expression, let_assignment } => {
                self.kind("Assign");
                self.out.push_str(if *let_assignment { " let" } else { " -" });
                self.node(*target);
                self.node(*expression);
            }
            Node::MultiAssign { targets, expression, let_assignment } => {
                self.kind("MultiAssign");
                self.out.push_str(if *let_assignment { " let" } else { " -" });
                self.list(targets);
                self.node(*expression);
            }
            Node::UnaryOp { op, value } => {
                self.kind("UnaryOp");
                self.out.push_str(&format!(" {:?}", op));
                self.node(*value);
            }
            Node::BinaryOp { op, lhs, rhs } => {
                self.kind("BinaryOp");
                self.out.push_str(&format!(" {:?}", op));
                self.node(*lhs);
                self.node(*rhs);
            }
            Node::If(i) => {
                self.kind("If");
                self.out.push_str(if i.inline { " inline" } else { " block" });
                self.node(i.condition);
                self.node(i.then_node);
                self.out.push_str(" elseifs[");
                for (c, b) in i.else_if_blocks.iter() {
                    self.node(*c);
                    self.node(*b);
                }
                self.out.push(']');
                self.opt(&i.else_node);
            }
            Node::Match { expression, arms } => {
                self.kind("Match");
                self.node(*expression);
                self.list(arms);
            }
            Node::MatchArm { patterns, condition, expression } => {
                self.kind("MatchArm");
                self.list(patterns);
                self.opt(condition);
                self.arm_body(*expression);
            }
            Node::Switch(arms) => {
                self.kind("Switch");
                self.list(arms);
            }
            Node::SwitchArm { condition, expression } => {
                self.kind("SwitchArm");
                self.opt(condition);
                self.arm_body(*expression);
            }
            Node::Ignored(id, hint) => {
                self.kind("Ignored");
                self.out.push(' ');
                match id {
                    Some(c) => self.s(*c),
                    None => self.out.push('~'),
                }
                self.opt(hint);
            }
            Node::PackedId(id) => {
                self.kind("PackedId");
                self.out.push(' ');
                match id {
                    Some(c) => self.s(*c),
                    None => self.out.push('~'),
                }
            }
            Node::PackedExpression(i) => {
                self.kind("PackedExpression");
                self.node(*i);
            }
            Node::For(f) => {
                self.kind("For");
                self.list(&f.args);
                self.node(f.iterable);
                self.node(f.body);
            }
            Node::Loop { body } => {
                self.kind("Loop");
                self.node(*body);
            }
            Node::While { condition, body } => {
                self.kind("While");
                self.node(*condition);
                self.node(*body);
            }
            Node::Until { condition, body } => {
                self.kind("Until");
                self.node(*condition);
                self.node(*body);
            }
            Node::Break(v) => {
                self.kind("Break");
                self.opt(v);
            }
            Node::Continue => self.kind("Continue"),
            Node::Return(v) => {
                self.kind("Return");
                self.opt(v);
            }
            Node::Try(t) => {
                self.kind("Try");
                self.node(t.try_block);
                self.out.push_str(" catches[");
                for c in t.catch_blocks.iter() {
                    self.node(c.arg);
                    self.node(c.block);
                }
                self.out.push(']');
                self.opt(&t.finally_block);
            }
            Node::Throw(i) => {
                self.kind("Throw");
                self.node(*i);
            }
            Node::Yield(i) => {
                self.kind("Yield");
                self.node(*i);
            }
            Node::Debug { expression_string, expression } => {
                self.kind("Debug");
                let t: String =
                    self.ast.constants().get_str(*expression_string).chars().filter(|c| !c.is_whitespace()).collect();
                self.out.push_str(&format!(" {:?}", t));
                self.node(*expression);
            }
            Node::Type { type_index, allow_null } => {
                self.kind("Type");
                self.out.push(' ');
                self.s(*type_index);
                self.out.push_str(if *allow_null { " ?" } else { " !" });
            }
        }
        self.out.push(')');
    }
}

struct Parsed {
    canon: String,
    kinds: BTreeMap<&'static str, u32>,
    nodes: u32,
}

fn parse_canon(src: &str) -> Result<Parsed, String> {
    match kvh::catch(|| Parser::parse(src)) {
        Err(p) => Err(format!("parser panic: {}", p)),
        Ok(Err(e)) => Err(format!("{} @{}:{}", e.error, e.span.start.line, e.span.start.column)),
        Ok(Ok(ast)) => {
            let mut c = Canon { ast: &ast, out: String::new(), kinds: BTreeMap::new(), nodes: 0 };
            if let Some(e) = ast.entry_point() {
                c.node(e);
            }
            Ok(Parsed { canon: c.out, kinds: c.kinds, nodes: c.nodes })
        }
    }
}

// ------------------------------------------------------------------------------------------------
// token-level observations
// ------------------------------------------------------------------------------------------------

#[derive(Clone, Debug)]
struct Tk {
    token: Token,
    sb: usize,
    eb: usize,
    line: u32,
    col: u32,
    eline: u32,
    ecol: u32,
}

fn lex_all(src: &str) -> Option<Vec<Tk>> {
    let mut v = vec![];
    for t in Lexer::new(src) {
        if t.token == Token::Error {
            return None;
        }
        v.push(Tk {
            token: t.token,
            sb: t.source_bytes.start,
            eb: t.source_bytes.end,
            line: t.span.start.line,
            col: t.span.start.column,
            eline: t.span.end.line,
            ecol: t.span.end.column,
        });
        if v.len() > 4 * src.len() + 16 {
            return None;
        }
    }
    Some(v)
}

/// (4) comment token texts, trailing white space removed, in order. Lines inside a multi-line
/// comment are right-trimmed individually as well (the formatter copies them verbatim).
fn comments_of(src: &str, toks: &[Tk]) -> Vec<String> {
    toks.iter()
        .filter(|t| matches!(t.token, Token::CommentSingle | Token::CommentMulti))
        .map(|t| src[t.sb..t.eb].trim_end().to_string())
        .collect()
}

/// (6) multiset of literal token texts: Number tokens and StringLiteral tokens (the pieces of text
/// between quotes / placeholders, and format-option strings).
fn literals_of(src: &str, toks: &[Tk]) -> BTreeMap<String, i64> {
    let mut m = BTreeMap::new();
    for t in toks {
        // (an empty StringLiteral is the empty format-option text of `{x:}`, which the formatter
        // legitimately renders as `{x}`: not a literal)
        if matches!(t.token, Token::Number | Token::StringLiteral) && t.eb > t.sb {
            *m.entry(format!("{}:{}", if t.token == Token::Number { "n" } else { "s" }, &src[t.sb..t.eb])).or_insert(0) += 1;
        }
    }
    m
}

// ------------------------------------------------------------------------------------------------
// behaviour
// ------------------------------------------------------------------------------------------------

mod capture {
    use koto::prelude::*;
    use koto::runtime::{KotoFile, KotoRead, KotoWrite, Result};
    use std::sync::{Arc, Mutex};

    #[derive(Clone, Debug, Default)]
    pub struct Out(pub Arc<Mutex<String>>);
    impl KotoFile for Out {
        fn id(&self) -> KString {
            "_c11_capture_".into()
        }
    }
    impl KotoRead for Out {}
    impl KotoWrite for Out {
        fn write(&self, bytes: &[u8]) -> Result<()> {
            self.0.lock().unwrap().push_str(&String::from_utf8_lossy(bytes));
            Ok(())
        }
        fn write_line(&self, s: &str) -> Result<()> {
            let mut g = self.0.lock().unwrap();
            g.push_str(s);
            g.push('\n');
            Ok(())
        }
        fn flush(&self) -> Result<()> {
            Ok(())
        }
    }
}

/// Compile and run; returns "ok:<value>|<stdout>" / "err:<first line of the message>|<stdout>" /
/// "compile-err" / "panic:<msg>". Positions never appear in the outcome (error messages are cut at
/// the first line break, which is where the trace with line numbers begins).
fn run_program(src: &str, path: Option<&str>) -> String {
    use koto::prelude::*;
    let out = capture::Out::default();
    let err = capture::Out::default();
    let r = kvh::catch(|| {
        let mut k = Koto::with_settings(
            KotoSettings::default()
                .with_execution_limit(Duration::from_millis(1500))
                .with_stdout(out.clone())
                .with_stderr(err.clone()),
        );
        let mut args = koto::CompileArgs::new(src);
        if let Some(p) = path {
            args = args.script_path(p);
        }
        match k.compile(args) {
            Err(e) => format!("compile-err:{}", e.to_string().lines().next().unwrap_or("")),
            Ok(chunk) => match k.run(chunk) {
                Ok(v) => match k.value_to_string(v) {
                    Ok(s) => format!("ok:{}", s),
                    Err(_) => "ok:<undisplayable>".to_string(),
                },
                Err(e) => format!("err:{}", e.to_string().lines().next().unwrap_or("")),
            },
        }
    });
    // a script may print a caught error: its text carries a trace with line:column and a source
    // excerpt, which legitimately change with the layout — those lines are dropped
    let so: String = out
        .0
        .lock()
        .unwrap()
        .lines()
        .filter(|l| {
            let t = l.trim_start();
            let excerpt = t.starts_with('|') || t.split_once('|').is_some_and(|(a, _)| !a.trim().is_empty() && a.trim().chars().all(|c| c.is_ascii_digit()));
            !(l.starts_with("--- ") || excerpt)
        })
        .collect::<Vec<_>>()
        .join("\n");
    match r {
        Ok(s) => format!("{}|{}", s, so),
        Err(p) => format!("panic:{}|{}", p, so),
    }
}

// ------------------------------------------------------------------------------------------------
// the validation of one program under several option sets (worker side)
// ------------------------------------------------------------------------------------------------

fn first_diff(a: &str, b: &str) -> String {
    let n = a.bytes().zip(b.bytes()).take_while(|(x, y)| x == y).count();
    let mut s = n.saturating_sub(60);
    while !a.is_char_boundary(s) {
        s -= 1;
    }
    let cut = |t: &str| {
        let mut s2 = s.min(t.len());
        while !t.is_char_boundary(s2) {
            s2 -= 1;
        }
        let mut e = (n + 80).min(t.len());
        while !t.is_char_boundary(e) {
            e += 1;
        }
        t[s2..e].to_string()
    };
    format!("at byte {}: input «{}» vs output «{}»", n, cut(a), cut(b))
}

/// All failing clauses of (1)…(6) for `src` under `opt`. `base` = observations on the input.
struct Base {
    canon: String,
    comments: Vec<String>,
    literals: BTreeMap<String, i64>,
    behaviour: Option<String>,
}

fn validate(src: &str, opt: Opt, base: &Base, path: Option<&str>, beh_cache: &mut BTreeMap<u64, String>) -> Vec<Value> {
    let mut fails = vec![];
    // (1)
    let out = match kvh::catch(|| format(src, opt.to_fo())) {
        Err(p) => {
            fails.push(json!({"clause": "1:panic", "detail": p}));
            return fails;
        }
        Ok(Err(e)) => {
            fails.push(json!({"clause": "1:error", "detail": e.to_string()}));
            return fails;
        }
        Ok(Ok(o)) => o,
    };
    // (2)
    match parse_canon(&out) {
        Err(e) => fails.push(json!({"clause": "2:reparse", "detail": e, "output": out})),
        Ok(p) => {
            if p.canon != base.canon {
                fails.push(json!({"clause": "2:ast", "detail": first_diff(&base.canon, &p.canon), "output": out}));
            }
        }
    }
    // (4), (6)
    match lex_all(&out) {
        None => fails.push(json!({"clause": "4:relex", "detail": "output does not lex", "output": out})),
        Some(toks) => {
            let c = comments_of(&out, &toks);
            if c != base.comments {
                let i = c.iter().zip(base.comments.iter()).take_while(|(a, b)| a == b).count();
                fails.push(json!({"clause": "4:comments",
                    "detail": format!("comment #{}: input {:?} vs output {:?} (counts {} vs {})", i, base.comments.get(i), c.get(i), base.comments.len(), c.len()),
                    "output": out}));
            }
            let l = literals_of(&out, &toks);
            if l != base.literals {
                let mut d = vec![];
                for (k, v) in base.literals.iter() {
                    let w = l.get(k).copied().unwrap_or(0);
                    if w != *v {
                        d.push(format!("{:?}: {} -> {}", k, v, w));
                    }
                }
                for (k, v) in l.iter() {
                    if !base.literals.contains_key(k) {
                        d.push(format!("{:?}: 0 -> {}", k, v));
                    }
                }
                d.truncate(6);
                fails.push(json!({"clause": "6:literals", "detail": d.join("; "), "output": out}));
            }
        }
    }
    // (5)
    match kvh::catch(|| format(&out, opt.to_fo())) {
        Err(p) => fails.push(json!({"clause": "5:panic-on-own-output", "detail": p, "output": out})),
        Ok(Err(e)) => fails.push(json!({"clause": "5:error-on-own-output", "detail": e.to_string(), "output": out})),
        Ok(Ok(o2)) => {
            if o2 != out {
                fails.push(json!({"clause": "5:idempotence", "detail": first_diff(&out, &o2), "output": out, "output2": o2}));
            }
        }
    }
    // (3)
    if let Some(b) = &base.behaviour {
        let h = kvh::fnv1a(out.as_bytes());
        let b2 = beh_cache.entry(h).or_insert_with(|| run_program(&out, path)).clone();
        if &b2 != b {
            // scripts that touch the file system (koto/tests/io.koto writes a fixed temp file) can be
            // disturbed by another process: a difference counts only if it is reproducible
            let again_orig = run_program(src, path);
            let again_fmt = run_program(&out, path);
            if &again_orig == b && again_fmt == b2 {
                fails.push(json!({"clause": "3:behaviour", "detail": first_diff(b, &b2), "output": out}));
            } else {
                beh_cache.remove(&h);
            }
        }
    }
    fails
}

// ------------------------------------------------------------------------------------------------
// shapes of the recorded findings (evaluated on the INPUT program; used to attribute corpus/mutant
// failures by cause and to keep generated programs outside the shapes)
// ------------------------------------------------------------------------------------------------

/// `line_offsets` of `FormatContext::new`
fn line_offsets(src: &str) -> Vec<usize> {
    std::iter::once(0).chain(src.char_indices().filter_map(|(i, c)| if c == '\n' { Some(i + 1) } else { None })).collect()
}

/// (statistics only, F-C11-3 is fixed) a token that the formatter copies with `source_slice` (number
/// literal, comment) whose `line_offsets[line] + column` differs from its byte range: these inputs
/// exercise the token-boundary table of b1042e7.
fn slice_shifted_tokens(src: &str, toks: &[Tk]) -> Vec<usize> {
    let lo = line_offsets(src);
    let mut v = vec![];
    for (i, t) in toks.iter().enumerate() {
        if matches!(t.token, Token::Number | Token::CommentSingle | Token::CommentMulti) {
            let s = lo[t.line as usize] + t.col as usize;
            let e = lo[t.eline as usize] + t.ecol as usize;
            if s != t.sb || e != t.eb {
                v.push(i);
            }
        }
    }
    v
}

/// mirror of `should_chain_be_broken` (format.rs) for the chain rooted at `idx`
fn chain_is_force_broken(ast: &Ast, idx: AstIndex, cbt: u8) -> bool {
    let Node::Chain((root, next)) = &ast.node(idx).node else { return false };
    let mut chain_node = root;
    let mut chain_next = next;
    let mut dot_access_count: u32 = 0;
    let mut last_node_was_access = false;
    let mut chain_line = 0;
    loop {
        match chain_node {
            ChainNode::Root(r) => {
                chain_line = ast.span(ast.node(*r).span).end.line;
                last_node_was_access = false;
            }
            ChainNode::Call { with_parens, .. } => {
                if !with_parens && chain_next.is_some() {
                    return true;
                }
                if last_node_was_access {
                    dot_access_count += 1;
                }
                last_node_was_access = false;
            }
            ChainNode::Id(_) | ChainNode::Str(_) => last_node_was_access = true,
            ChainNode::Index(_) => {
                if last_node_was_access {
                    dot_access_count += 1;
                }
                last_node_was_access = false;
            }
            _ => last_node_was_access = false,
        }
        // (0 disables the threshold: /repo 0a09720)
        if cbt > 0 && dot_access_count >= cbt as u32 {
            return true;
        }
        match chain_next {
            Some(n) => {
                let nn = ast.node(*n);
                match &nn.node {
                    Node::Chain((c, nx)) => {
                        chain_node = c;
                        chain_next = nx;
                    }
                    _ => return false,
                }
                if ast.span(nn.span).end.line > chain_line {
                    return true;
                }
            }
            None => return false,
        }
    }
}

fn string_children(s: &AstString, v: &mut Vec<AstIndex>) {
    if let StringContents::Interpolated(ns) = &s.contents {
        for n in ns {
            if let StringNode::Expression { expression, .. } = n {
                v.push(*expression);
            }
        }
    }
}

/// direct children of a node (every AstIndex it refers to)
fn children(n: &Node) -> Vec<AstIndex> {
    let mut v = vec![];
    let o = |x: &Option<AstIndex>, v: &mut Vec<AstIndex>| {
        if let Some(i) = x {
            v.push(*i)
        }
    };
    match n {
        Node::Null | Node::BoolTrue | Node::BoolFalse | Node::SmallInt(_) | Node::Int(_) | Node::Float(_) | Node::RangeFull
        | Node::Self_ | Node::Continue | Node::Meta(..) | Node::PackedId(_) | Node::Type { .. } => {}
        Node::Nested(i) | Node::Export(i) | Node::Throw(i) | Node::Yield(i) | Node::PackedExpression(i) => v.push(*i),
        Node::Id(_, h) | Node::Ignored(_, h) => o(h, &mut v),
        Node::Chain((cn, next)) => {
            match cn {
                ChainNode::Root(i) | ChainNode::Index(i) => v.push(*i),
                ChainNode::Str(s) => string_children(s, &mut v),
                ChainNode::Call { args, .. } => v.extend(args.iter().copied()),
                ChainNode::Id(_) | ChainNode::NullCheck => {}
            }
            o(next, &mut v);
        }
        Node::Str(s) => string_children(s, &mut v),
        Node::List(xs) | Node::TempTuple(xs) | Node::Block(xs) | Node::Switch(xs) => v.extend(xs.iter().copied()),
        Node::Tuple { elements, .. } => v.extend(elements.iter().copied()),
        Node::Range { start, end, .. } => {
            v.push(*start);
            v.push(*end);
        }
        Node::RangeFrom { start } => v.push(*start),
        Node::RangeTo { end, .. } => v.push(*end),
        Node::Map { entries, .. } => v.extend(entries.iter().copied()),
        Node::MapEntry(k, val) => {
            v.push(*k);
            v.push(*val);
        }
        Node::MapPattern { entries, type_hint } => {
            v.extend(entries.iter().copied());
            o(type_hint, &mut v);
        }
        Node::MapKeyRebind { key, id_or_ignored } => {
            v.push(*key);
            v.push(*id_or_ignored);
        }
        Node::MainBlock { body, .. } => v.extend(body.iter().copied()),
        Node::Function(f) => {
            v.push(f.args);
            v.push(f.body);
        }
        Node::FunctionArgs { args, output_type, .. } => {
            v.extend(args.iter().copied());
            o(output_type, &mut v);
        }
        Node::Import { from, items } => {
            v.extend(from.iter().copied());
            for it in items {
                v.push(it.item);
                o(&it.name, &mut v);
            }
        }
        Node::Assign { target, expression, .. } => {
            v.push(*target);
            v.push(*expression);
        }
        Node::MultiAssign { targets, expression, .. } => {
            v.extend(targets.iter().copied());
            v.push(*expression);
        }
        Node::UnaryOp { value, .. } => v.push(*value),
        Node::BinaryOp { lhs, rhs, .. } => {
            v.push(*lhs);
            v.push(*rhs);
        }
        Node::If(i) => {
            v.push(i.condition);
            v.push(i.then_node);
            for (c, b) in i.else_if_blocks.iter() {
                v.push(*c);
                v.push(*b);
            }
            o(&i.else_node, &mut v);
        }
        Node::Match { expression, arms } => {
            v.push(*expression);
            v.extend(arms.iter().copied());
        }
        Node::MatchArm { patterns, condition, expression } => {
            v.extend(patterns.iter().copied());
            o(condition, &mut v);
            v.push(*expression);
        }
        Node::SwitchArm { condition, expression } => {
            o(condition, &mut v);
            v.push(*expression);
        }
        Node::For(f) => {
            v.extend(f.args.iter().copied());
            v.push(f.iterable);
            v.push(f.body);
        }
        Node::Loop { body } => v.push(*body),
        Node::While { condition, body } | Node::Until { condition, body } => {
            v.push(*condition);
            v.push(*body);
        }
        Node::Break(x) | Node::Return(x) => o(x, &mut v),
        Node::Try(t) => {
            v.push(t.try_block);
            for c in t.catch_blocks.iter() {
                v.push(c.arg);
                v.push(c.block);
            }
            o(&t.finally_block, &mut v);
        }
        Node::Debug { expression, .. } => v.push(*expression),
    }
    v
}

/// parent[i] = index of the node that refers to node i (usize::MAX for the root / unreferenced)
fn parents(ast: &Ast) -> Vec<usize> {
    let mut p = vec![usize::MAX; ast.nodes().len()];
    for (i, n) in ast.nodes().iter().enumerate() {
        for c in children(&n.node) {
            p[usize::from(c)] = i;
        }
    }
    p
}

/// F-C11-5 (general form): a chain that `should_chain_be_broken` forces onto several lines and that
/// is not a statement of a block or the right-hand side of an assignment statement, i.e. it is
/// nested in another expression (parentheses, operand, call argument, list/tuple/map element,
/// interpolation, block header, arm …). Its continuation lines are indented relative to the
/// enclosing group, which the parser rejects or reads differently.
fn nested_chain_break(ast: &Ast, cbt: u8) -> bool {
    let par = parents(ast);
    for (i, n) in ast.nodes().iter().enumerate() {
        if let Node::Chain((ChainNode::Root(_), _)) = &n.node {
            if !chain_is_force_broken(ast, AstIndex::from(i as u32), cbt) {
                continue;
            }
            let pi = par[i];
            if pi == usize::MAX {
                continue;
            }
            let statement_level = match &ast.nodes()[pi].node {
                Node::MainBlock { .. } | Node::Block(_) => true,
                Node::Assign { expression, .. } | Node::MultiAssign { expression, .. } => {
                    usize::from(*expression) == i
                        && matches!(par.get(pi).and_then(|g| ast.nodes().get(*g)).map(|g| &g.node), Some(Node::MainBlock { .. } | Node::Block(_)))
                }
                _ => false,
            };
            if !statement_level {
                return true;
            }
        }
    }
    false
}

/// Contexts in which a chain that already spans several lines in the source makes the builder lay out the
/// enclosing construct differently from the first pass (each with the builder test that reads the line structure):
///  map        braced Map / MapPattern: `force_break = span.start.line < span.end.line`
///  tuple      Tuple without parentheses / TempTuple / MultiAssign expression list
///  call_force call arguments with `first.end.line < last.start.line` (the ORIGINAL test of the ChainNode::Call arm)
///  chain_root the chain is (inside) the root of an outer chain: `span(next).end.line > chain_line`
///  binop_split operands of a BinaryOp on different lines: `lhs.end.line != rhs.start.line`
///  arm        body of a match / switch arm: `span(expression).start.line == span(arm).start.line` (always_indent_arms)
///  comment_in_chain  a comment stands between the lines of the chain (the chain arm's `add_trailing_trivia()` pulled
///             the statement's trailing comment up behind the chain's first line; the second pass finds it inside the chain)
///  assign_split  `space_or_indent_respecting_existing_break`: `lhs.end.line < rhs.start.line` — true e.g. for
///             `x = -(…` over several lines, because the parser gives a UnaryOp node the span of its LAST token
const UNSTABLE_CHAIN_CONTEXTS: &[&str] = &["map", "tuple", "call_force", "chain_root", "binop_split", "arm", "comment_in_chain", "assign_split"];

/// tags of the ancestors (up to the enclosing statement) of every chain that spans several lines
fn multiline_chain_contexts(ast: &Ast) -> Vec<String> {
    let par = parents(ast);
    let mut tags: Vec<String> = vec![];
    for (i, n) in ast.nodes().iter().enumerate() {
        let Node::Chain((ChainNode::Root(_), _)) = &n.node else { continue };
        let sp = ast.span(n.span);
        if sp.start.line == sp.end.line {
            continue;
        }
        // only the outermost chain node of a chain (its parent is not a Chain link of the same chain)
        let mut child = i;
        let mut cur = par[i];
        let mut steps = 0;
        while cur != usize::MAX && steps < 200 {
            steps += 1;
            let pn = &ast.nodes()[cur].node;
            let tag: Option<&str> = match pn {
                Node::MainBlock { .. } | Node::Block(_) => break,
                Node::Map { braces: true, .. } | Node::MapPattern { .. } => Some("map"),
                Node::Map { braces: false, .. } => break,
                Node::TempTuple(_) | Node::MultiAssign { .. } | Node::Tuple { parentheses: false, .. } => Some("tuple"),
                Node::Tuple { parentheses: true, .. } => Some("ptuple"),
                Node::List(_) => Some("list"),
                Node::Nested(_) => Some("nested"),
                Node::UnaryOp { .. } => Some("unop"),
                Node::BinaryOp { lhs, rhs, .. } => {
                    let (l, r) = (span_of(ast, *lhs), span_of(ast, *rhs));
                    if l.end.line != r.start.line { Some("binop_split") } else { Some("binop") }
                }
                Node::Str(_) => Some("interp"),
                Node::Assign { target, expression, .. } => {
                    if span_of(ast, *target).end.line < span_of(ast, *expression).start.line { Some("assign_split") } else { Some("assign") }
                }
                Node::MapEntry(..) => None,
                Node::Chain((cn, _)) => match cn {
                    ChainNode::Root(r) if usize::from(*r) == child => Some("chain_root"),
                    ChainNode::Call { args, .. } if args.iter().any(|a| usize::from(*a) == child) => {
                        match args.as_slice() {
                            [first, .., last] if span_of(ast, *first).end.line < span_of(ast, *last).start.line => Some("call_force"),
                            [_, .., _] => Some(if usize::from(args[0]) == child { "call_arg0" } else { "call_argN" }),
                            _ => Some("call_single"),
                        }
                    }
                    ChainNode::Index(_) => Some("index"),
                    _ => None,
                },
                Node::MatchArm { .. } | Node::SwitchArm { .. } => Some("arm"),
                Node::If(_) | Node::Match { .. } | Node::For(_) | Node::While { .. } | Node::Until { .. } => Some("header"),
                Node::Function(_) | Node::FunctionArgs { .. } => Some("function"),
                Node::Return(_) | Node::Throw(_) | Node::Yield(_) | Node::Export(_) | Node::Debug { .. } | Node::Break(_) => Some("keyword_value"),
                _ => Some("other"),
            };
            if let Some(t) = tag {
                tags.push(t.to_string());
            }
            child = cur;
            cur = par[cur];
        }
    }
    tags.sort();
    tags.dedup();
    tags
}

fn span_of(ast: &Ast, i: AstIndex) -> koto_parser::Span {
    *ast.span(ast.node(i).span)
}

/// F-C11-5: a chain that `should_chain_be_broken` forces onto several lines lies inside the header of
/// a block construct (for iterable, while/until/if/else-if condition, match subject, arm
/// patterns/conditions): its continuation lines are emitted at the indentation of the block body.
fn header_chain_break(ast: &Ast, cbt: u8) -> bool {
    let mut headers: Vec<koto_parser::Span> = vec![];
    for n in ast.nodes() {
        match &n.node {
            Node::For(f) => headers.push(span_of(ast, f.iterable)),
            Node::While { condition, .. } | Node::Until { condition, .. } => headers.push(span_of(ast, *condition)),
            Node::If(i) if !i.inline => {
                headers.push(span_of(ast, i.condition));
                for (c, _) in i.else_if_blocks.iter() {
                    headers.push(span_of(ast, *c));
                }
            }
            Node::Match { expression, .. } => headers.push(span_of(ast, *expression)),
            Node::MatchArm { patterns, condition, .. } => {
                for p in patterns.iter() {
                    headers.push(span_of(ast, *p));
                }
                if let Some(c) = condition {
                    headers.push(span_of(ast, *c));
                }
            }
            Node::SwitchArm { condition: Some(c), .. } => headers.push(span_of(ast, *c)),
            _ => {}
        }
    }
    if headers.is_empty() {
        return false;
    }
    for (i, n) in ast.nodes().iter().enumerate() {
        if let Node::Chain((ChainNode::Root(_), _)) = &n.node {
            let sp = *ast.span(n.span);
            if headers.iter().any(|h| h.start <= sp.start && sp.end <= h.end)
                && chain_is_force_broken(ast, AstIndex::from(i as u32), cbt)
            {
                return true;
            }
        }
    }
    false
}

/// per comment (in token order): is its previous code token a closing bracket — `)`, `]`, `}` or the `|` that
/// closes a function's parameter list — on the same line?
fn comments_behind_closer(toks: &[Tk]) -> Vec<bool> {
    let mut v = vec![];
    let mut bars = 0usize; // `|` tokens seen so far: the 2nd, 4th, … close a parameter list
    for (i, t) in toks.iter().enumerate() {
        if t.token == Token::Function {
            bars += 1;
        }
        if matches!(t.token, Token::CommentSingle | Token::CommentMulti) {
            let prev = toks[..i].iter().rev().find(|p| p.token != Token::Whitespace);
            v.push(prev.is_some_and(|p| {
                p.eline == t.line
                    && (matches!(p.token, Token::RoundClose | Token::SquareClose | Token::CurlyClose) || (p.token == Token::Function && bars % 2 == 0))
            }));
        }
    }
    v
}

/// F-C11-10 residual (after 3ee7e6a): some comment that did NOT stand behind a closer in the input stands behind
/// one in the first-pass output (same comment count, compared comment by comment).
fn comment_migrated_behind_closer(input: &[Tk], out1: &[Tk]) -> bool {
    let (a, b) = (comments_behind_closer(input), comments_behind_closer(out1));
    a.len() == b.len() && a.iter().zip(&b).any(|(x, y)| !*x && *y)
}

/// bracket context of every comment token (token order): the stack of enclosing openers
#[derive(Clone, Copy, PartialEq, Eq, Debug)]
enum Br {
    Round,
    Square,
    Index,  // `[` directly behind an id / closer / string end: an index operation
    Curly,
    Str,    // between StringStart and StringEnd
    Interp, // `{…}` inside a string
}

fn comment_contexts(toks: &[Tk]) -> Vec<(usize, Vec<Br>)> {
    let mut out = vec![];
    let mut st: Vec<Br> = vec![];
    for (i, t) in toks.iter().enumerate() {
        match t.token {
            Token::RoundOpen => st.push(Br::Round),
            Token::SquareOpen => {
                let idx = i > 0 && matches!(toks[i - 1].token, Token::Id | Token::RoundClose | Token::SquareClose | Token::CurlyClose | Token::StringEnd | Token::Self_);
                st.push(if idx { Br::Index } else { Br::Square });
            }
            Token::CurlyOpen => st.push(if st.last() == Some(&Br::Str) { Br::Interp } else { Br::Curly }),
            Token::StringStart(_) => st.push(Br::Str),
            Token::RoundClose | Token::SquareClose | Token::CurlyClose | Token::StringEnd => {
                st.pop();
            }
            Token::CommentSingle | Token::CommentMulti => out.push((i, st.clone())),
            _ => {}
        }
    }
    out
}

/// F-C11-10, what 3ee7e6a did not cure. The comment no longer swallows what follows it, but the line break that is
/// now forced behind it falls where koto's grammar cannot continue on the next line. Observed on the FIRST-PASS
/// OUTPUT, which does not parse (`err_line` = line of the parser's error), for a line comment that stood inside a
/// bracket group in the INPUT (same comment, by position in the comment sequence); the parser's error lies on the
/// comment's line or on the line of the next code token behind it, and
///   (i)  in the output the comment stands inside an index `x[…]` or inside a string interpolation `'{…}'`, or
///   (ii) the next code token behind it stands on a later line and is `then`, `else`, a `,` outside all brackets
///        (argument list of a call without parentheses), or a `[` that continues a value (index).
fn forced_break_before_non_continuable(input: &[Tk], out1: &[Tk], err_line: u32) -> bool {
    let (a, b) = (comment_contexts(input), comment_contexts(out1));
    if a.len() != b.len() {
        return false;
    }
    for ((ia, sa), (ib, sb)) in a.iter().zip(&b) {
        if input[*ia].token != Token::CommentSingle || !sa.iter().any(|x| *x != Br::Str) {
            continue;
        }
        let c = &out1[*ib];
        let prev_code = out1[..*ib].iter().rev().find(|t| t.token != Token::Whitespace);
        let next = out1[*ib + 1..].iter().find(|t| !matches!(t.token, Token::Whitespace | Token::NewLine));
        if !(err_line == c.line || next.is_some_and(|n| n.line == err_line)) {
            continue;
        }
        if sb.iter().any(|x| matches!(x, Br::Index | Br::Interp)) {
            return true;
        }
        if let Some(n) = next {
            let brackets = sb.iter().any(|x| *x != Br::Str);
            let hit = match n.token {
                Token::Then | Token::Else => true,
                Token::Comma => !brackets,
                Token::SquareOpen => prev_code.is_some_and(|p| matches!(p.token, Token::RoundClose | Token::SquareClose | Token::CurlyClose | Token::Id | Token::StringEnd)),
                _ => false,
            };
            if n.line > c.line && hit {
                return true;
            }
        }
    }
    false
}

/// number of comment tokens that are the first token on their line
fn own_line_comments(toks: &[Tk]) -> usize {
    let mut n = 0;
    for (i, t) in toks.iter().enumerate() {
        if matches!(t.token, Token::CommentSingle | Token::CommentMulti) {
            let prev = toks[..i].iter().rev().find(|p| p.token != Token::Whitespace);
            if prev.is_none_or(|p| p.token == Token::NewLine) {
                n += 1;
            }
        }
    }
    n
}

/// Some input line, re-indented to its block depth x indent_width, is wider than line_length: a
/// necessary condition for the layout engine's `too_long` path when the formatter does not join lines.
fn line_wider_after_reindent(src: &str, o: Opt) -> bool {
    let mut stack: Vec<usize> = vec![];
    for l in src.lines() {
        let t = l.trim_start();
        if t.trim_end().is_empty() {
            continue;
        }
        let ind = l.len() - t.len();
        while stack.last().is_some_and(|x| *x >= ind) {
            stack.pop();
        }
        let depth = stack.len();
        stack.push(ind);
        let w: usize = t.trim_end().chars().map(|c| c.width().unwrap_or(0)).sum();
        if l.chars().count() > o.ll as usize || depth * o.iw as usize + w > o.ll as usize {
            return true;
        }
    }
    false
}

fn is_block_construct(n: &Node) -> bool {
    match n {
        Node::For(_) | Node::While { .. } | Node::Until { .. } | Node::Loop { .. } | Node::Match { .. } | Node::Switch(_) | Node::Try(_) => true,
        Node::If(i) => !i.inline,
        _ => false,
    }
}

/// Does the text of this expression end inside an indented block?
fn ends_in_block(ast: &Ast, i: AstIndex, depth: u32) -> bool {
    if depth > 200 {
        return false;
    }
    let d = depth + 1;
    let n = &ast.node(i).node;
    if is_block_construct(n) {
        return true;
    }
    match n {
        Node::Block(b) => !b.is_empty(),
        Node::Map { entries, braces: false } => !entries.is_empty(),
        Node::Function(f) => ends_in_block(ast, f.body, d),
        Node::Assign { expression, .. } | Node::MultiAssign { expression, .. } => ends_in_block(ast, *expression, d),
        Node::Export(x) | Node::Throw(x) | Node::Yield(x) | Node::Return(Some(x)) | Node::Break(Some(x)) => ends_in_block(ast, *x, d),
        Node::Debug { expression, .. } => ends_in_block(ast, *expression, d),
        Node::BinaryOp { rhs, .. } => ends_in_block(ast, *rhs, d),
        Node::UnaryOp { value, .. } => ends_in_block(ast, *value, d),
        Node::If(x) => x.else_node.map(|e| ends_in_block(ast, e, d)).unwrap_or_else(|| ends_in_block(ast, x.then_node, d)),
        Node::Chain((cn, next)) => match next {
            Some(nx) => ends_in_block(ast, *nx, d),
            None => match cn {
                ChainNode::Call { args, with_parens: false } => args.last().is_some_and(|a| ends_in_block(ast, *a, d)),
                ChainNode::Root(r) => ends_in_block(ast, *r, d),
                _ => false,
            },
        },
        _ => false,
    }
}

fn static_shapes(src: &str, ast: &Ast, toks: &[Tk]) -> Vec<&'static str> {
    // (the shapes of F-C11-1 wildcard import, F-C11-2 format representation, F-C11-3 width-shifted
    // source slices and F-C11-4 blank line after a block header were removed when those findings were
    // fixed: 03b99c3, 7549768, b1042e7, e85457a)
    let mut v = vec![];
    // F-C11-9: an operator whose operand is / ends in an indented block (the parser reads a line that
    // starts with an operator as a continuation of the block-ending expression in front of it)
    for n in ast.nodes() {
        let hit = match &n.node {
            Node::BinaryOp { lhs, rhs, .. } => ends_in_block(ast, *lhs, 0) || is_block_construct(&ast.node(*rhs).node),
            Node::UnaryOp { value, .. } => is_block_construct(&ast.node(*value).node),
            _ => false,
        };
        if hit {
            v.push("block_expr_operand");
        }
    }
    // F-C11-9 (second form): a statement line that starts with `-`: whenever the formatter makes the
    // expression in front of it multi-line (forced chain break …) the parser reads `-x` as its continuation
    {
        let mut prev_code_line: Option<u32> = None;
        for t in toks.iter() {
            if matches!(t.token, Token::Whitespace | Token::NewLine | Token::CommentSingle | Token::CommentMulti) {
                continue;
            }
            if prev_code_line != Some(t.line) && t.token == Token::Subtract && prev_code_line.is_some() {
                v.push("line_starts_with_minus");
            }
            prev_code_line = Some(t.eline);
        }
    }
    // (the shapes of F-C11-13 blank line inside an expression and F-C11-14 comment between `from` and
    // `import` were removed when those findings were fixed: f33d8e8, 506c2fd)
    // F-C11-15: an expression that ends in an indented block (function with a block body, block if …) as an
    // element inside brackets / parentheses: the closing bracket or the next element is appended to the block's last line
    for n in ast.nodes() {
        let elems: Vec<AstIndex> = match &n.node {
            Node::List(xs) => xs.to_vec(),
            Node::Tuple { elements, parentheses: true } => elements.to_vec(),
            Node::Nested(x) => vec![*x],
            Node::Map { entries, braces: true } => entries
                .iter()
                .map(|e| match &ast.node(*e).node {
                    Node::MapEntry(_, val) => *val,
                    _ => *e,
                })
                .collect(),
            Node::Chain((ChainNode::Call { args, with_parens: true }, _)) => args.to_vec(),
            Node::Chain((ChainNode::Index(x), _)) => vec![*x],
            _ => vec![],
        };
        if elems.iter().any(|e| ends_in_block(ast, *e, 0)) {
            v.push("block_in_brackets");
        }
    }
    // (the shapes of F-C11-16 leading blank lines and F-C11-18 chain counter overflow were removed when those
    // findings were fixed: ff525cb, 255d402)
    // F-C11-17: a multi-line comment that spans several lines and is followed by code on its last line
    for (i, t) in toks.iter().enumerate() {
        if t.token == Token::CommentMulti && t.eline > t.line {
            let next = toks[i + 1..].iter().find(|n| n.token != Token::Whitespace);
            if next.is_some_and(|n| !matches!(n.token, Token::NewLine | Token::CommentSingle | Token::CommentMulti)) {
                v.push("code_after_multiline_comment");
            }
        }
    }
    // (F-C11-10's former static shapes `comment_before_closer` — next code token a closing bracket / closing `|` — and
    // `comment_in_import_list` were removed with /repo 3ee7e6a: a line comment now forces a line break behind it in
    // every builder group, so clauses 2, 3, 4 and 6 are enforced for those programs; see CURED_BY_3EE7E6A. What is
    // left of F-C11-10 is decided per option on the first-pass output: `forced_break_before_non_continuable`,
    // `comment_migrated_behind_closer`.)
    // F-C11-19: a line comment INSIDE the header expression of a block-form if / else if / while / until / for (code
    // of the header follows the comment): the header is forced onto several lines, whose continuation lines get the
    // indentation of the body
    {
        let mut regions: Vec<((u32, u32), (u32, u32))> = vec![];
        let start = |i: AstIndex| { let sp = ast.span(ast.node(i).span); (sp.start.line, sp.start.column) };
        for n in ast.nodes() {
            match &n.node {
                Node::If(x) if !x.inline => {
                    regions.push((start(x.condition), start(x.then_node)));
                    for (c, b) in x.else_if_blocks.iter() {
                        regions.push((start(*c), start(*b)));
                    }
                }
                Node::While { condition, body } | Node::Until { condition, body } => regions.push((start(*condition), start(*body))),
                Node::For(x) => regions.push((start(x.iterable), start(x.body))),
                _ => {}
            }
        }
        for (i, t) in toks.iter().enumerate() {
            if t.token != Token::CommentSingle {
                continue;
            }
            let next = toks[i + 1..].iter().find(|n| !matches!(n.token, Token::Whitespace | Token::NewLine | Token::CommentSingle | Token::CommentMulti));
            let Some(next) = next else { continue };
            if regions.iter().any(|(a, b)| (t.line, t.col) > *a && (next.line, next.col) < *b) {
                v.push("comment_in_block_header");
            }
        }
    }
    // F-C11-7: a `#[fmt:skip]` directive in front of a node that spans several lines (the skipped region
    // is copied verbatim: its continuation lines keep the input's absolute indentation). One-line
    // skipped nodes are NOT in the shape: every clause is enforced on them.
    for (i, t) in toks.iter().enumerate() {
        let is_directive = t.token == Token::CommentSingle && {
            let sl = src[t.sb..t.eb].trim();
            sl.strip_prefix("#[fmt:").and_then(|r| r.strip_suffix(']')).is_some_and(|c| c.trim() == "skip")
        };
        if !is_directive {
            continue;
        }
        let Some(first) = toks[i + 1..].iter().find(|n| !matches!(n.token, Token::Whitespace | Token::NewLine | Token::CommentSingle | Token::CommentMulti)) else { continue };
        // F-C11-12: the node the directive applies to (the first node that starts at or after the next code
        // token, outermost at that position) has a span that does not cover the node: its descendants end
        // later (`if` / `match` / `switch` statements: the keyword only; an identifier with a type hint: the
        // identifier only), or it is a `let` assignment (the span starts after `let`)
        if first.token == Token::Let {
            v.push("fmt_skip_short_span");
        } else {
            let t0 = (first.line, first.col);
            let mut best: Option<((u32, u32), (u32, u32), usize)> = None; // (start, end, index): closest start, then outermost
            for (k, n) in ast.nodes().iter().enumerate() {
                if matches!(n.node, Node::MainBlock { .. } | Node::Block(_)) {
                    continue;
                }
                let sp = ast.span(n.span);
                let (st, en) = ((sp.start.line, sp.start.column), (sp.end.line, sp.end.column));
                if st < t0 {
                    continue;
                }
                let better = match &best {
                    None => true,
                    Some((bs, be, _)) => st < *bs || (st == *bs && en > *be),
                };
                if better {
                    best = Some((st, en, k));
                }
            }
            if let Some((_, en, k)) = best {
                // extent of the subtree
                let mut stack = vec![k];
                let mut extent = en;
                let mut guard = 0;
                while let Some(x) = stack.pop() {
                    guard += 1;
                    if guard > 20000 {
                        break;
                    }
                    let sp = ast.span(ast.nodes()[x].span);
                    extent = extent.max((sp.end.line, sp.end.column));
                    for c in children(&ast.nodes()[x].node) {
                        stack.push(usize::from(c));
                    }
                }
                if extent > en {
                    v.push("fmt_skip_short_span");
                }
            }
        }
        // the outermost expression/statement node that starts at that token (blocks excluded)
        let mut end_line = first.line;
        for n in ast.nodes() {
            if matches!(n.node, Node::MainBlock { .. } | Node::Block(_)) {
                continue;
            }
            let sp = ast.span(n.span);
            if sp.start.line == first.line && sp.start.column == first.col && sp.end.line > end_line {
                end_line = sp.end.line;
            }
        }
        if end_line > first.line {
            v.push("fmt_skip_multiline");
        }
    }
    v.sort();
    v.dedup();
    v
}

/// worker request: `tv <runnable 0|1> <path hex | -> <src hex> <opt;opt;…>`
/// reply: JSON {parse: "ok"|"err:…", nodes, kinds, shapes, results: [{opt, shapes, fails:[…]}]}
fn worker_handle(line: &str) -> String {
    let f: Vec<&str> = line.split(' ').collect();
    if f.len() != 5 || f[0] != "tv" {
        return json!({"bad_request": line}).to_string();
    }
    let runnable = f[1] == "1";
    let path = if f[2] == "-" { None } else { Some(String::from_utf8(kvh::unhex(f[2]).unwrap()).unwrap()) };
    let src = String::from_utf8(kvh::unhex(f[3]).unwrap()).unwrap();
    let opts: Vec<Opt> = f[4].split(';').filter_map(Opt::parse).collect();
    let ast = match kvh::catch(|| Parser::parse(&src)) {
        Err(p) => return json!({"parse": format!("err:parser panic {}", p)}).to_string(),
        Ok(Err(e)) => return json!({"parse": format!("err:{}", e.error)}).to_string(),
        Ok(Ok(a)) => a,
    };
    let mut c = Canon { ast: &ast, out: String::new(), kinds: BTreeMap::new(), nodes: 0 };
    if let Some(e) = ast.entry_point() {
        c.node(e);
    }
    let parsed = Parsed { canon: c.out, kinds: c.kinds, nodes: c.nodes };
    let toks = match lex_all(&src) {
        Some(t) => t,
        None => return json!({"parse": "err:lex"}).to_string(),
    };
    let shapes = static_shapes(&src, &ast, &toks);
    let width_shifted = !slice_shifted_tokens(&src, &toks).is_empty();
    let mut behaviour = None;
    if runnable {
        let b1 = run_program(&src, path.as_deref());
        let b2 = run_program(&src, path.as_deref());
        // only deterministic, terminating, non-panicking runs are compared
        if b1 == b2 && !b1.starts_with("panic:") && !b1.contains("execution timed out") && !b1.starts_with("compile-err") {
            behaviour = Some(b1);
        }
    }
    let base = Base { canon: parsed.canon, comments: comments_of(&src, &toks), literals: literals_of(&src, &toks), behaviour };
    let mut cache = BTreeMap::new();
    let mut results = vec![];
    for o in opts {
        let fails = validate(&src, o, &base, path.as_deref(), &mut cache);
        let mut oshapes: Vec<&str> = vec![];
        if !fails.is_empty() && (header_chain_break(&ast, o.cbt) || nested_chain_break(&ast, o.cbt)) {
            oshapes.push("nested_chain_break");
        }
        // (rule (b) of F-C11-6: only for what rule (a) cannot decide — a line that does not even fit 255 columns)
        if !fails.is_empty() && line_wider_after_reindent(&src, Opt { ll: 255, ..o }) {
            oshapes.push("input_line_wider_than_line_length");
        }
        // F-C11-11: a trailing / inline comment of the input stands on a line of its own after the first
        // pass (it no longer fitted behind its statement) — the second pass then moves it again
        if fails.iter().any(|f| f["clause"].as_str() == Some("5:idempotence")) {
            if let Ok(Ok(out1)) = kvh::catch(|| format(&src, o.to_fo())) {
                if let Some(t1) = lex_all(&out1) {
                    if own_line_comments(&t1) > own_line_comments(&toks) {
                        oshapes.push("trailing_comment_moved_to_own_line");
                    }
                }
            }
        }
        // F-C11-10, idempotence symptom: a comment that stood in front of a closing bracket in the input stands
        // BEHIND one (same line) in the first-pass output — the second pass then lays the bracket group out again
        if fails.iter().any(|f| f["clause"].as_str() == Some("5:idempotence")) {
            if let Ok(Ok(out1)) = kvh::catch(|| format(&src, o.to_fo())) {
                if let Some(t1) = lex_all(&out1) {
                    if comment_migrated_behind_closer(&toks, &t1) {
                        oshapes.push("comment_migrated_behind_closer");
                    }
                }
            }
        }
        // F-C11-10, residual clause-2 symptom: the forced break behind the comment falls where the grammar has no continuation
        let err_line = fails.iter().find(|f| f["clause"].as_str() == Some("2:reparse")).and_then(|f| {
            f["detail"].as_str().and_then(|d| d.rsplit_once(" @")).and_then(|(_, p)| p.split_once(':')).and_then(|(l, _)| l.parse::<u32>().ok())
        });
        if let Some(err_line) = err_line {
            if let Ok(Ok(out1)) = kvh::catch(|| format(&src, o.to_fo())) {
                if let Some(t1) = lex_all(&out1) {
                    if forced_break_before_non_continuable(&toks, &t1, err_line) {
                        oshapes.push("forced_break_before_non_continuable");
                    }
                }
            }
        }
        // F-C11-5, second symptom (first-pass output parses back, second pass differs): in the FIRST-PASS OUTPUT a
        // chain spread over several lines sits in a context whose builder code reacts to the line structure it finds
        let mut ctx_tags: Vec<String> = vec![];
        if fails.iter().any(|f| f["clause"].as_str() == Some("5:idempotence")) && !fails.iter().any(|f| f["clause"].as_str().is_some_and(|c| c.starts_with("2:"))) {
            if let Ok(Ok(out1)) = kvh::catch(|| format(&src, o.to_fo())) {
                if let Ok(Ok(ast1)) = kvh::catch(|| Parser::parse(&out1)) {
                    ctx_tags = multiline_chain_contexts(&ast1);
                    if let Some(t1) = lex_all(&out1) {
                        let comment_inside = ast1.nodes().iter().any(|n| {
                            let Node::Chain((ChainNode::Root(_), _)) = &n.node else { return false };
                            let sp = ast1.span(n.span);
                            sp.start.line < sp.end.line
                                && t1.iter().any(|t| matches!(t.token, Token::CommentSingle | Token::CommentMulti)
                                    && (t.line, t.col) > (sp.start.line, sp.start.column) && (t.line, t.col) < (sp.end.line, sp.end.column))
                        });
                        if comment_inside {
                            ctx_tags.push("comment_in_chain".to_string());
                        }
                    }
                    if ctx_tags.iter().any(|t| UNSTABLE_CHAIN_CONTEXTS.contains(&t.as_str())) {
                        oshapes.push("multiline_chain_in_line_sensitive_context");
                    }
                }
            }
        }
        results.push(json!({"opt": o.text(), "fails": fails, "shapes": oshapes, "chain_contexts": ctx_tags}));
    }
    json!({
        "parse": "ok",
        "nodes": parsed.nodes,
        "kinds": parsed.kinds,
        "comments": base.comments.len(),
        "literals": base.literals.values().sum::<i64>(),
        "behaviour": base.behaviour.is_some(),
        "width_shifted": width_shifted,
        "non_ascii": !src.is_ascii(),
        "shapes": shapes,
        "results": results,
    })
    .to_string()
}

// ------------------------------------------------------------------------------------------------
// corpus
// ------------------------------------------------------------------------------------------------

#[derive(Clone, Debug)]
struct Prog {
    name: String,
    src: String,
    runnable: bool,
    path: Option<String>,
    source: &'static str, // "corpus-koto" | "corpus-docs" | "corpus-tests-rs" | "generated" | "mutant" | "witness"
}

fn walk(dir: &std::path::Path, exts: &[&str], out: &mut Vec<std::path::PathBuf>) {
    if let Ok(rd) = std::fs::read_dir(dir) {
        let mut es: Vec<_> = rd.filter_map(|e| e.ok()).map(|e| e.path()).collect();
        es.sort();
        for p in es {
            if p.is_dir() {
                if p.file_name().is_some_and(|n| n == "target" || n == ".git" || n == "node_modules") {
                    continue;
                }
                walk(&p, exts, out);
            } else if p.extension().and_then(|e| e.to_str()).is_some_and(|e| exts.contains(&e)) {
                out.push(p);
            }
        }
    }
}

/// fenced ```koto blocks; `print! x` → `print x`, `check! …` lines dropped (the docs test runner's rule)
fn markdown_blocks(md: &str) -> Vec<(String, bool)> {
    let mut out = vec![];
    let mut cur: Option<(String, bool, String)> = None; // (text, runnable, fence indent)
    for line in md.lines() {
        let t = line.trim_start();
        match &mut cur {
            None => {
                if let Some(rest) = t.strip_prefix("```") {
                    let mut info = rest.trim().split(',');
                    if info.next() == Some("koto") {
                        let modifier = info.next();
                        let indent = line[..line.len() - t.len()].to_string();
                        cur = Some((String::new(), modifier != Some("skip_run"), indent));
                    }
                }
            }
            Some((text, runnable, indent)) => {
                if t.starts_with("```") {
                    out.push((text.clone(), *runnable));
                    cur = None;
                } else {
                    let l = line.strip_prefix(indent.as_str()).unwrap_or(line);
                    if l.starts_with("print! ") {
                        text.push_str(&l.replacen("print! ", "print ", 1));
                        text.push('\n');
                    } else if l.starts_with("check!") {
                    } else {
                        text.push_str(l);
                        text.push('\n');
                    }
                }
            }
        }
    }
    out
}

/// Rust string literals in crates/*/tests/*.rs that look like koto source (the parser / formatter /
/// runtime test inputs): plain `"…"` literals with escapes resolved and raw `r#"…"#` literals that
/// contain a line break.
fn rust_test_strings(rs: &str) -> Vec<String> {
    let b = rs.as_bytes();
    let mut out = vec![];
    let mut i = 0;
    while i < b.len() {
        // line comments
        if b[i] == b'/' && i + 1 < b.len() && b[i + 1] == b'/' {
            while i < b.len() && b[i] != b'\n' {
                i += 1;
            }
            continue;
        }
        if b[i] == b'\'' {
            // char literal or lifetime: skip conservatively
            if i + 2 < b.len() && b[i + 1] == b'\\' {
                i += 2;
                while i < b.len() && b[i] != b'\'' {
                    i += 1;
                }
                i += 1;
                continue;
            }
            if i + 2 < b.len() {
                // 'x' (possibly multi-byte)
                let rest = &rs[i + 1..];
                if let Some(c) = rest.chars().next() {
                    let l = c.len_utf8();
                    if rest.as_bytes().get(l) == Some(&b'\'') {
                        i += l + 2;
                        continue;
                    }
                }
            }
            i += 1;
            continue;
        }
        if b[i] == b'r' && i + 1 < b.len() && (b[i + 1] == b'"' || b[i + 1] == b'#') && (i == 0 || !(b[i - 1].is_ascii_alphanumeric() || b[i - 1] == b'_')) {
            let mut j = i + 1;
            let mut hashes = 0;
            while j < b.len() && b[j] == b'#' {
                hashes += 1;
                j += 1;
            }
            if j < b.len() && b[j] == b'"' {
                let start = j + 1;
                let close: String = std::iter::once('"').chain(std::iter::repeat('#').take(hashes)).collect();
                if let Some(p) = rs[start..].find(&close) {
                    let s = &rs[start..start + p];
                    if s.contains('\n') {
                        out.push(s.to_string());
                    }
                    i = start + p + close.len();
                    continue;
                }
            }
        }
        if b[i] == b'"' {
            let mut j = i + 1;
            let mut s = String::new();
            let mut ok = true;
            while j < b.len() && b[j] != b'"' {
                if b[j] == b'\\' {
                    j += 1;
                    if j >= b.len() {
                        ok = false;
                        break;
                    }
                    match b[j] {
                        b'n' => s.push('\n'),
                        b't' => s.push('\t'),
                        b'r' => s.push('\r'),
                        b'\\' => s.push('\\'),
                        b'"' => s.push('"'),
                        b'\'' => s.push('\''),
                        b'0' => s.push('\0'),
                        b'\n' => {
                            // line continuation: skip leading white space of the next line
                            j += 1;
                            while j < b.len() && (b[j] == b' ' || b[j] == b'\t' || b[j] == b'\n') {
                                j += 1;
                            }
                            continue;
                        }
                        _ => {
                            ok = false; // \u{..}, \x..: skip this literal
                        }
                    }
                    j += 1;
                } else {
                    let c = rs[j..].chars().next().unwrap();
                    s.push(c);
                    j += c.len_utf8();
                }
            }
            if ok && s.contains('\n') && s.len() >= 8 {
                out.push(s);
            }
            i = j + 1;
            continue;
        }
        i += 1;
    }
    out
}

fn load_corpus() -> Vec<Prog> {
    let repo = std::env::var("KOTO_REPO").unwrap_or_else(|_| "/repo".to_string());
    let mut progs = vec![];
    let mut files = vec![];
    walk(std::path::Path::new(&repo), &["koto"], &mut files);
    for f in &files {
        if let Ok(s) = std::fs::read_to_string(f) {
            let p = f.display().to_string();
            // test scripts are runnable in isolation (with their path, for relative imports);
            // benches and examples are only formatted
            let runnable = p.contains("/koto/tests/") && !p.contains("_module/");
            progs.push(Prog { name: p.clone(), src: s, runnable, path: Some(p), source: "corpus-koto" });
        }
    }
    let mut mds = vec![];
    walk(std::path::Path::new(&repo), &["md"], &mut mds);
    for f in &mds {
        if let Ok(s) = std::fs::read_to_string(f) {
            for (i, (b, runnable)) in markdown_blocks(&s).into_iter().enumerate() {
                progs.push(Prog { name: format!("{}#{}", f.display(), i), src: b, runnable, path: None, source: "corpus-docs" });
            }
        }
    }
    let mut rss = vec![];
    walk(&std::path::Path::new(&repo).join("crates"), &["rs"], &mut rss);
    for f in rss.iter().filter(|p| p.display().to_string().contains("/tests/")) {
        if let Ok(s) = std::fs::read_to_string(f) {
            for (i, b) in rust_test_strings(&s).into_iter().enumerate() {
                progs.push(Prog { name: format!("{}@{}", f.display(), i), src: b, runnable: false, path: None, source: "corpus-tests-rs" });
            }
        }
    }
    // distinct texts only
    let mut seen = std::collections::HashSet::new();
    progs.retain(|p| seen.insert(kvh::fnv1a(p.src.as_bytes())));
    progs
}

// ------------------------------------------------------------------------------------------------
// generator: runnable, terminating programs over the main syntactic forms, in randomised layouts
// ------------------------------------------------------------------------------------------------

struct Gen {
    rng: Rng,
    out: String,
    nums: Vec<String>,
    strs: Vec<String>,
    lists: Vec<String>,
    fns: Vec<(String, usize)>, // name, arity (number arguments, returns a number)
    counter: u32,
    step: usize,       // indentation step of the input text
    wide: bool,        // allow long lines
    in_loop: u32,
    in_fn: u32,
    no_comment: bool,
    unicode: bool, // non-ASCII identifiers / strings / comments anywhere (F-C11-3 is fixed: no shape to avoid)
}

const NONASCII_IDS: [&str; 4] = ["é", "名前", "über", "ñandú"];
const STR_PIECES: [&str; 14] =
    ["a", "hello", "x y", "", "\\n", "\\'", "\\\\", "é", "字", "😀", "a\\tb", "{{", "#", "\\{"];

impl Gen {
    fn new(rng: Rng) -> Gen {
        let mut g = Gen { rng, out: String::new(), nums: vec![], strs: vec![], lists: vec![], fns: vec![], counter: 0, step: 2, wide: false, in_loop: 0, in_fn: 0, no_comment: false, unicode: false };
        g.step = *g.rng.pick(&[2usize, 2, 4, 3, 1]);
        g.wide = g.rng.chance(1, 8);
        g.unicode = g.rng.chance(1, 2);
        g
    }
    fn fresh(&mut self, p: &str) -> String {
        self.counter += 1;
        format!("{}{}", p, self.counter)
    }
    fn sp(&mut self) -> &'static str {
        match self.rng.weighted(&[6, 2, 1]) {
            0 => " ",
            1 => "",
            _ => "  ",
        }
    }
    fn sp1(&mut self) -> &'static str {
        if self.rng.chance(1, 6) { "  " } else { " " }
    }
    fn int(&mut self) -> String {
        match self.rng.weighted(&[10, 2, 2, 1, 1, 1, 1]) {
            0 => format!("{}", self.rng.below(100)),
            1 => format!("{}.{}", self.rng.below(10), self.rng.below(100)),
            2 => format!("{}", 1000 + self.rng.below(100000)),
            3 => format!("0x{:x}", self.rng.below(4096)),
            4 => format!("0b{:b}", self.rng.below(64)),
            5 => format!("{}e{}", 1 + self.rng.below(9), self.rng.below(4)),
            _ => format!("0o{:o}", self.rng.below(512)),
        }
    }
    fn binop(&mut self, a: &str, op: &str, b: &str) -> String {
        let word = op.chars().all(|c| c.is_ascii_alphabetic());
        let (l, r) = if word { (self.sp1(), self.sp1()) } else { (self.sp(), self.sp()) };
        // `a -b` would read as a call / negative literal: keep '-' symmetric
        if op == "-" && (l.is_empty() != r.is_empty()) {
            return format!("{} - {}", a, b);
        }
        if (op == "<" || op == ">") && (l.is_empty() || r.is_empty()) {
            return format!("{} {} {}", a, op, b);
        }
        format!("{}{}{}{}{}", a, l, op, r, b)
    }
    fn num(&mut self, d: u32) -> String {
        let leaf = d == 0 || self.rng.chance(1, 3);
        if leaf {
            if !self.nums.is_empty() && self.rng.chance(1, 2) {
                return self.rng.pick(&self.nums).clone();
            }
            return self.int();
        }
        match self.rng.weighted(&[8, 3, 2, 2, 2, 2, 2, 2, 1, 1]) {
            0 => {
                let a = self.num(d - 1);
                let b = self.num(d - 1);
                let op = *self.rng.pick(&["+", "-", "*", "+", "-"]);
                let e = self.binop(&a, op, &b);
                if self.rng.chance(1, 2) { format!("({})", e) } else { e }
            }
            1 => {
                let a = self.num(d - 1);
                let m = 2 + self.rng.below(9);
                let e = self.binop(&format!("({})", a), "%", &format!("{}", m));
                e
            }
            2 if !self.lists.is_empty() => {
                let l = self.rng.pick(&self.lists).clone();
                match self.rng.below(5) {
                    0 => format!("{}.size()", l),
                    1 => format!("{}[0]", l),
                    2 => format!("{}.first()", l),
                    3 => format!("{}.last()", l),
                    _ => format!("{}.fold(0, |a, b| a + b)", l),
                }
            }
            3 if !self.strs.is_empty() => {
                let s = self.rng.pick(&self.strs).clone();
                format!("{}.size()", s)
            }
            4 => {
                let c = self.boolean(d - 1);
                let a = self.num(d - 1);
                let b = self.num(d - 1);
                format!("(if {} then {} else {})", c, a, b)
            }
            5 if !self.fns.is_empty() => {
                let (f, n) = self.rng.pick(&self.fns).clone();
                let args: Vec<String> = (0..n).map(|_| self.num(d - 1)).collect();
                if self.rng.chance(1, 2) || n == 0 {
                    format!("{}({})", f, args.join(if self.rng.chance(1, 4) { "," } else { ", " }))
                } else {
                    format!("({} {})", f, args.join(", "))
                }
            }
            6 => {
                let a = self.num(d - 1);
                let b = self.num(d - 1);
                let m = *self.rng.pick(&["max", "min"]);
                if self.rng.chance(1, 2) { format!("({}).{}({})", a, m, b) } else { format!("(({}).{} {})", a, m, b) }
            }
            7 => {
                let a = self.num(d - 1);
                format!("-({})", a)
            }
            8 => {
                let a = self.num(d - 1);
                format!("({}).abs().floor()", a)
            }
            _ => {
                // null check chain: evaluates to a number or null -> `or 0`
                let k = *self.rng.pick(&["a", "zz"]);
                format!("({{a: 1}}.get('{}')?.abs() or 0)", k)
            }
        }
    }
    fn boolean(&mut self, d: u32) -> String {
        if d == 0 || self.rng.chance(1, 4) {
            return (*self.rng.pick(&["true", "false"])).to_string();
        }
        match self.rng.weighted(&[6, 2, 2, 1, 1]) {
            0 => {
                let a = self.num(d - 1);
                let b = self.num(d - 1);
                let op = *self.rng.pick(&["<", ">", "<=", ">=", "==", "!="]);
                self.binop(&a, op, &b)
            }
            1 => {
                let a = self.boolean(d - 1);
                let b = self.boolean(d - 1);
                let op = *self.rng.pick(&["and", "or"]);
                let e = self.binop(&a, op, &b);
                if self.rng.chance(1, 2) { format!("({})", e) } else { e }
            }
            2 => {
                let a = self.boolean(d - 1);
                format!("not ({})", a)
            }
            3 => {
                let a = self.num(d - 1);
                let b = self.num(d - 1);
                let c = self.num(d - 1);
                format!("{} < {} <= {}", a, b, c)
            }
            _ if !self.strs.is_empty() => {
                let s = self.rng.pick(&self.strs).clone();
                format!("{}.is_empty()", s)
            }
            _ => "true".into(),
        }
    }
    fn fmt_spec(&mut self) -> String {
        // every combination of fill / alignment / width / precision / representation
        let mut s = String::new();
        match self.rng.below(5) {
            0 => {
                let fill = *self.rng.pick(&["_", "*", "0", " ", "é", "x", "<", "-"]);
                s.push_str(if self.unicode || fill.is_ascii() { fill } else { "~" });
                s.push_str(*self.rng.pick(&["<", "^", ">"]));
            }
            1 => s.push_str(*self.rng.pick(&["<", "^", ">"])),
            2 => s.push('0'),
            _ => {}
        }
        if self.rng.chance(2, 3) || s == "0" {
            s.push_str(&format!("{}", 1 + self.rng.below(12)));
        }
        if self.rng.chance(1, 3) {
            s.push_str(&format!(".{}", self.rng.below(5)));
        }
        if self.rng.chance(1, 4) {
            s.push_str(*self.rng.pick(&["?", "x", "X", "b", "o", "e", "E"]));
        }
        s
    }
    fn string(&mut self, d: u32) -> String {
        if !self.strs.is_empty() && self.rng.chance(1, 4) {
            return self.rng.pick(&self.strs).clone();
        }
        let q = if self.rng.chance(1, 3) { '"' } else { '\'' };
        let w: [u32; 4] = if d == 0 { [5, 0, 1, 0] } else { [5, 5, 1, 2] };
        match self.rng.weighted(&w) {
            0 => {
                let n = self.rng.below(3);
                let mut s = String::new();
                for _ in 0..=n {
                    let piece = *self.rng.pick(&STR_PIECES);
                    if self.unicode || piece.is_ascii() {
                        s.push_str(piece);
                    }
                }
                let s = s.replace("{{", "\\{");
                format!("{q}{}{q}", s)
            }
            1 if d > 0 => {
                let mut s = String::new();
                let n = 1 + self.rng.below(3);
                for _ in 0..n {
                    if self.rng.chance(1, 2) {
                        let piece = *self.rng.pick(&["a ", "=", " x: ", "é ", ""]);
                        if self.unicode || piece.is_ascii() {
                            s.push_str(piece);
                        }
                    }
                    let e = if self.rng.chance(1, 5) && !self.strs.is_empty() { self.rng.pick(&self.strs).clone() } else { self.num(d - 1) };
                    let e = e.replace('\'', "\"");
                    let e = if q == '"' { e.replace('"', "'") } else { e };
                    if self.rng.chance(1, 2) {
                        let f = self.fmt_spec();
                        if f.is_empty() { s.push_str(&format!("{{{}}}", e)) } else { s.push_str(&format!("{{{}:{}}}", e, f)) }
                    } else {
                        s.push_str(&format!("{{{}}}", e));
                    }
                }
                format!("{q}{}{q}", s)
            }
            2 => {
                let h = self.rng.below(3);
                let hs = "#".repeat(h);
                format!("r{hs}{q}{}{q}{hs}", *self.rng.pick(&["raw", "a\\b", "{x}", if self.unicode { "é" } else { "e" }, ""]))
            }
            _ => {
                let a = self.string(d - 1);
                let b = self.string(d - 1);
                self.binop(&a, "+", &b)
            }
        }
    }
    fn list(&mut self, d: u32, ind: usize) -> String {
        let n = 1 + self.rng.below(4);
        let items: Vec<String> = (0..n).map(|_| self.num(d)).collect();
        match self.rng.weighted(&[5, 1, 2, 2]) {
            0 => format!("[{}]", items.join(", ")),
            1 => format!("[{},]", items.join(" , ")),
            2 => {
                // one element per line, trailing comma optional
                let pad = " ".repeat(ind + self.step);
                let mut s = String::from("[\n");
                for (i, it) in items.iter().enumerate() {
                    let comma = if i + 1 < items.len() || self.rng.chance(1, 2) { "," } else { "" };
                    s.push_str(&format!("{pad}{it}{comma}\n"));
                    // a blank line inside the expression (dropped by the formatter since f33d8e8)
                    if i + 1 < items.len() && self.rng.chance(1, 6) {
                        s.push('\n');
                    }
                }
                s.push_str(&format!("{}]", " ".repeat(ind)));
                s
            }
            _ => {
                let r = 1 + self.rng.below(5);
                match self.rng.below(3) {
                    0 => format!("(0..{}).to_list()", r),
                    1 => format!("(1..={}).each(|x| x * 2).to_list()", r),
                    _ => format!("(0..{}).keep(|x| x % 2 == 0).to_list()", r + 2),
                }
            }
        }
    }
    fn line(&mut self, ind: usize, text: &str) {
        // a statement never starts with `-`: the parser reads such a line as the continuation of a
        // multi-line expression in front of it (excluded shape: F-C11-9)
        let wrapped;
        let text = if text.starts_with('-') {
            wrapped = format!("({})", text);
            wrapped.as_str()
        } else {
            text
        };
        let trailing = if self.rng.chance(1, 25) { "  " } else { "" };
        let comment = if self.rng.chance(1, 8) && !text.contains('\n') && !self.no_comment {
            format!("{}# {}", self.sp1(), *self.rng.pick(&["note", "c", "trailing comment", "x = 1", "#", "ünï 字"]))
        } else {
            String::new()
        };
        self.out.push_str(&format!("{}{}{}{}\n", " ".repeat(ind), text, comment, trailing));
    }
    fn trivia(&mut self, ind: usize, allow_blank: bool) {
        match self.rng.weighted(&[12, 3, 2, 1, 1]) {
            0 => {}
            1 if allow_blank => self.out.push('\n'),
            2 => {
                let pad = " ".repeat(ind);
                let c = *self.rng.pick(&["own-line comment", "é unicode comment", "TODO: x", ""]);
                // (a comment containing non-ASCII text is itself in the F-C11-3 shape: its end is cut)
                self.out.push_str(&format!("{pad}# {}\n", if self.unicode || c.is_ascii() { c } else { "ascii comment" }));
            }
            3 => {
                let pad = " ".repeat(ind);
                self.out.push_str(&format!("{pad}#- multi\n{pad}   line\n{pad}-#\n"));
            }
            4 if allow_blank => self.out.push_str("\n\n"),
            _ => {}
        }
    }
    fn block(&mut self, ind: usize, d: u32, n: usize) {
        let k = 1 + self.rng.below(n.max(1));
        for _i in 0..k {
            self.trivia(ind, true);
            self.stmt(ind, d);
        }
    }
    fn print(&mut self, ind: usize, d: u32) {
        let e = match self.rng.below(4) {
            0 => self.num(d),
            1 => self.string(d),
            2 if !self.lists.is_empty() => self.rng.pick(&self.lists).clone(),
            _ => self.boolean(d),
        };
        let t = match self.rng.below(4) {
            0 => format!("print({})", e),
            1 => format!("print{}{}", self.sp1(), e),
            2 => format!("io.print({})", e),
            _ => format!("print {}", e),
        };
        self.line(ind, &t);
    }
    fn stmt(&mut self, ind: usize, d: u32) {
        let pad = " ".repeat(ind);
        let st = self.step;
        let choice = if d == 0 { self.rng.weighted(&[6, 5, 1, 1]) } else { self.rng.weighted(&[6, 5, 1, 1, 3, 3, 2, 2, 2, 2, 2, 2, 1, 1, 1, 1, 2, 2, 2, 2]) };
        match choice {
            0 => {
                // assignment
                let (e, pool) = match self.rng.weighted(&[5, 3, 2]) {
                    0 => (self.num(d.min(2) + 1), 0),
                    1 => (self.string(d.min(2) + 1), 1),
                    _ => (self.list(d.min(1), ind), 2),
                };
                let reassign = self.rng.chance(1, 3);
                let pool_vec = match pool { 0 => &self.nums, 1 => &self.strs, _ => &self.lists };
                let v = if reassign && !pool_vec.is_empty() {
                    self.rng.pick(pool_vec).clone()
                } else {
                    let base = if pool == 1 && self.unicode && self.rng.chance(1, 3) { (*self.rng.pick(&NONASCII_IDS)).to_string() } else { ["n", "s", "l"][pool].to_string() };
                    self.fresh(&base)
                };
                let eq = format!("{}={}", self.sp(), self.sp());
                let kw = if self.rng.chance(1, 12) && !reassign { "let " } else { "" };
                let hint = if !kw.is_empty() && self.rng.chance(1, 2) { [": Number", ": String", ": List"][pool] } else { "" };
                let t = if pool == 0 && reassign && self.rng.chance(1, 2) {
                    format!("{} {} {}", v, *self.rng.pick(&["+=", "-=", "*="]), e)
                } else if self.rng.chance(1, 12) && !e.contains('\n') {
                    format!("{kw}{v}{hint} =\n{pad}{}{e}", " ".repeat(st))
                } else {
                    format!("{kw}{v}{hint}{eq}{e}")
                };
                self.line(ind, &t);
                match pool {
                    0 => { if !self.nums.contains(&v) { self.nums.push(v) } }
                    1 => { if !self.strs.contains(&v) { self.strs.push(v) } }
                    _ => { if !self.lists.contains(&v) { self.lists.push(v) } }
                }
            }
            1 => self.print(ind, d.min(2) + 1),
            2 => {
                let a = self.fresh("a");
                let b = self.fresh("b");
                let x = self.num(1);
                let y = self.num(1);
                self.line(ind, &format!("{a}, {b} = {x}, {y}"));
                self.nums.push(a);
                self.nums.push(b);
            }
            3 => {
                // export / import forms that run anywhere
                let t = match self.rng.below(7) {
                    0 => { let v = self.fresh("ex"); let e = self.num(1); self.nums.push(v.clone()); format!("export {v} = {e}") }
                    1 => "from number import pi, e as euler".to_string(),
                    2 => "import string".to_string(),
                    3 => "from list import first, last".to_string(),
                    4 => "import number as num_mod, list".to_string(),
                    5 => "from number import *".to_string(),
                    _ => "from koto import type as type_of".to_string(),
                };
                if self.in_fn == 0 && self.in_loop == 0 && ind == 0 { self.line(ind, &t) } else { self.print(ind, 1) }
            }
            4 => {
                // if / else if / else
                let c = self.boolean(2);
                if self.rng.chance(1, 4) {
                    let a = self.num(1);
                    let b = self.num(1);
                    let v = self.fresh("n");
                    self.line(ind, &format!("{v} = if {c} then {a} else {b}"));
                    self.nums.push(v);
                    return;
                }
                self.line(ind, &format!("if {c}"));
                let (ns, ss, ls) = (self.nums.len(), self.strs.len(), self.lists.len());
                self.block(ind + st, d - 1, 2);
                self.nums.truncate(ns); self.strs.truncate(ss); self.lists.truncate(ls);
                if self.rng.chance(1, 3) {
                    self.trivia(ind, false);
                    let c2 = self.boolean(1);
                    self.line(ind, &format!("else if {c2}"));
                    self.block(ind + st, d - 1, 2);
                    self.nums.truncate(ns); self.strs.truncate(ss); self.lists.truncate(ls);
                }
                if self.rng.chance(1, 2) {
                    self.line(ind, "else");
                    self.block(ind + st, d - 1, 2);
                    self.nums.truncate(ns); self.strs.truncate(ss); self.lists.truncate(ls);
                }
            }
            5 => {
                // loops
                let (ns, ss, ls) = (self.nums.len(), self.strs.len(), self.lists.len());
                self.in_loop += 1;
                match self.rng.below(4) {
                    0 => {
                        let i = self.fresh("i");
                        let hdr = match self.rng.below(3) {
                            0 => format!("for {i} in 0..{}", 1 + self.rng.below(3)),
                            1 if !self.lists.is_empty() => format!("for {i} in {}", self.rng.pick(&self.lists).clone()),
                            _ => format!("for _k, {i} in (1, 2).enumerate()"),
                        };
                        self.line(ind, &hdr);
                        self.nums.push(i);
                        self.block(ind + st, d - 1, 2);
                        if self.rng.chance(1, 4) {
                            let c = self.boolean(1);
                            let kw = *self.rng.pick(&["break", "continue"]);
                            self.line(ind + st, &format!("if {c} then {kw}"));
                        }
                    }
                    1 => {
                        let w = self.fresh("w");
                        self.line(ind, &format!("{w} = 0"));
                        let kw = if self.rng.chance(1, 2) { format!("while {w} < {}", 1 + self.rng.below(3)) } else { format!("until {w} >= {}", 1 + self.rng.below(3)) };
                        self.line(ind, &kw);
                        self.line(ind + st, &format!("{w} += 1"));
                        self.nums.push(w);
                        self.block(ind + st, d - 1, 2);
                    }
                    2 => {
                        let w = self.fresh("w");
                        self.line(ind, &format!("{w} = 0"));
                        self.line(ind, "loop");
                        self.line(ind + st, &format!("{w} += 1"));
                        let lim = 1 + self.rng.below(3);
                        self.line(ind + st, &format!("if {w} > {lim}"));
                        self.line(ind + 2 * st, "break");
                        self.nums.push(w);
                        self.block(ind + st, d - 1, 2);
                    }
                    _ => {
                        let x = self.fresh("x");
                        let src = if !self.lists.is_empty() { self.rng.pick(&self.lists).clone() } else { "[1, 2]".to_string() };
                        let body = { self.nums.push(x.clone()); let b = self.num(1); b };
                        let t = match self.rng.below(3) {
                            0 => format!("print {src}.each(|{x}| {body}).to_tuple()"),
                            1 => format!("print {src}\n{pad}{}.each |{x}| {body}\n{pad}{}.to_list()", " ".repeat(st), " ".repeat(st)),
                            _ => format!("{src}.each(|{x}| {body}).consume()"),
                        };
                        self.line(ind, &t);
                    }
                }
                self.in_loop -= 1;
                self.nums.truncate(ns); self.strs.truncate(ss); self.lists.truncate(ls);
            }
            6 => {
                // match
                let subj = self.num(1);
                let v = self.fresh("n");
                let assign = self.rng.chance(1, 2);
                self.line(ind, &if assign { format!("{v} = match {subj}") } else { format!("match {subj}") });
                let arms = 1 + self.rng.below(3);
                for _ in 0..arms {
                    if self.rng.chance(1, 6) {
                        self.out.push_str(&format!("{pad}{}# between arms\n", " ".repeat(st)));
                    }
                    let pat = match self.rng.below(4) {
                        0 => format!("{}", self.rng.below(5)),
                        1 => format!("{} or {}", self.rng.below(5), 5 + self.rng.below(5)),
                        2 => format!("z if z > {}", self.rng.below(50)),
                        _ => format!("{}..{}", self.rng.below(5), 5 + self.rng.below(50)),
                    };
                    if self.rng.chance(2, 3) {
                        let e = self.num(1);
                        self.line(ind + st, &format!("{pat} then {e}"));
                    } else {
                        self.line(ind + st, &format!("{pat} then"));
                        let e = self.num(1);
                        if self.rng.chance(1, 2) { self.print(ind + 2 * st, 1); }
                        self.line(ind + 2 * st, &e);
                    }
                }
                let e = self.num(1);
                self.line(ind + st, &format!("else {e}"));
                if assign { self.nums.push(v); }
            }
            7 => {
                // switch
                let v = self.fresh("n");
                self.line(ind, &format!("{v} = switch"));
                let arms = 1 + self.rng.below(2);
                for _ in 0..arms {
                    let c = self.boolean(1);
                    let e = self.num(1);
                    if self.rng.chance(2, 3) {
                        self.line(ind + st, &format!("{c} then {e}"));
                    } else {
                        self.line(ind + st, &format!("{c} then"));
                        self.line(ind + 2 * st, &e);
                    }
                }
                let e = self.num(1);
                self.line(ind + st, &format!("else {e}"));
                self.nums.push(v);
            }
            8 => {
                // try / catch / finally
                let (ns, ss, ls) = (self.nums.len(), self.strs.len(), self.lists.len());
                self.line(ind, "try");
                self.block(ind + st, d - 1, 2);
                if self.rng.chance(1, 2) {
                    let m = self.string(0);
                    self.line(ind + st, &format!("throw {m}"));
                }
                self.nums.truncate(ns); self.strs.truncate(ss); self.lists.truncate(ls);
                self.trivia(ind, false);
                let e = self.fresh("err");
                if self.rng.chance(1, 4) {
                    self.line(ind, &format!("catch {e}: String"));
                    self.line(ind + st, &format!("print 'string', (type {e})"));
                    self.line(ind, "catch _other");
                    self.line(ind + st, "print 'other'");
                } else {
                    self.line(ind, &format!("catch {e}"));
                    self.line(ind + st, &format!("print 'caught', (type {e})"));
                }
                if self.rng.chance(1, 2) {
                    self.line(ind, "finally");
                    self.print(ind + st, 1);
                }
            }
            9 => {
                // function definition
                let f = self.fresh("f");
                let arity = self.rng.below(3);
                let args: Vec<String> = (0..arity).map(|i| format!("p{}", i)).collect();
                let saved = (self.nums.clone(), self.strs.clone(), self.lists.clone());
                self.nums = args.clone();
                self.strs.clear();
                self.lists.clear();
                let arglist = if self.rng.chance(1, 5) && arity > 0 {
                    format!("|{}: Number|", args.join(": Number, "))
                } else if self.rng.chance(1, 6) {
                    format!("| {} |", args.join(" , "))
                } else {
                    format!("|{}|", args.join(", "))
                };
                let arrow = if self.rng.chance(1, 8) { " -> Number" } else { "" };
                self.in_fn += 1;
                if self.rng.chance(1, 2) {
                    let e = self.num(2);
                    self.line(ind, &format!("{f} = {arglist}{arrow} {e}"));
                } else {
                    self.line(ind, &format!("{f} = {arglist}{arrow}"));
                    self.block(ind + st, d - 1, 2);
                    let e = self.num(1);
                    if self.rng.chance(1, 3) { self.line(ind + st, &format!("return {e}")) } else { self.line(ind + st, &e) }
                }
                self.in_fn -= 1;
                self.nums = saved.0; self.strs = saved.1; self.lists = saved.2;
                self.fns.push((f, arity));
            }
            10 => {
                // maps
                let m = self.fresh("m");
                let a = self.num(1);
                let b = self.string(1);
                match self.rng.below(4) {
                    0 => self.line(ind, &format!("{m} = {{a: {a}, b: {b}}}")),
                    1 => self.line(ind, &format!("{m} = {{ a : {a} , 'b c': {b}, }}")),
                    2 => {
                        self.line(ind, &format!("{m} ="));
                        self.line(ind + st, &format!("a: {a}"));
                        if self.rng.chance(1, 3) { self.out.push_str(&format!("{pad}{}# entry comment\n", " ".repeat(st))); }
                        self.line(ind + st, &format!("b: {b}"));
                        if self.rng.chance(1, 3) {
                            self.line(ind + st, "nested:");
                            self.line(ind + 2 * st, "c: 3");
                        }
                        if self.rng.chance(1, 3) {
                            self.line(ind + st, "@display: || 'shown'");
                        }
                    }
                    _ => {
                        self.line(ind, &format!("{m} = {{"));
                        self.line(ind + st, &format!("a: {a},"));
                        let tc = if self.rng.chance(1, 2) { "," } else { "" };
                        // no comment between the last entry and the closing brace (excluded shape: F-C11-10)
                        self.no_comment = true;
                        self.line(ind + st, &format!("b: {b}{tc}"));
                        self.no_comment = false;
                        self.line(ind, "}");
                    }
                }
                let t = match self.rng.below(3) { 0 => format!("print {m}.a"), 1 => format!("print {m}.size()"), _ => format!("print {m}.keys().to_list()") };
                self.line(ind, &t);
            }
            11 => {
                // tuples, ranges, indexing, pipes
                let t = match self.rng.below(6) {
                    0 => { let a = self.num(1); let b = self.num(1); format!("print ({a}, {b})") }
                    1 => { let a = self.num(1); format!("print ({a},)") }
                    2 => "print (1..=3).to_tuple(), (..2), (1..)".to_string(),
                    3 => "print [1, 2, 3, 4][1..3], [1, 2, 3][..2], [1, 2, 3][1..]".to_string(),
                    4 => { let a = self.num(1); format!("print {a} -> |q| q + 1") }
                    _ => { let a = self.num(1); let b = self.num(1); format!("ta, (tb, tc) = {a}, ({b}, 3)") }
                };
                self.line(ind, &t);
            }
            12 => {
                // generator + yield
                let g = self.fresh("g");
                self.line(ind, &format!("{g} = ||"));
                let n = 1 + self.rng.below(3);
                for _ in 0..n {
                    let e = self.num(1);
                    self.line(ind + st, &format!("yield {e}"));
                }
                self.line(ind, &format!("print {g}().to_tuple()"));
            }
            13 => {
                // broken chains / continued binary operations
                let l = if !self.lists.is_empty() { self.rng.pick(&self.lists).clone() } else { "[3, 1, 2]".to_string() };
                let p2 = " ".repeat(st);
                let t = match self.rng.below(3) {
                    0 => { let bl = if self.rng.chance(1, 4) { "\n" } else { "" }; format!("print {l}\n{pad}{p2}.each |v| v + 1\n{bl}{pad}{p2}.keep |v| v > 1\n{pad}{p2}.to_tuple()") }
                    1 => { let a = self.num(1); let b = self.num(1); let c = self.num(1); let bl = if self.rng.chance(1, 4) { "\n" } else { "" }; format!("print {a} +\n{bl}{pad}{p2}{b} +\n{pad}{p2}{c}") }
                    _ => { let a = self.num(1); let b = self.num(1); format!("print {a}\n{pad}{p2}+ {b}") }
                };
                self.line(ind, &t);
            }
            14 => {
                // inline comment inside an expression
                let a = self.num(1);
                let b = self.num(1);
                self.line(ind, &format!("print {a} + #- inline -# {b}"));
            }
            16 => self.skip_stmt(ind),
            17 => self.call_with_breaking_args(ind),
            18 => self.layout_state_sequence(ind, d),
            19 => self.comment_in_group(ind),
            _ => {
                // lines with non-ASCII text and no number literal / comment after it
                let idb = *self.rng.pick(&NONASCII_IDS);
                let v = self.fresh(idb);
                let s = *self.rng.pick(&["'ü'", "'字幕'", "\"😀 ok\"", "'e\u{301}'"]);
                self.out.push_str(&format!("{pad}{v} = {s}\n"));
                self.out.push_str(&format!("{pad}print {v} + {s}\n"));
                if self.unicode {
                    self.strs.push(v);
                }
            }
        }
    }
    /// an expression the formatter spreads over several lines by itself (default options)
    fn breaking_expr(&mut self) -> String {
        match self.rng.below(5) {
            // >= chain_break_threshold counted accesses
            0 => "[3, 1, 2].to_tuple().to_list().to_tuple().to_list().size()".to_string(),
            1 => { let k = self.rng.below(5); format!("(0..{k}).to_list().to_tuple().to_list().to_tuple().to_list()") }
            // wider than line_length 100
            2 => { let a = self.rng.below(1000); format!("({a} + 1111111111 + 2222222222 + 3333333333 + 4444444444 + 5555555555 + 6666666666 + 7777777777 + 8888888888 + 99)") }
            3 => "[11111111, 22222222, 33333333, 44444444, 55555555, 66666666, 77777777, 88888888, 99999999, 10101010, 12121212].size()".to_string(),
            // a lambda with a block body (paren-free, last position only makes sense; used as a value elsewhere)
            _ => "('aaaaaaaaaaaaaaaaaaaaaaaaaaaaaaaaaaaaaaaaaaaaaaaaaaaaaaaaaaaa' + 'bbbbbbbbbbbbbbbbbbbbbbbbbbbbbbbbbbbbbbbbbbbbbbbbbbbb').size()".to_string(),
        }
    }

    /// calls whose arguments are expressions the formatter breaks by itself, in first / middle / last position,
    /// with and without parentheses, plain and nested
    fn call_with_breaking_args(&mut self, ind: usize) {
        let pad = " ".repeat(ind);
        let n = 2 + self.rng.below(2);
        let f = self.fresh("pk");
        let params: Vec<String> = (0..n).map(|i| format!("q{i}")).collect();
        self.out.push_str(&format!("{pad}{f} = |{}| q0\n", params.join(", ")));
        let pos = self.rng.below(n);
        let args: Vec<String> = (0..n).map(|i| if i == pos || self.rng.chance(1, 6) { self.breaking_expr() } else { self.int() }).collect();
        let call = match self.rng.below(4) {
            0 => format!("{f} {}", args.join(", ")),
            1 => format!("({f} {})", args.join(", ")),
            _ => format!("{f}({})", args.join(", ")),
        };
        let t = match self.rng.below(4) {
            0 => format!("print {call}"),
            1 => { let v = self.fresh("n"); self.nums.push(v.clone()); format!("{v} = {call}") }
            2 => format!("print [{call}, 1].size()"),
            _ => call,
        };
        self.line(ind, &t);
    }

    /// A line comment INSIDE a bracket-like group (tuple, list, map, parenthesised operand / chain root, call
    /// arguments, index, function parameters, import item list, string interpolation), at every gap: behind the
    /// opener, behind an element, behind a comma, in front of the closer. Since /repo 3ee7e6a (C11-fix-12) a line
    /// comment forces a line break behind it in every group kind, so clauses 2, 3, 4 and 6 are ENFORCED here (the
    /// interpolation / header templates keep the residual attributions of F-C11-10 / F-C11-19).
    fn comment_in_group(&mut self, ind: usize) {
        const T: &[&str] = &[
            "t% = (@1, @2@)\nprint t%",
            "l% = [@1,@ 2 @, 3@]\nprint l%",
            "m% = {@a: 1,@ b: 2@}\nprint m%",
            "n% = (@1 + 2@) * 3\nprint n%",
            "k% = (@1@).abs()\nprint k%",
            "f% = |a, b@| a + b\nprint f% 1, 2",
            "print(@1, @2@)",
            "g% = |a, b| a\nprint g%(@1,@ 2@)",
            "print [1, 2][@0@]",
            "x% = [(@1, 2@), 3@]\nprint x%",
            "y% = {a: (1@), b: 2@}\nprint y%",
            "import number, @string\nprint number.pi",
            "from number import pi, @e\nprint pi",
            "from number import@ pi, @e\nprint e",
            "w% = [1, 2@].size()\nprint w%",
            "for a% in (@1, 2@)\n  print a%",
            "q% = (@1, 2@) # trailing\nprint q%",
            "r% = [\n  1,\n  2@\n]\nprint r%",
            "s% = {\n  a: 1,\n  b: 2@\n} # c2\nprint s%",
            "u% = ((@1, 2@), [@3@])\nprint u%",
            "v% = (1, 2@) + (3,)\nprint v%",
            "print '{(@1@)}'",
            "print 'x{[1, 2@][0]}'",
            "if (@true@)\n  print 1",
            "while (@false@)\n  print 1",
            "print if (@true@) then (@1@) else (@2@)",
            "print [1, 2][(@0@)]",
            "print (@1@), 2",
            "z% = (@1, 2@)[0]\nprint z%",
            "print match (@1@)\n  1 then 2\n  else 3",
            "print (@1@) -> |q| q",
            "a%, b% = (@1@), 2\nprint a%",
        ];
        let pad = " ".repeat(ind);
        let n = self.fresh("");
        let t = self.rng.pick(T).replace('%', &n);
        let gaps = t.matches('@').count();
        let chosen = self.rng.below(gaps);
        let second = if self.rng.chance(1, 5) { Some(self.rng.below(gaps)) } else { None };
        let mut text = String::new();
        let mut k = 0;
        for ch in t.chars() {
            match ch {
                '@' => {
                    let cont = if self.rng.chance(1, 2) { " ".repeat(self.step) } else { String::new() };
                    if k == chosen || Some(k) == second {
                        let c = *self.rng.pick(&["c", "note", "x = 1", "ü 字", "#"]);
                        text.push_str(&format!("{}# {}\n{pad}{cont}", self.sp1(), c));
                    } else if self.rng.chance(1, 8) {
                        text.push_str(&format!("\n{pad}{cont}"));
                    }
                    k += 1;
                }
                '\n' => {
                    text.push('\n');
                    text.push_str(&pad);
                }
                c => text.push(c),
            }
        }
        self.out.push_str(&format!("{pad}{text}\n"));
    }

    /// Cross-statement interaction inside ONE block: statements that put the block's layout state into an
    /// unusual condition (over-long trailing comment that has to be wrapped, chain broken by the threshold, call
    /// arguments broken by line length) followed by statements whose layout consumes that state (line-leading
    /// operator / pipe chains, assignments too long for one line, block-bodied lambdas as last call argument).
    fn layout_state_sequence(&mut self, ind: usize, d: u32) {
        let pad = " ".repeat(ind);
        let st = " ".repeat(self.step);
        let setters = 1 + self.rng.below(2);
        for _ in 0..setters {
            let t = match self.rng.below(4) {
                0 | 1 => {
                    let v = self.fresh("n");
                    let e = self.num(1);
                    self.nums.push(v.clone());
                    format!("{pad}{v} = {e} # a trailing comment that is far too long for the default line length of one hundred columns, so that it has to be wrapped somewhere\n")
                }
                2 => format!("{pad}print [3, 1, 2].to_tuple().to_list().to_tuple().to_list().size() # c\n"),
                _ => format!("{pad}print (1111111111 + 2222222222 + 3333333333 + 4444444444 + 5555555555 + 6666666666 + 7777777777 + 8888888888 + 99)\n"),
            };
            self.out.push_str(&t);
        }
        for _ in 0..self.rng.below(3) {
            self.stmt(ind, d.saturating_sub(1).min(1));
        }
        let consumers = 1 + self.rng.below(2);
        for _ in 0..consumers {
            let a = self.num(1);
            let t = match self.rng.below(5) {
                0 => format!("{pad}{a}\n{pad}{st}-> |q| q + 1\n{pad}{st}-> |q| q * 2\n{pad}{st}-> print\n"),
                1 => format!("{pad}true\n{pad}{st}and false\n{pad}{st}or true\n"),
                2 => { let v = self.fresh("n"); self.nums.push(v.clone()); format!("{pad}{v} = 1111111111 + 2222222222 + 3333333333 + 4444444444 + 5555555555 + 6666666666 + 7777777777 + 8888888888 + {a}\n") }
                3 => format!("{pad}print {a}\n{pad}{st}+ 2\n{pad}{st}+ 3\n"),
                _ => format!("{pad}[1, 2].each |q|\n{pad}{st}r = q + {a}\n{pad}{st}r\n"),
            };
            self.out.push_str(&t);
        }
    }

    /// `#[fmt:skip]` in front of a one-line or multi-line node of every statement kind, with inline
    /// comments in the token gaps (including the node's last line), a trailing comment after the node
    /// and comments on the directive's own line.
    fn skip_stmt(&mut self, ind: usize) {
        // (token, gap after it): 'n' none, 'o' optional white space / comment, 's' at least one space
        const T: &[&[(&str, char)]] = &[
            &[("m", 'o'), ("=", 'o'), ("[", 'o'), ("1", 'o'), (",", 'o'), ("0", 'o'), (",", 'o'), ("1", 'o'), ("]", 'n')],
            &[("t", 'o'), ("=", 'o'), ("(", 'o'), ("1", 'o'), (",", 'o'), ("'a'", 'o'), (")", 'n')],
            &[("mm", 'o'), ("=", 'o'), ("{", 'o'), ("a", 'o'), (":", 'o'), ("1", 'o'), (",", 'o'), ("b", 'o'), (":", 'o'), ("2", 'o'), ("}", 'n')],
            &[("s", 'o'), ("=", 'o'), ("1", 's'), ("+", 's'), ("2", 's'), ("*", 's'), ("3", 'n')],
            &[("print", 's'), ("1", 'o'), (",", 'o'), ("'x'", 'n')],
            &[("print", 'n'), ("(", 'o'), ("1", 'o'), (",", 'o'), ("2", 'o'), (")", 'n')],
            &[("q", 'o'), ("=", 'o'), ("if", 's'), ("true", 's'), ("then", 's'), ("1", 's'), ("else", 's'), ("2", 'n')],
            &[("fs", 'o'), ("=", 'o'), ("|", 'o'), ("a", 'o'), (",", 'o'), ("b", 'o'), ("|", 's'), ("a", 's'), ("+", 's'), ("b", 'n')],
            &[("a2", 'o'), (",", 'o'), ("b2", 'o'), ("=", 'o'), ("1", 'o'), (",", 'o'), ("2", 'n')],
            &[("export", 's'), ("ev", 'o'), ("=", 'o'), ("3", 'n')],
            &[("st", 'o'), ("=", 'o'), ("'a {1 + 2} b'", 'n')],
            &[("l2", 'o'), ("=", 'o'), ("[", 'o'), ("1", 'o'), (",", 'o'), ("2", 'o'), ("]", 'n'), (".size()", 'n')],
            &[("x9", 'o'), ("=", 'o'), ("not", 's'), ("true", 's'), ("and", 's'), ("false", 'n')],
            &[("let", 's'), ("lv", 'o'), (":", 'o'), ("Number", 'o'), ("=", 'o'), ("7", 'n')],
            &[("c1", 'o'), ("=", 'o'), ("1", 's'), ("<", 's'), ("2", 's'), ("<=", 's'), ("3", 'n')],
            &[("from", 's'), ("number", 's'), ("import", 's'), ("pi", 'o'), (",", 'o'), ("e", 'n')],
        ];
        let pad = " ".repeat(ind);
        // the directive: on its own line, behind an inline comment, or trailing the previous statement
        match self.rng.below(5) {
            0 => self.out.push_str(&format!("{pad}#- pre -# #[fmt:skip]\n")),
            1 => self.out.push_str(&format!("{pad}zz = 0 #[fmt:skip]\n")),
            2 => self.out.push_str(&format!("{pad}#[fmt: skip ]\n")),
            _ => self.out.push_str(&format!("{pad}#[fmt:skip]\n")),
        }
        let mut k = 0;
        let mut comment = |rng: &mut Rng| {
            k += 1;
            format!("#- {}{} -#", *rng.pick(&["c", "note ", "k"]), k)
        };
        if self.rng.chance(1, 5) {
            // multi-line block statements (in the shape of F-C11-7: clauses 2/3/5 may be attributed, 4 is enforced)
            let c1 = comment(&mut self.rng);
            let c2 = comment(&mut self.rng);
            let st = " ".repeat(self.step + self.rng.below(3));
            let t = match self.rng.below(3) {
                0 => format!("{pad}if true {c1}\n{pad}{st}print 1   {c2}\n"),
                1 => format!("{pad}for sk in 0..2   {c1}\n{pad}{st}print   sk {c2}\n"),
                _ => format!("{pad}sm = match 1 {c1}\n{pad}{st}1   then  2\n{pad}{st}else {c2} 3\n"),
            };
            self.out.push_str(&t);
            return;
        }
        let tpl = *self.rng.pick(T);
        let multiline = self.rng.chance(1, 4);
        let mut text = String::new();
        for (tok, gap) in tpl.iter() {
            text.push_str(tok);
            let g = match gap {
                'n' => String::new(),
                's' => match self.rng.below(4) {
                    0 => " ".to_string(),
                    1 => "   ".to_string(),
                    _ => format!(" {} ", comment(&mut self.rng)),
                },
                _ => match self.rng.below(6) {
                    0 => String::new(),
                    1 => " ".to_string(),
                    2 => "   ".to_string(),
                    3 => comment(&mut self.rng),
                    4 if multiline && matches!(*tok, "[" | "(" | "{" | ",") => {
                        let c = if self.rng.chance(1, 2) { format!(" {}", comment(&mut self.rng)) } else { String::new() };
                        format!("{c}\n{pad}{}", " ".repeat(self.step + 2))
                    }
                    _ => format!(" {} ", comment(&mut self.rng)),
                },
            };
            text.push_str(&g);
        }
        let trailing = match self.rng.below(4) {
            0 => format!(" # t{}", self.counter),
            1 => format!("  {}", comment(&mut self.rng)),
            _ => String::new(),
        };
        self.out.push_str(&format!("{pad}{text}{trailing}\n"));
    }

    fn program(mut self) -> String {
        if self.rng.chance(1, 12) {
            // blank lines at the very start (dropped by the formatter since ff525cb)
            self.out.push_str(if self.rng.chance(1, 2) { "\n\n" } else { "\n \n\n" });
        }
        if self.rng.chance(1, 5) {
            self.out.push_str("# leading comment\n");
        }
        let n = 2 + self.rng.below(if self.wide { 10 } else { 7 });
        for i in 0..n {
            self.trivia(0, i > 0);
            self.stmt(0, 2);
        }
        if self.rng.chance(1, 6) {
            self.out.push_str("# trailing comment");
        }
        if self.rng.chance(1, 10) {
            // no final newline
            while self.out.ends_with('\n') {
                self.out.pop();
            }
        }
        self.out
    }
}

// ------------------------------------------------------------------------------------------------
// token-neighbourhood mutants
// ------------------------------------------------------------------------------------------------

fn mutants(src: &str, rng: &mut Rng, n: usize) -> Vec<String> {
    let Some(toks) = lex_all(src) else { return vec![] };
    let idx: Vec<usize> = toks
        .iter()
        .enumerate()
        .filter(|(_, t)| !matches!(t.token, Token::Whitespace | Token::NewLine))
        .map(|(i, _)| i)
        .collect();
    if idx.len() < 3 {
        return vec![];
    }
    let mut out = vec![];
    for _ in 0..n {
        let k = rng.below(idx.len() - 1);
        let (i, j) = (idx[k], idx[k + 1]);
        let (a, b) = (&toks[i], &toks[j]);
        let m = match rng.below(3) {
            0 => format!("{}{}", &src[..a.sb], &src[a.eb..]),                                            // delete
            1 => format!("{}{} {}{}", &src[..a.sb], &src[a.sb..a.eb], &src[a.sb..a.eb], &src[a.eb..]),   // duplicate
            _ => format!("{}{}{}{}{}", &src[..a.sb], &src[b.sb..b.eb], &src[a.eb..b.sb], &src[a.sb..a.eb], &src[b.eb..]), // swap
        };
        out.push(m);
    }
    out
}

// ------------------------------------------------------------------------------------------------
// orchestrator
// ------------------------------------------------------------------------------------------------

/// (finding id, shape on the input program, clause prefixes the finding can explain)
const FINDINGS: &[(&str, &str, &[&str])] = &[
    ("F-C11-5", "nested_chain_break", &["2:", "3:", "5~"]),
    ("F-C11-5", "multiline_chain_in_line_sensitive_context", &["5:idempotence"]),
    ("F-C11-11", "trailing_comment_moved_to_own_line", &["5:idempotence"]),
    ("F-C11-6", "input_line_wider_than_line_length", &["2:", "3:", "5:"]),
    ("F-C11-7", "fmt_skip_multiline", &["2:", "3:", "5~"]),
    ("F-C11-12", "fmt_skip_short_span", &["2:", "3:", "5~", "6:"]),
    ("F-C11-15", "block_in_brackets", &["2:", "3:", "5~"]),
    ("F-C11-17", "code_after_multiline_comment", &["2:", "3:", "5~"]),
    ("F-C11-10", "comment_migrated_behind_closer", &["5:idempotence-only"]),
    ("F-C11-9", "block_expr_operand", &["2:", "3:", "5~"]),
    ("F-C11-9", "line_starts_with_minus", &["2:", "3:", "5~"]),
    ("F-C11-10", "forced_break_before_non_continuable", &["2:", "3:", "5~"]),
    ("F-C11-19", "comment_in_block_header", &["2:", "3:", "5~"]),
];
/// F-C11-10 witnesses cured by /repo 3ee7e6a (C11-fix-12: a nested item that ends in a line comment is followed by a
/// forced line break in every builder group). They are checked on the full option grid with NO attribution for
/// clauses 1, 2, 3, 4, 6 and `5:error/panic-on-own-output` (not even the width class): a recurrence is a VIOLATION.
/// Only `5:idempotence` goes through the ordinary attribution (residual rule of F-C11-10: the pair fails nothing
/// else and a comment has migrated behind a closer in the first-pass output; or F-C11-11's rule).
const CURED_BY_3EE7E6A: &[(&str, &str)] = &[
    ("import_list", "import number, # c1\n  string\nprint number.pi\n"),
    ("from_import_list", "from number import\n  pi, # first\n  e\nprint pi, e\n"),
    ("tuple_closer", "x = (1, 2 # c\n)\nprint x\n"),
    ("nested_binop", "a = 1\nb = 2\nx = (a # c\n) + b\nprint x\n"),
    ("nested_chain_root", "x = (1 # c\n).abs()\nprint x\n"),
    ("function_parameters", "f = |a, b # c1\n| a\nprint f 1, 2\n"),
    ("call_arguments", "f = |a, b| a\nprint f(\n  1,\n  2 # c1\n)\n"),
    ("call_arguments_two_comments", "f = |a, b| a\nprint f(\n  1,\n  2 # c1\n) # c2\n"),
    ("nested_in_list", "a = 1\nb = 2\nx = [(a # c\n), b]\nprint x\n"),
    ("nested_in_map", "x = {a: (1 # c\n), b: 2}\nprint x\n"),
    ("list_closer", "x = [\n  1,\n  2 # c\n]\nprint x\n"),
    ("list_closer_one_line", "y = [1, 2 # c\n]\nprint y\n"),
    ("map_closer_two_comments", "m = {\n  b: 1 # c1\n} # c2\nprint m\n"),
];

/// The class finding: clauses 2/3/5 at line_length < 255 that hold for the same program and the
/// same other options at line_length 255 (the failure is caused by width-forced breaking).
const WIDTH_CLASS: &str = "F-C11-6";

fn request_line(p: &Prog, opts: &[Opt]) -> String {
    format!(
        "tv {} {} {} {}",
        p.runnable as u8,
        p.path.as_ref().map(|x| kvh::hex(x.as_bytes())).unwrap_or("-".into()),
        kvh::hex(p.src.as_bytes()),
        opts.iter().map(|o| o.text()).collect::<Vec<_>>().join(";")
    )
}

struct Ctx {
    rep: Report,
    worker: Worker,
    open: Vec<String>,
    pairs: u64,
    clause_evals: u64,
    attributed: BTreeMap<String, u64>,
    unattributed: u64,
    narrow_pairs: u64,
    narrow_failing_pairs: u64,
    mutant_soft: u64,
    width_mode: bool,
    timeout: Duration,
}

enum Outcome {
    NoParse,
    Done { violations: usize, shapes: Vec<String> },
}

impl Ctx {
    fn ask(&mut self, p: &Prog, opts: &[Opt]) -> Result<Value, String> {
        match self.worker.request(&request_line(p, opts), self.timeout) {
            Reply::Ok(s) => serde_json::from_str::<Value>(&s).map_err(|e| format!("bad worker reply: {} ({})", e, &s[..s.len().min(200)])),
            Reply::Timeout => Err("timeout".into()),
            Reply::Died(s) => Err(format!("worker died: {}", s)),
        }
    }

    /// `all`: every failing clause of the same (program, options) pair. Clause patterns: a prefix; `5~` =
    /// `5:error-on-own-output` / `5:panic-on-own-output` always, `5:idempotence` only when the pair also fails
    /// clause 2 (the finding's symptom is a first-pass output that does not parse back to the same Ast — a
    /// pure idempotence failure is NOT explained by it); `5:idempotence-only` = `5:idempotence` when it is the ONLY
    /// failing clause of the pair (clauses 1, 2, 3, 4, 6 hold: the first-pass output is a correct formatting of the
    /// input, merely not a fixed point).
    fn attribute(&self, prog_shapes: &[String], opt_shapes: &[String], clause: &str, all: &[String]) -> Option<&'static str> {
        for (id, shape, clauses) in FINDINGS {
            if !self.open.iter().any(|x| x == id) || (self.width_mode && *id == WIDTH_CLASS) {
                continue;
            }
            let has = prog_shapes.iter().any(|s| s == shape) || opt_shapes.iter().any(|s| s == shape);
            let fails2 = all.iter().any(|c| c.starts_with("2:"));
            let only5i = all.iter().all(|c| c == "5:idempotence");
            let explained = clauses.iter().any(|c| match *c {
                "5~" => clause == "5:error-on-own-output" || clause == "5:panic-on-own-output" || (clause == "5:idempotence" && fails2),
                "5:idempotence-only" => clause == "5:idempotence" && only5i,
                c => clause.starts_with(c),
            });
            if has && explained {
                return Some(id);
            }
        }
        None
    }

    /// unattributed failing clauses of one result entry
    fn unexplained<'a>(&self, prog_shapes: &[String], r: &'a Value) -> Vec<&'a Value> {
        let oshapes: Vec<String> = r["shapes"].as_array().map(|a| a.iter().filter_map(|x| x.as_str().map(String::from)).collect()).unwrap_or_default();
        let all: Vec<String> = r["fails"].as_array().map(|a| a.iter().filter_map(|f| f["clause"].as_str().map(String::from)).collect()).unwrap_or_default();
        r["fails"].as_array().map(|a| a.iter().filter(|f| self.attribute(prog_shapes, &oshapes, f["clause"].as_str().unwrap_or(""), &all).is_none()).collect()).unwrap_or_default()
    }

    /// Still failing `clause` (unattributed) under `opt`? Used by the shrinker.
    fn still_fails(&mut self, p: &Prog, opt: Opt, clause: &str) -> bool {
        let mut opts = vec![opt];
        if opt.ll < 255 {
            opts.push(Opt { ll: 255, ..opt });
        }
        match self.ask(p, &opts) {
            Err(_) => clause == "1:hang-or-abort",
            Ok(v) => {
                if v["parse"] != "ok" {
                    return false;
                }
                let shapes: Vec<String> = v["shapes"].as_array().map(|a| a.iter().filter_map(|x| x.as_str().map(String::from)).collect()).unwrap_or_default();
                let rs = v["results"].as_array().cloned().unwrap_or_default();
                let un = self.unexplained(&shapes, &rs[0]);
                let hit = un.iter().any(|f| f["clause"].as_str() == Some(clause));
                if !hit {
                    return false;
                }
                if self.width_mode {
                    // ad-hoc mode: keep failures that exist at `opt` but not at line_length 255
                    let un255 = self.unexplained(&shapes, &rs[1]);
                    return !un255.iter().any(|f| is_width_clause(f["clause"].as_str().unwrap_or("")));
                }
                if opt.ll < 255 && is_width_clause(clause) && self.open.iter().any(|x| x == WIDTH_CLASS) {
                    // must also fail at 255 to be a non-width failure
                    let un255 = self.unexplained(&shapes, &rs[1]);
                    return un255.iter().any(|f| is_width_clause(f["clause"].as_str().unwrap_or("")));
                }
                true
            }
        }
    }

    fn shrink(&mut self, p: &Prog, opt: Opt, clause: &str) -> String {
        let mut lines: Vec<String> = p.src.split_inclusive('\n').map(String::from).collect();
        let mut budget = 150;
        let mut chunk = (lines.len() / 2).max(1);
        while chunk >= 1 && budget > 0 {
            let mut i = 0;
            let mut progressed = false;
            while i < lines.len() && budget > 0 {
                let end = (i + chunk).min(lines.len());
                let cand: Vec<String> = lines[..i].iter().chain(lines[end..].iter()).cloned().collect();
                if cand.is_empty() {
                    i = end;
                    continue;
                }
                budget -= 1;
                let q = Prog { src: cand.concat(), ..p.clone() };
                if self.still_fails(&q, opt, clause) {
                    lines = cand;
                    progressed = true;
                } else {
                    i = end;
                }
            }
            if chunk == 1 && !progressed {
                break;
            }
            chunk = if chunk == 1 { 1 } else { chunk / 2 };
            if chunk == 1 && !progressed && budget < 20 {
                break;
            }
        }
        lines.concat()
    }

    fn check(&mut self, p: &Prog, opts_in: &[Opt]) -> Outcome {
        // every narrow option is accompanied by its line_length=255 counterpart (cause rule of the width class)
        let mut opts: Vec<Opt> = opts_in.to_vec();
        for o in opts_in {
            if o.ll < 255 {
                let c = Opt { ll: 255, ..*o };
                if !opts.contains(&c) {
                    opts.push(c);
                }
            }
        }
        let v = match self.ask(p, &opts) {
            Ok(v) => v,
            Err(e) => {
                // hang / abort: find the option set
                let mut culprit = None;
                for o in &opts {
                    if self.ask(p, &[*o]).is_err() {
                        culprit = Some(*o);
                        break;
                    }
                }
                self.unattributed += 1;
                self.rep.violation(
                    "D",
                    "C11:1:hang-or-abort",
                    json!({"program": p.src, "program_hex": kvh::hex(p.src.as_bytes()), "opt": culprit.map(|o| o.text()), "name": p.name,
                           "source": p.source, "clause": "1:hang-or-abort", "detail": e}),
                );
                return Outcome::Done { violations: 1, shapes: vec![] };
            }
        };
        if v["parse"] != "ok" {
            return Outcome::NoParse;
        }
        let shapes: Vec<String> = v["shapes"].as_array().map(|a| a.iter().filter_map(|x| x.as_str().map(String::from)).collect()).unwrap_or_default();
        let nodes = v["nodes"].as_u64().unwrap_or(0);
        if let Some(k) = v["kinds"].as_object() {
            for (name, n) in k {
                self.rep.bump_by(&format!("node={}", name), n.as_u64().unwrap_or(0));
            }
        }
        self.rep.bump(&format!("source={}", p.source));
        self.rep.bump(&format!("nodes~{}", match nodes { 0..=4 => "0-4", 5..=19 => "5-19", 20..=99 => "20-99", 100..=499 => "100-499", _ => "500+" }));
        if v["behaviour"] == true {
            self.rep.bump("behaviour_compared_programs");
        }
        if v["comments"].as_u64().unwrap_or(0) > 0 {
            self.rep.bump("programs_with_comments");
        }
        if v["non_ascii"] == true {
            self.rep.bump("programs_with_non_ascii_text");
        }
        if v["width_shifted"] == true {
            self.rep.bump("programs_with_literal_or_comment_after_width_ne_bytes_text");
        }
        for s in &shapes {
            self.rep.bump(&format!("shape={}", s));
        }
        let results = v["results"].as_array().cloned().unwrap_or_default();
        let by_opt: BTreeMap<String, &Value> = results.iter().map(|r| (r["opt"].as_str().unwrap_or("").to_string(), r)).collect();
        let mut violations = 0;
        let key_base = kvh::fnv1a(p.src.as_bytes());
        for r in &results {
            let o = Opt::parse(r["opt"].as_str().unwrap_or("")).unwrap();
            self.pairs += 1;
            self.clause_evals += 5 + (v["behaviour"] == true) as u64;
            self.rep.case(&format!("{:016x} {}", key_base, o.text()), nodes >= 5);
            self.rep.bump(&format!("opt.ll={}", o.ll));
            if o.ll < 255 {
                self.narrow_pairs += 1;
            }
            let oshapes: Vec<String> = r["shapes"].as_array().map(|a| a.iter().filter_map(|x| x.as_str().map(String::from)).collect()).unwrap_or_default();
            let fails = r["fails"].as_array().cloned().unwrap_or_default();
            if self.rep.samples.len() < 6 && fails.is_empty() && nodes >= 12 && self.pairs % 97 == 5 {
                let out = kvh::catch(|| format(&p.src, o.to_fo())).ok().and_then(|x| x.ok()).unwrap_or_default();
                self.rep.sample(json!({"source": p.source, "name": p.name, "opt": o.text(), "input": p.src.chars().take(400).collect::<String>(),
                    "output": out.chars().take(400).collect::<String>(), "verdict": "all clauses hold"}));
            }
            let mut narrow_failed = false;
            for f in &fails {
                let clause = f["clause"].as_str().unwrap_or("").to_string();
                let all: Vec<String> = fails.iter().filter_map(|f| f["clause"].as_str().map(String::from)).collect();
                // the witnesses cured by 3ee7e6a: nothing but the residual pure idempotence failure may be attributed
                let strict = p.source == "cured" && clause != "5:idempotence";
                let mut id: Option<String> = if strict { None } else { self.attribute(&shapes, &oshapes, &clause, &all).map(String::from) };
                if id.is_none() && !strict && o.ll < 255 && is_width_clause(&clause) && self.open.iter().any(|x| x == WIDTH_CLASS) {
                    let c = Opt { ll: 255, ..o };
                    if let Some(r255) = by_opt.get(&c.text()) {
                        let un = self.unexplained(&shapes, r255);
                        if !un.iter().any(|f| is_width_clause(f["clause"].as_str().unwrap_or(""))) {
                            id = Some(WIDTH_CLASS.to_string());
                            narrow_failed = true;
                        }
                    }
                }
                if id.is_none() && p.source == "mutant" && is_width_clause(&clause) {
                    // ENVELOPE: token mutants that still parse are mostly inputs the parser accepts by
                    // leniency (`f 1,, 2`, `(null #- c -#)`, `{} = {…}`); clauses 2/3/5 are measured on
                    // them, not enforced. Clauses 1, 4, 6 are enforced.
                    self.rep.bump(&format!("mutant_not_enforced_{}", clause));
                    self.mutant_soft += 1;
                    continue;
                }
                match id {
                    Some(id) => {
                        *self.attributed.entry(id).or_insert(0) += 1;
                    }
                    None => {
                        self.unattributed += 1;
                        violations += 1;
                        if let Ok(path) = std::env::var("VERIF_C11_DUMP") {
                            use std::io::Write;
                            if let Ok(mut fh) = std::fs::OpenOptions::new().create(true).append(true).open(path) {
                                let _ = writeln!(fh, "{}", json!({"name": p.name, "source": p.source, "opt": o.text(), "clause": clause,
                                    "detail": f["detail"], "output": f["output"], "program": p.src, "chain_contexts": r["chain_contexts"]}));
                            }
                        }
                        if self.rep.violations.len() < 12 {
                            let shrunk = self.shrink(p, o, &clause);
                            self.rep.violation(
                                "D",
                                &format!("C11:{}", clause),
                                json!({"program": shrunk, "program_hex": kvh::hex(shrunk.as_bytes()), "opt": o.text(), "clause": clause,
                                       "detail": f["detail"], "output": f["output"], "name": p.name, "source": p.source,
                                       "runnable": p.runnable, "path": p.path,
                                       "original_program_hex": kvh::hex(p.src.as_bytes()), "shapes": shapes}),
                            );
                        } else {
                            self.rep.violations.push(json!({"kind": "D", "name": format!("C11:{}", clause), "suppressed_file": true}));
                        }
                    }
                }
            }
            if narrow_failed {
                self.narrow_failing_pairs += 1;
            }
        }
        Outcome::Done { violations, shapes }
    }
}

fn is_width_clause(c: &str) -> bool {
    c.starts_with("2:") || c.starts_with("3:") || c.starts_with("5:")
}

// ------------------------------------------------------------------------------------------------
// (K) the two modelled pieces against the implementation
// ------------------------------------------------------------------------------------------------

fn cps(s: &str) -> String {
    s.chars().map(|c| (c as u32).to_string()).collect::<Vec<_>>().join(",")
}

/// real `StringFormatOptions::parse` (pub(crate)) observed through the parser on `'{x:FMT}'`
fn real_fparse(fmt: &str) -> Option<String> {
    let src = format!("x = 1\n'{{x:{}}}'\n", fmt);
    // the lexer must hand exactly `fmt` to the parser
    let toks = lex_all(&src)?;
    let colon = toks.iter().position(|t| t.token == Token::Colon)?;
    let lit = toks.get(colon + 1)?;
    if lit.token != Token::StringLiteral || &src[lit.sb..lit.eb] != fmt || toks.get(colon + 2)?.token != Token::CurlyClose {
        return None;
    }
    match kvh::catch(|| Parser::parse(&src)) {
        Err(p) => Some(format!("panic {}", p)),
        Ok(Err(e)) => {
            let m = e.error.to_string();
            if m.contains("expected a number") {
                let c = m.split('\'').nth(1).and_then(|x| x.chars().next()).map(|c| c as u32).unwrap_or(0);
                Some(format!("err expectedNumber:{}", c))
            } else if m.contains("larger than the maximum") {
                Some("err tooLarge".into())
            } else if m.contains("unexpected token") {
                let c = m.split("unexpected token '").nth(1).and_then(|x| x.chars().next()).map(|c| c as u32).unwrap_or(0);
                Some(format!("err unexpected:{}", c))
            } else {
                Some(format!("err other:{}", m))
            }
        }
        Ok(Ok(ast)) => {
            for n in ast.nodes() {
                if let Node::Str(s) = &n.node {
                    if let StringContents::Interpolated(ns) = &s.contents {
                        for x in ns {
                            if let StringNode::Expression { format: f, .. } = x {
                                let fill = f.fill_character.map(|c| cps(ast.constants().get_str(c))).unwrap_or("-".into());
                                return Some(format!(
                                    "ok {:?} {} {} {} {}",
                                    f.alignment,
                                    f.min_width.map(|w| w.to_string()).unwrap_or("-".into()),
                                    f.precision.map(|w| w.to_string()).unwrap_or("-".into()),
                                    fill,
                                    f.representation.map(|r| format!("{:?}", r)).unwrap_or("-".into())
                                ));
                            }
                        }
                    }
                }
            }
            Some("no-expression-node".into())
        }
    }
}

/// real `render_format_options` observed through the formatter's output for `'{x:FMT}'`
fn real_render(fmt: &str) -> Option<String> {
    let src = format!("x = 1\n'{{x:{}}}'\n", fmt);
    let out = kvh::catch(|| format(&src, Opt::default().to_fo())).ok()?.ok()?;
    let line = out.lines().find(|l| l.starts_with("'{x"))?;
    let inner = line.strip_prefix("'{x")?.strip_suffix("}'")?;
    Some(inner.strip_prefix(':').unwrap_or(inner).to_string())
}

fn k_fmtopts(cx: &mut Ctx, drv: &mut Driver, rng: &mut Rng, n_random: usize) -> (u64, u64) {
    let fills = ["", "_", "*", "0", " ", "é", "字", "😀", "🫶🏽", "e\u{301}", "x\u{304}", "1\u{20e3}", ".\u{301}", "x", "b", "?", "<", "^", ">", ".", "}", "-", "1", "9", "a"];
    let aligns = ["", "<", "^", ">", "<\u{304}"];
    let widths = ["", "0", "1", "8", "08", "20", "007", "4294967295", "4294967296", "99999999999"];
    let precs = ["", ".0", ".3", ".12", ".", ".x", ".4294967296"];
    let reprs = ["", "?", "b", "o", "x", "X", "e", "E", "z", "xx"];
    let mut cases: Vec<String> = vec![];
    for f in fills {
        for a in aligns {
            for w in widths {
                for p in precs {
                    for r in reprs {
                        // sample the full product deterministically (seeded) to keep quick runs short
                        if n_random >= 4000 || rng.chance(1, 6) {
                            cases.push(format!("{f}{a}{w}{p}{r}"));
                        }
                    }
                }
            }
        }
    }
    let alpha: Vec<&str> = vec!["<", "^", ">", "0", "1", "5", "9", ".", "?", "b", "x", "e", "E", "X", "o", "_", "a", "é", "字", "e\u{301}", "🫶🏽", " ", "-", "+", "#"];
    for _ in 0..n_random {
        let len = 1 + rng.below(6);
        let mut s = String::new();
        for _ in 0..len {
            s.push_str(*rng.pick(&alpha));
        }
        cases.push(s);
    }
    cases.retain(|c| !c.is_empty());
    cases.sort();
    cases.dedup();
    let mut real = vec![];
    let mut reqs = vec![];
    for c in &cases {
        if let Some(r) = real_fparse(c) {
            let mut gs = c.graphemes(true);
            let g1 = gs.next().map(|g| g.chars().count()).unwrap_or(0);
            let g2 = gs.next().map(|g| g.chars().count()).unwrap_or(0);
            reqs.push(format!("fparse {} {} {}", g1, g2, c.chars().map(|ch| (ch as u32).to_string()).collect::<Vec<_>>().join(" ")));
            real.push((c.clone(), r));
        }
    }
    let resps = drv.batch(&reqs);
    let (mut n, mut bad) = (0u64, 0u64);
    for ((c, r), m) in real.iter().zip(resps.iter()) {
        n += 1;
        let (m_parse, m_render) = match m.split_once(" => ") {
            Some((a, b)) => (a.to_string(), Some(b.to_string())),
            None => (m.clone(), None),
        };
        cx.rep.bump(&format!("k_fparse={}", r.split(' ').next().unwrap_or("")));
        let mut disagree = None;
        if &m_parse != r {
            disagree = Some(("K:C11:Model.FmtOptions.parse", json!({"format_string": c, "impl": r, "model": m_parse})));
        } else if let Some(mr) = m_render {
            if let Some(rr) = real_render(c) {
                if cps(&rr) != mr {
                    disagree = Some(("K:C11:Model.FmtOptions.render", json!({"format_string": c, "impl_rendered": rr, "impl_rendered_cps": cps(&rr), "model_rendered_cps": mr})));
                }
            }
        }
        if cx.rep.samples.len() < 8 && n % 211 == 3 {
            cx.rep.sample(json!({"kind": "K fparse", "format_string": c, "impl": r, "model": m}));
        }
        if let Some((name, d)) = disagree {
            bad += 1;
            if bad <= 3 {
                cx.rep.violation("K", name, json!({"input": c, "case": d,
                    "note": "model and implementation disagree; the theorems fmtopts_* of Props/C11.lean no longer speak about this code"}));
            }
        }
    }
    (n, bad)
}

fn k_srcslice(cx: &mut Ctx, drv: &mut Driver, rng: &mut Rng, n_random: usize) -> (u64, u64) {
    let pieces = ["a", "é", "字", "😀", "e\u{301}", " ", "ß", "한", "\u{200d}", "ａ", "→"];
    let mut progs: Vec<String> = vec!["é = 1; 99\n".into(), "x = 'éé'#c\n".into(), "f 'ab', 42\n".into()];
    for _ in 0..n_random {
        let n = rng.below(5);
        let mut pre = String::new();
        for _ in 0..n {
            pre.push_str(*rng.pick(&pieces));
        }
        let num = *rng.pick(&["7", "42", "12345", "1.5", "0xff", "99"]);
        let num2 = *rng.pick(&["8", "64"]);
        match rng.below(4) {
            0 => progs.push(format!("f '{}', {}\n", pre, num)),
            1 => progs.push(format!("f '{}', {}, {}\n", pre, num, num2)),
            2 => progs.push(format!("# c\nf \"{}\", {}\n", pre, num)),
            _ => progs.push(format!("fé{} {}, {}\n", if rng.chance(1, 2) { "字" } else { "" }, num, num2)),
        }
    }
    let (mut n, mut bad) = (0u64, 0u64);
    for src in &progs {
        let Some(toks) = lex_all(src) else { continue };
        if parse_canon(src).is_err() {
            continue;
        }
        let chs: Vec<String> = src.chars().map(|c| format!("{},{},{}", c as u32, c.len_utf8(), c.width().unwrap_or(0))).collect();
        // position_offsets of FormatContext::new: token boundaries, sorted, deduplicated
        let mut tbl: Vec<(u32, u32, usize)> = vec![];
        for t in &toks {
            tbl.push((t.line, t.col, t.sb));
            tbl.push((t.eline, t.ecol, t.eb));
        }
        tbl.sort();
        tbl.dedup();
        let tbl_s: Vec<String> = tbl.iter().map(|(l, c, b)| format!("@{}:{}:{}", l, c, b)).collect();
        // expected output: the statement text with every Number token replaced by the model's slice
        let mut expected = String::new();
        let mut panics = false;
        let mut pos = 0;
        let mut model_lines = vec![];
        for t in toks.iter().filter(|t| t.token == Token::Number) {
            let m = drv.ask(&format!("slice {} {} {} {} {} {}", t.line, t.col, t.eline, t.ecol, tbl_s.join(" "), chs.join(" ")));
            model_lines.push(m.clone());
            expected.push_str(&src[pos..t.sb]);
            pos = t.eb;
            match m.split(' ').nth(2) {
                Some("panic") => panics = true,
                Some(tx) => {
                    let txt: String = tx.trim_start_matches('T').split(',').filter(|x| !x.is_empty()).filter_map(|x| x.parse::<u32>().ok()).filter_map(char::from_u32).collect();
                    expected.push_str(&txt);
                }
                None => panics = true,
            }
        }
        expected.push_str(&src[pos..]);
        if model_lines.is_empty() {
            continue;
        }
        let real = kvh::catch(|| format(src, Opt { ll: 255, ..Opt::default() }.to_fo()));
        n += 1;
        let agree = match (&real, panics) {
            (Err(_), true) => true,
            (Ok(Ok(o)), false) => {
                // layout may differ (the witness `é = 1; 99` puts statements on separate lines): compare with all white space removed
                let strip = |s: &str| s.chars().filter(|c| !c.is_whitespace() && *c != ';').collect::<String>();
                strip(o) == strip(&expected)
            }
            _ => false,
        };
        cx.rep.bump(if panics { "k_slice=panic" } else if expected == *src { "k_slice=exact" } else { "k_slice=shifted" });
        if cx.rep.samples.len() < 8 && n % 37 == 2 {
            cx.rep.sample(json!({"kind": "K slice", "input": src, "impl": format!("{:?}", real), "model": model_lines}));
        }
        if !agree {
            bad += 1;
            if bad <= 3 {
                cx.rep.violation("K", "K:C11:Model.SrcSlice.sourceSliceText", json!({"input": src, "input_hex": kvh::hex(src.as_bytes()),
                    "impl": format!("{:?}", real), "model": model_lines, "expected_from_model": expected, "model_predicts_panic": panics,
                    "note": "model and implementation disagree; the theorems srcslice_* of Props/C11.lean no longer speak about this code"}));
            }
        }
    }
    (n, bad)
}

/// (K) for Model/Layout.lean: the single-line / break decision of every group `render_group` lays out,
/// recorded by the `koto_format::verif_trace` hook, against the model.
/// (hook H6, /repo f2634c9)
fn k_layout(cx: &mut Ctx, drv: &mut Driver, progs: &[Prog], rng: &mut Rng, n_progs: usize) -> Value {
    let (mut n, mut bad, mut flat, mut skipped) = (0u64, 0u64, 0u64, 0u64);
    let (mut nr, mut badr, mut multi) = (0u64, 0u64, 0u64);
    let grid = full_grid();
    let total = if n_progs == 0 { progs.len() } else { n_progs };
    for k in 0..total {
        if progs.is_empty() {
            break;
        }
        let p = if n_progs == 0 { &progs[k] } else { rng.pick(progs) };
        if p.src.len() > 20000 {
            continue;
        }
        for o in [Opt::default(), *rng.pick(&grid)] {
            koto_format::verif_trace::start();
            let _ = kvh::catch(|| format(&p.src, o.to_fo()));
            let lines = koto_format::verif_trace::take();
            let mut reqs = vec![];
            let mut recs = vec![];
            // hook format v2 (requests/C11-hook-2.diff) also carries what the group rendered
            let mut rreqs = vec![];
            let mut rrecs = vec![];
            for l in &lines {
                if let Some(rest) = l.strip_prefix("v2 ") {
                    // ll iw col indented measured too_long force last tree widths
                    let f: Vec<&str> = rest.splitn(9, ' ').collect();
                    if f.len() != 9 {
                        skipped += 1;
                        continue;
                    }
                    let Some((tree, widths)) = f[8].rsplit_once(' ') else {
                        skipped += 1;
                        continue;
                    };
                    reqs.push(format!("group {} {} {}", f[0], f[2], tree));
                    recs.push(format!("{} {} {} {}", f[4], f[5], f[6], f[7]));
                    rreqs.push(format!("render {} {} {} {} {}", f[0], f[1], f[2], f[3], tree));
                    rrecs.push(widths.to_string());
                } else {
                    let f: Vec<&str> = l.splitn(7, ' ').collect();
                    if f.len() != 7 {
                        skipped += 1;
                        continue;
                    }
                    reqs.push(format!("group {} {} {}", f[0], f[1], f[6]));
                    recs.push(format!("{} {} {} {}", f[2], f[3], f[4], f[5]));
                }
            }
            let resps = drv.batch(&reqs);
            for ((req, rec), resp) in reqs.iter().zip(recs.iter()).zip(resps.iter()) {
                n += 1;
                let m: Vec<&str> = resp.split(' ').collect();
                let model = m.iter().take(4).cloned().collect::<Vec<_>>().join(" ");
                if m.get(4) == Some(&"0") {
                    flat += 1;
                }
                if &model != rec {
                    bad += 1;
                    if bad <= 3 {
                        cx.rep.violation("K", "K:C11:Model.Layout.broken", json!({"input": req, "program": p.src, "opt": o.text(),
                            "impl": rec, "model": model, "fields": "measured_line_length too_long force_break last_is_indented_block",
                            "note": "model and implementation disagree; the theorems layout_* of Props/C11.lean no longer speak about this code"}));
                    }
                }
                if cx.rep.samples.len() < 8 && n % 5003 == 7 {
                    cx.rep.sample(json!({"kind": "K layout", "request": req, "impl": rec, "model": resp}));
                }
            }
            let rresps = drv.batch(&rreqs);
            for ((req, rec), resp) in rreqs.iter().zip(rrecs.iter()).zip(rresps.iter()) {
                nr += 1;
                if rec.contains(',') {
                    multi += 1;
                }
                if resp != rec {
                    badr += 1;
                    if badr <= 3 {
                        cx.rep.violation("K", "K:C11:Model.Layout.renderItem", json!({"input": req, "program": p.src, "opt": o.text(),
                            "impl_line_widths": rec, "model_line_widths": resp,
                            "note": "model and implementation disagree on the text shape a group renders to; the theorems render_* / action_* of Props/C11.lean no longer speak about this code"}));
                    }
                }
                if cx.rep.samples.len() < 8 && nr % 4001 == 11 && rec.contains(',') {
                    cx.rep.sample(json!({"kind": "K render", "request": req, "impl": rec, "model": resp}));
                }
            }
        }
    }
    json!({"layout_decisions": n, "layout_disagreements": bad, "single_line_decisions": flat, "unparsed_trace_lines": skipped,
           "rendered_groups": nr, "rendered_multi_line": multi, "render_disagreements": badr})
}

fn main() {
    kvh::quiet_panics();
    let args = Args::parse();
    if args.has_flag("--worker") {
        kvh::worker::serve(worker_handle);
        return;
    }
    if args.has_flag("--one") {
        // ad-hoc: `--one FILE [OPT]` formats one file, prints output and failing clauses
        let i = args.extra.iter().position(|x| x == "--one").unwrap();
        let src = std::fs::read_to_string(&args.extra[i + 1]).unwrap();
        let opt = args.extra.get(i + 2).and_then(|s| Opt::parse(s)).unwrap_or(Opt::default());
        match kvh::catch(|| format(&src, opt.to_fo())) {
            Ok(Ok(o)) => println!("--- output\n{}---", o),
            other => println!("--- {:?}", other),
        }
        let p = Prog { name: "one".into(), src, runnable: true, path: None, source: "witness" };
        println!("{}", worker_handle(&request_line(&p, &[opt])));
        return;
    }
    if args.has_flag("--dump") {
        let i = args.extra.iter().position(|x| x == "--dump").unwrap();
        let name = &args.extra[i + 1];
        for p in load_corpus() {
            if &p.name == name {
                print!("{}", p.src);
            }
        }
        return;
    }
    if args.has_flag("--gen") {
        let mut rng = Rng::new(args.seed);
        for _ in 0..3 {
            println!("{}\n=========", Gen::new(rng.fork()).program());
        }
        return;
    }
    if args.has_flag("--probe") {
        // ad-hoc: corpus x (default options | full grid), JSON line per failing clause
        let progs = load_corpus();
        let mut w = Worker::spawn(&["--worker".to_string()]);
        let grid = if args.has_flag("--grid") { full_grid() } else { vec![Opt::default()] };
        let mut n = 0;
        let mut by_clause: BTreeMap<String, u32> = BTreeMap::new();
        for p in &progs {
            match w.request(&request_line(p, &grid), Duration::from_secs(60)) {
                Reply::Ok(s) => {
                    let v: Value = serde_json::from_str(&s).unwrap();
                    if v["parse"] != "ok" {
                        continue;
                    }
                    n += 1;
                    for r in v["results"].as_array().unwrap() {
                        for f in r["fails"].as_array().unwrap() {
                            let c = f["clause"].as_str().unwrap().to_string();
                            *by_clause.entry(c.clone()).or_insert(0) += 1;
                            println!("{}", json!({"name": p.name, "opt": r["opt"], "clause": c, "detail": f["detail"], "output": f["output"], "shapes": v["shapes"], "oshapes": r["shapes"]}));
                        }
                    }
                }
                Reply::Timeout => println!("TIMEOUT {}", p.name),
                Reply::Died(s) => println!("DIED {} {}", p.name, s),
            }
        }
        eprintln!("{} parseable programs of {}; fails by clause: {:?}", n, progs.len(), by_clause);
        return;
    }

    let mut rep = Report::new("C11", &args);
    rep.rule = format!(
        "case = (program, formatter options) pair validated on clauses (1) no panic/hang/error (2) output parses to the same canonical Ast (3) same result+stdout where runnable and deterministic (4) same comment token sequence (5) format(format p) = format p (6) same multiset of Number/StringLiteral token texts. Programs: repository .koto files, ```koto blocks of all .md files, multi-line string literals of crates/*/tests/*.rs that parse, seeded generated programs in randomised layouts, token-neighbourhood mutants (delete/duplicate/swap one token) of corpus programs that still parse. Options: default + seeded sample of the grid line_length{{20,40,100,255}} x indent_width{{1,2,4,8}} x chain_break_threshold{{0,1,4}} x always_indent_arms (thorough: full grid on a subset). distinct = distinct (program text, options); non-trivial = program with at least 5 Ast nodes. Canonical Ast erases: {}. ENVELOPE: at line_length 20, 40 and 100 a failure of clauses (2),(3),(5) is only a violation when the same program also fails one of them at line_length 255 with the other options equal (if the 255 output has no line wider than L the two outputs coincide, so this is exactly 'caused by width-forced breaking'), or — at any line_length — when no input line, re-indented to block depth x indent_width, is wider than line_length (class finding F-C11-6; its most frequent sub-cause, a trailing comment that no longer fits, is identified separately as F-C11-11 and explains clause 5 only) (width-forced breaking is broadly unsound in the unchanged tree: class finding F-C11-6); clauses (1),(4),(6) are enforced on the whole grid. On token mutants clauses (2),(3),(5) are measured and reported (mutant_not_enforced_*), not enforced: most parseable mutants are inputs the parser accepts by leniency (`f 1,, 2` is the tuple ((f 1), 2); `(null #- c -#)`), a long tail of distinct formatter defects; clauses (1),(4),(6) are enforced on them.",
        ERASED
    );
    let open: Vec<String> = rep.known_open().iter().filter_map(|e| e.get("id").and_then(|x| x.as_str()).map(String::from)).collect();
    let worker = Worker::spawn(&["--worker".to_string()]);
    let mut cx = Ctx {
        rep,
        worker,
        open,
        pairs: 0,
        clause_evals: 0,
        attributed: BTreeMap::new(),
        unattributed: 0,
        narrow_pairs: 0,
        narrow_failing_pairs: 0,
        mutant_soft: 0,
        width_mode: args.has_flag("--width-mode"),
        timeout: Duration::from_secs(if args.thorough() { 120 } else { 60 }),
    };
    let mut rng = Rng::new(args.seed);

    if args.has_flag("--shrinkdump") {
        // ad-hoc: shrink every distinct failing program of a VERIF_C11_DUMP file
        let i = args.extra.iter().position(|x| x == "--shrinkdump").unwrap();
        let txt = std::fs::read_to_string(&args.extra[i + 1]).unwrap();
        let mut seen = std::collections::HashSet::new();
        for l in txt.lines() {
            let v: Value = serde_json::from_str(l).unwrap();
            let name = v["name"].as_str().unwrap().to_string();
            if !seen.insert(name.clone()) {
                continue;
            }
            let opt = Opt::parse(v["opt"].as_str().unwrap()).unwrap();
            let clause = v["clause"].as_str().unwrap().to_string();
            let p = Prog { name: name.clone(), src: v["program"].as_str().unwrap().to_string(), runnable: true, path: None, source: "witness" };
            let sh = cx.shrink(&p, opt, &clause);
            let out = kvh::catch(|| format(&sh, opt.to_fo()));
            println!("===== {} opt={} clause={}\n{}\n----- output\n{}", name, opt.text(), clause, sh, match out { Ok(Ok(o)) => o, other => format!("{:?}", other) });
        }
        return;
    }

    // ---- replay ---------------------------------------------------------------------------------
    if let Some(rp) = &args.replay {
        let v: Value = serde_json::from_str(&std::fs::read_to_string(rp).expect("replay file")).unwrap();
        let d = &v["detail"];
        let src = String::from_utf8(kvh::unhex(d["program_hex"].as_str().expect("program_hex")).unwrap()).unwrap();
        let opt = d["opt"].as_str().and_then(Opt::parse).unwrap_or(Opt::default());
        let p = Prog { name: "replay".into(), src: src.clone(), runnable: d["runnable"].as_bool().unwrap_or(true), path: d["path"].as_str().map(String::from), source: "witness" };
        println!("program:\n{}\noptions: {}", src, opt.text());
        match kvh::catch(|| format(&src, opt.to_fo())) {
            Ok(Ok(o)) => println!("output:\n{}", o),
            other => println!("format: {:?}", other),
        }
        cx.check(&p, &[opt]);
        std::process::exit(cx.rep.finish());
    }

    // ---- 0. witnesses of the listed findings + regression corpus -----------------------------------
    let entries = cx.rep.known_entries();
    for e in &entries {
        let (Some(id), Some(w)) = (e.get("id").and_then(|x| x.as_str()), e.get("witness").and_then(|x| x.as_str())) else { continue };
        let status_known = e.get("status").and_then(|x| x.as_str()) == Some("known");
        let opt = e.get("witness_opt").and_then(|x| x.as_str()).and_then(Opt::parse).unwrap_or(Opt::default());
        let p = Prog { name: format!("witness:{}", id), src: w.to_string(), runnable: true, path: None, source: "witness" };
        let mut opts = vec![opt];
        if opt.ll < 100 {
            opts.push(Opt { ll: 255, ..opt });
        }
        match cx.ask(&p, &opts) {
            Ok(v) if v["parse"] == "ok" => {
                let fails = v["results"][0]["fails"].as_array().cloned().unwrap_or_default();
                let clauses: Vec<String> = fails.iter().filter_map(|f| f["clause"].as_str().map(String::from)).collect();
                cx.pairs += 1;
                cx.rep.case(&format!("witness {} {}", id, opt.text()), true);
                if status_known && !fails.is_empty() {
                    cx.rep.known(id, &format!("witness {:?} (options {}) still fails clauses {:?}", w, opt.text(), clauses));
                } else if status_known {
                    cx.rep.note(format!("{}: witness no longer fails (repaired?) — entry should become status=fixed", id));
                } else if !fails.is_empty() {
                    cx.unattributed += 1;
                    cx.rep.violation("D", &format!("C11:regression:{}", id), json!({"program": w, "program_hex": kvh::hex(w.as_bytes()), "opt": opt.text(),
                        "clauses": clauses, "note": "a finding recorded as fixed fails again"}));
                }
            }
            Ok(v) => cx.rep.note(format!("{}: witness does not parse: {}", id, v["parse"])),
            Err(e) => {
                if status_known {
                    cx.rep.known(id, &format!("witness {:?} still fails: {}", w, e));
                } else {
                    cx.rep.violation("D", &format!("C11:regression:{}", id), json!({"program": w, "program_hex": kvh::hex(w.as_bytes()), "opt": opt.text(), "detail": e}));
                }
            }
        }
    }
    let grid = full_grid();
    for (name, src) in CURED_BY_3EE7E6A {
        let p = Prog { name: format!("cured-by-3ee7e6a:{}", name), src: src.to_string(), runnable: true, path: None, source: "cured" };
        match cx.check(&p, &grid) {
            Outcome::NoParse => cx.rep.violation("D", "C11:regression:F-C11-10:cured-witness-does-not-parse", json!({"program": src, "name": name})),
            Outcome::Done { .. } => {}
        }
    }
    if let Some(dir) = &args.corpus {
        let mut fs = vec![];
        walk(dir, &["koto"], &mut fs);
        for f in fs {
            if let Ok(s) = std::fs::read_to_string(&f) {
                let p = Prog { name: f.display().to_string(), src: s, runnable: true, path: None, source: "witness" };
                // regression corpus: always the full grid
                cx.check(&p, &grid);
            }
        }
    }

    // ---- 1. (K) modelled pieces ----------------------------------------------------------------------
    let mut k_stats = json!({});
    if !args.driver.is_empty() {
        let mut drv = Driver::spawn(&args.driver);
        let (n1, b1) = k_fmtopts(&mut cx, &mut drv, &mut rng.fork(), if args.thorough() { 6000 } else { 1500 });
        let (n2, b2) = k_srcslice(&mut cx, &mut drv, &mut rng.fork(), if args.thorough() { 3000 } else { 400 });
        k_stats = json!({"fmtopts_cases": n1, "fmtopts_disagreements": b1, "srcslice_cases": n2, "srcslice_disagreements": b2, "driver_requests": drv.requests});
        {
            let progs = load_corpus();
            let mut gens: Vec<Prog> = vec![];
            let mut r2 = rng.fork();
            for i in 0..(if args.thorough() { 1500 } else { 250 }) {
                gens.push(Prog { name: format!("genk#{}", i), src: Gen::new(r2.fork()).program(), runnable: false, path: None, source: "generated" });
            }
            // every generated program (they carry the cross-statement layout sequences), then random corpus picks
            let st0 = k_layout(&mut cx, &mut drv, &gens, &mut rng.fork(), 0);
            let all: Vec<Prog> = progs.into_iter().collect();
            let st = k_layout(&mut cx, &mut drv, &all, &mut rng.fork(), if args.thorough() { 1500 } else { 250 });
            k_stats["layout_generated"] = st0;
            k_stats["layout"] = st;
            k_stats["driver_requests"] = json!(drv.requests);
        }
    } else {
        cx.rep.note("no model driver: (K) for FmtOptions/SrcSlice skipped");
    }

    // ---- 2. corpus x options ----------------------------------------------------------------------------
    let corpus = load_corpus();
    let mut parseable: Vec<Prog> = vec![];
    let n_opts_corpus = if args.thorough() { 24 } else { 6 };
    for (i, p) in corpus.iter().enumerate() {
        // thorough: the full grid on every 4th program, a sample elsewhere
        let opts = if args.thorough() && i % 4 == 0 { grid.clone() } else { sample_grid(&mut rng, n_opts_corpus) };
        match cx.check(p, &opts) {
            Outcome::NoParse => cx.rep.bump("corpus_unparseable"),
            Outcome::Done { .. } => parseable.push(p.clone()),
        }
    }
    cx.rep.bump_by("corpus_programs_distinct", corpus.len() as u64);

    // ---- 3. generated programs -----------------------------------------------------------------------------
    let n_gen = if args.thorough() { 12000 } else { 500 };
    let n_opts_gen = if args.thorough() { 10 } else { 5 };
    let mut gen_ok = 0u64;
    for i in 0..n_gen {
        let src = Gen::new(rng.fork()).program();
        let p = Prog { name: format!("gen#{}", i), src, runnable: true, path: None, source: "generated" };
        let opts = if args.thorough() && i % 40 == 0 { grid.clone() } else { sample_grid(&mut rng, n_opts_gen) };
        match cx.check(&p, &opts) {
            Outcome::NoParse => cx.rep.bump("generated_unparseable"),
            Outcome::Done { shapes, .. } => {
                gen_ok += 1;
                if !shapes.is_empty() {
                    cx.rep.bump("generated_in_excluded_shape");
                    for s in &shapes {
                        cx.rep.bump(&format!("generated_shape={}", s));
                    }
                }
            }
        }
    }
    cx.rep.bump_by("generated_parseable", gen_ok);

    // ---- 4. token-neighbourhood mutants of corpus programs ----------------------------------------------------
    let n_mut_progs = if args.thorough() { parseable.len() } else { 160.min(parseable.len()) };
    let per_prog = if args.thorough() { 20 } else { 5 };
    let mut mut_ok = 0u64;
    for _ in 0..n_mut_progs {
        if parseable.is_empty() {
            break;
        }
        let p = rng.pick(&parseable).clone();
        if p.src.len() > 6000 {
            continue;
        }
        for (j, m) in mutants(&p.src, &mut rng, per_prog).into_iter().enumerate() {
            let q = Prog { name: format!("{}~m{}", p.name, j), src: m, runnable: false, path: None, source: "mutant" };
            let opts = sample_grid(&mut rng, 3);
            match cx.check(&q, &opts) {
                Outcome::NoParse => cx.rep.bump("mutant_unparseable"),
                Outcome::Done { .. } => mut_ok += 1,
            }
        }
    }
    cx.rep.bump_by("mutants_parseable", mut_ok);

    // ---- report ---------------------------------------------------------------------------------------------------
    let attributed = cx.attributed.clone();
    for (id, n) in &attributed {
        cx.rep.bump_by(&format!("attributed_to_{}", id), *n);
    }
    cx.rep.extra.insert("programs".into(), json!(cx.pairs));
    cx.rep.extra.insert("disagreements_checked".into(), json!(cx.clause_evals));
    cx.rep.extra.insert("unattributed_failures".into(), json!(cx.unattributed));
    cx.rep.extra.insert("attributed_failures".into(), json!(attributed));
    cx.rep.extra.insert("narrow_width_pairs".into(), json!({"pairs_at_line_length_below_255": cx.narrow_pairs, "pairs_failing_2_3_5_only_because_of_width": cx.narrow_failing_pairs}));
    cx.rep.extra.insert("mutant_clause_2_3_5_failures_measured_not_enforced".into(), json!(cx.mutant_soft));
    cx.rep.extra.insert("k_model_checks".into(), k_stats);
    cx.rep.extra.insert("erased_ast_attributes".into(), json!(ERASED));
    cx.rep.extra.insert("option_grid".into(), json!({"line_length": LINE_LENGTHS, "indent_width": INDENT_WIDTHS, "chain_break_threshold": CHAIN_THRESHOLDS, "always_indent_arms": [false, true]}));
    std::process::exit(cx.rep.finish());
}
