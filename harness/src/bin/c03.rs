//! C03 — pattern matching and unpacking select and bind exactly as documented.
//!
//! A case is (arms, subject mode, subject value(s)).  The arms are rendered once into a Koto
//! function `f` (every pattern variable pre-set to the sentinel 'U'; every arm body returns
//! `(arm index, bound variables…)`; guards and the subject expression report to a trace list),
//! compiled by the real compiler and called in-process for every subject.  The same arms and
//! subjects go to the Lean driver (`Drivers/C03.lean`), which answers with
//!   * the *algorithmic* matcher's outcome (`Model/Match.lean`, mirrors the compiled code): arm
//!     index, all registers after the match, trace, error class            → comparison (K);
//!   * the *guide-level* verdict (first arm with a matching alternative and a true guard, its
//!     bindings)                                                            → comparison (D).
//! (K) failure = model ≠ code: always a VIOLATION (replay = the script).
//! (D) failure with (K) holding = code = model ≠ guide: a defect of the tree; it must be one of the
//! listed known findings, attributed by a precise cause rule (see `attribute`), otherwise VIOLATION.
//! Unpacking (`a, _, c = it`, `a, b = x, y`, `for a, b in it`) is compared the same way against
//! `Model/Unpack.lean`, and (D) against take/pad computed here.
use koto::prelude::*;
use kvh::{Args, Driver, Report, Rng};
use serde_json::json;
use std::collections::BTreeMap;

// ---------------------------------------------------------------------------------------------
// values

#[derive(Clone, Debug, PartialEq)]
enum V {
    Null,
    B(bool),
    I(i64),
    F(f64),
    S(String),
    T(Vec<V>),
    L(Vec<V>),
    M(Vec<(String, V)>),
    R(i64, i64, bool),
    RFrom(i64),
}

impl V {
    fn koto(&self) -> String {
        match self {
            V::Null => "null".into(),
            V::B(b) => b.to_string(),
            V::I(i) => i.to_string(),
            V::F(f) => format!("{:?}", f),
            V::S(s) => format!("'{}'", s),
            V::T(xs) => match xs.len() {
                0 => "()".into(),
                1 => format!("({},)", xs[0].koto()),
                _ => format!("({})", xs.iter().map(|x| x.koto()).collect::<Vec<_>>().join(", ")),
            },
            V::L(xs) => format!("[{}]", xs.iter().map(|x| x.koto()).collect::<Vec<_>>().join(", ")),
            V::M(es) => format!(
                "{{{}}}",
                es.iter().map(|(k, v)| format!("'{}': {}", k, v.koto())).collect::<Vec<_>>().join(", ")
            ),
            V::R(a, b, incl) => format!("({}..{}{})", a, if *incl { "=" } else { "" }, b),
            V::RFrom(a) => format!("({}..)", a),
        }
    }
    fn canon(&self) -> String {
        match self {
            V::Null => "null".into(),
            V::B(b) => if *b { "b1".into() } else { "b0".into() },
            V::I(i) => format!("i{}", i),
            V::F(f) => kvh::canon::float(*f),
            V::S(s) => format!("s{}", kvh::hex(s.as_bytes())),
            V::T(xs) => format!("(t{})", xs.iter().map(|x| format!(" {}", x.canon())).collect::<String>()),
            V::L(xs) => format!("(l{})", xs.iter().map(|x| format!(" {}", x.canon())).collect::<String>()),
            V::M(es) => format!(
                "(m{})",
                es.iter().map(|(k, v)| format!(" (s{} {})", kvh::hex(k.as_bytes()), v.canon())).collect::<String>()
            ),
            V::R(a, b, incl) => format!("(r {} {} {})", a, b, if *incl { 1 } else { 0 }),
            V::RFrom(a) => format!("(r {} _ 0)", a),
        }
    }
    fn has_non_ascii(&self) -> bool {
        match self {
            V::S(s) => !s.is_ascii(),
            V::T(xs) | V::L(xs) => xs.iter().any(|x| x.has_non_ascii()),
            V::M(es) => es.iter().any(|(k, v)| !k.is_ascii() || v.has_non_ascii()),
            _ => false,
        }
    }
    fn kind(&self) -> &'static str {
        match self {
            V::Null => "null",
            V::B(_) => "bool",
            V::I(_) | V::F(_) => "number",
            V::S(_) => "string",
            V::T(_) => "tuple",
            V::L(_) => "list",
            V::M(_) => "map",
            V::R(..) | V::RFrom(_) => "range",
        }
    }
}

// ---------------------------------------------------------------------------------------------
// patterns

const VARS: [&str; 5] = ["a", "b", "c", "d", "e"];
const SUBJ_VAR: usize = 99;
/// registers 99, 98, 97 are the subject locals `s`, `t`, `u`
fn var_name(i: usize) -> &'static str {
    if i >= 97 { SUBJ_NAMES[SUBJ_VAR - i] } else { VARS[i] }
}
fn is_subj_var(i: usize) -> bool {
    i >= 97
}

#[derive(Clone, Debug, PartialEq)]
struct Ty(&'static str, bool);
impl Ty {
    fn koto(&self) -> String {
        format!(": {}{}", self.0, if self.1 { "?" } else { "" })
    }
    fn sexp(t: &Option<Ty>) -> String {
        match t {
            None => "-".into(),
            Some(t) => format!("(ty {} {})", t.0, if t.1 { 1 } else { 0 }),
        }
    }
}
fn ty_koto(t: &Option<Ty>) -> String {
    t.as_ref().map(|t| t.koto()).unwrap_or_default()
}

#[derive(Clone, Debug, PartialEq)]
enum Bind {
    Same(usize), // `a`  (key a/b/c binds variable 0/1/2)
    As(usize),   // `key as x`
    Ignore,      // `key as _`
}
#[derive(Clone, Debug, PartialEq)]
struct Ent {
    key: String,
    bind: Bind,
    ty: Option<Ty>,
}
#[derive(Clone, Debug, PartialEq)]
enum Rest {
    None,
    Anon,
    Named(usize),
}
#[derive(Clone, Debug, PartialEq)]
enum P {
    Lit(V),
    Id(usize, Option<Ty>),
    Wild(Option<Ty>),
    Map(Vec<Ent>, Option<Ty>),
    Seq(Vec<P>, Rest, Vec<P>),
}

impl P {
    fn koto(&self) -> String {
        match self {
            P::Lit(v) => match v {
                V::S(s) => format!("'{}'", s),
                v => v.koto(),
            },
            P::Id(x, t) => format!("{}{}", var_name(*x), ty_koto(t)),
            P::Wild(t) => format!("_{}", ty_koto(t)),
            P::Map(es, t) => {
                let inner = es
                    .iter()
                    .map(|e| {
                        let plain = e.key.chars().all(|c| c.is_ascii_lowercase());
                        let k = if plain { e.key.clone() } else { format!("'{}'", e.key) };
                        match &e.bind {
                            Bind::Same(_) => format!("{}{}", k, ty_koto(&e.ty)),
                            Bind::As(x) => format!("{} as {}{}", k, var_name(*x), ty_koto(&e.ty)),
                            Bind::Ignore => format!("{} as _{}", k, ty_koto(&e.ty)),
                        }
                    })
                    .collect::<Vec<_>>()
                    .join(", ");
                format!("{{{}}}{}", inner, ty_koto(t))
            }
            P::Seq(pre, rest, post) => {
                let mut parts: Vec<String> = pre.iter().map(|p| p.koto()).collect();
                match rest {
                    Rest::None => {}
                    Rest::Anon => parts.push("...".into()),
                    Rest::Named(x) => parts.push(format!("{}...", var_name(*x))),
                }
                parts.extend(post.iter().map(|p| p.koto()));
                format!("({})", parts.join(", "))
            }
        }
    }
    fn sexp(&self) -> String {
        match self {
            P::Lit(v) => format!("(lit {})", v.canon()),
            P::Id(x, t) => format!("(id {} {})", x, Ty::sexp(t)),
            P::Wild(t) => format!("(wild {})", Ty::sexp(t)),
            P::Map(es, t) => format!(
                "(map {}{})",
                Ty::sexp(t),
                es.iter()
                    .map(|e| {
                        let b = match &e.bind {
                            Bind::Same(x) | Bind::As(x) => x.to_string(),
                            Bind::Ignore => "-".into(),
                        };
                        format!(" (ent {} {} {})", kvh::hex(e.key.as_bytes()), b, Ty::sexp(&e.ty))
                    })
                    .collect::<String>()
            ),
            P::Seq(pre, rest, post) => format!(
                "(seq ({}) {} ({}))",
                pre.iter().map(|p| p.sexp()).collect::<Vec<_>>().join(" "),
                match rest {
                    Rest::None => "-".to_string(),
                    Rest::Anon => "_".to_string(),
                    Rest::Named(x) => x.to_string(),
                },
                post.iter().map(|p| p.sexp()).collect::<Vec<_>>().join(" ")
            ),
        }
    }
    fn vars(&self, out: &mut Vec<usize>) {
        match self {
            P::Lit(_) | P::Wild(_) => {}
            P::Id(x, _) => out.push(*x),
            P::Map(es, _) => {
                for e in es {
                    match &e.bind {
                        Bind::Same(x) | Bind::As(x) => out.push(*x),
                        Bind::Ignore => {}
                    }
                }
            }
            P::Seq(pre, rest, post) => {
                pre.iter().for_each(|p| p.vars(out));
                if let Rest::Named(x) = rest {
                    out.push(*x)
                }
                post.iter().for_each(|p| p.vars(out));
            }
        }
    }
    /// variables bound under a type hint
    fn typed_vars(&self, out: &mut Vec<usize>) {
        match self {
            P::Id(x, Some(_)) => out.push(*x),
            P::Map(es, _) => {
                for e in es {
                    if e.ty.is_some() {
                        match &e.bind {
                            Bind::Same(x) | Bind::As(x) => out.push(*x),
                            Bind::Ignore => {}
                        }
                    }
                }
            }
            P::Seq(pre, _, post) => pre.iter().chain(post.iter()).for_each(|p| p.typed_vars(out)),
            _ => {}
        }
    }
    fn depth(&self) -> usize {
        match self {
            P::Seq(pre, _, post) => 1 + pre.iter().chain(post.iter()).map(|p| p.depth()).max().unwrap_or(0),
            _ => 0,
        }
    }
    fn has(&self, f: &dyn Fn(&P) -> bool) -> bool {
        if f(self) {
            return true;
        }
        match self {
            P::Seq(pre, _, post) => pre.iter().chain(post.iter()).any(|p| p.has(f)),
            _ => false,
        }
    }
}

#[derive(Clone, Debug, PartialEq)]
enum G {
    Const(bool),
    Eq(usize, V),
    Ne(usize, V),
    And(Box<G>, Box<G>),
    Or(Box<G>, Box<G>),
    Not(Box<G>),
}
impl G {
    fn koto(&self) -> String {
        match self {
            G::Const(b) => b.to_string(),
            G::Eq(x, v) => format!("{} == {}", var_name(*x), P::Lit(v.clone()).koto()),
            G::Ne(x, v) => format!("{} != {}", var_name(*x), P::Lit(v.clone()).koto()),
            G::And(a, b) => format!("({}) and ({})", a.koto(), b.koto()),
            G::Or(a, b) => format!("({}) or ({})", a.koto(), b.koto()),
            G::Not(a) => format!("not ({})", a.koto()),
        }
    }
    fn sexp(&self) -> String {
        match self {
            G::Const(b) => format!("(c {})", *b as u8),
            G::Eq(x, v) => format!("(eq {} {})", x, v.canon()),
            G::Ne(x, v) => format!("(ne {} {})", x, v.canon()),
            G::And(a, b) => format!("(and {} {})", a.sexp(), b.sexp()),
            G::Or(a, b) => format!("(or {} {})", a.sexp(), b.sexp()),
            G::Not(a) => format!("(not {})", a.sexp()),
        }
    }
}

/// one alternative: one pattern per subject
type Alt = Vec<P>;
#[derive(Clone, Debug, PartialEq)]
struct Arm {
    alts: Vec<Alt>, // empty = else
    guard: Option<G>,
}
impl Arm {
    fn typed_vars(&self) -> Vec<usize> {
        let mut v = vec![];
        for a in &self.alts {
            for p in a {
                p.typed_vars(&mut v);
            }
        }
        v
    }
    fn vars(&self) -> Vec<usize> {
        let mut v = vec![];
        for a in &self.alts {
            for p in a {
                p.vars(&mut v);
            }
        }
        v.sort();
        v.dedup();
        v
    }
}

#[derive(Clone, Copy, Debug, PartialEq)]
enum Mode {
    Local, // s = p0; match s   (s is a local assigned in the function body)
    Var,  // match s            (s is the function's argument: its register is the match register)
    Expr, // match id2(tr, s)   (temporary)
    Multi(usize), // match s, t[, u]
}

#[derive(Clone, Debug)]
struct MatchCase {
    arms: Vec<Arm>,
    mode: Mode,
    origin: &'static str,
    /// where the match's value goes: 0 = first assignment of `r` (fresh register), 1 = `r` already
    /// holds a value, 2 = last call argument after other arguments, 3 = tuple element after another
    /// element; None = chosen from a hash of the arms
    rctx: Option<u8>,
}

const SUBJ_NAMES: [&str; 3] = ["s", "t", "u"];

impl MatchCase {
    fn script(&self) -> String {
        let mut s = String::new();
        s.push_str("id2 = |tr, x|\n  tr.push 'S'\n  x\ng = |tr, i, c|\n  tr.push i\n  c\nid3 = |a, b, c| (a, b, c)\n");
        let params: Vec<&str> = match self.mode {
            Mode::Multi(k) => SUBJ_NAMES[..k].to_vec(),
            _ => vec!["s"],
        };
        let header = if self.mode == Mode::Local { "p0".to_string() } else { params.join(", ") };
        s.push_str(&format!("f = |{}|\n  tr = []\n", header));
        if self.mode == Mode::Local {
            s.push_str("  s = p0\n");
        }
        for v in VARS {
            s.push_str(&format!("  {} = 'U'\n", v));
        }
        let subj = match self.mode {
            Mode::Var | Mode::Local => "s".to_string(),
            Mode::Expr => "id2(tr, s)".to_string(),
            Mode::Multi(_) => {
                // the first subject goes through the tracing call: evaluated exactly once
                let mut ps: Vec<String> = params.iter().map(|p| p.to_string()).collect();
                ps[0] = "id2(tr, s)".into();
                ps.join(", ")
            }
        };
        // the value of the match lands in a fresh register, an existing variable, a call
        // argument or a tuple element (a stale result register must not show through)
        let rctx = self.result_ctx();
        match rctx {
            0 => s.push_str(&format!("  r = match {}\n", subj)),
            1 => s.push_str(&format!("  r = 'R'\n  r = match {}\n", subj)),
            2 => s.push_str(&format!("  r = 'R'\n  r = id3 'A', 'B', match {}\n", subj)),
            _ => s.push_str(&format!("  r = 'R'\n  r = 'T', match {}\n", subj)),
        }
        for (i, arm) in self.arms.iter().enumerate() {
            let body = {
                let mut parts = vec![i.to_string()];
                parts.extend(arm.vars().iter().map(|x| var_name(*x).to_string()));
                if parts.len() == 1 { format!("({},)", parts[0]) } else { format!("({})", parts.join(", ")) }
            };
            if arm.alts.is_empty() {
                s.push_str(&format!("    else {}\n", body));
            } else {
                let alts: Vec<String> =
                    arm.alts.iter().map(|a| a.iter().map(|p| p.koto()).collect::<Vec<_>>().join(", ")).collect();
                let guard = match &arm.guard {
                    None => String::new(),
                    Some(g) => format!(" if g(tr, {}, {})", i, g.koto()),
                };
                s.push_str(&format!("    {}{} then {}\n", alts.join(" or "), guard, body));
            }
        }
        match rctx {
            2 => s.push_str("  r = r[2]\n"),
            3 => s.push_str("  r = r[1]\n"),
            _ => {}
        }
        s.push_str(&format!("  (r, tr, {}, {})\n", VARS.join(", "), params.join(", ")));
        s.push_str(&format!(
            "h = |{p}|\n  try\n    f {p}\n  catch err\n    ('E', \"{{err}}\")\nh\n",
            p = header
        ));
        s
    }
    fn request(&self) -> String {
        let mode = match self.mode {
            Mode::Var | Mode::Local => "v",
            Mode::Expr => "e",
            Mode::Multi(_) => "m",
        };
        let arms: Vec<String> = self
            .arms
            .iter()
            .map(|a| {
                let alts: Vec<String> = a
                    .alts
                    .iter()
                    .map(|alt| match self.mode {
                        Mode::Multi(_) if alt.len() > 1 => {
                            format!("(many {})", alt.iter().map(|p| p.sexp()).collect::<Vec<_>>().join(" "))
                        }
                        _ => format!("(one {})", alt[0].sexp()),
                    })
                    .collect();
                format!(
                    "(arm ({}) {})",
                    alts.join(" "),
                    a.guard.as_ref().map(|g| g.sexp()).unwrap_or_else(|| "-".into())
                )
            })
            .collect();
        format!("arms {} {} {}", VARS.len(), mode, arms.join(" "))
    }
    /// the shape of F-C03-2: the subject is a bare local and a pattern binds its name
    fn result_ctx(&self) -> u8 {
        match self.rctx {
            Some(c) => c,
            None => (kvh::fnv1a(self.request().as_bytes()) % 4) as u8,
        }
    }
    fn binds_subject(&self) -> bool {
        matches!(self.mode, Mode::Var | Mode::Local) && self.arms.iter().any(|a| a.vars().contains(&SUBJ_VAR))
    }
    fn nsubj(&self) -> usize {
        match self.mode {
            Mode::Multi(k) => k,
            _ => 1,
        }
    }
}

// ---------------------------------------------------------------------------------------------
// running the implementation

struct Impl {
    vals: Koto,
    cache: BTreeMap<String, KValue>,
}

impl Impl {
    fn new() -> Impl {
        Impl { vals: Koto::default(), cache: BTreeMap::new() }
    }
    fn value(&mut self, v: &V) -> KValue {
        let src = v.koto();
        if let Some(k) = self.cache.get(&src) {
            return k.clone();
        }
        let k = self.vals.compile_and_run(src.as_str()).unwrap_or_else(|e| panic!("subject literal {:?}: {}", src, e));
        self.cache.insert(src, k.clone());
        k
    }
}

fn classify_error(msg: &str) -> String {
    if msg.contains("'>=' with 'Null'") {
        "E:ge-null".into()
    } else if msg.contains("an indexable value") || msg.contains("Unable to index") {
        "E:index".into()
    } else if msg.contains("a sliceable value") {
        "E:slice".into()
    } else if msg.contains("supports '.' access") {
        "E:access".into()
    } else if msg.contains("would result in invalid UTF-8 data") {
        "E:utf8".into()
    } else {
        format!("E:other:{}", msg.lines().next().unwrap_or("").replace(' ', "_"))
    }
}

/// canonical outcome of one call of `h`: same text as the driver's algorithmic answer
fn impl_outcome(ret: &KValue, nsubj: usize) -> (String, Option<String>) {
    let KValue::Tuple(t) = ret else {
        return (format!("E:shape:{}", kvh::canon::value(ret)), None);
    };
    let d = t.data();
    if d.len() == 2 {
        if let (KValue::Str(tag), KValue::Str(msg)) = (&d[0], &d[1]) {
            if tag.as_str() == "E" {
                return (classify_error(msg.as_str()), None);
            }
        }
    }
    if d.len() != 2 + VARS.len() + nsubj {
        return (format!("E:shape:{}", kvh::canon::value(ret)), None);
    }
    let regs: Vec<String> = d[2..].iter().map(kvh::canon::value).collect();
    let trace: Vec<String> = match &d[1] {
        KValue::List(l) => l
            .data()
            .iter()
            .map(|e| match e {
                KValue::Str(_) => "S".to_string(),
                KValue::Number(n) => format!("G{}", i64::from(n)),
                o => format!("?{}", kvh::canon::value(o)),
            })
            .collect(),
        o => vec![format!("?{}", kvh::canon::value(o))],
    };
    match &d[0] {
        KValue::Null => (format!("N {} T:{}", regs.join(" "), trace.join(",")), None),
        KValue::Tuple(b) => {
            let bd = b.data();
            let i = match bd.first() {
                Some(KValue::Number(n)) => i64::from(n),
                _ => -1,
            };
            let mut tr = trace.clone();
            tr.push(format!("B{}", i));
            let body: Vec<String> = bd[1..].iter().map(kvh::canon::value).collect();
            (format!("A{} {} T:{}", i, regs.join(" "), tr.join(",")), Some(body.join(" ")))
        }
        o => (format!("E:shape:{}", kvh::canon::value(o)), None),
    }
}

// ---------------------------------------------------------------------------------------------
// context

struct Ctx {
    rep: Report,
    drv: Driver,
    imp: Impl,
    open: Vec<String>,
    known_counts: BTreeMap<String, u64>,
    k_fail: u64,
    d_fail: u64,
    compile_fail: u64,
}

impl Ctx {
    /// which listed finding explains "code = model ≠ guide" on this case, if any (cause rules)
    fn attribute(&self, mc: &MatchCase, early: bool, code: &str) -> Option<&'static str> {
        let has = |id: &str| self.open.iter().any(|x| x == id);
        // F-C03-2: a pattern binds the identifier that is the (bare local) subject
        if mc.binds_subject() && has("F-C03-2") {
            return Some("F-C03-2");
        }
        // error classes are produced by exactly one mechanism each in the model
        if code == "E:ge-null" && has("F-C03-1") {
            return Some("F-C03-1"); // Size of a value without size is Null; `>=` on Null raises
        }
        if code == "E:access" && has("F-C03-4") {
            return Some("F-C03-4"); // TryAccess on Null/Bool raises
        }
        if code == "E:slice" && has("F-C03-5") {
            return Some("F-C03-5"); // SliceFrom/SliceTo on a Range raises
        }
        // F-C03-3: a non-last alternative contains a parenthesised pattern in non-last position
        if early && has("F-C03-3") {
            return Some("F-C03-3");
        }
        None
    }

    fn run_match_case(&mut self, mc: &MatchCase, subjects: &[Vec<V>]) {
        let script = mc.script();
        let resp = self.drv.ask(&mc.request());
        if !resp.starts_with("ok") {
            panic!("driver rejected arms: {} -> {}", mc.request(), resp);
        }
        let early = resp.contains("early=1");
        let nsubj = mc.nsubj();
        let mut koto = Koto::default();
        let h = match koto.compile_and_run(script.as_str()) {
            Ok(h) => h,
            Err(e) => {
                // every generated pattern set is inside the accepted grammar
                self.compile_fail += 1;
                if self.compile_fail <= 3 {
                    self.rep.violation(
                        "D",
                        "C03:compile",
                        json!({"program": script, "error": e.to_string(), "origin": mc.origin,
                               "note": "a generated well-formed match was rejected by the compiler"}),
                    );
                }
                return;
            }
        };
        self.rep.bump(&format!("origin={}", mc.origin));
        self.rep.bump(&format!("arms={}", mc.arms.len()));
        self.rep.bump(&format!("result_position={}", ["fresh", "existing-variable", "call-argument", "tuple-element"][mc.result_ctx() as usize]));
        if mc.arms.last().is_some_and(|a| a.guard.is_some()) {
            self.rep.bump("sets_with_guarded_last_arm");
        }
        self.rep.bump(&format!("mode={:?}", mc.mode).replace("(", "").replace(")", ""));
        let maxalts = mc.arms.iter().map(|a| a.alts.len()).max().unwrap_or(0);
        self.rep.bump(&format!("max_alts={}", maxalts));
        let depth = mc.arms.iter().flat_map(|a| a.alts.iter()).flat_map(|a| a.iter()).map(|p| p.depth()).max().unwrap_or(0);
        self.rep.bump(&format!("pattern_depth={}", depth));
        if mc.arms.iter().any(|a| a.guard.is_some()) {
            self.rep.bump("sets_with_guard");
        }
        if early {
            self.rep.bump("sets_with_F-C03-3_shape");
        }
        if mc.binds_subject() {
            self.rep.bump("sets_match_local_binding_its_name");
        }
        if mc.arms.iter().any(|a| a.vars().iter().any(|x| is_subj_var(*x))) {
            self.rep.bump("sets_binding_a_subject_name");
        }
        // F-C03-2 shapes on a string subject additionally read outside the overwritten slice
        // (StringSlice::with_bounds checks the parent string, not the slice: C15's territory)
        let filtered: Vec<Vec<V>>;
        let subjects: &[Vec<V>] = if mc.binds_subject() && self.open.iter().any(|x| x == "F-C03-2") {
            filtered = subjects.iter().filter(|vs| !matches!(vs[0], V::S(_))).cloned().collect();
            &filtered
        } else {
            subjects
        };
        let reqs: Vec<String> = subjects
            .iter()
            .map(|vs| format!("s {}", vs.iter().map(|v| v.canon()).collect::<Vec<_>>().join(" ")))
            .collect();
        let resps = self.drv.batch(&reqs);
        for (vs, resp) in subjects.iter().zip(resps.iter()) {
            let args: Vec<KValue> = vs.iter().map(|v| self.imp.value(v)).collect();
            let ret = koto.call_function(h.clone(), args.as_slice());
            let (code_impl, body) = match &ret {
                Ok(v) => impl_outcome(v, nsubj),
                Err(e) => (format!("E:host:{}", e.to_string().lines().next().unwrap_or("")), None),
            };
            let (model_code, guide_full) = match resp.split_once(" ; ") {
                Some((a, b)) => (a.to_string(), b.to_string()),
                None => (resp.clone(), String::new()),
            };
            // guide verdict (arm + bindings) and the guide's registers after the match
            // (only the selected alternative's bindings written)
            let (guide, guide_regs) = match guide_full.split_once(" R: ") {
                Some((a, b)) => (a.trim_end().to_string(), split_vals(b)),
                None => (guide_full.trim_end_matches(" R:").to_string(), vec![]),
            };
            let key = format!("{} | {}", mc.request(), reqs_key(vs));
            let nontrivial = vs.iter().any(|v| !matches!(v, V::Null)) && !mc.arms.is_empty();
            self.rep.case(&key, nontrivial);
            self.rep.bump(&format!("subject={}", vs[0].kind()));
            let outcome_kind = if code_impl.starts_with("A") {
                "arm"
            } else if code_impl.starts_with("N") {
                "no-arm"
            } else {
                "error"
            };
            self.rep.bump(&format!("outcome={}", outcome_kind));
            if outcome_kind == "arm" {
                self.rep.bump(&format!("selected_arm={}", &code_impl[1..2]));
            }
            let call_text = format!(
                "{}\n# call: h({})",
                script,
                vs.iter().map(|v| v.koto()).collect::<Vec<_>>().join(", ")
            );
            if self.rep.samples.len() < 8 && self.rep.evaluations % 4099 == 11 {
                self.rep.sample(json!({"arms": mc.request(), "subject": reqs_key(vs), "impl": code_impl, "model": model_code, "guide": guide}));
            }
            // (D) on the implementation: guide verdict
            let d_ok = guide_agrees(&code_impl, &guide);
            // body sees the same bindings as are visible after the match
            let body_ok = match (&body, code_impl.starts_with('A')) {
                (Some(b), true) => {
                    let i: usize = code_impl[1..].split(' ').next().unwrap().parse().unwrap_or(usize::MAX);
                    let regs: Vec<&str> = code_impl.split(" T:").next().unwrap().split(' ').skip(1).collect();
                    let regs = split_vals(&regs.join(" "));
                    match mc.arms.get(i) {
                        Some(arm) => {
                            let want: Vec<String> = arm
                                .vars()
                                .iter()
                                .map(|x| if is_subj_var(*x) { regs[VARS.len() + (SUBJ_VAR - *x)].clone() } else { regs[*x].clone() })
                                .collect();
                            want.join(" ") == *b
                        }
                        None => false,
                    }
                }
                _ => true,
            };
            let k_ok = code_impl == model_code;
            if !k_ok || !body_ok {
                self.k_fail += 1;
                if self.k_fail <= 6 {
                    let kind = if d_ok && body_ok { "K" } else { "D" };
                    let name = if kind == "K" { "K:C03:Model.Match.evalMatch" } else { "C03:match" };
                    self.rep.violation(
                        kind,
                        name,
                        json!({"program": call_text, "arms": mc.request(), "subject": reqs_key(vs), "origin": mc.origin,
                               "impl": code_impl, "impl_body_values": body, "model": model_code, "guide": guide,
                               "note": "implementation and the Lean model of the match mechanism disagree (arm index / registers / trace / error class)"}),
                    );
                }
                continue;
            }
            if d_ok && !code_impl.starts_with("E:") {
                // (D) registers of non-selected arms/alternatives: the guide leaves them untouched
                let regs = split_vals(code_impl.split(" T:").next().unwrap());
                let regs = &regs[1..];
                let diff: Vec<usize> = (0..regs.len().min(guide_regs.len())).filter(|i| regs[*i] != guide_regs[*i]).collect();
                if !diff.is_empty() {
                    let selected: usize = if code_impl.starts_with('A') {
                        code_impl[1..].split(' ').next().unwrap().parse().unwrap_or(usize::MAX)
                    } else {
                        usize::MAX
                    };
                    let reg_of = |x: usize| if is_subj_var(x) { VARS.len() + (SUBJ_VAR - x) } else { x };
                    let tried: Vec<&Arm> = mc.arms.iter().enumerate().filter(|(i, _)| *i <= selected).map(|(_, a)| a).collect();
                    let tried_regs: Vec<usize> = tried.iter().flat_map(|a| a.vars()).map(reg_of).collect();
                    let typed_regs: Vec<usize> = tried.iter().flat_map(|a| a.typed_vars()).map(reg_of).collect();
                    let has = |id: &str| self.open.iter().any(|x| x == id);
                    let id = if !diff.iter().all(|i| tried_regs.contains(i)) {
                        None
                    } else if has("F-C03-11") {
                        Some("F-C03-11") // a tried, non-selected pattern wrote its variable before failing
                    } else if has("F-C03-8") && diff.iter().all(|i| typed_regs.contains(i)) {
                        Some("F-C03-8") // … and the variable carries a type hint
                    } else {
                        None
                    };
                    match id {
                        Some(id) => *self.known_counts.entry(id.to_string()).or_insert(0) += 1,
                        None => {
                            self.d_fail += 1;
                            if self.d_fail <= 6 {
                                self.rep.violation(
                                    "D",
                                    "C03:match:leak",
                                    json!({"program": call_text, "arms": mc.request(), "subject": reqs_key(vs), "origin": mc.origin,
                                           "impl": code_impl, "guide_registers": guide_regs.join(" "), "differing_registers": diff,
                                           "note": "registers other than the selected alternative's bindings changed during the match and no listed finding explains it"}),
                                );
                            }
                        }
                    }
                }
            }
            if !d_ok {
                // F-C03-10: a parenthesised pattern indexes strings by byte
                let multibyte = vs.iter().any(|v| v.has_non_ascii())
                    && mc.arms.iter().any(|a| a.alts.iter().any(|al| al.iter().any(|p| p.has(&|q| matches!(q, P::Seq(..))))));
                let attributed = if multibyte && self.open.iter().any(|x| x == "F-C03-10") {
                    Some("F-C03-10")
                } else {
                    self.attribute(mc, early, &model_code)
                };
                match attributed {
                    Some(id) => {
                        *self.known_counts.entry(id.to_string()).or_insert(0) += 1;
                    }
                    None => {
                        self.d_fail += 1;
                        if self.d_fail <= 6 {
                            self.rep.violation(
                                "D",
                                "C03:match:guide",
                                json!({"program": call_text, "arms": mc.request(), "subject": reqs_key(vs), "origin": mc.origin,
                                       "impl": code_impl, "guide": guide,
                                       "note": "the implementation (and the model that mirrors it) deviates from the documented selection/binding and no listed finding explains it"}),
                            );
                        }
                    }
                }
            }
        }
    }
}

fn reqs_key(vs: &[V]) -> String {
    vs.iter().map(|v| v.canon()).collect::<Vec<_>>().join(" ")
}

/// split a space-separated list of canonical values (parenthesised values contain spaces)
fn split_vals(s: &str) -> Vec<String> {
    let mut out = vec![];
    let mut depth = 0;
    let mut cur = String::new();
    for c in s.chars() {
        match c {
            '(' => {
                depth += 1;
                cur.push(c)
            }
            ')' => {
                depth -= 1;
                cur.push(c)
            }
            ' ' if depth == 0 => {
                if !cur.is_empty() {
                    out.push(std::mem::take(&mut cur));
                }
            }
            _ => cur.push(c),
        }
    }
    if !cur.is_empty() {
        out.push(cur);
    }
    out
}

/// guide verdict `GA<i> n:val…` / `GN` against the implementation's outcome text
fn guide_agrees(code_impl: &str, guide: &str) -> bool {
    if guide == "GN" {
        return code_impl.starts_with("N ");
    }
    let Some(rest) = guide.strip_prefix("GA") else { return false };
    let toks = split_vals(rest);
    let Some(i) = toks.first() else { return false };
    if !code_impl.starts_with(&format!("A{} ", i)) {
        return false;
    }
    let regs = split_vals(code_impl.split(" T:").next().unwrap());
    // regs[0] = "A<i>", regs[1..] = registers
    for t in &toks[1..] {
        let Some((n, v)) = t.split_once(':') else { return false };
        let n: usize = n.parse().unwrap_or(usize::MAX);
        let idx = if n != usize::MAX && is_subj_var(n) { 1 + VARS.len() + (SUBJ_VAR - n) } else { 1 + n };
        if regs.get(idx).map(|s| s.as_str()) != Some(v) {
            return false;
        }
    }
    true
}

// ---------------------------------------------------------------------------------------------
// subject pools

fn atoms() -> Vec<V> {
    vec![V::I(0), V::I(1), V::S("a".into()), V::Null, V::T(vec![V::I(0)]), V::L(vec![V::I(1)])]
}

fn sequences(max_len: usize) -> Vec<Vec<V>> {
    let at = atoms();
    let mut out: Vec<Vec<V>> = vec![vec![]];
    let mut prev: Vec<Vec<V>> = vec![vec![]];
    for _ in 0..max_len {
        let mut next = vec![];
        for p in &prev {
            for a in &at {
                let mut q = p.clone();
                q.push(a.clone());
                next.push(q);
            }
        }
        out.extend(next.iter().cloned());
        prev = next;
    }
    out
}

fn exhaustive_subjects(max_len: usize) -> Vec<V> {
    let mut out = vec![];
    for s in sequences(max_len) {
        out.push(V::T(s.clone()));
        out.push(V::L(s));
    }
    out
}

fn extra_subjects() -> Vec<V> {
    let i = V::I;
    let s = |x: &str| V::S(x.into());
    let m = |es: Vec<(&str, V)>| V::M(es.into_iter().map(|(k, v)| (k.to_string(), v)).collect());
    vec![
        V::Null,
        V::B(true),
        V::B(false),
        i(0),
        i(1),
        i(-1),
        i(2),
        V::F(1.0),
        V::F(1.5),
        V::F(-0.5),
        s(""),
        s("a"),
        s("ab"),
        s("abc"),
        s("abcd"),
        s("é"),
        s("aé"),
        s("éa"),
        s("U"),
        m(vec![]),
        m(vec![("a", i(1))]),
        m(vec![("b", i(2))]),
        m(vec![("a", i(1)), ("b", i(2))]),
        m(vec![("b", i(2)), ("a", i(1))]),
        m(vec![("a", i(0)), ("b", s("a")), ("c", V::Null)]),
        m(vec![("k k", i(3)), ("a", i(0))]),
        m(vec![("a", V::T(vec![i(1), i(2)])), ("b", m(vec![("a", i(1))]))]),
        m(vec![("a", V::Null)]),
        m(vec![("keys", i(3)), ("a", i(1))]),
        m(vec![("size", i(0)), ("first", s("a"))]),
        V::R(0, 0, false),
        V::R(0, 1, false),
        V::R(0, 2, false),
        V::R(1, 3, true),
        V::R(0, 4, false),
        V::R(3, 1, false),
        V::R(-2, 1, false),
        V::RFrom(1),
        V::T(vec![V::T(vec![i(1), i(2)]), i(3)]),
        V::T(vec![V::T(vec![i(1), i(2)]), i(4)]),
        V::T(vec![V::T(vec![i(1), i(3)]), i(7)]),
        V::T(vec![i(0), V::T(vec![i(1), i(2)])]),
        V::L(vec![V::L(vec![i(0), i(1)]), V::L(vec![])]),
        V::T(vec![m(vec![("a", i(1))]), i(2)]),
        V::T(vec![i(1), m(vec![("a", i(1)), ("b", i(0))])]),
        V::T(vec![s("ab"), V::R(0, 2, false)]),
        V::T(vec![V::T(vec![V::T(vec![i(0), i(1)]), i(1)]), i(0)]),
        V::T(vec![i(0), i(1), s("a"), V::Null, i(2)]),
        V::L(vec![i(2), i(1), i(0), i(1), i(2), i(3)]),
        V::T(vec![V::Null, V::Null]),
        V::T(vec![V::B(true), V::F(1.0)]),
        V::L(vec![i(1), V::F(1.0), s("1")]),
    ]
}

// ---------------------------------------------------------------------------------------------
// pattern generators

/// systematic family: every parenthesised shape (ellipsis absent/first/last, anonymous/named)
/// with elements drawn from a 5-symbol alphabet, as last alternative, as non-last alternative
/// and after a failing alternative
fn systematic_cases(max_elems: usize) -> Vec<MatchCase> {
    let mut out = vec![];
    // element symbols: 0 = id (fresh variable), 1 = `_`, 2 = literal 0, 3 = literal 'a', 4 = nested (x, ...)
    let shapes: Vec<(usize, u8, usize)> = {
        let mut v = vec![];
        for pre in 1..=max_elems {
            v.push((pre, 0u8, 0usize));
        }
        for r in 1..=2u8 {
            for pre in 0..=max_elems {
                v.push((pre, r, 0));
            }
            for post in 1..=max_elems {
                v.push((0, r, post));
            }
        }
        v
    };
    for (pre, r, post) in shapes {
        let n = pre + post;
        let combos = 5usize.pow(n as u32);
        for code in 0..combos {
            let mut c = code;
            let mut next_var = 0usize;
            let mut mk = |c: &mut usize, last: bool| -> P {
                let sym = *c % 5;
                *c /= 5;
                match sym {
                    0 => {
                        let p = P::Id(next_var.min(3), None);
                        next_var += 1;
                        p
                    }
                    1 => P::Wild(None),
                    2 => P::Lit(V::I(0)),
                    3 => P::Lit(V::S("a".into())),
                    _ => {
                        let _ = last;
                        let p = P::Seq(vec![P::Id(next_var.min(3), None)], Rest::Anon, vec![]);
                        next_var += 1;
                        p
                    }
                }
            };
            let pres: Vec<P> = (0..pre).map(|i| mk(&mut c, i + 1 == pre && r == 0)).collect();
            let posts: Vec<P> = (0..post).map(|i| mk(&mut c, i + 1 == post)).collect();
            let rest = match r {
                0 => Rest::None,
                1 => Rest::Anon,
                _ => Rest::Named(4),
            };
            let p = P::Seq(pres, rest, posts);
            let never = P::Lit(V::S("never".into()));
            let fallback = Arm { alts: vec![vec![P::Id(4, None)]], guard: None };
            for tpl in 0..4 {
                let alts = match tpl {
                    0 => vec![vec![p.clone()]],
                    1 => vec![vec![p.clone()], vec![never.clone()]],
                    2 => vec![vec![never.clone()], vec![p.clone()]],
                    // a failing non-last alternative must reach the next alternative (which always
                    // matches), not the end of the arm
                    _ => vec![vec![p.clone()], vec![P::Id(3, None)]],
                };
                out.push(MatchCase {
                    arms: vec![Arm { alts, guard: None }, fallback.clone()],
                    mode: Mode::Expr,
                    origin: "systematic", rctx: None,
                });
            }
        }
    }
    out
}

/// same-name bindings at every pattern position: the subject local's name as tuple/list element,
/// named rest, nested element, map rebinding, in `or` alternatives, read by the guard, and in
/// multi-value matches (F-C03-2, repaired in /repo 65de4a1; oracle = the guide)
fn same_name_cases() -> Vec<MatchCase> {
    let s = SUBJ_VAR;
    let t = SUBJ_VAR - 1;
    let id = |x: usize| P::Id(x, None);
    let lit = |i: i64| P::Lit(V::I(i));
    let seq = |ps: Vec<P>| P::Seq(ps, Rest::None, vec![]);
    let fallback = Arm { alts: vec![vec![P::Id(4, None)]], guard: None };
    let mut singles: Vec<(Vec<Alt>, Option<G>)> = vec![
        (vec![vec![seq(vec![id(s), id(1)])]], None),
        (vec![vec![seq(vec![id(0), id(s)])]], None),
        (vec![vec![seq(vec![id(s), id(s)])]], None),
        (vec![vec![seq(vec![id(0), id(s), id(1)])]], None),
        (vec![vec![P::Seq(vec![id(s)], Rest::Named(1), vec![])]], None),
        (vec![vec![P::Seq(vec![id(0)], Rest::Named(s), vec![])]], None),
        (vec![vec![P::Seq(vec![], Rest::Named(s), vec![id(0)])]], None),
        (vec![vec![P::Seq(vec![], Rest::Named(0), vec![id(s), id(1)])]], None),
        (vec![vec![P::Seq(vec![], Rest::Named(s), vec![])]], None),
        (vec![vec![seq(vec![seq(vec![id(s), id(0)]), id(1)])]], None),
        (vec![vec![seq(vec![id(0), seq(vec![id(s), id(1)])])]], None),
        (vec![vec![seq(vec![P::Seq(vec![id(s)], Rest::Anon, vec![]), id(1)])]], None),
        (vec![vec![P::Map(vec![Ent { key: "a".into(), bind: Bind::As(s), ty: None }], None)]], None),
        (vec![vec![P::Map(vec![Ent { key: "a".into(), bind: Bind::As(s), ty: None }, Ent { key: "b".into(), bind: Bind::Same(1), ty: None }], None)]], None),
        (vec![vec![seq(vec![P::Map(vec![Ent { key: "a".into(), bind: Bind::As(s), ty: None }], None), id(1)])]], None),
        (vec![vec![P::Id(s, None)]], None),
        (vec![vec![P::Id(s, Some(Ty("Number", false)))]], None),
        (vec![vec![P::Id(s, Some(Ty("Tuple", true)))]], None),
        // `or` alternatives
        (vec![vec![seq(vec![id(s), lit(0)])], vec![seq(vec![lit(0), id(s)])]], None),
        (vec![vec![seq(vec![lit(1), id(s)])], vec![seq(vec![id(s), lit(1)])], vec![id(s)]], None),
        (vec![vec![seq(vec![id(s), id(0), lit(1)])], vec![seq(vec![id(0), id(s)])]], None),
        // guards reading the rebound id
        (vec![vec![seq(vec![id(s), id(1)])]], Some(G::Eq(s, V::I(0)))),
        (vec![vec![seq(vec![id(0), id(s)])]], Some(G::Ne(s, V::Null))),
        (vec![vec![seq(vec![id(s), lit(0)])], vec![seq(vec![lit(0), id(s)])]], Some(G::Eq(s, V::I(1)))),
        (vec![vec![P::Seq(vec![id(0)], Rest::Named(s), vec![])]], Some(G::Not(Box::new(G::Eq(s, V::Null))))),
        (vec![vec![P::Id(s, None)]], Some(G::Ne(s, V::I(1)))),
    ];
    let mut out = vec![];
    for (alts, guard) in singles.drain(..) {
        for mode in [Mode::Var, Mode::Expr] {
            // as the first arm, and after an arm that fails having written the subject's name
            out.push(MatchCase { arms: vec![Arm { alts: alts.clone(), guard: guard.clone() }, fallback.clone()], mode, origin: "same-name", rctx: None });
            out.push(MatchCase {
                arms: vec![
                    Arm { alts: vec![vec![seq(vec![id(s), P::Lit(V::S("never".into()))])]], guard: None },
                    Arm { alts: alts.clone(), guard: guard.clone() },
                    fallback.clone(),
                ],
                mode,
                origin: "same-name", rctx: None,
            });
        }
    }
    // multi-value matches `match s, t`
    let multis: Vec<(Vec<Alt>, Option<G>)> = vec![
        (vec![vec![id(t), id(s)]], None),
        (vec![vec![seq(vec![id(s), id(t)]), id(0)]], None),
        (vec![vec![id(s), seq(vec![id(t), id(0)])]], None),
        (vec![vec![seq(vec![id(t), id(0)]), seq(vec![id(s), id(1)])]], None),
        (vec![vec![id(t), lit(0)], vec![lit(0), id(t)]], Some(G::Ne(t, V::Null))),
        (vec![vec![P::Seq(vec![id(t)], Rest::Named(s), vec![]), id(0)], vec![id(0), id(s)]], None),
        (vec![vec![id(s), id(s)]], None),
    ];
    for (alts, guard) in multis {
        out.push(MatchCase { arms: vec![Arm { alts, guard }, Arm { alts: vec![vec![P::Wild(None)]], guard: None }], mode: Mode::Multi(2), origin: "same-name", rctx: None });
    }
    out
}

/// arm count × subject kind × patterns that rebind the subject's own name in first / middle / last
/// sub-pattern position: 1, 2 and 3 arms, with and without `else`, subject = function argument,
/// local variable, temporary expression (65de4a1 copies a subject held in a local's register; the
/// single-arm match is the one an "optimisation" is tempted to skip)
fn rebind_cases() -> Vec<MatchCase> {
    let s = SUBJ_VAR;
    let id = |x: usize| P::Id(x, None);
    let seq = |ps: Vec<P>| P::Seq(ps, Rest::None, vec![]);
    let rebinders: Vec<P> = vec![
        seq(vec![id(s), id(0)]),
        seq(vec![id(s), id(0), id(1)]),
        seq(vec![id(0), id(s), id(1)]),
        seq(vec![id(0), id(1), id(s)]),
        P::Seq(vec![id(s)], Rest::Named(0), vec![]),
        P::Seq(vec![id(s), id(0)], Rest::Named(1), vec![]),
        P::Seq(vec![id(0)], Rest::Named(s), vec![]),
        P::Seq(vec![], Rest::Named(s), vec![id(0), id(1)]),
        P::Seq(vec![], Rest::Named(0), vec![id(s), id(1)]),
        P::Seq(vec![], Rest::Named(0), vec![id(1), id(s)]),
        seq(vec![seq(vec![id(s), id(0)]), id(1)]),
        seq(vec![id(0), seq(vec![id(s), id(1)])]),
        seq(vec![P::Map(vec![Ent { key: "a".into(), bind: Bind::As(s), ty: None }], None), id(0)]),
        P::Map(vec![Ent { key: "a".into(), bind: Bind::As(s), ty: None }, Ent { key: "b".into(), bind: Bind::Same(1), ty: None }], None),
        seq(vec![P::Id(s, Some(Ty("Any", false))), id(0)]),
    ];
    let other = |k: usize| -> Arm {
        match k {
            0 => Arm { alts: vec![vec![P::Lit(V::S("never".into()))]], guard: None },
            _ => Arm { alts: vec![vec![seq(vec![id(2), P::Lit(V::S("never".into()))])]], guard: None },
        }
    };
    let else_arm = Arm { alts: vec![], guard: None };
    let mut out = vec![];
    for p in &rebinders {
        let main = Arm { alts: vec![vec![p.clone()]], guard: None };
        let shapes: Vec<Vec<Arm>> = vec![
            vec![main.clone()],
            vec![main.clone(), else_arm.clone()],
            vec![other(0), main.clone()],
            vec![main.clone(), other(1)],
            vec![other(0), main.clone(), else_arm.clone()],
            vec![other(0), other(1), main.clone()],
            vec![other(1), main.clone(), other(0)],
        ];
        for arms in shapes {
            for mode in [Mode::Var, Mode::Local, Mode::Expr] {
                out.push(MatchCase { arms: arms.clone(), mode, origin: "rebind-subject", rctx: None });
            }
        }
    }
    out
}

/// "a guarded wildcard is not an else": the last arm is `_ if g` / `x if g` (typed or not, also a
/// parenthesised pattern) whose guard is false, after 0..2 arms that may or may not match, with the
/// match's value going to every kind of result position — no arm runs ⇒ null, never a stale value
fn guarded_last_cases() -> Vec<MatchCase> {
    let f = || Some(G::Const(false));
    let lasts: Vec<(Alt, Option<G>)> = vec![
        (vec![P::Wild(None)], f()),
        (vec![P::Wild(None)], Some(G::Eq(4, V::S("never".into())))),
        (vec![P::Wild(Some(Ty("Any", false)))], f()),
        (vec![P::Wild(Some(Ty("Number", true)))], f()),
        (vec![P::Id(4, None)], f()),
        (vec![P::Id(4, None)], Some(G::Eq(4, V::S("never".into())))),
        (vec![P::Id(4, Some(Ty("Any", false)))], f()),
        (vec![P::Seq(vec![], Rest::Anon, vec![])], f()),
        (vec![P::Wild(None)], Some(G::Const(true))),
        (vec![P::Wild(None)], None),
    ];
    let befores: Vec<Vec<Arm>> = vec![
        vec![],
        vec![Arm { alts: vec![vec![P::Lit(V::I(0))]], guard: None }],
        vec![
            Arm { alts: vec![vec![P::Seq(vec![P::Id(0, None), P::Lit(V::I(1))], Rest::None, vec![])]], guard: None },
            Arm { alts: vec![vec![P::Wild(None)]], guard: Some(G::Const(false)) },
        ],
    ];
    let mut out = vec![];
    for (alt, guard) in &lasts {
        for before in &befores {
            for rctx in 0..4u8 {
                for mode in [Mode::Expr, Mode::Var] {
                    let mut arms = before.clone();
                    arms.push(Arm { alts: vec![alt.clone()], guard: guard.clone() });
                    out.push(MatchCase { arms, mode, origin: "guarded-last", rctx: Some(rctx) });
                }
            }
        }
    }
    // multi-value: `_ if false` as the last arm of `match s, t`
    for rctx in 0..4u8 {
        out.push(MatchCase {
            arms: vec![
                Arm { alts: vec![vec![P::Lit(V::I(0)), P::Wild(None)]], guard: None },
                Arm { alts: vec![vec![P::Wild(None)]], guard: Some(G::Const(false)) },
            ],
            mode: Mode::Multi(2),
            origin: "guarded-last",
            rctx: Some(rctx),
        });
    }
    out
}

struct Gen<'a> {
    rng: &'a mut Rng,
    /// allow the shapes of the listed findings (they are attributed by cause)
    allow_quirks: bool,
    /// F-C03-2 is recorded as fixed: subject names are ordinary pattern variables
    subj_fixed: bool,
    /// F-C03-6 is recorded as fixed: map-pattern keys may be names of core-library functions
    core_keys: bool,
}

const TYPES: [&str; 9] = ["Number", "String", "Bool", "Null", "List", "Tuple", "Map", "Range", "Any"];

impl<'a> Gen<'a> {
    fn lit(&mut self) -> V {
        match self.rng.below(12) {
            0 => V::Null,
            1 => V::B(true),
            2 => V::B(false),
            3 | 4 => V::I(0),
            5 | 6 => V::I(1),
            7 => V::I(-1),
            8 => V::F(1.0),
            9 => V::F(1.5),
            10 => V::S("a".into()),
            _ => V::S(["", "ab", "U", "é"][self.rng.below(4)].into()),
        }
    }
    fn ty(&mut self) -> Option<Ty> {
        if self.rng.chance(1, 5) {
            Some(Ty(TYPES[self.rng.below(TYPES.len())], self.rng.chance(1, 4)))
        } else {
            None
        }
    }
    /// `nsubj` > 0: the names of the subject locals may be bound as well
    fn var(&mut self, nsubj: usize) -> usize {
        if nsubj > 0 && self.rng.chance(1, 8) {
            SUBJ_VAR - self.rng.below(nsubj)
        } else {
            self.rng.below(VARS.len())
        }
    }
    fn map_pat(&mut self, nsubj: usize) -> P {
        let n = self.rng.below(3) + if self.rng.chance(1, 8) { 0 } else { 1 };
        let mut es = vec![];
        for _ in 0..n.min(3) {
            let (key, same) = match self.rng.below(5) {
                0 => ("a", Some(0)),
                1 => ("b", Some(1)),
                2 => ("c", Some(2)),
                3 => ("k k", None),
                _ => ("a", Some(0)),
            };
            let (key, same) = if self.core_keys && self.rng.chance(1, 5) {
                (["keys", "size", "first", "get"][self.rng.below(4)], None)
            } else {
                (key, same)
            };
            let bind = match (same, self.rng.below(3)) {
                (Some(x), 0) => Bind::Same(x),
                (_, 1) => Bind::Ignore,
                _ => Bind::As(self.var(nsubj)),
            };
            es.push(Ent { key: key.into(), bind, ty: self.ty() });
        }
        P::Map(es, self.ty())
    }
    /// `in_nonlast_pos`: this pattern is followed by further patterns in its list
    fn pat(&mut self, depth: usize, nsubj: usize) -> P {
        let w: [u32; 5] = if depth == 0 { [4, 4, 3, 2, 0] } else { [3, 3, 2, 2, 5] };
        match self.rng.weighted(&w) {
            0 => P::Lit(self.lit()),
            1 => {
                let v = self.var(nsubj);
                P::Id(v, self.ty())
            }
            2 => P::Wild(self.ty()),
            3 => self.map_pat(nsubj),
            _ => self.seq(depth - 1, nsubj),
        }
    }
    fn seq(&mut self, depth: usize, nsubj: usize) -> P {
        let n = 1 + self.rng.below(3);
        let els: Vec<P> = (0..n).map(|_| self.pat(depth, nsubj)).collect();
        match self.rng.below(5) {
            0 | 1 => P::Seq(els, Rest::None, vec![]),
            2 => {
                let r = if self.rng.chance(1, 2) { Rest::Anon } else { Rest::Named(self.var(nsubj)) };
                let k = if self.rng.chance(1, 6) { 0 } else { els.len() };
                P::Seq(els[..k].to_vec(), r, vec![])
            }
            3 => {
                let r = if self.rng.chance(1, 2) { Rest::Anon } else { Rest::Named(self.var(nsubj)) };
                P::Seq(vec![], r, els)
            }
            _ => P::Seq(els, Rest::None, vec![]),
        }
    }
    fn guard(&mut self, readable: &[usize]) -> Option<G> {
        if !self.rng.chance(2, 5) {
            return None;
        }
        if readable.is_empty() {
            return Some(G::Const(self.rng.chance(1, 2)));
        }
        let x = readable[self.rng.below(readable.len())];
        let l = self.lit();
        let base = if self.rng.chance(1, 2) { G::Eq(x, l) } else { G::Ne(x, l) };
        Some(match self.rng.below(6) {
            0 => G::Not(Box::new(base)),
            1 => {
                let y = readable[self.rng.below(readable.len())];
                G::And(Box::new(base), Box::new(G::Ne(y, self.lit())))
            }
            2 => {
                let y = readable[self.rng.below(readable.len())];
                G::Or(Box::new(base), Box::new(G::Eq(y, self.lit())))
            }
            _ => base,
        })
    }
    fn case(&mut self) -> MatchCase {
        let mode = match self.rng.below(6) {
            0 | 1 | 2 => Mode::Expr,
            3 => if self.rng.chance(1, 2) { Mode::Var } else { Mode::Local },
            4 => Mode::Multi(2),
            _ => Mode::Multi(if self.rng.chance(1, 3) { 3 } else { 2 }),
        };
        // same-name bindings: everywhere once F-C03-2 is repaired; before that only as a quirk
        // shape (`match <local>`), attributed by cause
        let nsubj = if self.subj_fixed {
            match mode {
                Mode::Multi(k) => k,
                _ => 1,
            }
        } else if matches!(mode, Mode::Var | Mode::Local) && self.allow_quirks {
            1
        } else {
            0
        };
        let n_arms = 1 + self.rng.below(4);
        let mut arms = vec![];
        for ai in 0..n_arms {
            if ai + 1 == n_arms && ai > 0 && self.rng.chance(1, 4) {
                arms.push(Arm { alts: vec![], guard: None });
                break;
            }
            let n_alts = [1, 1, 1, 2, 2, 3][self.rng.below(6)];
            let mut alts: Vec<Alt> = vec![];
            for _ in 0..n_alts {
                let alt: Alt = match mode {
                    Mode::Multi(k) => {
                        if self.rng.chance(1, 10) {
                            vec![P::Wild(None)]
                        } else {
                            (0..k).map(|_| self.pat(2, nsubj)).collect()
                        }
                    }
                    _ => {
                        let d = [0, 1, 1, 2, 2, 3][self.rng.below(6)];
                        if d == 0 { vec![self.pat(0, nsubj)] } else { vec![self.seq(d - 1, nsubj)] }
                    }
                };
                alts.push(alt);
            }
            // avoid the shape of F-C03-3 unless quirks are allowed: regenerate non-last alternatives
            if !self.allow_quirks {
                for k in 0..alts.len().saturating_sub(1) {
                    let mut tries = 0;
                    while !alt_early_free(&alts[k]) && tries < 20 {
                        alts[k] = match mode {
                            Mode::Multi(n) => (0..n).map(|_| self.pat(1, nsubj)).collect(),
                            _ => vec![self.pat(0, nsubj)],
                        };
                        tries += 1;
                    }
                    if !alt_early_free(&alts[k]) {
                        alts[k] = match mode {
                            Mode::Multi(n) => (0..n).map(|_| P::Wild(None)).collect(),
                            _ => vec![P::Lit(V::I(7))],
                        };
                    }
                }
            }
            // the guard reads only variables bound by every alternative
            let mut readable: Vec<usize> = (0..VARS.len()).chain(97..=SUBJ_VAR).collect();
            for a in &alts {
                let mut v = vec![];
                a.iter().for_each(|p| p.vars(&mut v));
                readable.retain(|x| v.contains(x));
            }
            let guard = self.guard(&readable);
            arms.push(Arm { alts, guard });
        }
        MatchCase { arms, mode, origin: if self.allow_quirks { "random+quirks" } else { "random" }, rctx: None }
    }
}

/// harness-side mirror of `Match.earlyFree` (generation filter only; the driver's flag decides)
fn early_free(p: &P) -> bool {
    fn list_ok(ps: &[P], last_ok: bool) -> bool {
        ps.iter().enumerate().all(|(i, p)| {
            let is_last = i + 1 == ps.len();
            early_free(p) && ((is_last && last_ok) || !matches!(p, P::Seq(..)))
        })
    }
    match p {
        P::Seq(pre, rest, post) => {
            if post.is_empty() { list_ok(pre, *rest == Rest::None) } else { pre.is_empty() && list_ok(post, true) }
        }
        _ => true,
    }
}
fn alt_early_free(a: &Alt) -> bool {
    if a.len() == 1 {
        early_free(&a[0])
    } else {
        a.iter().enumerate().all(|(i, p)| early_free(p) && (i + 1 == a.len() || !matches!(p, P::Seq(..))))
    }
}

// ---------------------------------------------------------------------------------------------
// unpacking

#[derive(Clone, Debug)]
enum It {
    Val(V),
    Gen(Vec<V>),
}

fn iterables(len: usize) -> Vec<It> {
    let ints: Vec<V> = (0..len as i64).map(|i| V::I(10 + i)).collect();
    let letters = "abcdefgh";
    let mut v = vec![
        It::Val(V::L(ints.clone())),
        It::Val(V::T(ints.clone())),
        It::Val(V::R(10, 10 + len as i64, false)),
        It::Val(V::S(letters[..len].to_string())),
        It::Val(V::M((0..len).map(|i| (letters[i..i + 1].to_string(), V::I(i as i64))).collect())),
        It::Gen(ints.clone()),
    ];
    if len >= 2 {
        v.push(It::Val(V::R(10, 10 + len as i64 - 1, true)));
        v.push(It::Val(V::T((0..len).map(|i| if i % 2 == 0 { V::Null } else { V::L(vec![V::I(i as i64)]) }).collect())));
    }
    if len == 3 {
        v.push(It::Val(V::S("héy".into())));
    }
    v
}

fn once_values() -> Vec<It> {
    vec![It::Val(V::I(42)), It::Val(V::Null), It::Val(V::B(true)), It::Val(V::F(1.5)), It::Val(V::R(3, 1, false))]
}

fn tgt_koto(ts: &[Option<usize>]) -> String {
    ts.iter().map(|t| t.map(|x| VARS[x].to_string()).unwrap_or_else(|| "_".into())).collect::<Vec<_>>().join(", ")
}
fn tgt_sexp(ts: &[Option<usize>]) -> String {
    format!("({})", ts.iter().map(|t| t.map(|x| x.to_string()).unwrap_or_else(|| "_".into())).collect::<Vec<_>>().join(" "))
}
fn nregs(ts: &[Option<usize>]) -> usize {
    ts.iter().filter_map(|t| t.map(|x| x + 1)).max().unwrap_or(0)
}

fn regs_of(vals: &[KValue]) -> String {
    vals.iter().map(kvh::canon::value).collect::<Vec<_>>().join(" ")
}

impl Ctx {
    fn unpack_violation(&mut self, kind_k: bool, program: String, request: &str, imp: &str, model: &str, spec: &str) {
        self.k_fail += 1;
        if self.k_fail <= 6 {
            let (kind, name) = if kind_k { ("K", "K:C03:Model.Unpack") } else { ("D", "C03:unpack") };
            self.rep.violation(
                kind,
                name,
                json!({"program": program, "request": request, "impl": imp, "model": model, "spec": spec,
                       "note": "unpacking: implementation vs model (K) / vs take-and-pad-with-null (D)"}),
            );
        }
    }

    /// `targets = iterable` for one target list against many iterables
    fn run_unpack(&mut self, ts: &[Option<usize>], its: &[It]) {
        let n = nregs(ts);
        let regs = if n == 0 { String::new() } else { VARS[..n].join(", ") };
        let mut script = String::from("mkgen = |xs|\n  g = ||\n    for x in xs\n      yield x\n  g()\n");
        script.push_str("f = |it|\n");
        for v in &VARS[..n] {
            script.push_str(&format!("  {} = 'U'\n", v));
        }
        let lhs = if ts.len() >= 2 { tgt_koto(ts) } else { "a, b".to_string() };
        script.push_str(&format!("  {} = it\n  ({}{})\n", lhs, regs, if n <= 1 { "," } else { "" }));
        script.push_str(&format!("res = |it|\n  {} = it\n", lhs));
        script.push_str(&format!("lp = |it|\n  out = []\n"));
        for v in &VARS[..n] {
            script.push_str(&format!("  {} = 'U'\n", v));
        }
        script.push_str(&format!(
            "  for {} in it\n    out.push ({}{})\n  (out, {}{})\n",
            tgt_koto(ts),
            regs,
            if n <= 1 { "," } else { "" },
            regs,
            if n == 0 { "" } else { "" }
        ));
        script.push_str("(f, res, lp, mkgen)\n");
        let mut koto = Koto::default();
        let fs = match koto.compile_and_run(script.as_str()) {
            Ok(KValue::Tuple(t)) => t,
            Ok(o) => panic!("unpack script returned {}", kvh::canon::value(&o)),
            Err(e) => {
                self.compile_fail += 1;
                if self.compile_fail <= 3 {
                    self.rep.violation("D", "C03:compile", json!({"program": script, "error": e.to_string()}));
                }
                return;
            }
        };
        let (f, res, lp, mkgen) = (fs.data()[0].clone(), fs.data()[1].clone(), fs.data()[2].clone(), fs.data()[3].clone());
        let ids: Vec<Option<usize>> = ts.to_vec();
        for it in its {
            let (arg, req_it, elems): (KValue, String, Option<Vec<V>>) = match it {
                It::Val(v) => (self.imp.value(v), v.canon(), None),
                It::Gen(xs) => {
                    let l = self.imp.value(&V::T(xs.clone()));
                    let g = koto.call_function(mkgen.clone(), &[l][..]).expect("mkgen");
                    (g, format!("(g{})", xs.iter().map(|x| format!(" {}", x.canon())).collect::<String>()), Some(xs.clone()))
                }
            };
            // --- multi-assignment (a single target is a plain assignment, not an unpacking)
            if ts.len() >= 2 {
            let req = format!("ma {} {}", tgt_sexp(ts), req_it);
            let model = self.drv.ask(&req);
            let got = match koto.call_function(f.clone(), &[arg.clone()][..]) {
                Ok(KValue::Tuple(t)) => {
                    let r = if elems.is_some() {
                        "<iter>".to_string()
                    } else {
                        match koto.call_function(res.clone(), &[arg.clone()][..]) {
                            Ok(v) => kvh::canon::value(&v),
                            Err(e) => format!("E:{}", e),
                        }
                    };
                    format!("{} = {}", regs_of(&t.data()[..n]), r)
                }
                Ok(o) => format!("E:shape:{}", kvh::canon::value(&o)),
                Err(_) => "E:iter".to_string(),
            };
            self.rep.case(&req, n > 0);
            self.rep.bump("unpack=multi-assign");
            // (D) take / pad with null, `_` skips one element
            let spec = spec_unpack(&ids, it).map(|r| r.join(" "));
            let d_ok = match &spec {
                Some(s) => got.split(" = ").next() == Some(s.as_str()),
                None => true,
            };
            if got != model || !d_ok {
                let prog = format!("{}\n# call: f({})", script, req_it);
                self.unpack_violation(d_ok, prog, &req, &got, &model, &spec.clone().unwrap_or_default());
            }
            if self.rep.samples.len() < 12 && self.rep.evaluations % 1013 == 5 {
                self.rep.sample(json!({"request": req, "impl": got, "model": model}));
            }
            }
            // --- for loop over a list whose elements are this iterable, a shorter one and a scalar
            if let It::Val(v) = it {
                let outer = V::L(vec![v.clone(), V::T(vec![V::I(1)]), V::I(5), v.clone()]);
                let req = format!("for {} {}", tgt_sexp(ts), outer.canon());
                let model = self.drv.ask(&req);
                let arg = self.imp.value(&outer);
                let got = match koto.call_function(lp.clone(), &[arg][..]) {
                    Ok(KValue::Tuple(t)) => {
                        let d = t.data();
                        let steps: Vec<String> = match &d[0] {
                            KValue::List(l) => l
                                .data()
                                .iter()
                                .map(|s| match s {
                                    KValue::Tuple(x) => regs_of(&x.data()[..n.min(x.len())]),
                                    o => kvh::canon::value(o),
                                })
                                .collect(),
                            _ => vec!["?".into()],
                        };
                        format!("{} || {}", steps.join(" | "), regs_of(&d[1..1 + n]))
                    }
                    Ok(o) => format!("E:shape:{}", kvh::canon::value(&o)),
                    Err(_) => "E:iter".to_string(),
                };
                self.rep.case(&req, n > 0);
                self.rep.bump("unpack=for");
                if got != model {
                    let prog = format!("{}\n# call: lp({})", script, outer.koto());
                    self.unpack_violation(true, prog, &req, &got, &model, "");
                }
            }
        }
    }

    /// `targets = x, y, …` (temporary tuple)
    fn run_unpack_temp(&mut self, ts: &[Option<usize>], k: usize) {
        let n = nregs(ts);
        let vals: Vec<V> = (0..k).map(|i| if i == 1 { V::S("x".into()) } else { V::I(20 + i as i64) }).collect();
        let mut script = String::from("f = ||\n");
        for v in &VARS[..n] {
            script.push_str(&format!("  {} = 'U'\n", v));
        }
        let rhs = vals.iter().map(|v| v.koto()).collect::<Vec<_>>().join(", ");
        script.push_str(&format!("  {} = {}\n  ({}{})\n", tgt_koto(ts), rhs, VARS[..n].join(", "), if n <= 1 { "," } else { "" }));
        script.push_str(&format!("res = ||\n  {} = {}\n(f(), res())\n", tgt_koto(ts), rhs));
        let req = format!("mt {} {}", tgt_sexp(ts), vals.iter().map(|v| v.canon()).collect::<Vec<_>>().join(" "));
        let model = self.drv.ask(&req);
        let mut koto = Koto::default();
        let got = match koto.compile_and_run(script.as_str()) {
            Ok(KValue::Tuple(t)) => match &t.data()[0] {
                KValue::Tuple(r) => format!("{} = {}", regs_of(&r.data()[..n]), kvh::canon::value(&t.data()[1])),
                o => format!("E:shape:{}", kvh::canon::value(o)),
            },
            Ok(o) => format!("E:shape:{}", kvh::canon::value(&o)),
            Err(e) => format!("E:{}", e.to_string().lines().next().unwrap_or("")),
        };
        self.rep.case(&req, true);
        self.rep.bump("unpack=temp-tuple");
        if got != model {
            self.unpack_violation(true, script, &req, &got, &model, "");
        }
    }
}

/// the property's reading, computed independently here: element-wise, missing → null, extras ignored
fn spec_unpack(ts: &[Option<usize>], it: &It) -> Option<Vec<String>> {
    let elems: Vec<String> = match it {
        It::Gen(xs) => xs.iter().map(|x| x.canon()).collect(),
        It::Val(V::L(xs)) | It::Val(V::T(xs)) => xs.iter().map(|x| x.canon()).collect(),
        It::Val(V::R(a, b, incl)) => {
            let e = if *incl { b + 1 } else { *b };
            (*a..e).map(|i| format!("i{}", i)).collect()
        }
        It::Val(V::S(s)) => s.chars().map(|c| V::S(c.to_string()).canon()).collect(),
        It::Val(V::M(es)) => es.iter().map(|(k, v)| V::T(vec![V::S(k.clone()), v.clone()]).canon()).collect(),
        It::Val(v @ (V::I(_) | V::F(_) | V::Null | V::B(_))) => vec![v.canon()],
        It::Val(V::RFrom(_)) => return None,
    };
    let n = nregs(ts);
    let mut regs = vec!["sx55".to_string(); n];
    for (i, t) in ts.iter().enumerate() {
        if let Some(x) = t {
            regs[*x] = elems.get(i).cloned().unwrap_or_else(|| "null".into());
        }
    }
    Some(regs)
}

// ---------------------------------------------------------------------------------------------
// chained cases: a value produced by an ellipsis pattern / a range index (a *slice* that shares
// storage with a longer container) is then used as the subject of further unpacking, `for`
// arguments and matching, with fewer, equal and more targets than it has elements.  A slice is a
// value: its own length (the model has no storage, so any read past the slice's end shows).

fn seq_elems(v: &V) -> Option<Vec<V>> {
    match v {
        V::T(xs) | V::L(xs) => Some(xs.clone()),
        V::S(s) if s.is_ascii() => Some(s.chars().map(|c| V::S(c.to_string())).collect()),
        _ => None,
    }
}
fn sub_seq(v: &V, from: usize, to: usize) -> V {
    match v {
        V::T(xs) => V::T(xs[from..to].to_vec()),
        V::L(xs) => V::L(xs[from..to].to_vec()),
        V::S(s) => V::S(s[from..to].to_string()),
        _ => unreachable!(),
    }
}
fn none_v() -> V {
    V::S("none".into())
}
/// `(d..., <k fixed>)`
fn lead(v: &V, k: usize) -> V {
    match seq_elems(v) {
        Some(xs) if xs.len() >= k => sub_seq(v, 0, xs.len() - k),
        _ => none_v(),
    }
}
/// `(<k fixed>, d...)`
fn trail(v: &V, k: usize) -> V {
    match seq_elems(v) {
        Some(xs) if xs.len() >= k => sub_seq(v, k, xs.len()),
        _ => none_v(),
    }
}
/// `v[a..b]` (b = None: open end): bounds are clamped
fn ridx(v: &V, a: usize, b: Option<usize>) -> Option<V> {
    let n = seq_elems(v)?.len();
    let start = a.min(n);
    let end = b.unwrap_or(n).max(start).min(n);
    Some(sub_seq(v, start, end))
}

struct Producer {
    name: &'static str,
    setup: &'static str,
    code: &'static str,
    expect: fn(&V) -> Option<V>,
}

fn producers() -> Vec<Producer> {
    vec![
        Producer { name: "(d..., _, _)", setup: "", code: "  d = match s\n    (d..., _, _) then d\n    else 'none'\n", expect: |v| Some(lead(v, 2)) },
        Producer { name: "(d..., _)", setup: "", code: "  d = match s\n    (d..., _) then d\n    else 'none'\n", expect: |v| Some(lead(v, 1)) },
        Producer { name: "(_, d...)", setup: "", code: "  d = match s\n    (_, d...) then d\n    else 'none'\n", expect: |v| Some(trail(v, 1)) },
        Producer { name: "(_, _, d...)", setup: "", code: "  d = match s\n    (_, _, d...) then d\n    else 'none'\n", expect: |v| Some(trail(v, 2)) },
        Producer { name: "(d...)", setup: "", code: "  d = match s\n    (d...) then d\n    else 'none'\n", expect: |v| Some(lead(v, 0)) },
        Producer {
            name: "((d..., _), _)",
            setup: "",
            code: "  d = match s\n    ((d..., _), _) then d\n    else 'none'\n",
            expect: |v| match seq_elems(v) {
                Some(xs) if xs.len() == 2 && seq_elems(&xs[0]).is_some_and(|ys| !ys.is_empty()) => Some(lead(&xs[0], 1)),
                _ => Some(none_v()),
            },
        },
        Producer { name: "s[0..2]", setup: "", code: "  d = s[0..2]\n", expect: |v| ridx(v, 0, Some(2)) },
        Producer { name: "s[1..]", setup: "", code: "  d = s[1..]\n", expect: |v| ridx(v, 1, None) },
        Producer { name: "s[..1]", setup: "", code: "  d = s[..1]\n", expect: |v| ridx(v, 0, Some(1)) },
        Producer { name: "s[1..3]", setup: "", code: "  d = s[1..3]\n", expect: |v| ridx(v, 1, Some(3)) },
        Producer {
            name: "|(h..., _)| h",
            setup: "hd = |(h..., _)| h\n",
            code: "  d = hd s\n",
            expect: |v| match seq_elems(v) {
                Some(xs) if !xs.is_empty() && !matches!(v, V::S(_)) => Some(lead(v, 1)),
                _ => None,
            },
        },
        Producer {
            name: "(d..., _) twice",
            setup: "",
            code: "  d = match s\n    (d..., _) then d\n    else 'none'\n  d = match d\n    (d..., _) then d\n    else 'none'\n",
            expect: |v| Some(lead(&lead(v, 1), 1)),
        },
        Producer {
            name: "s[..3] then (_, d...)",
            setup: "",
            code: "  d = s[..3]\n  d = match d\n    (_, d...) then d\n    else 'none'\n",
            expect: |v| ridx(v, 0, Some(3)).map(|w| trail(&w, 1)),
        },
        Producer {
            name: "(_, d...) then d[..2]",
            setup: "",
            code: "  d = match s\n    (_, d...) then d\n    else 'none'\n  d = d[..2]\n",
            expect: |v| ridx(&trail(v, 1), 0, Some(2)),
        },
    ]
}

const CHAIN_ARMS: &str = "arms 5 e (arm ((one (seq ((id 0 -) (id 1 -)) 2 ()))) -) (arm ((one (seq () 0 ((id 1 -))))) -) (arm ((one (id 0 -))) -)";

impl Ctx {
    fn run_chain(&mut self, pr: &Producer, subjects: &[V]) {
        let script = format!(
            "{}f = |s|\n{}  k0 = 'U'\n  k1 = 'U'\n  k0, k1 = d\n  c2 = (k0, k1)\n  k0, k1, k2, k3 = d\n  c4 = (k0, k1, k2, k3)\n  out = []\n  for m0, m1, m2 in (d, d)\n    out.push (m0, m1, m2)\n  mm = match d\n    (n0, n1, n2...) then (0, n0, n1, n2)\n    (n0..., n1) then (1, n0, n1)\n    n0 then (2, n0)\n  (d, c2, c4, out, mm)\nh = |s|\n  try\n    f s\n  catch err\n    ('E', \"{{err}}\")\nh\n",
            pr.setup, pr.code
        );
        let mut koto = Koto::default();
        let h = match koto.compile_and_run(script.as_str()) {
            Ok(h) => h,
            Err(e) => {
                self.compile_fail += 1;
                self.rep.violation("D", "C03:compile", json!({"program": script, "error": e.to_string(), "origin": "chain"}));
                return;
            }
        };
        assert!(self.drv.ask(CHAIN_ARMS).starts_with("ok"));
        for v in subjects {
            let Some(dv) = (pr.expect)(v) else {
                self.rep.bump("chain_skipped_not_applicable");
                continue;
            };
            let d = dv.canon();
            let m2 = self.drv.ask(&format!("ma (0 1) {}", d));
            let m4 = self.drv.ask(&format!("ma (0 1 2 3) {}", d));
            let mf = self.drv.ask(&format!("for (0 1 2) (t {} {})", d, d));
            let mm = self.drv.ask(&format!("s {}", d));
            // model texts → comparable forms
            let want_c2 = format!("(t {})", m2.split(" = ").next().unwrap_or(""));
            let want_c4 = format!("(t {})", m4.split(" = ").next().unwrap_or(""));
            let want_out = {
                let steps = mf.split(" || ").next().unwrap_or("");
                let items: Vec<String> = steps.split(" | ").filter(|x| !x.is_empty()).map(|x| format!("(t {})", x)).collect();
                if items.is_empty() { "(l)".to_string() } else { format!("(l {})", items.join(" ")) }
            };
            let want_mm = {
                let code = mm.split(" ; ").next().unwrap_or("");
                let toks = split_vals(code.split(" T:").next().unwrap_or(""));
                match toks.first().map(|x| x.as_str()) {
                    Some("A0") => format!("(t i0 {} {} {})", toks[1], toks[2], toks[3]),
                    Some("A1") => format!("(t i1 {} {})", toks[1], toks[2]),
                    Some("A2") => format!("(t i2 {})", toks[1]),
                    _ => code.to_string(),
                }
            };
            let want = format!("(t {} {} {} {} {})", d, want_c2, want_c4, want_out, want_mm);
            let arg = self.imp.value(v);
            let got = match koto.call_function(h.clone(), &[arg][..]) {
                Ok(r) => kvh::canon::value(&r),
                Err(e) => format!("E:host:{}", e),
            };
            let key = format!("chain {} | {}", pr.name, v.canon());
            self.rep.case(&key, true);
            self.rep.bump("origin=chain");
            let n = seq_elems(&dv).map(|x| x.len()).unwrap_or(1);
            self.rep.bump(&format!("chain_slice_len_vs_4_targets={}", if n < 4 { "fewer-elements" } else if n == 4 { "equal" } else { "more-elements" }));
            if self.rep.samples.len() < 10 && self.rep.evaluations % 977 == 3 {
                self.rep.sample(json!({"chain": pr.name, "subject": v.canon(), "impl": got, "model": want}));
            }
            if got != want {
                self.k_fail += 1;
                if self.k_fail <= 6 {
                    // (D): take/pad computed here for the 4-target assignment
                    let spec4 = spec_unpack(&[Some(0), Some(1), Some(2), Some(3)], &It::Val(dv.clone())).map(|r| r.join(" "));
                    self.rep.violation(
                        "D",
                        "C03:chain",
                        json!({"program": format!("{}\n# call: h({})", script, v.koto()), "producer": pr.name, "subject": v.canon(),
                               "slice_value": d, "impl": got, "model": want, "spec_4_targets": spec4,
                               "note": "a value bound by an ellipsis pattern / range index, used as the subject of further unpacking, for-arguments and matching: implementation vs the model's value semantics (a slice has its own length; missing targets are null)"}),
                    );
                }
            }
        }
    }
}

impl Ctx {
    /// multi-assignment from a STATEFUL source (generator instance, iterator value, adaptor,
    /// peekable) that is observed again afterwards: a second unpacking, `.next()`, `to_tuple()`.
    /// Every target — `_`, `_name`, `_: T` included, in first, middle and last position — consumes
    /// exactly one element (Unpack.assignSt / theorem assignSt_spec).
    fn run_stateful_unpack(&mut self, ts: &[Option<usize>], style: u8) {
        let n = nregs(ts);
        let lhs: Vec<String> = ts
            .iter()
            .map(|t| match t {
                Some(x) => VARS[*x].to_string(),
                None => ["_", "_skip", "_: Any"][style as usize].to_string(),
            })
            .collect();
        let has_wild = ts.iter().any(|t| t.is_none());
        let assign = format!("{}{} = it", if style == 2 && has_wild { "let " } else { "" }, lhs.join(", "));
        let regs = if n == 0 { "(,)".to_string() } else { format!("({}{})", VARS[..n].join(", "), if n == 1 { "," } else { "" }) };
        let mut script = String::from(
            "mkgen = |xs|\n  g = ||\n    for x in xs\n      yield x\n  g()\nf = |xs, k|\n  it = match k\n    0 then mkgen xs\n    1 then xs.iter()\n    2 then xs.each |x| x\n    else xs.peekable()\n",
        );
        for v in &VARS[..n] {
            script.push_str(&format!("  {} = 'U'\n", v));
        }
        script.push_str(&format!(
            "  {}\n  r1 = {}\n  p = 'U'\n  q = 'U'\n  p, q = it\n  nx = it.next()\n  nxv = if nx == null then 'END' else nx.get()\n  rest = it.to_tuple()\n  (r1, (p, q), nxv, rest)\nf\n",
            assign, regs
        ));
        let mut koto = Koto::default();
        let f = match koto.compile_and_run(script.as_str()) {
            Ok(f) => f,
            Err(e) => {
                self.compile_fail += 1;
                self.rep.violation("D", "C03:compile", json!({"program": script, "error": e.to_string(), "origin": "stateful-unpack"}));
                return;
            }
        };
        for len in 0..=(ts.len() + 4) {
            let xs: Vec<V> = (0..len as i64).map(|i| V::I(10 + i)).collect();
            let vals = xs.iter().map(|x| x.canon()).collect::<Vec<_>>().join(" ");
            // model: first assignment, then `p, q = it`, then one `.next()`, then the rest
            let m1 = self.drv.ask(&format!("mas {} {}", tgt_sexp(ts), vals));
            let (regs1, rest1) = m1.split_once(" ; ").unwrap_or((m1.as_str(), "(t)"));
            let rest1_vals = rest1.trim_start_matches("(t").trim_end_matches(')').trim().to_string();
            let m2 = self.drv.ask(&format!("mas (0 1) {}", rest1_vals));
            let (regs2, rest2) = m2.split_once(" ; ").unwrap_or((m2.as_str(), "(t)"));
            let rest2_items = split_vals(rest2.trim_start_matches("(t").trim_end_matches(')'));
            let (nxv, tail) = match rest2_items.split_first() {
                Some((h, t)) => (h.clone(), t.to_vec()),
                None => ("sx454e44".to_string(), vec![]),
            };
            let want = format!(
                "(t (t{}{}) (t {}) {} (t{}))",
                if n == 0 { " null" } else { " " },
                if n == 0 { "" } else { regs1 },
                regs2,
                nxv,
                tail.iter().map(|x| format!(" {}", x)).collect::<String>()
            );
            for k in 0..4i64 {
                let arg = self.imp.value(&V::T(xs.clone()));
                let got = match koto.call_function(f.clone(), &[arg, KValue::Number(k.into())][..]) {
                    Ok(r) => kvh::canon::value(&r),
                    Err(e) => format!("E:{}", e.to_string().lines().next().unwrap_or("")),
                };
                let key = format!("stateful {} style{} src{} len{}", tgt_sexp(ts), style, k, len);
                self.rep.case(&key, true);
                self.rep.bump("unpack=stateful-source");
                self.rep.bump(&format!("stateful_source={}", ["generator", "iter()", "adaptor", "peekable"][k as usize]));
                if got != want {
                    self.k_fail += 1;
                    if self.k_fail <= 6 {
                        self.rep.violation(
                            "D",
                            "C03:unpack:stateful",
                            json!({"program": format!("{}\n# call: f({}, {})", script, V::T(xs.clone()).koto(), k), "targets": lhs.join(", "),
                                   "impl": got, "model": want,
                                   "note": "multi-assignment from a stateful source observed again afterwards: every target, wildcards included, consumes exactly one element"}),
                        );
                    }
                }
            }
        }
    }
}

// ---------------------------------------------------------------------------------------------
// argument unpacking grid: `|(pattern)|` with an ellipsis leading / trailing / absent, named /
// unnamed, the remaining slots drawn from every sub-pattern kind (id, `_`, typed id, nested tuple,
// nested map pattern) at every position, called with containers shorter / equal / longer than the
// pattern. Oracle = the match model on the same pattern: where the pattern matches, the bindings
// are the same (slot j = element j with a trailing ellipsis, element size − n + j after a leading
// one); where it does not, the call raises (the guide: "If the number of elements doesn't match
// then an error will be thrown").

fn arg_slot(kind: usize, next: &mut usize) -> P {
    let mut v = || {
        let x = (*next).min(3);
        *next += 1;
        x
    };
    match kind {
        0 => P::Id(v(), None),
        1 => P::Wild(None),
        2 => P::Id(v(), Some(Ty("Number", false))),
        3 => {
            let a = v();
            let b = v();
            P::Seq(vec![P::Id(a, None), P::Id(b, None)], Rest::None, vec![])
        }
        _ => P::Map(vec![Ent { key: "a".into(), bind: Bind::As(v()), ty: None }], None),
    }
}

fn arg_grid_patterns() -> Vec<P> {
    let mut out = vec![];
    for n in 1..=2usize {
        for code in 0..5usize.pow(n as u32) {
            for form in 0..5 {
                // 0 no ellipsis, 1 `...` last, 2 `rest...` last, 3 `...` first, 4 `first...` first
                let mut next = 0usize;
                let mut c = code;
                let slots: Vec<P> = (0..n)
                    .map(|_| {
                        let k = c % 5;
                        c /= 5;
                        arg_slot(k, &mut next)
                    })
                    .collect();
                out.push(match form {
                    0 => P::Seq(slots, Rest::None, vec![]),
                    1 => P::Seq(slots, Rest::Anon, vec![]),
                    2 => P::Seq(slots, Rest::Named(4), vec![]),
                    3 => P::Seq(vec![], Rest::Anon, slots),
                    _ => P::Seq(vec![], Rest::Named(4), slots),
                });
            }
        }
    }
    out
}

impl Ctx {
    fn run_arg_grid(&mut self, pat: &P, subjects: &[V]) {
        let mut vars = vec![];
        pat.vars(&mut vars);
        vars.sort();
        vars.dedup();
        let ret = match vars.len() {
            0 => "('ok',)".to_string(),
            _ => format!("('ok', {})", vars.iter().map(|x| var_name(*x)).collect::<Vec<_>>().join(", ")),
        };
        let script = format!("f = |{}|\n  {}\nh = |s|\n  try\n    f s\n  catch err\n    ('E', \"{{err}}\")\nh\n", pat.koto(), ret);
        let mut koto = Koto::default();
        let h = match koto.compile_and_run(script.as_str()) {
            Ok(h) => h,
            Err(e) => {
                self.compile_fail += 1;
                if self.compile_fail <= 3 {
                    self.rep.violation("D", "C03:compile", json!({"program": script, "error": e.to_string(), "origin": "arg-grid"}));
                }
                return;
            }
        };
        let arms = format!("arms {} e (arm ((one {})) -)", VARS.len(), pat.sexp());
        assert!(self.drv.ask(&arms).starts_with("ok"));
        let reqs: Vec<String> = subjects.iter().map(|v| format!("s {}", v.canon())).collect();
        let resps = self.drv.batch(&reqs);
        for (v, resp) in subjects.iter().zip(resps.iter()) {
            let code = resp.split(" ; ").next().unwrap_or("");
            let want = if code.starts_with("A0 ") {
                let regs = split_vals(code.split(" T:").next().unwrap());
                format!("(t sx6f6b{})", vars.iter().map(|x| format!(" {}", regs[1 + *x])).collect::<String>())
            } else {
                "ERROR".to_string()
            };
            let arg = self.imp.value(v);
            let got = match koto.call_function(h.clone(), &[arg][..]) {
                Ok(r) => {
                    let c = kvh::canon::value(&r);
                    if c.starts_with("(t sx45 ") { "ERROR".to_string() } else { c }
                }
                Err(e) => format!("E:host:{}", e),
            };
            self.rep.case(&format!("arg {} | {}", pat.sexp(), v.canon()), true);
            self.rep.bump("origin=arg-grid");
            self.rep.bump(&format!("arg_grid_outcome={}", if want == "ERROR" { "raises" } else { "binds" }));
            if got != want {
                self.k_fail += 1;
                if self.k_fail <= 6 {
                    self.rep.violation(
                        "D",
                        "C03:arg-unpack",
                        json!({"program": format!("{}\n# call: h({})", script, v.koto()), "pattern": pat.koto(), "subject": v.canon(),
                               "impl": got, "model": want,
                               "note": "argument unpacking vs the pattern model: slot j is element j with a trailing ellipsis and element size-n+j after a leading one; a container that does not fit raises"}),
                    );
                }
            }
        }
    }
}

// ---------------------------------------------------------------------------------------------
// corpus scripts: `#: expected output line`

#[derive(Clone, Default)]
struct Out(std::rc::Rc<std::cell::RefCell<String>>);
impl KotoFile for Out {
    fn id(&self) -> KString {
        "out".into()
    }
}
impl KotoRead for Out {}
impl KotoWrite for Out {
    fn write(&self, bytes: &[u8]) -> koto::runtime::Result<()> {
        self.0.borrow_mut().push_str(&String::from_utf8_lossy(bytes));
        Ok(())
    }
    fn write_line(&self, text: &str) -> koto::runtime::Result<()> {
        self.0.borrow_mut().push_str(text);
        self.0.borrow_mut().push('\n');
        Ok(())
    }
    fn flush(&self) -> koto::runtime::Result<()> {
        Ok(())
    }
}

fn run_script_capture(src: &str) -> (String, Option<String>) {
    let out = Out::default();
    let mut koto = Koto::with_settings(KotoSettings::default().with_stdout(out.clone()).with_stderr(Out::default()));
    let r = koto.compile_and_run(src);
    let text = out.0.borrow().clone();
    (text, r.err().map(|e| e.to_string()))
}

fn main() {
    if std::env::var("KV_LOUD").is_err() {
        kvh::quiet_panics();
    }
    let args = Args::parse();
    let mut rep = Report::new("C03", &args);
    rep.rule = "a case = (match arms, subject mode, subject value(s)) or (unpack targets, iterable); match arms come from a systematic family (every parenthesised shape × 5 element symbols × {last, non-last, after-failing} alternative) and a seeded random generator (≤4 arms × ≤3 alternatives × nesting ≤3, maps, literals, `_`, type hints, guards, multi-subject); subjects are all tuples and lists of length ≤ 3 (quick) / ≤ 4 (thorough) over {0, 1, 'a', null, (0,), [1]} plus a fixed pool of maps, strings, ranges, numbers, null, bools and nested values; distinct = distinct (arms, subject) request text; non-trivial = at least one non-null subject".into();
    let open: Vec<String> =
        rep.known_open().iter().filter_map(|e| e.get("id").and_then(|x| x.as_str()).map(|s| s.to_string())).collect();
    let mut drv = Driver::spawn(&args.driver);
    // the model mirrors the repairs whose findings are recorded as fixed (Match.Cfg)
    let fixed = |id: &str| {
        rep.known_entries().iter().any(|e| {
            e.get("id").and_then(|x| x.as_str()) == Some(id) && e.get("status").and_then(|x| x.as_str()) == Some("fixed")
        })
    };
    let subj_fixed = fixed("F-C03-2");
    // /repo 3d805f4 (C04-fix-6) narrows F-C03-11: map patterns bind all-or-nothing. The entry stays
    // `known`; the commit is recorded in its `partial_fix_commits`.
    let map_atomic = rep.known_entries().iter().any(|e| {
        e.get("id").and_then(|x| x.as_str()) == Some("F-C03-11")
            && e.get("partial_fix_commits").and_then(|x| x.as_array()).is_some_and(|a| a.iter().any(|c| c.as_str() == Some("3d805f4")))
    });
    let cfg_line = format!(
        "cfg {} {} {} {} {} {} {}",
        fixed("F-C03-1") as u8,
        fixed("F-C03-3") as u8,
        fixed("F-C03-4") as u8,
        fixed("F-C03-5") as u8,
        subj_fixed as u8,
        fixed("F-C03-8") as u8,
        map_atomic as u8
    );
    let core_keys_ok = fixed("F-C03-6");
    assert_eq!(drv.ask(&cfg_line), "ok");
    rep.extra.insert("model_cfg".into(), json!(cfg_line));
    let mut cx = Ctx { rep, drv, imp: Impl::new(), open, known_counts: Default::default(), k_fail: 0, d_fail: 0, compile_fail: 0 };

    // --- replay: the program of a replay file is re-run and printed
    if let Some(p) = &args.replay {
        let v: serde_json::Value = serde_json::from_str(&std::fs::read_to_string(p).expect("replay file")).unwrap();
        let prog = v["detail"]["program"].as_str().expect("program");
        let (script, call) = match prog.split_once("\n# call: ") {
            Some((s, c)) => (s.to_string(), Some(c.to_string())),
            None => (prog.to_string(), None),
        };
        let src = match &call {
            Some(c) => {
                // the script ends with the function (tuple); bind it and perform the call
                let (body, last) = script.trim_end().rsplit_once('\n').unwrap();
                let fname = c.split('(').next().unwrap();
                if last.starts_with('(') {
                    format!("{}\nprint {}", body, c)
                } else {
                    let _ = fname;
                    format!("{}\nprint {}", body, c)
                }
            }
            None => script.clone(),
        };
        let (out, err) = run_script_capture(&src);
        println!("program:\n{}\noutput:\n{}\nerror: {:?}", src, out, err);
        println!("recorded impl : {}", v["detail"]["impl"]);
        println!("recorded model: {}", v["detail"]["model"]);
        println!("recorded guide: {}", v["detail"]["guide"]);
        let same = v["detail"]["impl"].as_str().map(|s| !s.is_empty()).unwrap_or(false);
        if same {
            cx.rep.violation("D", "C03:replay", json!({"program": prog, "output": out, "error": err}));
        }
        std::process::exit(cx.rep.finish());
    }

    // --- 0. corpus
    if let Some(dir) = &args.corpus {
        if let Ok(rd) = std::fs::read_dir(dir) {
            let mut ps: Vec<_> = rd.filter_map(|e| e.ok()).map(|e| e.path()).filter(|p| p.extension().is_some_and(|e| e == "koto")).collect();
            ps.sort();
            for p in ps {
                let src = std::fs::read_to_string(&p).unwrap();
                let expected: String = src.lines().filter_map(|l| l.strip_prefix("#: ")).map(|l| format!("{}\n", l)).collect();
                let (out, err) = run_script_capture(&src);
                cx.rep.case(&format!("corpus:{}", p.display()), true);
                cx.rep.bump("origin=corpus");
                if out != expected || err.is_some() {
                    cx.d_fail += 1;
                    cx.rep.violation(
                        "D",
                        "C03:corpus",
                        json!({"program": src, "file": p.display().to_string(), "expected": expected, "output": out, "error": err}),
                    );
                }
            }
        }
    }

    // --- 1. known findings: replay each witness
    for e in cx.rep.known_entries() {
        let id = e.get("id").and_then(|x| x.as_str()).unwrap_or("").to_string();
        let Some(w) = e.get("witness").and_then(|x| x.as_str()) else { continue };
        let expected = e.get("expected_output").and_then(|x| x.as_str()).unwrap_or("");
        let (out, err) = run_script_capture(w);
        let passes = err.is_none() && out.trim_end() == expected.trim_end();
        let status_known = e.get("status").and_then(|s| s.as_str()) == Some("known");
        if status_known && !passes {
            cx.rep.known(&id, &format!("witness still deviates: printed {:?}{} (documented behaviour prints {:?})", out.trim_end(), err.as_ref().map(|e| format!(", error {:?}", e.lines().next().unwrap_or(""))).unwrap_or_default(), expected));
        } else if status_known && passes {
            cx.rep.note(format!("{}: witness now behaves as documented (entry can become 'fixed')", id));
        } else if !status_known && !passes {
            cx.d_fail += 1;
            cx.rep.violation("D", &format!("C03:regression:{}", id), json!({"program": w, "output": out, "error": err, "expected": expected, "note": "a finding recorded as fixed fails again"}));
        }
    }

    let thorough = args.thorough();
    let exh = exhaustive_subjects(if thorough { 4 } else { 3 });
    let extra = extra_subjects();
    let all_subjects: Vec<Vec<V>> = exh.iter().chain(extra.iter()).map(|v| vec![v.clone()]).collect();
    cx.rep.extra.insert("exhaustive_subjects".into(), json!(exh.len()));
    cx.rep.extra.insert("extra_subjects".into(), json!(extra.len()));
    let mut rng = Rng::new(args.seed);

    // --- 2. systematic family × all subjects
    let small_subjects: Vec<Vec<V>> =
        exhaustive_subjects(3).iter().chain(extra.iter()).map(|v| vec![v.clone()]).collect();
    let mut sys_run = 0usize;
    // (a) the complete family with ≤ 2 elements × every subject of this tier
    let sys2 = systematic_cases(2);
    for mc in &sys2 {
        cx.run_match_case(mc, &all_subjects);
        sys_run += 1;
    }
    // (b) the family with ≤ 3 elements: complete in thorough (against length ≤ 3 subjects, plus a
    //     seeded sample against length ≤ 4), a seeded sample in quick
    let sys3 = systematic_cases(3);
    if thorough {
        for mc in &sys3 {
            cx.run_match_case(mc, &small_subjects);
            sys_run += 1;
        }
        for _ in 0..300 {
            let mc = &sys3[rng.below(sys3.len())];
            cx.run_match_case(mc, &all_subjects);
            sys_run += 1;
        }
    } else {
        for _ in 0..150 {
            let mc = &sys3[rng.below(sys3.len())];
            cx.run_match_case(mc, &all_subjects);
            sys_run += 1;
        }
    }
    cx.rep.extra.insert(
        "systematic_sets".into(),
        json!({"family_le2_complete": sys2.len(), "family_le3": sys3.len(), "family_le3_complete": thorough, "run": sys_run}),
    );
    cx.rep.exhaustive = true;

    // --- 2b. same-name bindings (subject local's name bound by the patterns), all subjects
    let multi_pool_sn: Vec<Vec<V>> = {
        let base: Vec<V> = sequences(2).into_iter().map(V::T).chain(extra.iter().take(30).cloned()).collect();
        let mut out = vec![];
        for a in base.iter().step_by(2) {
            for b in base.iter().step_by(3) {
                out.push(vec![a.clone(), b.clone()]);
            }
        }
        out
    };
    let sn = same_name_cases();
    for mc in &sn {
        match mc.mode {
            Mode::Multi(_) => cx.run_match_case(mc, &multi_pool_sn),
            _ => cx.run_match_case(mc, &all_subjects),
        }
    }
    cx.rep.extra.insert("same_name_sets".into(), json!(sn.len()));

    // --- 2b'. arm count × subject kind × rebinding the subject's own name
    let rb = rebind_cases();
    for mc in &rb {
        cx.run_match_case(mc, &all_subjects);
    }
    cx.rep.extra.insert("rebind_subject_sets".into(), json!(rb.len()));

    // --- 2c. guarded last arms × result positions
    let gl = guarded_last_cases();
    for mc in &gl {
        match mc.mode {
            Mode::Multi(_) => cx.run_match_case(mc, &multi_pool_sn),
            _ => cx.run_match_case(mc, &small_subjects),
        }
    }
    cx.rep.extra.insert("guarded_last_sets".into(), json!(gl.len()));

    // --- 2d. chained two-step cases (slices used as subjects)
    {
        let mut chain_subjects: Vec<V> = exh.clone();
        for t in ["", "a", "ab", "abc", "abcd", "abcde"] {
            chain_subjects.push(V::S(t.into()));
        }
        chain_subjects.push(V::T((0..6).map(V::I).collect()));
        chain_subjects.push(V::L((0..6).map(V::I).collect()));
        let prs = producers();
        for pr in &prs {
            cx.run_chain(pr, &chain_subjects);
        }
        cx.rep.extra.insert("chain_producers".into(), json!(prs.iter().map(|p| p.name).collect::<Vec<_>>()));
    }

    // --- 2e. argument-unpacking grid
    {
        let at = vec![V::I(0), V::S("a".into()), V::T(vec![V::I(1), V::I(2)]), V::M(vec![("a".into(), V::I(5))])];
        let mut seqs: Vec<Vec<V>> = vec![vec![]];
        let mut prev: Vec<Vec<V>> = vec![vec![]];
        for _ in 0..4 {
            let mut nextv = vec![];
            for p in &prev {
                for a in &at {
                    let mut q = p.clone();
                    q.push(a.clone());
                    nextv.push(q);
                }
            }
            seqs.extend(nextv.iter().cloned());
            prev = nextv;
        }
        let subjects: Vec<V> = seqs.iter().flat_map(|x| vec![V::T(x.clone()), V::L(x.clone())]).collect();
        let pats = arg_grid_patterns();
        for p in &pats {
            cx.run_arg_grid(p, &subjects);
        }
        cx.rep.extra.insert("arg_grid".into(), json!({"patterns": pats.len(), "subjects": subjects.len()}));
    }

    // --- 3. random pattern sets
    let n_random = if thorough { 3000 } else { 700 };
    let multi_pool: Vec<V> = {
        let mut v = sequences(2).into_iter().map(V::T).collect::<Vec<_>>();
        v.extend(extra.iter().take(30).cloned());
        v
    };
    for i in 0..n_random {
        let allow_quirks = i % 4 == 3;
        let mc = Gen { rng: &mut rng, allow_quirks, subj_fixed, core_keys: core_keys_ok }.case();
        let subjects: Vec<Vec<V>> = match mc.mode {
            Mode::Multi(k) => {
                let mut out = vec![];
                let n = if thorough { 400 } else { 150 };
                for _ in 0..n {
                    out.push((0..k).map(|_| multi_pool[rng.below(multi_pool.len())].clone()).collect());
                }
                out
            }
            _ => {
                if i % 5 == 0 {
                    all_subjects.clone()
                } else {
                    // every extra subject + a seeded third of the exhaustive ones
                    let mut out: Vec<Vec<V>> = extra.iter().map(|v| vec![v.clone()]).collect();
                    let off = rng.below(3);
                    out.extend(exh.iter().skip(off).step_by(3).map(|v| vec![v.clone()]));
                    out
                }
            }
        };
        cx.run_match_case(&mc, &subjects);
    }

    // --- 4. unpacking
    let max_n = if thorough { 4 } else { 3 };
    for n in 1..=max_n {
        for mask in 0..(1u32 << n) {
            // mask bit set = `_`
            let mut next = 0usize;
            let ts: Vec<Option<usize>> = (0..n)
                .map(|i| {
                    if mask & (1 << i) != 0 {
                        None
                    } else {
                        let x = next;
                        next += 1;
                        Some(x)
                    }
                })
                .collect();
            let mut its = vec![];
            for len in 0..=(n + 2) {
                its.extend(iterables(len));
            }
            its.extend(once_values());
            cx.run_unpack(&ts, &its);
            if n >= 2 {
                for k in 2..=(n + 2) {
                    cx.run_unpack_temp(&ts, k);
                }
            }
        }
    }
    // stateful sources observed again afterwards
    for n in 1..=3usize {
        for mask in 0..(1u32 << n) {
            let mut next = 0usize;
            let ts: Vec<Option<usize>> = (0..n)
                .map(|i| {
                    if mask & (1 << i) != 0 {
                        None
                    } else {
                        let x = next;
                        next += 1;
                        Some(x)
                    }
                })
                .collect();
            if n == 1 {
                continue; // a single target is a plain assignment
            }
            let styles: &[u8] = if mask == 0 { &[0] } else { &[0, 1, 2] };
            for st in styles {
                cx.run_stateful_unpack(&ts, *st);
            }
        }
    }
    // duplicate target: the later write wins; swap through a temporary tuple
    cx.run_unpack(&[Some(0), Some(0)], &iterables(3));
    cx.run_unpack(&[Some(1), Some(0), Some(1)], &iterables(3));

    let kc = cx.known_counts.clone();
    for (id, n) in kc {
        cx.rep.bump_by(&format!("guide_deviation_attributed_to_{}", id), n);
    }
    let (k, d) = (cx.k_fail, cx.d_fail);
    cx.rep.extra.insert("k_disagreements".into(), json!(k));
    cx.rep.extra.insert("d_failures_unattributed".into(), json!(d));
    cx.rep.extra.insert("driver_requests".into(), json!(cx.drv.requests));
    std::process::exit(cx.rep.finish());
}
