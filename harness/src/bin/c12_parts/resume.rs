// Faults / debug statements that are the FIRST instruction executed after the interpreter (re-)enters
// a piece of code: the statement after a `yield` of a resumed generator, the first statement of a
// function body / callback / catch block, the statement after a call returned.
//
// For that the failing operation has to work on registers only (locals assigned earlier), so that no
// other instruction (constant load, non-local lookup) precedes it in its statement. The expected
// line is the fault's own line in all cases; a generator adds one interpreter entry (`Trace.Seg`):
// the frames inside the generator, then the line of the consumer that resumed it.

impl G {
    /// a failing operation on locals only; the locals are assigned by the `pre` statements
    fn register_fault(&mut self) -> (Vec<String>, Expr) {
        let n = self.uid();
        let (z, y) = (format!("z{n}"), format!("y{n}"));
        let m = M_FAULT;
        let s = M_STMT;
        let k = self.rng.below(12);
        let kind = format!("fault=reg{k}");
        let e = |txt: String, atomic: bool, stmt_only: bool| Expr { lines: vec![txt], atomic, stmt_only, is_call: false, kind: kind.clone() };
        let num_str = vec![format!("{s}{z} = {n}"), format!("{s}{y} = 'a{n}'")];
        match k {
            0 | 1 => {
                let op = *self.rng.pick(&["+", "-", "*", "/", "%"]);
                (num_str, e(format!("{m}({z} {op} {y})"), true, false))
            }
            2 => {
                let op = *self.rng.pick(&["<", ">", "<=", ">="]);
                (num_str, e(format!("{m}({z} {op} {y})"), true, false))
            }
            3 => (num_str, e(format!("{m}({z}..{y})"), true, false)),
            4 => (vec![format!("{s}{z} = [1]"), format!("{s}{y} = {}", 5 + n)], e(format!("{m}{z}[{y}]"), true, false)),
            5 => (vec![format!("{s}{z} = 'a{n}'")], e(format!("{m}(-{z})"), true, false)),
            6 => {
                let op = *self.rng.pick(&["+=", "-=", "*="]);
                (num_str, e(format!("{m}{z} {op} {y}"), false, true))
            }
            7 => (vec![format!("{s}{z} = 'boom {n}'")], e(format!("{m}throw {z}"), false, true)),
            8 => {
                let v = *self.rng.pick(&["7", "(0,)", "null"]);
                (vec![format!("{s}{z} = {v}"), format!("{s}{y} = 1")], e(format!("{m}{z}[{y}] = {y}"), false, true))
            }
            9 => (vec![format!("{s}{z} = 'str'"), format!("{s}{y} = 1")], e(format!("{m}{z}.k = {y}"), false, true)),
            10 => (vec![format!("{s}{z} = {n}")], e(format!("{m}{z}()"), true, false)),
            _ => (vec![format!("{s}{z} = {n}")], e(format!("{m}{z}.foo"), true, false)),
        }
    }

    /// a failing operation on a parameter `p` that holds a Number: nothing precedes it
    fn param_fault(&mut self, p: &str) -> (Vec<String>, Expr) {
        let m = M_FAULT;
        let k = self.rng.below(5);
        let kind = format!("fault=param{k}");
        let e = |txt: String, atomic: bool, stmt_only: bool| Expr { lines: vec![txt], atomic, stmt_only, is_call: false, kind: kind.clone() };
        let x = match k {
            0 => e(format!("{m}{p}.foo"), true, false),
            1 => e(format!("{m}{p}()"), true, false),
            2 => e(format!("{m}{p}[{p}]"), true, false),
            3 => e(format!("{m}{p}.k = {p}"), false, true),
            _ => e(format!("{m}{p}[{p}] = {p}"), false, true),
        };
        (vec![], x)
    }

    /// a fault at the k-th node of a (mostly multi-line) chain, see c12_parts/chains.rs
    fn chain_fault(&mut self) -> (Vec<String>, Expr) {
        let uid = self.uid();
        let ch = gen_chain(&mut self.rng, uid, true, true);
        for st in &ch.stats {
            self.stat(st.clone());
        }
        let pre: Vec<String> = ch.pre.iter().map(|l| format!("{M_STMT}{l}")).collect();
        let mut lines = ch.lines.clone();
        lines[ch.fault_rel] = format!("{M_FAULT}{}", lines[ch.fault_rel]);
        let single = lines.len() == 1;
        let stmt_only = !ch.assign.is_empty();
        // (a `:` of a type hint would start the format options inside a string interpolation: such a
        // chain is only used in plain statement contexts)
        let has_colon = lines.iter().any(|l| l.contains(':'));
        (pre, Expr { lines, atomic: single && !stmt_only && !has_colon, stmt_only, is_call: false, kind: "fault=chain".into() })
    }

    /// the statement that consumes the generator made by `callee(..)` far enough to reach the key
    /// statement, which runs after `yields` values have been produced. The marker sits on the line of
    /// the instruction that resumes the generator for the last time.
    fn consumer(&mut self, k: usize, callee: &str, yields: usize) -> Expr {
        let c = format!("{M_CALL}{k}");
        let e = format!("{M_CEND}{k}");
        let (a, b) = (self.int(), self.int());
        let v = self.v();
        let q = format!("q{}", self.uid());
        let call = match self.rng.below(3) {
            0 => format!("{callee}()"),
            1 => format!("{callee}({a})"),
            _ => format!("{callee}({a}, {b})"),
        };
        let f = self.rng.below(13);
        let kind = format!("consumer={f}");
        let all = *self.rng.pick(&[".to_tuple()", ".to_list()", ".count()", ".consume()", ".last()"]);
        let pass = *self.rng.pick(&[".each(|p| p)", ".keep(|p| true)", ".enumerate()", ".chain((1, 2))", ".skip(0)"]);
        let lines: Vec<String> = match f {
            0 => vec![format!("{c}{e}for {q} in {call}"), format!("  {v} = {q}")],
            1 => vec![format!("{c}{e}{v} = {call}{all}")],
            2 => vec![format!("{v} = {call}"), format!("{c}{e}  {all}")],
            3 => {
                // explicit resumption, one `next` per value
                let mut r = vec![format!("{q} = {call}")];
                for _ in 0..yields {
                    r.push(format!("{q}.next()"));
                }
                r.push(format!("{c}{e}{v} = {q}.next()"));
                r
            }
            4 => vec![format!("{v} = {call}"), format!("  {pass}"), format!("{c}{e}  {all}")],
            5 => {
                // unpacking pulls one value per target
                let targets: Vec<String> = (0..=yields.max(1)).map(|i| format!("{q}u{i}")).collect();
                vec![format!("{c}{e}{} = {call}", targets.join(", "))]
            }
            6 => vec![format!("{c}{e}for {q} in {call}{pass}"), format!("  {v} = {q}")],
            7 => vec![format!("{q} = {call}"), format!("{c}{e}{v} = iterator.next({q}.skip({yields}))")],
            8 => vec![format!("{c}{e}{v} = match {call}{all}"), "  0 then 1".into(), "  else 2".into()],
            // copies of the generator run to the same fault and report the same frames
            9 => vec![format!("{c}{e}{v} = koto.copy({call}){all}")],
            10 => vec![format!("{q} = {call}"), format!("{c}{e}{v} = koto.deep_copy({q}){all}")],
            11 => vec![format!("{v} = {call}"), "  .cycle()".to_string(), "  .take(50)".to_string(), format!("{c}{e}  {all}")],
            // (flatten hands the error of an inner generator through without a frame of its own)
            _ => vec![format!("{v} = [{call}, 0]"), "  .flatten()".to_string(), format!("{c}{e}  {all}")],
        };
        Expr { lines, atomic: false, stmt_only: true, is_call: true, kind }
    }
}

/// the lazy adaptors of crates/runtime/src/core_lib/iterator/adaptors.rs that record an error frame
/// (`error_frame` field: the line where the adaptor was created is added to the trace of an error
/// raised while it is advanced): (struct, how the generator exercises it)
const LAZY_ADAPTORS: &[(&str, &str)] = &[
    ("Each", "`.each |p|` callback, original and copies"),
    ("Keep", "`.keep |p|` predicate, original and copies"),
    ("TakeWhile", "`.take |p|` predicate, original and copies"),
    ("IntersperseWith", "`.intersperse ||` separator function, original and copies"),
    ("Flatten", "frame only for script code run while making the iterator of an element (an object's @iterator); errors of inner generators are handed through: generated as a pass-through consumer of generators only"),
];

impl Ctx {
    fn check_adaptor_table(&mut self) {
        let repo = std::env::var("KOTO_REPO").unwrap_or_else(|_| "/repo".into());
        let Ok(text) = std::fs::read_to_string(format!("{repo}/crates/runtime/src/core_lib/iterator/adaptors.rs")) else {
            self.rep.note("adaptor table: adaptors.rs not readable (KOTO_REPO), adaptors with error frames not cross-checked");
            return;
        };
        // structs whose definition has an `error_frame` field
        let mut real: Vec<String> = vec![];
        let mut cur: Option<String> = None;
        for l in text.lines() {
            if let Some(rest) = l.strip_prefix("pub struct ") {
                cur = Some(rest.chars().take_while(|c| c.is_ascii_alphanumeric()).collect());
            } else if l.starts_with('}') {
                cur = None;
            } else if l.trim_start().starts_with("error_frame:") && l.starts_with("    error_frame") {
                if let Some(c) = &cur {
                    real.push(c.clone());
                }
            }
        }
        let table: Vec<String> = LAZY_ADAPTORS.iter().map(|x| x.0.to_string()).collect();
        let missing: Vec<&String> = real.iter().filter(|x| !table.contains(x)).collect();
        let stale: Vec<&String> = table.iter().filter(|x| !real.contains(x)).collect();
        self.rep.bump_by("lazy_adaptors_with_error_frame_in_table", table.len() as u64);
        if !missing.is_empty() || !stale.is_empty() {
            self.k(
                "K:C12:lazy-adaptor-table",
                json!({"replay_kind": "adaptor-table", "program": "", "adaptors_not_in_table": missing, "table_entries_not_in_source": stale,
                       "note": "the set of iterator adaptors with an error frame in adaptors.rs changed: LAZY_ADAPTORS of harness/src/bin/c12_parts/resume.rs (which adaptors get planted faults in their callbacks) no longer enumerates it"}),
            );
        }
    }
}
