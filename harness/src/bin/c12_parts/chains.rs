// Multi-line chain expressions: `root` followed by units `.id` / `."str"`, each with suffixes
// `[index]`, `(call)` and `?` null checks, every unit on a line of its own.
//
// Position rule of the implementation (parser.rs consume_chain): an access node carries the span of
// its id / string token; `[..]`, `(..)` and `?` carry the span of the access (or root) they are
// attached to — they have to start on that token's line. The compiler (compile_chain) pushes the
// span of each next node before it emits that node's instructions and drops them all at the end of
// the chain, i.e. the nodes are nested `Steps.node`s of Model/SrcMap.lean.
//
// Used for (K1) the spans of the chain's instructions in the real source map vs `SrcMap.compile`,
// and (K3/D) planted faults at the k-th node, for every k, with and without `?` after each node.

#[derive(Clone, Debug, PartialEq)]
enum CNode {
    Id(String),
    Str(String),
    Index(usize),
    /// a call with `n` arguments of a value that is a function of `n` parameters
    Call(usize),
    /// `id1(x)`: the root is `id1`, the call passes the chain's value through
    CallPass,
    Null,
}

impl CNode {
    fn instr(&self) -> &'static str {
        match self {
            CNode::Id(_) => "Access",
            CNode::Str(_) => "AccessString",
            CNode::Index(_) => "Index",
            CNode::Call(_) | CNode::CallPass => "Call",
            CNode::Null => "JumpIfNull",
        }
    }
}

#[derive(Clone, Debug)]
struct ChainNodePos {
    kind: CNode,
    /// line of the node, relative to the first line of the chain
    rel_line: usize,
    /// columns of the token whose span the node carries, relative to the start of the chain's text on
    /// that line (first line) / to the start of the line's own text (continuation lines, which the
    /// generator indents by `CHAIN_INDENT`)
    col0: usize,
    col1: usize,
}

const CHAIN_INDENT: usize = 2;

#[derive(Clone, Debug)]
struct ChainSpec {
    /// statements defining the values the chain walks through (no markers), in order
    pre: Vec<String>,
    /// the chain; continuation lines are indented by CHAIN_INDENT
    lines: Vec<String>,
    /// (col0, col1) of the root token on the first line
    root: (usize, usize),
    nodes: Vec<ChainNodePos>,
    /// index of the failing node (None: the chain evaluates), or nodes.len() for a failing compound
    /// assignment operator after a chain that evaluates
    fault: Option<usize>,
    /// relative line of the fault
    fault_rel: usize,
    /// text appended to the last line (` = 5`, ` += 1`)
    assign: String,
    stats: Vec<String>,
}

/// `want_fault`: plant a failing node; `allow_assign`: the chain may be an assignment target
fn gen_chain(rng: &mut Rng, uid: usize, want_fault: bool, allow_assign: bool) -> ChainSpec {
    let mut stats = vec![];
    let n_units = 1 + rng.weighted(&[2, 4, 3, 2]);
    // structure: units[0] is the root unit
    let mut units: Vec<Vec<CNode>> = vec![];
    let root_form = rng.weighted(&[4, 1, 1]);
    let suffixes = |rng: &mut Rng, v: &mut Vec<CNode>| {
        let ns = rng.weighted(&[5, 3, 1]);
        for _ in 0..ns {
            if rng.chance(1, 2) {
                v.push(CNode::Index(1 + rng.below(2)));
            } else {
                v.push(CNode::Call(rng.below(2)));
            }
            if rng.chance(1, 3) {
                v.push(CNode::Null);
            }
        }
    };
    let mut ru = vec![];
    if root_form == 2 {
        ru.push(CNode::CallPass);
    }
    if rng.chance(1, 4) {
        suffixes(rng, &mut ru);
    }
    units.push(ru);
    for i in 0..n_units {
        let name = format!("k{i}");
        let mut u = vec![if rng.chance(1, 4) { CNode::Str(name) } else { CNode::Id(name) }];
        if rng.chance(1, 3) {
            u.push(CNode::Null);
        }
        suffixes(rng, &mut u);
        units.push(u);
    }
    // assignment target?
    let last_kind = units.last().unwrap().last().unwrap().clone();
    let mut assign = String::new();
    let mut assign_kind = 0; // 0 none, 1 simple, 2 compound
    if allow_assign && matches!(last_kind, CNode::Id(_) | CNode::Str(_) | CNode::Index(_)) && rng.chance(1, 3) {
        assign_kind = 1 + rng.below(2);
    }
    // choose the failing node
    let flat: Vec<(usize, CNode)> = units.iter().enumerate().flat_map(|(u, ns)| ns.iter().map(move |n| (u, n.clone()))).collect();
    let cands: Vec<usize> = flat.iter().enumerate().filter(|(_, (_, k))| !matches!(k, CNode::Null | CNode::CallPass)).map(|(i, _)| i).collect();
    let mut fault: Option<usize> = None;
    if want_fault {
        let last = *cands.last().unwrap();
        let t = if rng.chance(1, 3) { last } else { *rng.pick(&cands) };
        fault = Some(t);
        if assign_kind == 2 && rng.chance(1, 3) {
            // everything evaluates, the compound operator fails
            fault = Some(flat.len());
        }
    }
    // values, backwards from the failing node (or from the end)
    let mut pre: Vec<String> = vec![];
    let upto = fault.unwrap_or(flat.len()).min(flat.len());
    let mut cur = format!("c{uid}z");
    let after_null_check = upto > 0 && flat[upto - 1].1 == CNode::Null;
    let bad: String = match fault {
        None => "1".into(),
        Some(t) if t == flat.len() => "1".into(),
        Some(t) => {
            let simple_assign_end = assign_kind == 1 && t + 1 == flat.len();
            let mut opts: Vec<&str> = match &flat[t].1 {
                CNode::Id(_) | CNode::Str(_) => {
                    if simple_assign_end {
                        vec!["7", "'str'", "[1]"]
                    } else {
                        vec!["7", "'str'", "[1]", "{zz: 1}"]
                    }
                }
                CNode::Index(_) => vec!["[0]", "7", "(0,)"],
                _ => vec!["7", "'str'"],
            };
            if !after_null_check {
                opts.push("null");
            }
            let b = rng.pick(&opts).to_string();
            stats.push(format!("chain_bad_value={b}"));
            b
        }
    };
    pre.push(format!("{cur} = {bad}"));
    for i in (0..upto).rev() {
        let v = match &flat[i].1 {
            CNode::Id(name) | CNode::Str(name) => {
                if rng.chance(1, 3) {
                    format!("{{zz: 0, {name}: {cur}}}")
                } else {
                    format!("{{{name}: {cur}}}")
                }
            }
            CNode::Index(j) => {
                let mut items = vec!["0".to_string(); *j];
                items.push(cur.clone());
                if rng.chance(1, 2) { format!("[{}]", items.join(", ")) } else { format!("({})", items.join(", ")) }
            }
            CNode::Call(0) => format!("|| {cur}"),
            CNode::Call(_) => format!("|x| {cur}"),
            CNode::CallPass | CNode::Null => continue,
        };
        let nm = format!("c{uid}v{i}");
        pre.push(format!("{nm} = {v}"));
        cur = nm;
    }
    // text
    let mut lines: Vec<String> = vec![];
    let mut nodes: Vec<ChainNodePos> = vec![];
    let root_text = match root_form {
        0 => cur.clone(),
        1 => format!("({cur})"),
        _ => "id1".to_string(),
    };
    let root = (0usize, root_text.len());
    let mut line = root_text.clone();
    let mut rel = 0usize;
    let mut span_cols = root;
    let suffix_text = |rng: &mut Rng, k: &CNode, cur: &str| -> String {
        match k {
            CNode::Index(j) => format!("[{j}]"),
            CNode::Call(0) => "()".into(),
            // (a function literal with type hints as argument: its spans must be gone again when the
            // call instruction is emitted, also when type checks are disabled)
            CNode::Call(_) => {
                if rng.chance(1, 3) {
                    "(|p: Number, q: String| -> Number p)".to_string()
                } else {
                    format!("({})", rng.below(9))
                }
            }
            CNode::CallPass => format!("({cur})"),
            CNode::Null => "?".into(),
            _ => unreachable!(),
        }
    };
    for (ui, u) in units.iter().enumerate() {
        for (ni, k) in u.iter().enumerate() {
            if ui > 0 && ni == 0 {
                // a new unit: on its own line (mostly)
                let own_line = !rng.chance(1, 7);
                if own_line {
                    lines.push(std::mem::take(&mut line));
                    rel += 1;
                    line = " ".repeat(CHAIN_INDENT);
                }
                let base = if rel == 0 { line.len() } else { line.len() - CHAIN_INDENT };
                match k {
                    CNode::Id(name) => {
                        line.push('.');
                        line.push_str(name);
                        span_cols = (base + 1, base + 1 + name.len());
                    }
                    CNode::Str(name) => {
                        let q = *rng.pick(&["'", "\""]);
                        line.push_str(&format!(".{q}{name}{q}"));
                        span_cols = (base + 1, base + 3 + name.len());
                    }
                    _ => unreachable!(),
                }
            } else {
                let t = suffix_text(rng, k, &cur);
                line.push_str(&t);
            }
            nodes.push(ChainNodePos { kind: k.clone(), rel_line: rel, col0: span_cols.0, col1: span_cols.1 });
        }
    }
    match assign_kind {
        1 => assign = format!(" = {}", rng.below(9)),
        2 => assign = if fault == Some(flat.len()) { " += null".to_string() } else { format!(" += {}", 1 + rng.below(9)) },
        _ => {}
    }
    line.push_str(&assign);
    lines.push(line);
    let fault_rel = match fault {
        Some(t) if t < nodes.len() => nodes[t].rel_line,
        Some(_) => nodes.last().unwrap().rel_line,
        None => 0,
    };
    stats.push(format!("chain_lines={}", lines.len()));
    stats.push(format!("chain_nodes={}", nodes.len().min(9)));
    stats.push(format!("chain_root={}", ["id", "nested", "call"][root_form]));
    stats.push(format!("chain_assign={}", ["none", "simple", "compound"][assign_kind]));
    stats.push(format!("chain_ends_with_null_check={}", nodes.last().is_some_and(|n| n.kind == CNode::Null)));
    if let Some(t) = fault {
        if t < nodes.len() {
            let is_last_op = nodes[t + 1..].iter().all(|n| n.kind == CNode::Null);
            stats.push(format!("chain_fault_node={}", nodes[t].kind.instr()));
            stats.push(format!("chain_fault_at={}", if is_last_op { "last-node" } else if t == 0 { "first-node" } else { "inner-node" }));
            stats.push(format!("chain_fault_checked_after={}", nodes.get(t + 1).is_some_and(|n| n.kind == CNode::Null)));
            let own = nodes.iter().filter(|n| n.rel_line == nodes[t].rel_line).all(|n| (n.col0, n.col1) == (nodes[t].col0, nodes[t].col1)) && nodes[t].rel_line > 0;
            if is_last_op && own && nodes.last().is_some_and(|n| n.kind == CNode::Null) {
                stats.push("chain_fault_shape=last-node-on-own-line-before-final-null-check".into());
            }
            stats.push(format!("chain_fault_line_of_its_own={}", nodes.iter().filter(|n| n.rel_line == nodes[t].rel_line).all(|n| (n.col0, n.col1) == (nodes[t].col0, nodes[t].col1)) && nodes[t].rel_line > 0));
        } else {
            stats.push("chain_fault_node=compound-operator".into());
        }
    }
    ChainSpec { pre: pre, lines, root, nodes, fault, fault_rel, assign, stats }
}

impl Ctx {
    /// (K1 + D) one chain: spans of the chain's instructions in the compiled chunk against
    /// `SrcMap.compile` run on the chain's nesting structure, and against the nodes' own lines
    fn chainmap_case(&mut self, src: &str, first_line: usize, indent: usize, c0: usize, root: (usize, usize), nodes: &[(String, usize, usize, usize)], quiet: bool) -> Option<String> {
        // expected span of node i: line first_line + rel, columns: first line offset by c0 (the
        // column where the chain's text starts), continuation lines by indent + CHAIN_INDENT
        let span_of = |rel: usize, a: usize, b: usize| -> Span {
            let off = if rel == 0 { c0 } else { indent + CHAIN_INDENT };
            mkspan((first_line + rel) as u32, (off + a) as u32, (first_line + rel) as u32, (off + b) as u32)
        };
        let want: Vec<(String, Span)> = nodes.iter().map(|(k, rel, a, b)| (k.clone(), span_of(*rel, *a, *b))).collect();
        let root_span = span_of(0, root.0, root.1);
        // model: nested nodes, one instruction each
        let mut req = format!("compile {}", span_s(&root_span));
        for (_, sp) in &want {
            req.push_str(&format!(" ({} o1", span_s(sp)));
        }
        for _ in &want {
            req.push_str(" )");
        }
        let resp = self.drv.ask(&req);
        let model: Vec<String> = resp.split(' ').skip(2).map(|t| t.split_once('=').map(|x| x.1.to_string()).unwrap_or_default()).collect();
        self.rep.case(&format!("chainmap {req} {} {}", kvh::fnv1a(src.as_bytes()), settings_label()), nodes.len() >= 3);
        let det = |what: &str, extra: Value| {
            json!({"replay_kind": "chainmap", "settings": [settings().0, settings().1], "program": src, "first_line": first_line, "indent": indent, "c0": c0, "root": [root.0, root.1],
                   "nodes": nodes.iter().map(|(k, r, a, b)| json!([k, r, a, b])).collect::<Vec<_>>(), "model": resp, "what": what, "observed": extra})
        };
        let chunk = match compile(src) {
            Ok(c) => c,
            Err(e) => {
                let d = det("generated program does not compile", json!(e.to_string()));
                if !quiet {
                    self.d("C12:generated-program-rejected", d);
                }
                return Some("C12:generated-program-rejected".into());
            }
        };
        // the chain's key instructions: by kind, among the instructions attributed to the chain's lines
        let last_line = first_line + nodes.iter().map(|n| n.1).max().unwrap_or(0);
        let mut reader = InstructionReader::new(chunk.clone());
        let mut real: Vec<(String, Option<Span>)> = vec![];
        loop {
            let ip = reader.ip as u32;
            let Some(instr) = reader.next() else { break };
            use koto_bytecode::Instruction as I;
            let name = match instr {
                I::Access { .. } => "Access",
                I::AccessString { .. } => "AccessString",
                I::Index { .. } => "Index",
                I::Call { .. } | I::CallInstance { .. } => "Call",
                I::JumpIfNull { .. } => "JumpIfNull",
                _ => continue,
            };
            let sp = chunk.debug_info.get_source_span(ip);
            if sp.is_some_and(|s| (s.start.line as usize) >= first_line && (s.start.line as usize) <= last_line) {
                real.push((name.to_string(), sp));
            }
        }
        let real_s: Vec<String> = real.iter().map(|(k, sp)| format!("{k}@{}", ospan_s(sp))).collect();
        let want_s: Vec<String> = want.iter().map(|(k, sp)| format!("{k}@{}", span_s(sp))).collect();
        let mut fail: Option<(String, Value, bool)> = None;
        // (D) every node's instruction is attributed to the node's own line
        let kinds_agree = real.len() == want.len() && real.iter().zip(want.iter()).all(|(r, w)| r.0 == w.0);
        if kinds_agree {
            for (i, (r, w)) in real.iter().zip(want.iter()).enumerate() {
                if r.1.map(|s| s.start.line) != Some(w.1.start.line) {
                    fail = Some((
                        "C12:chain-node-line".into(),
                        det("the instruction of a chain node is attributed to another line than the node's own", json!({"node": i, "instruction": r.0, "impl_span": ospan_s(&r.1), "node_span": span_s(&w.1), "impl": real_s, "expected": want_s})),
                        false,
                    ));
                    break;
                }
            }
        }
        // (K1) the model's lookups for the nested-node structure = the real lookups
        if fail.is_none() {
            let model_s: Vec<String> = want.iter().zip(model.iter()).map(|((k, _), m)| format!("{k}@{m}")).collect();
            if model_s != real_s || model.len() != want.len() {
                fail = Some((
                    "K:C12:SrcMap.compile".into(),
                    det("the spans of the chain's instructions in the real source map differ from SrcMap.compile on the chain's node structure (instr_span / span_stack_balanced no longer describe compile_chain)", json!({"impl": real_s, "model": model_s})),
                    true,
                ));
            }
        }
        self.rep.bump_by("chain_instructions_compared", real.len() as u64);
        match fail {
            None => None,
            Some((name, d, is_k)) => {
                if !quiet {
                    if is_k {
                        self.k(&name, d);
                    } else {
                        self.d(&name, d);
                    }
                }
                Some(name)
            }
        }
    }

    fn chainmaps(&mut self, rng: &mut Rng, n: usize) {
        for i in 0..n {
            let want_fault = rng.chance(1, 2);
            let ch = gen_chain(rng, i, want_fault, false);
            for s in &ch.stats {
                if !s.starts_with("chain_fault") && !s.starts_with("chain_bad") {
                    self.rep.bump(&format!("k1_{s}"));
                }
            }
            // layout: optional nesting in a function / block, `x = ` / `return ` / bare
            let indent = 2 * rng.below(3);
            let pad = " ".repeat(indent);
            let mut lines: Vec<String> = vec!["id1 = |a| a".into()];
            let mut inner: Vec<String> = ch.pre.clone();
            let head = *rng.pick(&["x = ", "x = 1 + ", "return ", "y = x = "]);
            let first_rel = inner.len();
            inner.push(format!("{head}{}", ch.lines[0]));
            inner.extend(ch.lines[1..].iter().cloned());
            inner.push("z = 0".into());
            match indent {
                0 => {}
                2 => lines.push("f = ||".into()),
                _ => {
                    lines.push("f = ||".into());
                    lines.push("  if true".into());
                }
            }
            let first_line = lines.len() + first_rel;
            lines.extend(inner.into_iter().map(|l| format!("{pad}{l}")));
            let src = lines.join("\n") + "\n";
            let nodes: Vec<(String, usize, usize, usize)> = ch.nodes.iter().map(|n| (n.kind.instr().to_string(), n.rel_line, n.col0, n.col1)).collect();
            self.chainmap_case(&src, first_line, indent, indent + head.len(), ch.root, &nodes, false);
            // and under another combination of the compiler's code generation flags
            set_settings(*rng.pick(&[(false, false), (false, false), (true, true), (true, false)]));
            self.chainmap_case(&src, first_line, indent, indent + head.len(), ch.root, &nodes, false);
            set_settings(DEFAULT_SETTINGS);
            if self.rep.samples.len() < 12 && i == 3 {
                self.rep.max_samples += 1;
                self.rep.sample(json!({"kind": "chainmap", "program": src, "nodes": nodes.iter().map(|(k, r, a, b)| json!([k, r, a, b])).collect::<Vec<_>>()}));
            }
        }
    }
}
