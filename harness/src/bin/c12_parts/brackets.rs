// (D) syntactic breaks inside multi-line bracketed constructs: the first bad token sits on a line of
// its own (or on the line of the element before it) after 0..n well-formed elements.
//
// Expectation rule: every element before the bad token is a complete expression followed by a comma
// (or, for the element directly before the bad token, a literal that no further token can extend),
// so the first token that cannot continue any valid program is the planted one; the error must be
// reported on its line.

struct BracketBreak {
    lines: Vec<String>,
    /// line (relative to `lines`) of the first bad token
    bad_rel: usize,
    kind: String,
    stats: Vec<String>,
}

/// the bracketed constructs: (name, lines before the opener line, opener line, closer, element style,
/// extra indentation of the opener line)
const BR_CONSTRUCTS: usize = 9;

struct BrShape {
    name: &'static str,
    pre: Vec<String>,
    open: String,
    close: String,
    /// text after the closer on the closer's line
    tail: &'static str,
    /// 0 = expressions, 1 = `key: value` entries, 2 = parameter names
    style: u8,
    /// indentation of the opener line relative to the statement
    open_indent: usize,
}

fn br_shape(rng: &mut Rng, c: usize, n: usize) -> BrShape {
    let q = format!("q{n}");
    let lhs = if rng.chance(1, 4) { String::new() } else { format!("{q} = ") };
    let mk = |name, pre: Vec<String>, open: String, close: &str, tail, style, open_indent| BrShape { name, pre, open, close: close.to_string(), tail, style, open_indent };
    match c {
        0 => mk("call", vec![], format!("{lhs}id2("), ")", "", 0, 0),
        1 => mk("chain-call", vec![], format!("{lhs}m{n}.go("), ")", "", 0, 0),
        2 => mk("chain-call-continued", vec![format!("{q} = m{n}")], ".go(".to_string(), ")", "", 0, 2),
        3 => mk("list", vec![], format!("{q} = ["), "]", "", 0, 0),
        4 => mk("tuple", vec![], format!("{q} = ("), ")", "", 0, 0),
        5 => mk("map", vec![], format!("{q} = {{"), "}", "", 1, 0),
        6 => mk("fn-args", vec![], format!("{q} = |"), "|", " 0", 2, 0),
        7 => mk("call-of-call", vec![], format!("{lhs}id1(id2)("), ")", "", 0, 0),
        _ => mk("return-list", vec![], "return [".to_string(), "]", "", 0, 0),
    }
}

/// a well-formed element; `closed`: no token on the same or the next line can extend it
fn br_element(rng: &mut Rng, style: u8, i: usize, closed: bool) -> Vec<String> {
    let a = rng.below(90);
    match style {
        1 => {
            let v = if closed { a.to_string() } else { rng.pick(&[a.to_string(), format!("v{a}"), format!("[{a}, 1]"), format!("id1({a})")]).clone() };
            vec![format!("k{i}: {v}")]
        }
        2 => vec![format!("a{i}")],
        _ => {
            if closed {
                return vec![if rng.chance(1, 3) { format!("'s{a}'") } else { a.to_string() }];
            }
            match rng.below(10) {
                0 => vec![format!("v{a}")],
                1 => vec![format!("id1({a})")],
                2 => vec![format!("[{a}, 2]")],
                3 => vec![format!("({a}, 2)")],
                4 => vec![format!("{{a: {a}}}")],
                5 => vec![format!("{a} + v{a}")],
                6 => vec!["[".to_string(), format!("  {a},"), "  2".to_string(), "]".to_string()],
                7 => vec!["id2(".to_string(), format!("  {a},"), "  2".to_string(), ")".to_string()],
                8 => vec![format!("'s {{{a}}}'")],
                _ => vec![a.to_string()],
            }
        }
    }
}

fn gen_bracket_break(rng: &mut Rng, n: usize, depth: usize) -> BracketBreak {
    if depth == 0 && rng.chance(1, 16) {
        // an index expression stays on one line: the bad token follows the index on the same line
        let a = rng.below(90);
        let tok = *rng.pick(&["7", "then", "else", ")", "}", ","]);
        let lines = vec![format!("q{n} = v{n}[{a} {tok}]")];
        let kind = format!("index:{}:same-line", if tok == "7" { "elem-after-missing-comma" } else { tok });
        return BracketBreak { lines, bad_rel: 0, kind, stats: vec!["bracket=index".into(), "bracket_place=same-line".into()] };
    }
    if depth == 0 && rng.chance(1, 10) {
        // an error that the parser registers and raises later (`key as name` in a map that turns out
        // not to be an assignment target): with several rebinds on different lines the FIRST is
        // the offending token
        let (open, close) = *rng.pick(&[("q = {", "}"), ("q = id1({", "})"), ("q = [1, {", "}]"), ("return {", "}"), ("q = {a: {", "}}")]);
        let mut lines = vec![open.replace("q =", &format!("q{n} ="))];
        let before = rng.below(3);
        for i in 0..before {
            lines.push(format!("  b{i}: {},", rng.below(90)));
        }
        let rebinds = 1 + rng.weighted(&[1, 3, 2, 1]);
        let bad_rel = lines.len();
        for i in 0..rebinds {
            lines.push(format!("  k{i} as r{i},"));
            if rng.chance(1, 3) {
                lines.push(format!("  c{i}: {},", rng.below(90)));
            }
        }
        lines.push(close.to_string());
        let stats = vec!["bracket=map-rebind-on-rhs".to_string(), format!("bracket_repeated_bad_tokens={rebinds}")];
        return BracketBreak { lines, bad_rel, kind: format!("map-rebind-on-rhs:x{rebinds}"), stats };
    }
    let c = rng.below(BR_CONSTRUCTS);
    let sh = br_shape(rng, c, n);
    let mut stats = vec![format!("bracket={}", sh.name)];
    let oi = " ".repeat(sh.open_indent);
    let ei = " ".repeat(sh.open_indent + 2);
    let mut lines: Vec<String> = sh.pre.clone();
    lines.push(format!("{oi}{}", sh.open));
    // well-formed elements before the break
    let k = rng.weighted(&[2, 3, 3, 2]);
    // nested: the break sits inside an element that is itself a bracketed construct
    if depth == 0 && sh.style == 0 && rng.chance(1, 5) {
        for i in 0..k {
            let mut e = br_element(rng, sh.style, i, false);
            e.last_mut().unwrap().push(',');
            lines.extend(e.into_iter().map(|l| format!("{ei}{l}")));
        }
        let inner = gen_bracket_break(rng, n + 1, 1);
        // the inner statement `q = [` is not an element; use its expression form only
        let base = lines.len();
        let mut il = inner.lines.clone();
        if let Some((_, rhs)) = il[0].split_once(" = ") {
            il[0] = rhs.to_string();
        }
        if il[0].starts_with("return ") || inner.kind.starts_with("chain-call-continued") {
            // not an expression: fall through to a plain break below
        } else {
            lines.extend(il.into_iter().map(|l| format!("{ei}{l}")));
            lines.push(format!("{oi}{}{}", sh.close, sh.tail));
            stats.extend(inner.stats);
            stats.push("bracket_nested=yes".into());
            return BracketBreak { lines, bad_rel: base + inner.bad_rel, kind: format!("{}>{}", sh.name, inner.kind), stats };
        }
        lines.truncate(base);
        lines.truncate(sh.pre.len() + 1);
    }
    // kind of the bad token
    let mut bk = rng.below(4);
    if k == 0 && bk == 0 {
        bk = 1 + rng.below(3);
    }
    if sh.style == 2 && bk == 2 {
        // `a =` in a parameter list introduces a default value: `=` is not a bad token there
        bk = if rng.chance(1, 2) { 1 } else { 3 };
    }
    let same_line = k >= 1 && rng.chance(1, 4);
    // whether the element before the bad token keeps its comma (a missing comma is the break of kind 0)
    let comma_before = bk != 0 && !same_line && rng.chance(1, 2);
    for i in 0..k {
        let last = i + 1 == k;
        let mut e = br_element(rng, sh.style, i, last && !comma_before);
        if !last || comma_before {
            e.last_mut().unwrap().push(',');
        }
        lines.extend(e.into_iter().map(|l| format!("{ei}{l}")));
    }
    let wrong_closers: Vec<&str> = ["]", ")", "}"].into_iter().filter(|x| *x != sh.close).collect();
    let (tok, name): (String, String) = match bk {
        0 => {
            let e = br_element(rng, sh.style, k, true);
            (e[0].clone(), "elem-after-missing-comma".into())
        }
        1 => {
            let kw = *rng.pick(&["then", "else"]);
            (kw.to_string(), format!("keyword-{kw}"))
        }
        2 => ("=".to_string(), "assign".into()),
        _ => {
            let w = *rng.pick(&wrong_closers);
            (w.to_string(), format!("wrong-closer{w}"))
        }
    };
    let mut bad_rel;
    if same_line {
        let l = lines.last_mut().unwrap();
        l.push(' ');
        l.push_str(&tok);
        bad_rel = lines.len() - 1;
    } else {
        // a closer usually sits at the opener's indentation
        let ind = if bk == 3 && rng.chance(1, 2) { &oi } else { &ei };
        lines.push(format!("{ind}{tok}"));
        bad_rel = lines.len() - 1;
        if bk == 2 && k >= 1 && !comma_before {
            // `<literal>` line break `=`: inside brackets an expression may be continued by `=` on the
            // next line (`x` / `= 1` assigns), so `=` is accepted as the assignment operator and the
            // error (`expected target for assignment`) is about the expression before it: the
            // offending token is that literal (one line, directly above)
            bad_rel -= 1;
            stats.push("bracket_assign_target_blamed=yes".into());
        }
    }
    // the rest of the construct; sometimes with a second bad token on a later line (the first one
    // must be reported)
    if bk != 3 && rng.chance(1, 4) {
        lines.push(format!("{ei}{}", *rng.pick(&["then", "else", "=", wrong_closers[0]])));
        stats.push("bracket_repeated_bad_tokens=2".into());
    }
    if bk != 3 {
        if rng.chance(1, 2) {
            lines.last_mut().unwrap().push(',');
            let e = br_element(rng, sh.style, k + 1, false);
            lines.extend(e.into_iter().map(|l| format!("{ei}{l}")));
        }
        lines.push(format!("{oi}{}{}", sh.close, sh.tail));
    }
    stats.push(format!("bracket_elems_before={k}"));
    stats.push(format!("bracket_bad={name}"));
    stats.push(format!("bracket_place={}", if same_line { "same-line" } else { "own-line" }));
    let kind = format!("{}:{}:{}{}", sh.name, name, if same_line { "same-line" } else { "own-line" }, if comma_before { ":after-comma" } else { "" });
    BracketBreak { lines, bad_rel, kind, stats }
}

/// developer aid: where does the parser report each kind of break?
fn survey_brackets(seed: u64, n: usize) {
    let mut rng = Rng::new(seed);
    let mut tab: std::collections::BTreeMap<String, (usize, usize, String)> = Default::default();
    for i in 0..n {
        let b = gen_bracket_break(&mut rng, i, 0);
        let mut lines = vec!["id1 = |a| a".to_string(), "id2 = |a, b| a".to_string()];
        let base = lines.len();
        lines.extend(b.lines.iter().cloned());
        lines.push("z = 1".into());
        let src = lines.join("\n") + "\n";
        let got = koto_parser::Parser::parse(&src).err().map(|e| (e.span, e.error.to_string()));
        let key = b.kind.rsplit('>').next().unwrap().to_string() + if b.kind.contains('>') { " (nested)" } else { "" };
        let e = tab.entry(key).or_insert((0, 0, String::new()));
        match got {
            Some((sp, _)) if sp.start.line as usize == base + b.bad_rel => e.0 += 1,
            other => {
                e.1 += 1;
                if e.2.is_empty() {
                    e.2 = format!("expected line {} got {:?}\n{}", base + b.bad_rel, other.map(|(s, m)| (span_s(&s), m)), src);
                }
            }
        }
    }
    for (k, (ok, bad, ex)) in &tab {
        if *bad > 0 || std::env::var("SURVEY_ALL").is_ok() {
            println!("{:>5} ok {:>5} MISMATCH  {k}", ok, bad);
        }
        if *bad > 0 {
            println!("      first: {}", ex.replace('\n', "\n      | "));
        }
    }
}
