// (D) errors of the bytecode compiler (`compile-stage:*`) and of the parser's arm bookkeeping with the
// offending construct on a LATER line than the start of the statement that contains it.
//
// `STAGE_TABLE` lists every variant of `ErrorKind` in crates/bytecode/src/compiler.rs: either the
// generator forms that raise it, or the reason why no source text can. `check_stage_table` compares
// the names with the enum in the source file on every run (a new / renamed variant is reported).

/// (variant, generated?, note)
const STAGE_TABLE: &[(&str, bool, &str)] = &[
    ("UnexpectedNode", false, "internal: the parser never builds the node shapes it guards against"),
    ("AssigningToATemporaryValue", true, "assignment to a call at the end of a (multi-line) chain"),
    ("ExpectedOptionalArgumentValue", true, "parameter without default after one with a default, one parameter per line"),
    ("InvalidBinaryOp", false, "internal: compile_binary_op dispatch on the op kind"),
    ("InvalidLoopKeyword", true, "break / continue outside of a loop, inside a multi-line list / an if block"),
    ("InvalidMatchPattern", true, "a negated id as pattern of a later match arm"),
    ("InvalidPositionForArgWithEllipses", true, "ellipsis in the middle of a nested parameter tuple, one entry per line"),
    ("JumpOffsetIsTooLarge", false, "size limit (a block of more than 65535 bytes of bytecode), no single offending token"),
    ("FunctionPropertyLimit", true, "a function literal with 300 parameters as a later element of a multi-line list (the locals variant spans the whole function: no single offending token)"),
    ("MissingArgumentInForLoop", false, "the parser rejects `for in x` first (probed)"),
    ("MissingArgRegister", false, "internal"),
    ("MissingAssignmentTargetRegister", false, "internal"),
    ("MissingImportItem", false, "the parser rejects `from x import` first (probed)"),
    ("MissingNextChainNode", false, "internal"),
    ("MissingChainParentRegister", false, "internal"),
    ("MissingResultRegister", false, "internal"),
    ("MissingStringNodes", false, "internal"),
    ("MissingTypeCheckOnCatchBlock", true, "untyped catch block followed by another catch block"),
    ("MissingValueForMapEntry", false, "the parser rejects a non-id key without value first (probed); an id key without value is the shorthand"),
    ("MultipleMatchEllipses", true, "two ellipses in a nested pattern of a later match arm"),
    ("NoResultInExpressionOutput", false, "internal"),
    ("OutOfPositionChildNodeInChain", false, "internal"),
    ("OutOfPositionMatchEllipsis", true, "ellipsis in the middle of a nested pattern of a later match arm"),
    ("OutOfPositionRootNodeInChain", false, "internal"),
    ("ResultingBytecodeIsTooLarge", false, "size limit (4 GB)"),
    ("TooManyNestedPatterns", true, "130 patterns in a nested pattern of a later match arm (the parameter-tuple twin is a FunctionPropertyLimit: 130 nested parameters on a later line of a parameter list)"),
    ("TooManyAssignmentTargets", true, "260 targets in an assignment inside an if block"),
    ("TooManyContainerEntries", false, "size limit (2^32 entries)"),
    ("TypeCheckOnLastCatchBlock", true, "typed last catch block"),
    ("UnassignedBreakValue", true, "break with a value in a loop whose value is unused"),
    ("UnexpectedEllipsis", false, "the parser rejects an ellipsis outside of call arguments / nested patterns first (probed)"),
    ("UnexpectedIgnoredValue", true, "an ignored id read as a later element of a multi-line list"),
    ("UnexpectedMatchPatternCount", true, "a later match arm with the wrong number of patterns, also after `or`"),
    ("Parser", false, "wrapper: parser errors are the other break kinds"),
    ("FrameError", false, "wrapper: register / stack limits of a frame, no single offending token"),
];

/// variants of `enum ErrorKind` in the compiler's source text
fn compiler_error_kinds() -> Option<Vec<String>> {
    let repo = std::env::var("KOTO_REPO").unwrap_or_else(|_| "/repo".into());
    let text = std::fs::read_to_string(format!("{repo}/crates/bytecode/src/compiler.rs")).ok()?;
    let start = text.find("enum ErrorKind {")?;
    let body = &text[start..];
    let end = body.find("\n}\n")?;
    let mut out = vec![];
    for l in body[..end].lines().skip(1) {
        if let Some(rest) = l.strip_prefix("    ") {
            let name: String = rest.chars().take_while(|c| c.is_ascii_alphanumeric()).collect();
            if rest.starts_with(|c: char| c.is_ascii_uppercase()) && !name.is_empty() {
                out.push(name);
            }
        }
    }
    Some(out)
}

struct StageBreak {
    lines: Vec<String>,
    bad_rel: usize,
    kind: String,
    /// must not be placed inside a loop
    top_only: bool,
}

const STAGE_FORMS: usize = 22;

fn gen_stage_break(rng: &mut Rng, n: usize) -> StageBreak {
    let q = format!("q{n}");
    let a = rng.below(90);
    let f = rng.below(STAGE_FORMS);
    let v = |lines: &[&str], bad_rel: usize, kind: &str, top_only: bool| StageBreak { lines: lines.iter().map(|x| x.replace("Q", &q).replace("N", &a.to_string())).collect(), bad_rel, kind: kind.to_string(), top_only };
    let many = |name: &str, k: usize| (0..k).map(|i| format!("{name}{i}")).collect::<Vec<_>>().join(", ");
    match f {
        0 => v(&["Q = [", "  N,", "  break", "]"], 2, "compile-stage:InvalidLoopKeyword:break-in-list", true),
        1 => v(&["if true", "  Q = N", "  continue"], 2, "compile-stage:InvalidLoopKeyword:continue-in-if", true),
        2 => v(&["Q = N +", "  (break)"], 1, "compile-stage:InvalidLoopKeyword:break-continued-line", true),
        3 => {
            let h = *rng.pick(&["loop", "while true", "for Qi in 0..2"]);
            v(&[h, "  Q = N", "  break N", "Q = 0"], 2, "compile-stage:UnassignedBreakValue", false)
        }
        4 => v(&["Q = [", "  N,", "  _Q", "]"], 2, "compile-stage:UnexpectedIgnoredValue:in-list", false),
        5 => v(&["Q = id2(", "  N,", "  _ + 1", ")"], 2, "compile-stage:UnexpectedIgnoredValue:in-call-args", false),
        6 => v(&["Q = |", "  a,", "  (b,", "   c...,", "   d,", "   e...)", "| a"], 3, "compile-stage:InvalidPositionForArgWithEllipses", false),
        7 => v(&["Q = |", "  a = N,", "  b", "| a"], 2, "compile-stage:ExpectedOptionalArgumentValue", false),
        8 => v(&["try", "  Q = N", "catch e", "  Q = 1", "catch other", "  Q = 2"], 2, "compile-stage:MissingTypeCheckOnCatchBlock", false),
        9 => v(&["try", "  Q = N", "catch e: String", "  Q = 1"], 2, "compile-stage:TypeCheckOnLastCatchBlock", false),
        10 => v(&["match (1, 2, 3, N)", "  (1, 2) then 0", "  (a, b..., c, d) then 1"], 2, "compile-stage:OutOfPositionMatchEllipsis", false),
        11 => v(&["match (1, 2, 3, N)", "  (1, 2) then 0", "  (a..., b, c...) then 1"], 2, "compile-stage:MultipleMatchEllipses", false),
        12 => v(&["match N", "  0 then 0", "  -Q then 1"], 2, "compile-stage:InvalidMatchPattern", false),
        13 => v(&["match N, 2", "  0, 0 then 0", "  1, 2 or 3 then 1"], 2, "compile-stage:UnexpectedMatchPatternCount:after-or", false),
        14 => v(&["match N, 2", "  0, 0 then 0", "  a then 1"], 2, "compile-stage:UnexpectedMatchPatternCount", false),
        15 => v(&["id1(id1)", "  .call_it(N) = 1"], 1, "compile-stage:AssigningToATemporaryValue:chain-line", false),
        16 => v(&["Q = [", "  N,", "  id1(id1)() = 2", "]"], 2, "compile-stage:AssigningToATemporaryValue:in-list", false),
        17 => {
            let t = vec![format!("{q}t"); 260].join(", ");
            StageBreak { lines: vec!["if true".into(), format!("  {q} = {a}"), format!("  {t} = 1")], bad_rel: 2, kind: "compile-stage:TooManyAssignmentTargets".into(), top_only: false }
        }
        19 => StageBreak { lines: vec![format!("match ({a}, 2)"), "  (1, 2) then 0".into(), format!("  ({}) then 1", many("n", 130))], bad_rel: 2, kind: "compile-stage:TooManyNestedPatterns".into(), top_only: false },
        20 => StageBreak { lines: vec![format!("{q} = |"), "  a,".into(), format!("  ({})", many("n", 130)), "| a".into()], bad_rel: 2, kind: "compile-stage:FunctionPropertyLimit:nested-args".into(), top_only: false },
        18 => StageBreak { lines: vec![format!("{q} = ["), format!("  {a},"), format!("  |{}| 0", many("p", 300)), "]".into()], bad_rel: 2, kind: "compile-stage:FunctionPropertyLimit:args".into(), top_only: false },
        _ => {
            // parser: an arm after the `else` arm of a switch / match; the offending token is the
            // `else` that is not in the last arm
            let sw = rng.chance(1, 2);
            let else_block = rng.chance(1, 3);
            let second_else = rng.chance(1, 4);
            let mut lines = if sw { vec!["switch".to_string(), format!("  {a} == 0 then 1")] } else { vec![format!("match {a}"), "  0 then 1".to_string()] };
            if rng.chance(1, 2) {
                lines.insert(1, if sw { format!("  {a} == 5 then 0") } else { "  5 then 0".to_string() });
            }
            let bad_rel = lines.len();
            if else_block {
                lines.push("  else".into());
                lines.push(format!("    {q} = 2"));
            } else {
                lines.push("  else 2".into());
            }
            lines.push(if second_else { "  else 3".to_string() } else if sw { format!("  {a} == 1 then 3") } else { "  1 then 3".to_string() });
            StageBreak { lines, bad_rel, kind: format!("arm-after-else:{}{}", if sw { "switch" } else { "match" }, if second_else { ":second-else" } else { "" }), top_only: false }
        }
    }
}

impl Ctx {
    /// the table covers exactly the variants of the compiler's `ErrorKind`
    fn check_stage_table(&mut self) {
        match compiler_error_kinds() {
            None => self.rep.note("compile-stage table: crates/bytecode/src/compiler.rs not readable (KOTO_REPO), ErrorKind variants not cross-checked"),
            Some(real) => {
                let table: Vec<String> = STAGE_TABLE.iter().map(|x| x.0.to_string()).collect();
                let missing: Vec<&String> = real.iter().filter(|x| !table.contains(x)).collect();
                let stale: Vec<&String> = table.iter().filter(|x| !real.contains(x)).collect();
                self.rep.bump_by("compiler_error_kinds_in_table", table.len() as u64);
                self.rep.bump_by("compiler_error_kinds_generated", STAGE_TABLE.iter().filter(|x| x.1).count() as u64);
                if !missing.is_empty() || !stale.is_empty() {
                    self.k(
                        "K:C12:compile-stage-table",
                        json!({"replay_kind": "stage-table", "program": "", "variants_not_in_table": missing, "table_entries_not_in_enum": stale,
                               "note": "ErrorKind of crates/bytecode/src/compiler.rs changed: STAGE_TABLE of harness/src/bin/c12_parts/stage.rs (which compile errors are generated with a known offending line) no longer enumerates it"}),
                    );
                }
            }
        }
    }
}

/// developer aid: where is each form reported?
fn survey_stage(seed: u64, n: usize) {
    let mut rng = Rng::new(seed);
    let mut tab: std::collections::BTreeMap<String, (usize, usize, String)> = Default::default();
    for i in 0..n {
        let b = gen_stage_break(&mut rng, i);
        let mut lines = vec!["id1 = |a| a".to_string(), "id2 = |a, b| a".to_string()];
        let base = lines.len();
        lines.extend(b.lines.iter().cloned());
        lines.push("z = 1".into());
        let src = lines.join("\n") + "\n";
        let got = match run_real(&src) {
            Real::Compile { span: Some(sp), rendered } => Some((sp, rendered.unwrap_or_default().lines().next().unwrap_or("").to_string())),
            _ => None,
        };
        let e = tab.entry(b.kind.clone()).or_insert((0, 0, String::new()));
        match got {
            Some((sp, _)) if sp.start.line as usize == base + b.bad_rel => e.0 += 1,
            other => {
                e.1 += 1;
                if e.2.is_empty() {
                    e.2 = format!("expected line {} got {:?}\n{}", base + b.bad_rel, other.map(|(s, m)| (span_s(&s), m)), src.chars().take(400).collect::<String>());
                }
            }
        }
    }
    for (k, (ok, bad, ex)) in &tab {
        println!("{:>5} ok {:>5} MISMATCH  {k}", ok, bad);
        if *bad > 0 {
            println!("      first: {}", ex.replace('\n', "\n      | "));
        }
    }
}
