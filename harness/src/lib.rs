//! kvh — shared harness library for the koto verification checks.
//!
//! Every per-property binary (`src/bin/cXX.rs`) links the real koto crates from /repo (path
//! dependencies, rebuilt from the current working tree) and uses the helpers below to
//!   * derive all random choices from one SplitMix64 state (`Rng`),
//!   * talk to the Lean model driver over the line protocol (`Driver`),
//!   * run cases in isolation (`catch`, `worker`),
//!   * and write a machine-readable report (`Report`) that `/verif/check` folds into the
//!     evidence file.

pub mod canon;
pub mod proto;
pub mod report;
pub mod rng;
pub mod worker;

pub use proto::{hex, unhex, Driver};
pub use report::{Args, Report};
pub use rng::Rng;

/// Run a closure, converting a panic into `Err(message)`.
pub fn catch<T>(f: impl FnOnce() -> T) -> Result<T, String> {
    let r = std::panic::catch_unwind(std::panic::AssertUnwindSafe(f));
    match r {
        Ok(v) => Ok(v),
        Err(e) => {
            let msg = if let Some(s) = e.downcast_ref::<&str>() {
                s.to_string()
            } else if let Some(s) = e.downcast_ref::<String>() {
                s.clone()
            } else {
                "<non-string panic>".to_string()
            };
            Err(msg)
        }
    }
}

/// Silence the default panic hook (cases run under `catch`; a panic is an outcome, not noise).
pub fn quiet_panics() {
    if std::env::var_os("KVH_LOUD").is_some() {
        return;
    }
    std::panic::set_hook(Box::new(|_| {}));
}

/// FNV-1a, used for compact comparison of long canonical outputs.
pub fn fnv1a(bytes: &[u8]) -> u64 {
    let mut h: u64 = 0xcbf29ce484222325;
    for b in bytes {
        h ^= *b as u64;
        h = h.wrapping_mul(0x100000001b3);
    }
    h
}
