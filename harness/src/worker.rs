//! Isolated worker processes: cases that may hang, abort or overflow the native stack run in a
//! child (the same binary re-executed with `--worker ...`) with a wall-clock limit per request.
use std::io::{BufRead, BufReader, Write};
use std::process::{Child, ChildStdin, Command, Stdio};
use std::sync::mpsc::{channel, Receiver, RecvTimeoutError};
use std::time::Duration;

pub enum Reply {
    Ok(String),
    Timeout,
    Died(String),
}

pub struct Worker {
    child: Child,
    stdin: ChildStdin,
    rx: Receiver<String>,
    args: Vec<String>,
}

impl Worker {
    pub fn spawn(args: &[String]) -> Worker {
        let exe = std::env::current_exe().expect("current_exe");
        let mut child = Command::new(exe)
            .args(args)
            .stdin(Stdio::piped())
            .stdout(Stdio::piped())
            .stderr(Stdio::null())
            .spawn()
            .expect("spawn worker");
        let stdin = child.stdin.take().unwrap();
        let stdout = child.stdout.take().unwrap();
        let (tx, rx) = channel();
        std::thread::spawn(move || {
            let r = BufReader::new(stdout);
            for line in r.lines() {
                match line {
                    Ok(l) => {
                        if tx.send(l).is_err() {
                            break;
                        }
                    }
                    Err(_) => break,
                }
            }
        });
        Worker { child, stdin, rx, args: args.to_vec() }
    }

    fn restart(&mut self) {
        let _ = self.child.kill();
        let _ = self.child.wait();
        *self = Worker::spawn(&self.args.clone());
    }

    /// Send one request line; on timeout or death the worker is restarted.
    pub fn request(&mut self, line: &str, timeout: Duration) -> Reply {
        debug_assert!(!line.contains('\n'));
        if self.stdin.write_all(line.as_bytes()).is_err()
            || self.stdin.write_all(b"\n").is_err()
            || self.stdin.flush().is_err()
        {
            let st = self.child.wait().map(|s| s.to_string()).unwrap_or_default();
            self.restart();
            return Reply::Died(st);
        }
        match self.rx.recv_timeout(timeout) {
            Ok(s) => Reply::Ok(s),
            Err(RecvTimeoutError::Timeout) => {
                self.restart();
                Reply::Timeout
            }
            Err(RecvTimeoutError::Disconnected) => {
                let st = self.child.wait().map(|s| s.to_string()).unwrap_or_default();
                self.restart();
                Reply::Died(st)
            }
        }
    }
}

impl Drop for Worker {
    fn drop(&mut self) {
        let _ = self.child.kill();
        let _ = self.child.wait();
    }
}

/// Worker side: answer each stdin line with exactly one stdout line.
pub fn serve(mut f: impl FnMut(&str) -> String) {
    let stdin = std::io::stdin();
    let stdout = std::io::stdout();
    let mut line = String::new();
    loop {
        line.clear();
        let n = stdin.lock().read_line(&mut line).unwrap_or(0);
        if n == 0 {
            break;
        }
        let l = line.trim_end_matches(['\n', '\r']);
        let mut r = f(l);
        r.retain(|c| c != '\n');
        let mut o = stdout.lock();
        let _ = o.write_all(r.as_bytes());
        let _ = o.write_all(b"\n");
        let _ = o.flush();
    }
}
