//! Canonical text for runtime values:
//! `null | b0 | b1 | i<dec> | f<16 hex bits> | s<hex-with-x> | (l …) | (t …) | (m (k v) …) |
//!  (r <start|_> <end|_> <0|1 inclusive>) | <fn> | <native> | <iter> | <obj:Type>`.
//! Floats are printed as IEEE bit patterns (all NaNs as one quiet NaN); map entries keep insertion
//! order (that order is part of the language's contract).
use koto_runtime::{KNumber, KValue};

pub fn num(n: &KNumber) -> String {
    match n {
        KNumber::I64(i) => format!("i{}", i),
        KNumber::F64(f) => float(*f),
    }
}

pub fn float(f: f64) -> String {
    let bits = if f.is_nan() { 0x7ff8000000000000u64 } else { f.to_bits() };
    format!("f{:016x}", bits)
}

pub fn value(v: &KValue) -> String {
    let mut s = String::new();
    write_value(v, &mut s, 0);
    s
}

fn write_value(v: &KValue, out: &mut String, depth: usize) {
    if depth > 64 {
        out.push_str("<deep>");
        return;
    }
    match v {
        KValue::Null => out.push_str("null"),
        KValue::Bool(b) => out.push_str(if *b { "b1" } else { "b0" }),
        KValue::Number(n) => out.push_str(&num(n)),
        KValue::Str(s) => {
            out.push('s');
            out.push_str(&crate::hex(s.as_str().as_bytes()));
        }
        KValue::Range(r) => {
            out.push_str("(r ");
            match r.start() {
                Some(a) => out.push_str(&a.to_string()),
                None => out.push('_'),
            }
            out.push(' ');
            match r.end() {
                Some((b, incl)) => {
                    out.push_str(&b.to_string());
                    out.push_str(if incl { " 1" } else { " 0" });
                }
                None => out.push_str("_ 0"),
            }
            out.push(')');
        }
        KValue::List(l) => {
            out.push_str("(l");
            for x in l.data().iter() {
                out.push(' ');
                write_value(x, out, depth + 1);
            }
            out.push(')');
        }
        KValue::Tuple(t) => {
            out.push_str("(t");
            for x in t.data().iter() {
                out.push(' ');
                write_value(x, out, depth + 1);
            }
            out.push(')');
        }
        KValue::Map(m) => {
            out.push_str("(m");
            for (k, x) in m.data().iter() {
                out.push_str(" (");
                write_value(k.value(), out, depth + 1);
                out.push(' ');
                write_value(x, out, depth + 1);
                out.push(')');
            }
            out.push(')');
        }
        KValue::Function(_) => out.push_str("<fn>"),
        KValue::NativeFunction(_) => out.push_str("<native>"),
        KValue::Iterator(_) => out.push_str("<iter>"),
        KValue::Object(o) => {
            out.push_str("<obj:");
            match o.try_borrow() {
                Ok(b) => out.push_str(b.type_string().as_str()),
                Err(_) => out.push('?'),
            }
            out.push('>');
        }
        KValue::TemporaryTuple(_) => out.push_str("<temptuple>"),
    }
}
