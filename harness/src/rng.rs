/// SplitMix64: every random choice in a run derives from one state seeded by VERIF_SEED.
#[derive(Clone, Debug)]
pub struct Rng(pub u64);

impl Rng {
    pub fn new(seed: u64) -> Self {
        Rng(seed ^ 0x9E3779B97F4A7C15)
    }
    pub fn next_u64(&mut self) -> u64 {
        self.0 = self.0.wrapping_add(0x9E3779B97F4A7C15);
        let mut z = self.0;
        z = (z ^ (z >> 30)).wrapping_mul(0xBF58476D1CE4E5B9);
        z = (z ^ (z >> 27)).wrapping_mul(0x94D049BB133111EB);
        z ^ (z >> 31)
    }
    /// uniform in 0..n (n > 0)
    pub fn below(&mut self, n: usize) -> usize {
        (self.next_u64() % (n as u64)) as usize
    }
    /// uniform in lo..=hi
    pub fn range(&mut self, lo: i64, hi: i64) -> i64 {
        lo + (self.next_u64() % ((hi - lo + 1) as u64)) as i64
    }
    pub fn chance(&mut self, num: u32, den: u32) -> bool {
        (self.next_u64() % den as u64) < num as u64
    }
    pub fn pick<'a, T>(&mut self, xs: &'a [T]) -> &'a T {
        &xs[self.below(xs.len())]
    }
    /// weighted choice: returns index
    pub fn weighted(&mut self, ws: &[u32]) -> usize {
        let total: u32 = ws.iter().sum();
        let mut x = (self.next_u64() % total as u64) as u32;
        for (i, w) in ws.iter().enumerate() {
            if x < *w {
                return i;
            }
            x -= *w;
        }
        ws.len() - 1
    }
    pub fn fork(&mut self) -> Rng {
        Rng(self.next_u64())
    }
}
