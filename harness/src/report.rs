//! Command-line arguments shared by all per-property binaries, and the run report they write.
use serde_json::{json, Map, Value};
use std::collections::{BTreeMap, HashSet};
use std::path::PathBuf;

#[derive(Clone, Debug)]
pub struct Args {
    pub tier: String,
    pub seed: u64,
    pub driver: Vec<String>,
    pub out: Option<PathBuf>,
    pub replay_dir: PathBuf,
    pub replay: Option<PathBuf>,
    pub known: Option<PathBuf>,
    pub corpus: Option<PathBuf>,
    pub extra: Vec<String>,
}

impl Args {
    /// `--tier quick|thorough --seed N --out report.json --replay-dir DIR [--replay FILE]
    ///  [--known known_findings.json] [--corpus DIR] [--driver PROG ARGS... --]  [extra...]`
    pub fn parse() -> Args {
        let mut a = Args {
            tier: "quick".into(),
            seed: 1,
            driver: vec![],
            out: None,
            replay_dir: PathBuf::from("."),
            replay: None,
            known: None,
            corpus: None,
            extra: vec![],
        };
        let mut it = std::env::args().skip(1);
        while let Some(x) = it.next() {
            match x.as_str() {
                "--tier" => a.tier = it.next().unwrap(),
                "--seed" => a.seed = it.next().unwrap().parse().unwrap(),
                "--out" => a.out = Some(it.next().unwrap().into()),
                "--replay-dir" => a.replay_dir = it.next().unwrap().into(),
                "--replay" => a.replay = Some(it.next().unwrap().into()),
                "--known" => a.known = Some(it.next().unwrap().into()),
                "--corpus" => a.corpus = Some(it.next().unwrap().into()),
                "--driver" => {
                    for y in it.by_ref() {
                        if y == "--" {
                            break;
                        }
                        a.driver.push(y);
                    }
                }
                _ => a.extra.push(x),
            }
        }
        a
    }
    pub fn thorough(&self) -> bool {
        self.tier == "thorough"
    }
    pub fn has_flag(&self, f: &str) -> bool {
        self.extra.iter().any(|x| x == f)
    }
}

pub struct Report {
    pub property: String,
    pub args: Args,
    pub evaluations: u64,
    distinct: HashSet<u64>,
    pub rule: String,
    pub samples: Vec<Value>,
    pub max_samples: usize,
    pub dist: BTreeMap<String, u64>,
    pub exhaustive: bool,
    pub violations: Vec<Value>,
    pub known_seen: Vec<Value>,
    pub notes: Vec<String>,
    pub extra: Map<String, Value>,
    known_entries: Vec<Value>,
    start: std::time::Instant,
}

impl Report {
    pub fn new(property: &str, args: &Args) -> Report {
        let mut known_entries = vec![];
        if let Some(p) = &args.known {
            if let Ok(txt) = std::fs::read_to_string(p) {
                if let Ok(v) = serde_json::from_str::<Value>(&txt) {
                    if let Some(arr) = v.get("findings").and_then(|x| x.as_array()) {
                        for e in arr {
                            if e.get("property").and_then(|x| x.as_str()) == Some(property) {
                                known_entries.push(e.clone());
                            }
                        }
                    }
                }
            }
        }
        Report {
            property: property.to_string(),
            args: args.clone(),
            evaluations: 0,
            distinct: HashSet::new(),
            rule: String::new(),
            samples: vec![],
            max_samples: 8,
            dist: BTreeMap::new(),
            exhaustive: false,
            violations: vec![],
            known_seen: vec![],
            notes: vec![],
            extra: Map::new(),
            known_entries,
            start: std::time::Instant::now(),
        }
    }

    /// All entries of known_findings.json for this property (status "known" or "fixed").
    pub fn known_entries(&self) -> Vec<Value> {
        self.known_entries.clone()
    }
    /// Entries with status "known" only.
    pub fn known_open(&self) -> Vec<Value> {
        self.known_entries
            .iter()
            .filter(|e| e.get("status").and_then(|s| s.as_str()) == Some("known"))
            .cloned()
            .collect()
    }

    /// Count one evaluated case. `key` identifies the case (canonical request text);
    /// `nontrivial` is the per-property rule.
    pub fn case(&mut self, key: &str, nontrivial: bool) {
        self.evaluations += 1;
        if nontrivial {
            self.distinct.insert(crate::fnv1a(key.as_bytes()));
        }
    }
    pub fn bump(&mut self, k: &str) {
        *self.dist.entry(k.to_string()).or_insert(0) += 1;
    }
    pub fn bump_by(&mut self, k: &str, n: u64) {
        *self.dist.entry(k.to_string()).or_insert(0) += n;
    }
    pub fn sample(&mut self, v: Value) {
        if self.samples.len() < self.max_samples {
            self.samples.push(v);
        }
    }
    pub fn distinct_nontrivial(&self) -> u64 {
        self.distinct.len() as u64
    }

    /// Record a violation: writes a replay file, prints the VIOLATION line.
    /// `kind`: "D" (property fails on the implementation for this input),
    ///         "K" (model and implementation disagree; no failing input found),
    ///         "P" (a proof obligation no longer checks; no failing input found).
    pub fn violation(&mut self, kind: &str, name: &str, detail: Value) {
        let n = self.violations.len();
        if n >= 20 {
            // keep counting, stop writing files
            self.violations.push(json!({"kind": kind, "name": name, "suppressed_file": true}));
            return;
        }
        let _ = std::fs::create_dir_all(&self.args.replay_dir);
        let path = self.args.replay_dir.join(format!(
            "{}-{}-seed{}-{}.json",
            self.property, self.args.tier, self.args.seed, n
        ));
        let no_input = kind != "D";
        let body = json!({
            "property": self.property,
            "kind": kind,
            "name": name,
            "tier": self.args.tier,
            "seed": self.args.seed,
            "no_failing_input_found": no_input,
            "detail": detail,
        });
        let _ = std::fs::write(&path, serde_json::to_string_pretty(&body).unwrap());
        if no_input {
            println!(
                "VIOLATION property={} replay={} no-failing-input-found",
                self.property,
                path.display()
            );
        } else {
            println!("VIOLATION property={} replay={}", self.property, path.display());
        }
        self.violations.push(json!({"kind": kind, "name": name, "replay": path.display().to_string()}));
    }

    pub fn known(&mut self, id: &str, what: &str) {
        println!("KNOWN-FINDING: property={} {} {}", self.property, id, what);
        self.known_seen.push(json!({"id": id, "what": what}));
    }

    pub fn note(&mut self, s: impl Into<String>) {
        self.notes.push(s.into());
    }

    /// Write the report; returns the process exit code.
    pub fn finish(self) -> i32 {
        let wall = self.start.elapsed().as_secs_f64();
        let v = json!({
            "property_id": self.property,
            "tier": self.args.tier,
            "seed": self.args.seed,
            "evaluations": self.evaluations,
            "distinct_nontrivial": self.distinct.len(),
            "rule": self.rule,
            "samples": self.samples,
            "distribution": self.dist,
            "exhaustive": self.exhaustive,
            "violations": self.violations,
            "known_findings_seen": self.known_seen,
            "notes": self.notes,
            "extra": self.extra,
            "harness_wall_s": wall,
        });
        if let Some(p) = &self.args.out {
            std::fs::write(p, serde_json::to_string_pretty(&v).unwrap()).expect("write report");
        }
        if self.violations.is_empty() {
            0
        } else {
            1
        }
    }
}
