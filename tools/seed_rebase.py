#!/usr/bin/env python3
"""tools/seed_rebase.py [<seed-name> ...]   (default: every seeded/* whose patch no longer applies)
/repo moves on (fix: commits); a seeded patch written against an older HEAD may stop applying.
Re-create patch.diff against the current /repo HEAD (patch --fuzz in the scratch worktree
/tmp/mut/_confirm), keep the original as patch.orig.diff, re-confirm it (tools/confirm_mut.sh: demo
passes clean, suite passes patched, demo fails patched) and record that in meta.json."""
import json, os, shutil, subprocess, sys
root = os.path.dirname(os.path.dirname(os.path.abspath(__file__)))
wt = "/tmp/mut/_confirm"
def sh(*a, **k): return subprocess.run(a, capture_output=True, text=True, **k)
head = sh("git", "-C", "/repo", "rev-parse", "HEAD").stdout.strip()
names = sys.argv[1:] or sorted(n for n in os.listdir(os.path.join(root, "seeded")) if not n.startswith("_"))
os.makedirs("/tmp/mut", exist_ok=True)
if not os.path.isdir(wt): sh("git", "-C", "/repo", "worktree", "add", "--detach", wt, "HEAD")
for name in names:
    d = os.path.join(root, "seeded", name); p = os.path.join(d, "patch.diff")
    try:
        if json.load(open(os.path.join(d, "meta.json"))).get("obsolete_on_head"):
            continue
    except Exception:
        pass
    if sh("git", "-C", "/repo", "apply", "--check", p).returncode == 0:
        if len(sys.argv) > 1: print(name, "applies; nothing to do")
        continue
    sh("git", "-C", wt, "checkout", "-q", "--detach", head); sh("git", "-C", wt, "checkout", "-q", "--", "."); sh("git", "-C", wt, "clean", "-fdq", "-e", "target")
    r = subprocess.run(["patch", "-p1", "--fuzz=3", "--no-backup-if-mismatch", "-i", p], cwd=wt, capture_output=True, text=True)
    if r.returncode != 0:
        print(name, "CANNOT REBASE automatically:\n", r.stdout[-400:]); sh("git", "-C", wt, "checkout", "-q", "--", "."); continue
    new = sh("git", "-C", wt, "diff").stdout
    sh("git", "-C", wt, "checkout", "-q", "--", ".")
    if not os.path.exists(os.path.join(d, "patch.orig.diff")): shutil.copy(p, os.path.join(d, "patch.orig.diff"))
    open(p, "w").write(new)
    c = sh(os.path.join(root, "tools/confirm_mut.sh"), d)
    ok = c.stdout.strip().endswith("CONFIRMED") and "NOT-CONFIRMED" not in c.stdout
    meta = json.load(open(os.path.join(d, "meta.json")))
    meta.setdefault("rebased", []).append({"onto": head[:7], "reconfirmed": ok,
        "result": [l for l in c.stdout.splitlines() if l.startswith(("RESULT", "     Summary"))],
        "note": "patch.diff re-created against this /repo HEAD (same change; context moved by later fix: commits); original kept as patch.orig.diff"})
    json.dump(meta, open(os.path.join(d, "meta.json"), "w"), indent=1, ensure_ascii=False)
    print(name, "rebased onto", head[:7], "reconfirmed=", ok)
