#!/bin/bash
# tools/mutcheck.sh <patch.diff> <tier> <id> [<id> ...]
# Runs ./check for the given properties against a scratch worktree of /repo with the patch applied,
# WITHOUT touching /repo or this /verif tree (used while other work is going on in /repo; the
# authoritative procedure "git -C /repo apply; ./check; git -C /repo checkout -- ." gives the same
# result). Everything lives under /tmp/mut/<name> and is removed afterwards.
set -u
patch=$(readlink -f "$1"); tier=$2; shift 2
name=$(basename "$patch" .diff)-$$
base=/tmp/mut/$name
mkdir -p "$base"
trap 'git -C /repo worktree remove --force "$base/repo" >/dev/null 2>&1; rm -rf "$base"' EXIT
git -C /repo worktree add --detach "$base/repo" HEAD >/dev/null 2>&1 || { echo "worktree failed"; exit 2; }
if ! git -C "$base/repo" apply "$patch"; then echo "PATCH DOES NOT APPLY"; exit 2; fi
# copy of /verif (tracked + untracked sources, lean build cache; no harness target)
rsync -a --exclude 'harness/target*' --exclude '.scratch' --exclude 'replay' --exclude '.git' /verif/ "$base/verif/"
sed -i "s#path = \"/repo/#path = \"$base/repo/#" "$base/verif/harness/Cargo.toml"
# reuse a shared target dir for mutation builds to avoid cold builds (serialised by cargo's lock)
# keep the shared scratch target small (it accumulates one set of artifacts per patched path)
if [ -d /tmp/mut/_target ] && [ "$(du -s /tmp/mut/_target 2>/dev/null | cut -f1)" -gt 15000000 ]; then rm -rf /tmp/mut/_target; fi
export CARGO_TARGET_DIR_OVERRIDE=/tmp/mut/_target
export KOTO_REPO="$base/repo"
rc_all=0
for id in "$@"; do
  ( cd "$base/verif" && timeout 3000 ./check "$id" "$tier" ) > "$base/$id.out" 2>&1
  rc=$?
  echo "== $id rc=$rc"
  grep -E "^(VIOLATION|KNOWN-FINDING|\[check)" "$base/$id.out" | sed "s#$base/verif#/verif#g" | head -12
  for r in $(grep -oE "replay=[^ ]+" "$base/$id.out" | cut -d= -f2 | head -2); do
    echo "   -- $(basename $r):"; python3 -c "
import json,sys
d=json.load(open('$r'))
print('   ', d.get('kind'), d.get('name')); print('   ', json.dumps(d.get('detail'),ensure_ascii=False)[:700])" 2>/dev/null
  done
  [ $rc -ne 0 ] && rc_all=1
done
exit $rc_all
