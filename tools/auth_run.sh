#!/bin/bash
# authoritative run: apply a kept seeded change to /repo itself, run the quick check, undo it straight afterwards
cd /verif
for s in "$@"; do
  p=${s%%-*}
  if ! git -C /repo apply --check /verif/seeded/$s/patch.diff 2>/dev/null; then echo "$s DOES-NOT-APPLY"; continue; fi
  git -C /repo apply /verif/seeded/$s/patch.diff
  ./check $p quick > /tmp/auth_$s.log 2>&1; rc=$?
  git -C /repo checkout -- .
  first=$(grep -m1 '^VIOLATION' /tmp/auth_$s.log | cut -c1-120)
  echo "$s rc=$rc $first"
  python3 - "$s" "$rc" "$first" <<'PY'
import json,sys,time,subprocess
s,rc,first=sys.argv[1],int(sys.argv[2]),sys.argv[3]
p=f'/verif/seeded/{s}/meta.json'; m=json.load(open(p))
head=subprocess.run(['git','-C','/repo','rev-parse','--short','HEAD'],capture_output=True,text=True).stdout.strip()
m['authoritative_run']={'when':time.strftime('%Y-%m-%dT%H:%M:%SZ',time.gmtime()),'repo_head':head,'procedure':'git -C /repo apply seeded/%s/patch.diff; ./check %s quick; git -C /repo checkout -- .'%(s,s.split('-')[0]),'rc':rc,'first_violation_line':first,'detected':rc!=0}
json.dump(m,open(p,'w'),indent=1,ensure_ascii=False)
PY
done
git -C /repo status --short | wc -l
