#!/usr/bin/env python3
"""tools/seed_recheck.py <seed-name> <note> <property> [...]
Re-run the quick check(s) against an already kept seeded change (after a check was strengthened or a
model was updated) and append the outcome to seeded/<seed-name>/meta.json under "rechecks";
"checks_run" keeps the first outcome, "detected_now" the latest."""
import json, os, subprocess, sys, re, time
root = os.path.dirname(os.path.dirname(os.path.abspath(__file__)))
name, note, props = sys.argv[1], sys.argv[2], sys.argv[3:]
dst = os.path.join(root, "seeded", name)
meta = json.load(open(os.path.join(dst, "meta.json")))
res = subprocess.run([os.path.join(root, "tools/mutcheck.sh"), os.path.join(dst, "patch.diff"), "quick"] + props,
                     capture_output=True, text=True)
det, cur = {}, None
for line in res.stdout.splitlines():
    m = re.match(r"== (C\d+) rc=(\d+)", line)
    if m:
        cur = m.group(1); det[cur] = {"rc": int(m.group(2)), "violation_lines": [], "first_replay": None}
    elif cur and line.startswith("VIOLATION"):
        det[cur]["violation_lines"].append(line)
    elif cur and line.strip().startswith(("D ", "K ", "P ")) and det[cur]["first_replay"] is None:
        det[cur]["first_replay"] = line.strip()
detected = any(v["rc"] != 0 for v in det.values())
meta.setdefault("rechecks", []).append({
    "when": time.strftime("%Y-%m-%dT%H:%M:%SZ", time.gmtime()), "note": note,
    "repo_head": subprocess.run(["git", "-C", "/repo", "rev-parse", "--short", "HEAD"], capture_output=True, text=True).stdout.strip(),
    "command": f"tools/mutcheck.sh seeded/{name}/patch.diff quick {' '.join(props)}", "outcome": det, "detected": detected})
meta["detected_now"] = detected
json.dump(meta, open(os.path.join(dst, "meta.json"), "w"), indent=1, ensure_ascii=False)
print("RECHECK", name, "detected=", detected, {k: (v["rc"], v["first_replay"]) for k, v in det.items()})
