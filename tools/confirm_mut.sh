#!/bin/bash
# tools/confirm_mut.sh <mutdir> — confirm a seeded change independently:
#   the patch applies to /repo HEAD, the whole test suite still passes with it, the demonstration
#   fails with it and passes without it. Uses the scratch worktree /tmp/mut/_confirm (kept between
#   calls for incremental builds; remove with `git -C /repo worktree remove --force /tmp/mut/_confirm`).
set -u
d=$(readlink -f "$1")
wt=/tmp/mut/_confirm
mkdir -p /tmp/mut
if [ ! -d "$wt" ]; then git -C /repo worktree add --detach "$wt" HEAD >/dev/null 2>&1 || exit 2; fi
git -C "$wt" checkout -q --detach $(git -C /repo rev-parse HEAD) && git -C "$wt" checkout -q -- . && git -C "$wt" clean -fdq -e target
echo "== $d"
bash "$d/run.sh" "$wt" >/tmp/mut/_demo_clean.log 2>&1; rc_clean=$?
if ! git -C "$wt" apply "$d/patch.diff"; then echo "RESULT patch-does-not-apply"; exit 1; fi
(cd "$wt" && cargo nextest run --workspace --no-fail-fast --offline 2>&1 | grep -E "Summary|FAIL" | head -5) > /tmp/mut/_suite.log
suite=$(grep -c "passed" /tmp/mut/_suite.log); fails=$(grep -c "FAIL\|failed" /tmp/mut/_suite.log)
bash "$d/run.sh" "$wt" >/tmp/mut/_demo_mut.log 2>&1; rc_mut=$?
git -C "$wt" checkout -q -- . ; git -C "$wt" clean -fdq -e target
cat /tmp/mut/_suite.log
echo "RESULT demo_clean_rc=$rc_clean demo_mutated_rc=$rc_mut suite_fail_lines=$fails"
if [ $rc_clean -eq 0 ] && [ $rc_mut -ne 0 ] && [ $fails -eq 0 ] && [ $suite -ge 1 ]; then echo CONFIRMED; exit 0; else echo NOT-CONFIRMED; exit 1; fi
