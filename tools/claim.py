#!/usr/bin/env python3
"""tools/claim.py CXX [CYY ...] — (re)register checks in MANIFEST.json from props/CXX.json."""
import json, os, sys
root = os.path.dirname(os.path.dirname(os.path.abspath(__file__)))
mp = os.path.join(root, "MANIFEST.json")
m = json.load(open(mp))
TECH = {
    "proof": "Lean 4 proof over an executable model + differential correspondence with the implementation",
    "translation_validation": "translation validation per program with Lean-proved sub-lemmas + correspondence",
    "other": "Lean-proved guard kernels + exploration in isolated workers",
}
for pid in sys.argv[1:]:
    c = json.load(open(os.path.join(root, "props", pid + ".json")))
    entry = {
        "property_id": pid,
        "quick_cmd": f"./check {pid} quick",
        "thorough_cmd": f"./check {pid} thorough",
        "evidence_file": f"evidence/{pid}.json",
        "replay_cmd_template": f"./check {pid} quick --replay {{path}}",
        "engine": "lean-model+correspondence",
        "level_claimed": {
            "category": c["level"],
            "text": c.get("level_text") or c.get("explanation", ""),
            "design_ref": f"DESIGN.md §6 {pid}",
        },
        "level_note": " | ".join(c.get("trusted_base", []) + c.get("assumptions", []))[:3000]
                      or "see props/%s.json and DESIGN.md §4" % pid,
        "technique": c.get("technique") or TECH.get(c["level"], c["level"]),
    }
    m["checks"] = [x for x in m["checks"] if x["property_id"] != pid] + [entry]
    m["not_applicable"] = [x for x in m.get("not_applicable", []) if x["property_id"] != pid]
m["checks"].sort(key=lambda x: x["property_id"])
claimed = sorted(x["property_id"] for x in m["checks"])
for e in m.get("engines", []):
    e["serves_properties"] = claimed
json.dump(m, open(mp, "w"), indent=1, ensure_ascii=False)
print("claimed:", " ".join(claimed))
