#!/bin/bash
# tools/apply_fix.sh <diff> "<commit message>"   — integrator helper: apply a builder's fix request to
# /repo, run the whole (unedited) suite, commit as one `fix:` commit; leaves /repo clean on failure.
set -u
d=$(readlink -f "$1"); msg="$2"
cd /repo || exit 2
if ! git apply --check "$d" 2>/dev/null; then echo "DOES NOT APPLY: $d"; exit 1; fi
git apply "$d"
out=$(cargo nextest run --workspace --no-fail-fast --tool-config-file pb:/w/lib/nextest.toml --profile pb --test-threads 8 --offline 2>&1 | grep -E "FAIL|Summary|error")
echo "$out" | tail -3
if echo "$out" | grep -q "1100 passed" && ! echo "$out" | grep -q "FAIL"; then
  git commit -qam "$msg" && echo "COMMITTED $(git rev-parse --short HEAD)"
else
  git checkout -- . ; echo "SUITE FAILED — reverted"; exit 1
fi
