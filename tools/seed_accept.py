#!/usr/bin/env python3
"""tools/seed_accept.py <mutdir> <seed-name> <property> [<extra property> ...]
Confirm a seeded change (tools/confirm_mut.sh), keep it as /verif/seeded/<seed-name>/, run the
quick check(s) against it with tools/mutcheck.sh and record the outcome in meta.json."""
import json, os, shutil, subprocess, sys, re
root = os.path.dirname(os.path.dirname(os.path.abspath(__file__)))
mutdir, name, props = sys.argv[1], sys.argv[2], sys.argv[3:]
r = subprocess.run([os.path.join(root, "tools/confirm_mut.sh"), mutdir], capture_output=True, text=True)
print(r.stdout[-600:])
if "CONFIRMED" not in r.stdout.splitlines()[-1:][0] or "NOT-CONFIRMED" in r.stdout:
    print("not confirmed; not kept"); sys.exit(1)
dst = os.path.join(root, "seeded", name)
os.makedirs(dst, exist_ok=True)
for f in os.listdir(mutdir):
    src = os.path.join(mutdir, f)
    if os.path.isdir(src):
        shutil.copytree(src, os.path.join(dst, f), dirs_exist_ok=True)
    else:
        shutil.copy(src, os.path.join(dst, f))
meta = json.load(open(os.path.join(dst, "meta.json")))
meta["confirmed_by_integrator"] = {
    "procedure": "tools/confirm_mut.sh: fresh scratch worktree of /repo HEAD; demo passes without the patch; patch applies; cargo nextest run --workspace --offline passes with the patch; demo fails with the patch",
    "result": [l for l in r.stdout.splitlines() if l.startswith(("RESULT", "     Summary"))],
    "repo_head": subprocess.run(["git", "-C", "/repo", "rev-parse", "--short", "HEAD"], capture_output=True, text=True).stdout.strip(),
}
res = subprocess.run([os.path.join(root, "tools/mutcheck.sh"), os.path.join(dst, "patch.diff"), "quick"] + props,
                     capture_output=True, text=True)
print(res.stdout[-2500:])
det = {}
cur = None
for line in res.stdout.splitlines():
    m = re.match(r"== (C\d+) rc=(\d+)", line)
    if m:
        cur = m.group(1); det[cur] = {"rc": int(m.group(2)), "violation_lines": [], "first_replay": None}
    elif cur and line.startswith("VIOLATION"):
        det[cur]["violation_lines"].append(line)
    elif cur and line.strip().startswith(("D ", "K ", "P ")) and det[cur]["first_replay"] is None:
        det[cur]["first_replay"] = line.strip()
meta["checks_run"] = {"command": f"tools/mutcheck.sh seeded/{name}/patch.diff quick {' '.join(props)}", "outcome": det,
                      "detected": any(v["rc"] != 0 for v in det.values())}
json.dump(meta, open(os.path.join(dst, "meta.json"), "w"), indent=1, ensure_ascii=False)
print("KEPT", name, "detected=", meta["checks_run"]["detected"])
