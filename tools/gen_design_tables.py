#!/usr/bin/env python3
"""Regenerate the machine-written tables of DESIGN.md (between <!-- BEGIN:x --> / <!-- END:x --> markers)
from MANIFEST.json, evidence/*.json, known_findings.json, seeded/*/meta.json and /repo's git log."""
import json, os, re, subprocess, glob
root = os.path.dirname(os.path.dirname(os.path.abspath(__file__)))
def J(p):
    return json.load(open(os.path.join(root, p)))
man = J("MANIFEST.json")
kf = J("known_findings.json")["findings"]
props = {json.loads(l)["id"]: json.loads(l) for l in open(os.path.join(root, "properties.jsonl"))}

def short(s, n=150):
    s = " ".join(str(s).split())
    return s if len(s) <= n else s[: n - 1] + "…"

# A: status per property
rows = ["| id | title | level | theorems (audited) | quick cases (distinct) | open findings | fixed findings | seeded changes detected |",
        "|---|---|---|---|---|---|---|---|"]
seeds = {}
for m in sorted(glob.glob(os.path.join(root, "seeded/*/meta.json"))):
    d = json.load(open(m)); name = os.path.basename(os.path.dirname(m))
    seeds.setdefault(d.get("property", "?"), []).append((name, d))
claimed = {c["property_id"]: c for c in man["checks"]}
for pid in sorted(props):
    c = claimed.get(pid)
    ev = None
    try:
        ev = J(f"evidence/{pid}.json")
    except Exception:
        pass
    cov = (ev or {}).get("coverage", {})
    thm = f"{cov.get('discharged','?')}/{cov.get('obligations','?')}" if ev else "–"
    cases = f"{cov.get('evaluations','?')} ({cov.get('distinct_nontrivial','?')})" if ev else "–"
    op = [f["id"] for f in kf if f["property"] == pid and f["status"] == "known"]
    fx = [f["id"] for f in kf if f["property"] == pid and f["status"] == "fixed"]
    sd = seeds.get(pid, [])
    det = sum(1 for _, d in sd if d.get("detected_now", d.get("checks_run", {}).get("detected")))
    rows.append(f"| {pid} | {props[pid]['title']} | {c['level_claimed']['category'] if c else 'not claimed'} | {thm} | {cases} | "
                f"{', '.join(op) or '–'} | {', '.join(fx) or '–'} | {det}/{len(sd)} |")
A = "\n".join(rows)

# B: findings
rows = ["| id | property | status | fix commit | what |", "|---|---|---|---|---|"]
for f in sorted(kf, key=lambda f: (f["property"], f["id"])):
    rows.append(f"| {f['id']} | {f['property']} | {f['status']} | {f.get('commit','')} | {short(f['what'], 220)} |")
B = "\n".join(rows)

# C: seeded changes
rows = ["| seeded change | property | what was changed | needs | detected at first run | detected now | by |", "|---|---|---|---|---|---|---|"]
for pid in sorted(seeds):
    for name, d in seeds[pid]:
        cr = d.get("checks_run", {})
        last = (d.get("rechecks") or [cr])[-1]
        by = "; ".join(f"{k}: {short(v.get('first_replay') or (v.get('violation_lines') or ['–'])[0], 90)}" for k, v in last.get("outcome", {}).items() if v.get("rc"))
        first = 'yes' if cr.get('detected') else 'NO'
        now = 'yes' if d.get("detected_now", cr.get("detected")) else 'NO'
        note = ""
        if d.get("obsolete_on_head"):
            now = now + " (patch obsolete on HEAD since " + d["obsolete_on_head"].get("since", "?") + ": the changed code was replaced by a later fix)"
        if d.get("rechecks"):
            note = " (" + short(d["rechecks"][-1].get("note", ""), 90) + ")"
        rows.append(f"| seeded/{name} | {pid} | {short(d.get('summary',''),160)} | {short(d.get('needs',''),120)} | {first} | {now}{note} | {by or '–'} |")
C = "\n".join(rows)

# D: commits in /repo
log = subprocess.run(["git", "-C", "/repo", "log", "--reverse", "--format=%h %s", "3be37d5..HEAD"], capture_output=True, text=True).stdout.strip().splitlines()
rows = ["| commit | kind | subject |", "|---|---|---|"]
for l in log:
    h, s = l.split(" ", 1)
    kind = "fix" if s.startswith("fix:") else ("hook" if "verif hook" in s else "other")
    rows.append(f"| {h} | {kind} | {short(s, 160)} |")
D = "\n".join(rows)

p = os.path.join(root, "DESIGN.md")
s = open(p).read()
for key, txt in (("STATUS", A), ("FINDINGS", B), ("SEEDED", C), ("COMMITS", D)):
    pat = re.compile(rf"(<!-- BEGIN:{key} -->).*?(<!-- END:{key} -->)", re.S)
    if pat.search(s):
        s = pat.sub(lambda m: m.group(1) + "\n" + txt + "\n" + m.group(2), s)
    else:
        print("marker missing:", key)
open(p, "w").write(s)
print("tables regenerated")
