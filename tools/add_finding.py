#!/usr/bin/env python3
"""Append one entry to /verif/known_findings.json under a file lock.
usage: tools/add_finding.py '<json object with property,id,status,what,identified_by,witness...>'"""
import fcntl, json, os, sys
root = os.path.dirname(os.path.dirname(os.path.abspath(__file__)))
path = os.path.join(root, "known_findings.json")
entry = json.loads(sys.argv[1])
for k in ("property", "id", "status", "what", "identified_by"):
    assert k in entry, f"missing key {k}"
assert entry["status"] in ("known", "fixed")
with open(os.path.join(root, ".known.lock"), "w") as lk:
    fcntl.flock(lk, fcntl.LOCK_EX)
    d = json.load(open(path))
    d["findings"] = [e for e in d["findings"] if e["id"] != entry["id"]] + [entry]
    json.dump(d, open(path + ".tmp", "w"), indent=2, ensure_ascii=False)
    os.replace(path + ".tmp", path)
print("recorded", entry["id"])
