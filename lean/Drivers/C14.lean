/-
Model driver for C14 (value model). Stateful line protocol:

  reset NV NC                     → `ok`         fresh state with NV variable and NC closure slots
  s <stmt>                        → `<status> ; <vars> ; <caps> ; <result>`   one history step
        stmt = (let N E) | (do E) | (clo N E)
        E    = null | b0 | b1 | i<dec> | f<16hex> | s<xhex> | (r a b incl) | (v N) | (c N) | (arg E)
             | (t E…) | (l E…) | (m (E E)…) | (op NAME E…)
        status = ok | err:<kind> | panic.  Values are printed with canonical object numbers (first
        visit in a depth-first walk over variables, closure captures, result): `(l#K …)`, `(m#K (k v)…)`,
        later visits `#K`.
  pair A B                        → `eq=… ne=… lt=… gt=… le=… ge=… cv=… keq=… heq=… kcmp=… speq=…`  (plain value trees)
  sortvals (l …)                  → sorted `(l …)` or `E`
  sortpairs (l (t k tag)…)        → list sorted by key (stable) or `E`
  mapsort (m (k v)…)              → `(m …)` sorted by `ValueKey::partial_cmp`
  flaws A B C                     → `1`/`0`: the float-law hypotheses of Props/C14 hold for these three numbers
-/
import KotoVerif.Common.Proto
import KotoVerif.Common.ValueIO
import KotoVerif.Model.HeapEval

open KotoVerif KotoVerif.Proto KotoVerif.ValueIO KotoVerif.Heap KotoVerif.Equal

def F := nativeFloatOps

partial def parseEx : Sexp → Option Ex
  | .list [.atom "v", n] => n.nat?.map Ex.var
  | .list [.atom "c", n] => n.nat?.map Ex.cap
  | .list [.atom "arg", e] => (parseEx e).map Ex.arg
  | .list (.atom "t" :: es) => (es.mapM parseEx).map Ex.tup
  | .list (.atom "l" :: es) => (es.mapM parseEx).map Ex.lst
  | .list (.atom "m" :: es) =>
    (es.mapM (fun e => match e with
      | Sexp.list [k, v] => do pure ((← parseEx k), (← parseEx v))
      | _ => none)).map Ex.mp
  | .list (.atom "op" :: .atom name :: es) => (es.mapM parseEx).map (Ex.op name)
  | s => (parseVal s).map (fun v => Ex.imm (ofVal v))

def parseStmt : Sexp → Option Stmt
  | .list [.atom "let", n, e] => do pure (Stmt.letv (← n.nat?) (← parseEx e))
  | .list [.atom "do", e] => (parseEx e).map Stmt.doe
  | .list [.atom "clo", n, e] => do pure (Stmt.clo (← n.nat?) (← parseEx e))
  | _ => none

def numS : Num → String
  | .i n => s!"i{n.toInt}"
  | .f b => s!"f{hex16 (canonBits b)}"

partial def keyStr : Val → String
  | .num n => numS n
  | .tuple xs => "(t" ++ String.join (xs.map (fun x => " " ++ keyStr x)) ++ ")"
  | v => valStr v

/-- canonical dump of one value; `seen` maps handles to canonical numbers -/
partial def dumpVal (heap : Heap) (v : HVal) (seen : List (Nat × Nat)) : String × List (Nat × Nat) :=
  match v with
  | .null => ("null", seen)
  | .bool b => (if b then "b1" else "b0", seen)
  | .num n => (numS n, seen)
  | .str bs => ("s" ++ hexOfBytes bs, seen)
  | .range a b => (valStr (.range a b), seen)
  | .tuple xs =>
    let (ss, seen') := xs.foldl (fun (acc : List String × List (Nat × Nat)) x =>
      let (s, sn) := dumpVal heap x acc.2; (s :: acc.1, sn)) ([], seen)
    ("(t" ++ String.join (ss.reverse.map (" " ++ ·)) ++ ")", seen')
  | .lref h =>
    match seen.lookup h with
    | some k => (s!"#{k}", seen)
    | none =>
      let k := seen.length
      let seen1 := (h, k) :: seen
      match getList heap h with
      | some xs =>
        let (ss, seen') := xs.foldl (fun (acc : List String × List (Nat × Nat)) x =>
          let (s, sn) := dumpVal heap x acc.2; (s :: acc.1, sn)) ([], seen1)
        (s!"(l#{k}" ++ String.join (ss.reverse.map (" " ++ ·)) ++ ")", seen')
      | none => (s!"(bad#{k})", seen1)
  | .mref h =>
    match seen.lookup h with
    | some k => (s!"#{k}", seen)
    | none =>
      let k := seen.length
      let seen1 := (h, k) :: seen
      match getMap heap h with
      | some es =>
        let (ss, seen') := es.foldl (fun (acc : List String × List (Nat × Nat)) e =>
          let (s, sn) := dumpVal heap e.2 acc.2; (("(" ++ keyStr e.1 ++ " " ++ s ++ ")") :: acc.1, sn)) ([], seen1)
        (s!"(m#{k}" ++ String.join (ss.reverse.map (" " ++ ·)) ++ ")", seen')
      | none => (s!"(bad#{k})", seen1)

def dumpVals (heap : Heap) (vs : List HVal) (seen : List (Nat × Nat)) : String × List (Nat × Nat) :=
  let (ss, seen') := vs.foldl (fun (acc : List String × List (Nat × Nat)) x =>
    let (s, sn) := dumpVal heap x acc.2; (s :: acc.1, sn)) ([], seen)
  (" ".intercalate ss.reverse, seen')

def errStr : Err → String
  | .index => "index" | .type => "type" | .unhashable => "unhashable" | .args => "args"
  | .fuel => "fuel" | .cycle => "cycle" | .depth => "depth"

def dumpState (st : St) (r : Res) : String :=
  let (sv, seen1) := dumpVals st.heap st.vars []
  let (sc, seen2) := dumpVals st.heap st.caps seen1
  match r with
  | .ok v => let (sr, _) := dumpVal st.heap v seen2; s!"ok ; {sv} ; {sc} ; {sr}"
  | .err e => s!"err:{errStr e} ; {sv} ; {sc} ; -"
  | .panic => s!"panic ; {sv} ; {sc} ; -"

def ob : Option Bool → String
  | some true => "1" | some false => "0" | none => "E"
def b01 (b : Bool) : String := if b then "1" else "0"
def ordS : Ordering → String
  | .lt => "lt" | .eq => "eq" | .gt => "gt"

/-- the hypotheses `FloatLaws` (Lemmas/C14Equal), `HashLaws` (Lemmas/C14Hash) and `NumOrderLaws`
(Lemmas/C14NumOrder), evaluated on three concrete numbers -/
def flawsOn (a b c : Num) : Bool :=
  let x := a.toF F; let y := b.toF F; let z := c.toF F
  let nn := fun (u : UInt64) => !F.isNaN u
  (F.eq x y == F.eq y x) &&
  (!nn x || F.eq x x) &&
  (!(nn x && nn y) ||
     ((F.lt x y && !F.eq x y && !F.lt y x) || (!F.lt x y && F.eq x y && !F.lt y x) || (!F.lt x y && !F.eq x y && F.lt y x))) &&
  (!(F.eq x y && F.eq y z) || F.eq x z) &&
  (!(F.lt x y && F.lt y z) || F.lt x z) &&
  (F.le x y == (F.lt x y || F.eq x y)) &&
  (match a with | .i n => nn (F.ofInt n) | _ => true) &&
  -- HashLaws (Lemmas/C14Hash)
  (!F.eq x y || F.toInt x == F.toInt y) &&
  (!F.eq x y || (F.eq z x == F.eq z y)) &&
  (!F.eq x y || x == y || F.eq (F.ofInt (F.toInt x)) x) &&
  -- NumOrderLaws (Lemmas/C14NumOrder), S n := |n| ≤ 2^53
  (!F.lt x y || !F.lt y x) &&
  (!(nn x && nn y && nn z) || F.lt y x || F.lt z y || !F.lt z x) &&
  (match a, b with
   | .i m, .i n =>
     let small := fun (k : Int64) => decide (-9007199254740992 ≤ k.toInt ∧ k.toInt ≤ 9007199254740992)
     (!decide (m ≤ n) || !F.lt (F.ofInt n) (F.ofInt m)) &&
     (!(small m && small n && decide (m < n)) || F.lt (F.ofInt m) (F.ofInt n))
   | _, _ => true)

def handle (st : St) (line : String) : St × String :=
  match parseLine line with
  | [.atom "reset", nv, nc] => (St.init (nv.nat?.getD 6) (nc.nat?.getD 3), "ok")
  | [.atom "s", stmt] =>
    (match parseStmt stmt with
     | some s =>
       let (st', r) := step F true st s
       (st', dumpState st' r)
     | none => (st, "bad-request"))
  | [.atom "pair", a, b] =>
    (match parseVal a, parseVal b with
     | some x, some y =>
       let cv := match compareValues F x y with | some o => ordS o | none => "E"
       (st, s!"eq={b01 (veq F true x y)} ne={b01 (vne F true x y)} lt={ob (vlt F x y)} gt={ob (vgt F x y)} le={ob (vle F x y)} ge={ob (vge F x y)} cv={cv} keq={b01 (keyEq F x y)} heq={b01 (hashEq F x y)} kcmp={ordS (keyCmp F x y)} speq={b01 (veq F false x y)} hashable={b01 (hashable x)}")
     | _, _ => (st, "bad-request"))
  | [.atom "sortvals", v] =>
    (match parseVal v with
     | some (.list xs) => (st, match Sorting.sortVals F xs with | some ys => valStr (.list ys) | none => "E")
     | _ => (st, "bad-request"))
  | [.atom "sortpairs", v] =>
    (match parseVal v with
     | some (.list xs) =>
       let kvs := xs.filterMap (fun x => match x with | Val.tuple [k, t] => some (k, t) | _ => none)
       if kvs.length ≠ xs.length then (st, "bad-request")
       else (st, match Sorting.sortPairs F kvs with
         | some ys => valStr (.list (ys.map (fun (k, t) => Val.tuple [k, t])))
         | none => "E")
     | _ => (st, "bad-request"))
  | [.atom "mapsort", v] =>
    (match parseVal v with
     | some (.map es) => (st, valStr (.map (Sorting.sortEntries F es)))
     | _ => (st, "bad-request"))
  | [.atom "flaws", a, b, c] =>
    (match parseVal a, parseVal b, parseVal c with
     | some (.num x), some (.num y), some (.num z) => (st, b01 (flawsOn x y z))
     | _, _, _ => (st, "bad-request"))
  | _ => (st, "bad-request")

def main : IO Unit := Proto.serveSt (St.init 6 3) handle
