/-
Model driver for C02 (functions, closures, generators). One request per line:

* `bind <def> <call>` — argument binding (Model/Bind.lean)
    def   = `(fn (ps <param>*) <optCount> <variadic 0|1> (caps <name>*) (dv <val>*) (cv <val>*))`
    param = `(id n)` | `_` | `(tup <pat>*)` | `(map <entry>*)`
    pat   = `(id n)` | `_` | `(pk n)` | `(pk)` | `(tup <pat>*)` | `(map <entry>*)`
    entry = `(<keyhex> n)` | `(<keyhex> _)`
    call  = `(plain|piped|inst|pinst <generator 0|1> <lhs/instance value or -> (args (<val> <packed 0|1>)*))`
            (`pinst`: piped into a method of the instance `{tag: 7}`); def may end with `(self j)`
  response: `(t <self.tag or null> <value of every named variable>*)` or an error class
* `prologue <def>` — the unpack instructions of the function prologue
* `cap <ex>*` — closures (Model/Capture.lean parts A–C): `impl=<r> spec=<r> shaped=<0|1>`
* `acc <ex>` — for a function literal: `accessed=(…) free=(…)`
* `capx <x>*` — wider syntax (Model/CaptureX.lean): for every function literal in post-order
  `a=(accessed) f=(declaratively free)`, separated by ` ; `
* `share <op>*` — captured containers / defaults (part D): the output trace
* `gen <env> <body> <consumer>` — generators (Model/Gen.lean): the interleaved trace
-/
import KotoVerif.Common.Proto
import KotoVerif.Common.ValueIO
import KotoVerif.Model.Bind
import KotoVerif.Model.Capture
import KotoVerif.Model.CaptureX
import KotoVerif.Model.Gen

open KotoVerif KotoVerif.Proto KotoVerif.ValueIO

namespace C02Driver

/-! ### bind -/
open KotoVerif.Bind in
def parseEntry : Sexp → Option MapEntry
  | .list [k, .atom "_"] => (k.atom? >>= bytesOfHex).map (fun b => (b, none))
  | .list [k, n] => do
    let b ← k.atom? >>= bytesOfHex
    let n ← n.nat?
    pure (b, some n)
  | _ => none

open KotoVerif.Bind in
partial def parsePat : Sexp → Option Pat
  | .atom "_" => some .ignored
  | .list [.atom "id", n] => n.nat?.map Pat.id
  | .list [.atom "pk", n] => n.nat?.map (fun n => Pat.packed (some n))
  | .list [.atom "pk"] => some (.packed none)
  | .list (.atom "tup" :: ps) => (ps.mapM parsePat).map Pat.tuple
  | .list (.atom "map" :: es) => (es.mapM parseEntry).map Pat.map
  | _ => none

open KotoVerif.Bind in
def parseParam : Sexp → Option Param
  | .atom "_" => some .ignored
  | .list [.atom "id", n] => n.nat?.map Param.id
  | .list (.atom "tup" :: ps) => (ps.mapM parsePat).map Param.tuple
  | .list (.atom "map" :: es) => (es.mapM parseEntry).map Param.map
  | _ => none

def fnMarker : Val := .str ("<fn>".toUTF8.toList.map UInt8.toNat)

open KotoVerif.Bind in

def parseDef : Sexp → Option (FnDef × List Val × List Val × List (Nat × Val))
  | .list (.atom "fn" :: .list (.atom "ps" :: ps) :: oc :: va :: .list (.atom "caps" :: caps) ::
           .list (.atom "dv" :: dv) :: .list (.atom "cv" :: cv) :: rest) => do
    let ps ← ps.mapM parseParam
    let oc ← oc.nat?
    let va ← va.nat?
    let caps ← caps.mapM Sexp.nat?
    let dv ← dv.mapM parseVal
    let cv ← cv.mapM parseVal
    let selfIdx : Option Nat := match rest with
      | .list [.atom "self", j] :: _ => j.nat?
      | _ => none
    -- `(late (n v)*)`: ids exported after the function was created, with their values at call time
    let lates : List (Nat × Val) := match rest with
      | [_, .list (.atom "late" :: ls)] => ls.filterMap (fun l => match l with
        | .list [n, v] => do pure ((← n.nat?), (← parseVal v))
        | _ => none)
      | _ => []
    let srcs : List CapSrc := (List.range cv.length).zip cv |>.map (fun (j, v) =>
      if selfIdx == some j then CapSrc.self else CapSrc.val v)
    let all := createCaptures dv srcs fnMarker
    pure ({ params := ps, optCount := oc, variadic := va == 1, captures := caps, lates := lates.map (·.1) },
          all.take dv.length, all.drop dv.length, lates)
  | _ => none

open KotoVerif.Bind in
def parseCallArg : Sexp → Option CallArg
  | .list [v, p] => do
    let v ← parseVal v
    pure (v, p.atom? == some "1")
  | _ => none

def tagKey : List Nat := "tag".toUTF8.toList.map UInt8.toNat

open KotoVerif.Bind in
def handleBind (d : Sexp) (c : Sexp) : String :=
  match parseDef d, c with
  | some (d, dv, cv, exports), .list [.atom form, g, x, .list (.atom "args" :: args)] =>
    match args.mapM parseCallArg with
    | none => "bad-request"
    | some args =>
      if !d.wellFormed then "E:compile" else
      let f := d.toVal dv cv
      let gen := g.atom? == some "1"
      let bound : Option (Except Err Regs) :=
        match form, parseVal x with
        | "plain", _ => some (callPlain elems f args gen)
        | "piped", some lhs => some (callPiped elems f lhs args gen)
        | "inst", some inst => some (callInstance elems f inst args gen)
        | "pinst", some lhs => some (callPipedInstance elems f (.map [(.str tagKey, .int 7)]) lhs args gen)
        | _, _ => none
      match bound with
      | none => "bad-request"
      | some bound =>
        -- late-bound ids are read (in order) after the registers; the first failure ends the call
        let lateVals : Except Err (List Val) := do
          let rs ← bound
          let rs ← execUs rs (prologue d)
          mapExcept (readLate d rs exports) d.lates
        match (do let r ← enter d bound; let l ← lateVals; pure (r.1, r.2, l) : Except Err (Val × List Val × List Val)) with
        | .error e => e.name
        | .ok (self, vals, lvals) =>
          let tag := match self with
            | .map es => (lookupKey tagKey es).getD .null
            | _ => .null
          -- name 0 = the function itself: the body reports `f == null`
          let vals := (d.names.zip vals).map (fun (n, v) =>
            if n == 0 then (match v with | .null => Val.bool true | _ => Val.bool false) else v)
          valStr (.tuple (tag :: vals ++ lvals))
  | _, _ => "bad-request"

open KotoVerif.Bind in
def uinstrStr : UInstr → String
  | .checkSizeEqual r n => s!"CheckSizeEqual({r},{n})"
  | .checkSizeMin r n => s!"CheckSizeMin({r},{n})"
  | .tempIndex d s i => s!"TempIndex({d},{s},{i})"
  | .sliceFrom d s i => s!"SliceFrom({d},{s},{i})"
  | .sliceTo d s i => s!"SliceTo({d},{s},{i})"
  | .access d s k => s!"Access({d},{s},{hexOfBytes k})"
  | .compileError => "CompileError"

/-! ### cap -/
open KotoVerif.Capture in
partial def parseEx : Sexp → Option Ex
  | .list [.atom "lit", n] => n.int?.map Ex.lit
  | .list [.atom "var", x] => x.nat?.map Ex.var
  | .list [.atom "add", a, b] => do pure (.add (← parseEx a) (← parseEx b))
  | .list [.atom "sub", a, b] => do pure (.sub (← parseEx a) (← parseEx b))
  | .list [.atom "lt", a, b] => do pure (.lt (← parseEx a) (← parseEx b))
  | .list [.atom "par", e] => (parseEx e).map Ex.paren
  | .list [.atom "ite", c, t, e] => do pure (.ite (← parseEx c) (← parseEx t) (← parseEx e))
  | .list [.atom "asg", x, e] => do pure (.assign (← x.nat?) (← parseEx e))
  | .list [.atom "fn", .list ps, .list body] => do
    pure (.fn (← ps.mapM Sexp.nat?) (← body.mapM parseEx))
  | .list (.atom "call" :: f :: args) => do pure (.call (← f.nat?) (← args.mapM parseEx))
  | _ => none

open KotoVerif.Capture in
def vStr : V → String
  | .null => "null"
  | .int n => s!"i{n}"
  | .bool b => if b then "b1" else "b0"
  | .clo .. => "<fn>"

open KotoVerif.Capture in
def resStr : Except EErr V → String
  | .ok v => vStr v
  | .error e => e.name

def namesStr (ns : List Nat) : String := "(" ++ " ".intercalate (ns.map toString) ++ ")"

open KotoVerif.Capture in
def handleCap (es : List Sexp) : String :=
  match es.mapM parseEx with
  | none => "bad-request"
  | some script =>
    let impl := runScript accessed 3000 script
    let spec := runScript freeVars 3000 script
    s!"impl={resStr impl} spec={resStr spec} shaped={if shapedBlock script then 1 else 0}"

open KotoVerif.Capture in
def handleAcc (e : Sexp) : String :=
  match parseEx e with
  | some (.fn ps body) => s!"accessed={namesStr (accessed ps body)} free={namesStr (freeVars ps body)}"
  | _ => "bad-request"

/-! ### capx -/
open KotoVerif.CaptureX in
def parseXT : Sexp → Option XT
  | .list [.atom "id", x] => x.nat?.map XT.id
  | .list [.atom "short", x] => x.nat?.map XT.short
  | .list [.atom "as", x] => x.nat?.map XT.as
  | _ => none

open KotoVerif.CaptureX in
partial def parseX : Sexp → Option X
  | .list [.atom "lit"] => some .lit
  | .list [.atom "var", x] => x.nat?.map X.var
  | .list [.atom "op", a, b] => do pure (.op (← parseX a) (← parseX b))
  | .list [.atom "par", e] => (parseX e).map X.par
  | .list [.atom "ite", c, t, e] => do pure (.ite (← parseX c) (← parseX t) (← parseX e))
  | .list (.atom "str" :: es) => (es.mapM parseX).map X.str
  | .list (.atom "tup" :: es) => (es.mapM parseX).map X.tup
  | .list [.atom "asg", x, e] => do pure (.asg (← x.nat?) (← parseX e))
  | .list [.atom "masg", .list ts, .list es] => do pure (.masg (← ts.mapM parseXT) (← es.mapM parseX))
  | .list [.atom "fn", .list ps, .list body] => do pure (.fn (← ps.mapM Sexp.nat?) (← body.mapM parseX))
  | .list (.atom "call" :: g :: args) => do pure (.call (← g.nat?) (← args.mapM parseX))
  | .list [.atom "ifb", c, .list t, .list e] => do pure (.ifb (← parseX c) (← t.mapM parseX) (← e.mapM parseX))
  | .list [.atom "for", v, it, .list body] => do pure (.forb (← v.nat?) (← parseX it) (← body.mapM parseX))
  | .list [.atom "while", c, .list body] => do pure (.whileb (← parseX c) (← body.mapM parseX))
  | .list [.atom "switch", .list arms, els] => do pure (.switchb (← arms.mapM parseX) (← parseX els))
  | .list [.atom "sarm", c, e] => do pure (.sarm (← parseX c) (← parseX e))
  | .list [.atom "match", subj, .list arms, els] => do
    pure (.matchb (← parseX subj) (← arms.mapM parseX) (← parseX els))
  | .list [.atom "marm", p, g, e] => do
    let pat ← match p with | .atom "-" => some none | x => x.nat?.map some
    let guard ← match g with | .atom "-" => some none | x => (parseX x).map some
    pure (.marm pat guard (← parseX e))
  | .list [.atom "yield", e] => (parseX e).map X.yld
  | _ => none

open KotoVerif.CaptureX in
def handleCapx (es : List Sexp) : String :=
  match es.mapM parseX with
  | none => "bad-request"
  | some script =>
    " ; ".intercalate ((fnsOfList script).map (fun (a, f) => s!"a={namesStr a} f={namesStr f}"))

/-! ### share -/
open KotoVerif.Capture in
def parseBOp : Sexp → Option BOp
  | .list [.atom "emit", x] => x.nat?.map BOp.emit
  | .list [.atom "push", x, n] => do pure (.push (← x.nat?) (← n.int?))
  | .list [.atom "bump", x, n] => do pure (.bump (← x.nat?) (← n.int?))
  | .list [.atom "set", x, n] => do pure (.set (← x.nat?) (← n.int?))
  | _ => none

open KotoVerif.Capture in
def parseSParam : Sexp → Option (Option (Name × Option DefaultExpr))
  | .atom "-" => some none
  | .list [p] => p.nat?.map (fun p => some (p, none))
  | .list [p, .atom "tick", tag, n] => do pure (some (← p.nat?, some (.tick (← tag.nat?) (← n.int?))))
  | .list [p, .atom "var", y] => do pure (some (← p.nat?, some (.var (← y.nat?))))
  | .list (p :: .atom "fresh" :: xs) => do pure (some (← p.nat?, some (.fresh (← xs.mapM Sexp.int?))))
  | _ => none

open KotoVerif.Capture in
def parseSOp : Sexp → Option SOp
  | .list [.atom "int", x, n] => do pure (.setInt (← x.nat?) (← n.int?))
  | .list (.atom "list" :: x :: xs) => do pure (.newList (← x.nat?) (← xs.mapM Sexp.int?))
  | .list [.atom "alias", x, y] => do pure (.alias (← x.nat?) (← y.nat?))
  | .list [.atom "push", x, n] => do pure (.push (← x.nat?) (← n.int?))
  | .list [.atom "fn", f, p, .list body] => do
    pure (.mkFn (← f.nat?) (← parseSParam p) (← body.mapM parseBOp))
  | .list [.atom "call", f] => do pure (.call (← f.nat?) none)
  | .list [.atom "call", f, y] => do pure (.call (← f.nat?) (some (← y.nat?)))
  | .list [.atom "emit", x] => x.nat?.map SOp.emit
  | _ => none

open KotoVerif.Capture in
def evStr : Ev → String
  | .tick t => s!"t{t}"
  | .int n => s!"i{n}"
  | .list xs => "(l" ++ String.join (xs.map (fun x => s!" i{x}")) ++ ")"
  | .err 0 => "E:notfound"
  | .err 1 => "E:type"
  | .err _ => "E:args"

open KotoVerif.Capture in
def handleShare (ops : List Sexp) : String :=
  match ops.mapM parseSOp with
  | none => "bad-request"
  | some ops => " ".intercalate ((srun ops).out.map evStr)

/-! ### gen -/
open KotoVerif.Gen in
partial def parseGE : Sexp → Option GE
  | .list [.atom "lit", n] => n.int?.map (fun n => GE.lit (Int64.ofInt n))
  | .list [.atom "var", x] => x.nat?.map GE.var
  | .list [.atom "add", a, b] => do pure (.add (← parseGE a) (← parseGE b))
  | .list [.atom "sub", a, b] => do pure (.sub (← parseGE a) (← parseGE b))
  | .list [.atom "mul", a, b] => do pure (.mul (← parseGE a) (← parseGE b))
  | _ => none

open KotoVerif.Gen in
def parseGC : Sexp → Option GC
  | .list [.atom "lt", a, b] => do pure (.lt (← parseGE a) (← parseGE b))
  | .list [.atom "le", a, b] => do pure (.le (← parseGE a) (← parseGE b))
  | .list [.atom "eq", a, b] => do pure (.eq (← parseGE a) (← parseGE b))
  | .list [.atom "ne", a, b] => do pure (.ne (← parseGE a) (← parseGE b))
  | _ => none

open KotoVerif.Gen in
partial def parseGS : Sexp → Option GS
  | .list [.atom "emit", e] => (parseGE e).map GS.emit
  | .list [.atom "asg", x, e] => do pure (.assign (← x.nat?) (← parseGE e))
  | .list [.atom "yield", e] => (parseGE e).map GS.yield
  | .list [.atom "if", c, .list t, .list e] => do
    pure (.ite (← parseGC c) (← t.mapM parseGS) (← e.mapM parseGS))
  | .list [.atom "for", i, lo, hi, .list body] => do
    pure (.forRange (← i.nat?) (← parseGE lo) (← parseGE hi) (← body.mapM parseGS))
  | .list [.atom "while", c, .list body] => do pure (.while (← parseGC c) (← body.mapM parseGS))
  | .list [.atom "ret"] => some .ret
  | _ => none

open KotoVerif.Gen in
def tStr : T → String
  | .g v => s!"g{v.toInt}"
  | .c v => s!"c{v.toInt}"
  | .fin => "fin"
  | .fuel => "FUEL"

open KotoVerif.Gen in
def handleGen (env body cons : Sexp) : String :=
  let envp : Option Env := match env with
    | .list es => es.mapM (fun e => match e with
      | .list [x, v] => do pure ((← x.nat?), Int64.ofInt (← v.int?))
      | _ => none)
    | _ => none
  let bodyp := match body with
    | .list ss => ss.mapM parseGS
    | _ => none
  match envp, bodyp with
  | some env, some body =>
    let c := mkGen body env
    let fuel := 300000
    let tr (ts : List T) := " ".intercalate (ts.map tStr)
    match cons with
    | .list [.atom "for"] => tr (consumeFor fuel none c)
    | .list [.atom "for", k] => match k.nat? with
      | some k => tr (consumeFor fuel (some k) c)
      | none => "bad-request"
    | .list [.atom "nexts", k] => match k.nat? with
      | some k => tr (consumeNexts fuel k c)
      | none => "bad-request"
    | .list [.atom "all"] =>
      let (ts, vs) := consumeAll fuel none c
      tr ts ++ " | " ++ " ".intercalate (vs.map (fun v => s!"i{v.toInt}"))
    | .list [.atom "take", k] => match k.nat? with
      | some k =>
        let (ts, vs) := consumeAll fuel (some k) c
        tr ts ++ " | " ++ " ".intercalate (vs.map (fun v => s!"i{v.toInt}"))
      | none => "bad-request"
    | _ => "bad-request"
  | _, _ => "bad-request"

def handle (line : String) : String :=
  match parseLine line with
  | [.atom "bind", d, c] => handleBind d c
  | [.atom "prologue", d] =>
    (match parseDef d with
    | some (d, _, _, _) => " ".intercalate ((Bind.prologue d).map uinstrStr) ++ s!" tb={Bind.tempBase d}"
    | none => "bad-request")
  | .atom "cap" :: es => handleCap es
  | .atom "capx" :: es => handleCapx es
  | [.atom "acc", e] => handleAcc e
  | .atom "share" :: ops => handleShare ops
  | [.atom "gen", env, body, cons] => handleGen env body cons
  | _ => "bad-request"

end C02Driver

def main : IO Unit := Proto.serve C02Driver.handle
