/-
Model driver for the compiler core (C01 layer 5, correspondence K2).
Request:  `compile <local_count> <expr-sexp>`
Response: `regs=<NewFrame count> ret=<result register> | <instr> ; <instr> ; …`  or `none`
(the model's `compile` with `Mode.any` from a fresh main frame, flattened).

Request:  `compileS <local_count> <stmt-sexp> <expr-sexp>` — a main block of statements (loops,
`break` / `continue`, `if` with statement branches; `Model/CompileLoop.lean`) followed by a final
expression; same response format, the stream is `flattenL (compileS s)` followed by the final
expression's code (`compileProg`); `JumpBack -k` goes back `k` instructions counted from the
instruction after the `JumpBack`.
  stmt ::= (expr E) | (sseq S S) | (site E S S) | (sifthen E S) | (while E S) | (until E S)
         | (loop S) | (break) | (continue)
-/
import KotoVerif.Common.Proto
import KotoVerif.Model.CompileLoop

open KotoVerif KotoVerif.Proto KotoVerif.Compile

def parseUn : String → Option UnOp
  | "neg" => some .neg | "not" => some .not | _ => none

def parseBin : String → Option BinOp
  | "add" => some .add | "sub" => some .sub | "mul" => some .mul | "div" => some .div
  | "rem" => some .rem | "pow" => some .pow | "lt" => some .lt | "le" => some .le
  | "gt" => some .gt | "ge" => some .ge | "eq" => some .eq | "ne" => some .ne | _ => none

partial def parseExpr : Sexp → Option Expr
  | .list [.atom "null"] => some .null
  | .list [.atom "bool", b] => b.nat?.map (fun n => .bool (n != 0))
  | .list [.atom "int", n] => n.int?.map .int
  | .list [.atom "var", x] => x.nat?.map .var
  | .list [.atom "un", .atom op, e] => do pure (.un (← parseUn op) (← parseExpr e))
  | .list [.atom "bin", .atom op, a, b] => do pure (.bin (← parseBin op) (← parseExpr a) (← parseExpr b))
  | .list [.atom "cmp", .atom op, a, b] => do pure (.cmp (← parseBin op) (← parseExpr a) (← parseExpr b))
  | .list [.atom "chain3", .atom op1, .atom op2, a, b, c] => do
    pure (.chain3 (← parseBin op1) (← parseBin op2) (← parseExpr a) (← parseExpr b) (← parseExpr c))
  | .list [.atom "and", a, b] => do pure (.and (← parseExpr a) (← parseExpr b))
  | .list [.atom "or", a, b] => do pure (.or (← parseExpr a) (← parseExpr b))
  | .list [.atom "assign", x, e] => do pure (.assign (← x.nat?) (← parseExpr e))
  | .list [.atom "compound", .atom op, x, e] => do pure (.compound (← parseBin op) (← x.nat?) (← parseExpr e))
  | .list [.atom "seq", a, b] => do pure (.seq (← parseExpr a) (← parseExpr b))
  | .list [.atom "ite", c, t, e] => do pure (.ite (← parseExpr c) (← parseExpr t) (← parseExpr e))
  | .list [.atom "ifthen", c, t] => do pure (.ifThen (← parseExpr c) (← parseExpr t))
  | _ => none

def unName : UnOp → String
  | .neg => "Negate" | .not => "Not"

def binName : BinOp → String
  | .add => "Add" | .sub => "Subtract" | .mul => "Multiply" | .div => "Divide"
  | .rem => "Remainder" | .pow => "Power" | .lt => "Less" | .le => "LessOrEqual"
  | .gt => "Greater" | .ge => "GreaterOrEqual" | .eq => "Equal" | .ne => "NotEqual"

def instrStr : Instr → String
  | .setNull r => s!"SetNull {r}"
  | .setBool r b => s!"SetBool {r} {if b then 1 else 0}"
  | .setInt r n => s!"SetNumber {r} {n}"
  | .copy d s => s!"Copy {d} {s}"
  | .unop op d s => s!"{unName op} {d} {s}"
  | .binop op d a b => s!"{binName op} {d} {a} {b}"
  | .compound op l r => s!"{binName op}Assign {l} {r}"

def flatStr : Flat → String
  | .op i => instrStr i
  | .jumpIfFalse r k => s!"JumpIfFalse {r} +{k}"
  | .jumpIfTrue r k => s!"JumpIfTrue {r} +{k}"
  | .jump k => s!"Jump +{k}"

partial def parseStmt : Sexp → Option Stmt
  | .list [.atom "expr", e] => do pure (.expr (← parseExpr e))
  | .list [.atom "sseq", a, b] => do pure (.seq (← parseStmt a) (← parseStmt b))
  | .list [.atom "site", c, t, e] => do pure (.ite (← parseExpr c) (← parseStmt t) (← parseStmt e))
  | .list [.atom "sifthen", c, t] => do pure (.ifThen (← parseExpr c) (← parseStmt t))
  | .list [.atom "while", c, b] => do pure (.whileS (← parseExpr c) (← parseStmt b))
  | .list [.atom "until", c, b] => do pure (.untilS (← parseExpr c) (← parseStmt b))
  | .list [.atom "loop", b] => do pure (.loopS (← parseStmt b))
  | .list [.atom "break"] => some .brk
  | .list [.atom "continue"] => some .cont
  | _ => none

def lflatStr : LFlat → String
  | .op i => instrStr i
  | .jumpIfFalse r k => s!"JumpIfFalse {r} +{k}"
  | .jumpIfTrue r k => s!"JumpIfTrue {r} +{k}"
  | .jump k => s!"Jump +{k}"
  | .jumpBack k => s!"JumpBack -{k}"

def handle (line : String) : String :=
  match parseLine line with
  | [.atom "compileS", lc, s, e] =>
    match lc.nat?, parseStmt s, parseExpr e with
    | some lc, some s, some e =>
      match compileProg s e lc with
      | some (stream, out, F) =>
        let ret := match out.reg with | some r => toString r | none => "-"
        s!"regs={F.registersUsed} ret={ret} | " ++ " ; ".intercalate (stream.map lflatStr)
      | none => "none"
    | _, _, _ => "bad-request"
  | [.atom "compile", lc, e] =>
    match lc.nat?, parseExpr e with
    | some lc, some e =>
      match compile e .any { tb := 1 + lc } with
      | some (code, out, F) =>
        let ret := match out.reg with | some r => toString r | none => "-"
        s!"regs={F.registersUsed} ret={ret} | " ++ " ; ".intercalate ((flatten code).map flatStr)
      | none => "none"
    | _, _ => "bad-request"
  | _ => "bad-request"

def main : IO Unit := Proto.serve handle
