/-
Model driver for C04 (errors unwind to the right handler; finally always runs).

Requests
  `run g <fuel> <prog>`       guide-level evaluator on the program given as an S-expression.
  `mech <prog>`               mechanism model (`TryMech`): compile with the implementation's
                              try/catch/finally layout and run on the frame/catch-stack machine.
Response (one line): the marker lines the program prints, separated by ` | `, then ` || ` and the
result: `ok <type> <display>`, `err <first line of the message>`, `oof`.
-/
import KotoVerif.Common.Proto
import KotoVerif.Model.TryEval
import KotoVerif.Model.TryMech

open KotoVerif KotoVerif.Proto KotoVerif.Try

namespace C04

def tyOfName (s : String) : Option Ty :=
  match s with
  | "Null" => some .null
  | "Bool" => some .bool
  | "Number" => some .number
  | "String" => some .string
  | "List" => some .list
  | "Map" => some .map
  | _ =>
    match s.toList with
    | 'K' :: rest => (String.ofList rest).toNat?.map Ty.obj
    | 'k' :: 'e' :: 'y' :: 's' :: ':' :: rest =>
      -- `keys:0,2` = the map pattern {k0 …, k2 …}
      let ks := ((String.ofList rest).splitOn ",").filterMap String.toNat?
      some (.keys ks)
    | _ => none

def tyName : Ty → String
  | .null => "Null" | .bool => "Bool" | .number => "Number" | .string => "String" | .list => "List"
  | .map => "Map" | .keys _ => "<pattern>"
  | .obj c => s!"K{c}"

def opText : BOp → String
  | .add => "+" | .lt => "<" | .ge => ">="

def ekText : EK → String
  | .index i n => s!"index out of bounds - index: {i}, size: {n}"
  | .binop op l r => s!"unable to perform operation '{opText op}' with '{tyName l}' and '{tyName r}'"
  | .invalidIndex i => s!"invalid index ({i})"
  | .assert => "assertion failed"
  | .argsFew g e => s!"insufficient arguments ({g}, expected {e})"
  | .argsMany g e => s!"too many arguments ({g}, expected {e})"
  | .access t => s!"expected a value that supports '.' access, found {tyName t}"
  | .pred t => s!"expected Bool from the predicate, found {tyName t}"
  | .expectedBool t => s!"expected Bool, found {tyName t}"
  | .other n => s!"<outside-envelope {n}>"

def strText : Str → String
  | .lit n => s!"str{n}"
  | .err k => ekText k
  | .shown n => s!"str{n}"
  | .lb => "["
  | .rb => "]"
  | .sep => "|"

/-- `{v}` in an interpolated string -/
def dispTop : Val → String
  | .null => "null"
  | .bool b => if b then "true" else "false"
  | .int i => s!"{i}"
  | .str s => strText s
  | .list r => s!"<list {r}>"
  | .mp fs => "{" ++ ", ".intercalate (fs.map (fun f => s!"k{f.1}: {f.2}")) ++ "}"
  | .obj c => s!"k{c}"

/-- element of a displayed container: strings are quoted -/
def dispElem : Val → String
  | .str s => "'" ++ strText s ++ "'"
  | v => dispTop v

/-- display tokens → text: containers are flattened into `[` … `]`; inside a container elements
are separated by `, ` and strings are quoted (the text of an object's `@display` is not) -/
def toksText (ts : List Val) : String :=
  let step := fun (st : String × Nat × Bool) (v : Val) =>
    let (out, depth, first) := st
    match v with
    | .str .lb => (out ++ (if depth > 0 && !first then ", " else "") ++ "[", depth + 1, true)
    | .str .rb => (out ++ "]", depth - 1, false)
    | .str .sep => (out ++ "|", depth, true)
    | v =>
      let txt := match v with
        | .str (.shown n) => s!"str{n}"
        | v => if depth > 0 then dispElem v else dispTop v
      (out ++ (if depth > 0 && !first then ", " else "") ++ txt, depth, false)
  (ts.foldl step ("", 0, true)).1

def shownText : Shown → String
  | .atom v => s!"{tyName v.ty} {dispTop v}"
  | .lst vs => "List [" ++ ", ".intercalate (vs.map dispElem) ++ "]"
  | .parts ts => "[" ++ toksText ts ++ "]"
  | .toks top ts => s!"{tyName top.ty} {toksText ts}"

def evText (e : Ev) : String :=
  match e.arg with
  | none => s!"#{e.tag}"
  | some s => s!"#{e.tag} {shownText s}"

def resText : Res → String
  | (.ok v, σ) => "ok " ++ shownText (shown σ v)
  | (.err v, _) => "err " ++ dispTop v
  | (.oof, _) => "oof"
  | _ => "bad-signal"

def outText (r : Res) : String :=
  " | ".intercalate (r.2.out.map evText) ++ " || " ++ resText r

-- ---------------------------------------------------------------- parsing

def litOf (s : String) : Option Val :=
  match s.toList with
  | ['n', 'u', 'l', 'l'] => some .null
  | ['b', '0'] => some (.bool false)
  | ['b', '1'] => some (.bool true)
  | 'i' :: rest => (String.ofList rest).toInt?.map Val.int
  | 's' :: rest => (String.ofList rest).toNat?.map (fun n => Val.str (.lit n))
  | _ => none

def opOf : String → Option BOp
  | "add" => some .add | "lt" => some .lt | "ge" => some .ge | _ => none

def natKindOf : String → Option NatKind
  | "each" => some .each | "keep" => some .keep | "fold" => some .fold | "sort" => some .sort | _ => none

def faultOf : String → Option FaultKind
  | "idx" => some .idx | "typ" => some .typ | "asrt" => some .asrt | "args" => some .args
  | "key" => some .key | _ => none

mutual
partial def parseE : Sexp → Option E
  | .list [.atom "lit", .atom v] => (litOf v).map E.lit
  | .list [.atom "lit", .list (.atom "rec" :: fs)] =>
    (fs.mapM (fun (f : Sexp) => match f with
      | Sexp.list [k, i] => (do pure ((← k.nat?), (← i.int?)) : Option (Nat × Int))
      | _ => none)).map (fun l => E.lit (.mp l))
  | .list [.atom "var", x] => x.nat?.map E.var
  | .list [.atom "gvar", x] => x.nat?.map E.gvar
  | .list [.atom "assign", x, e] => do pure (.assign (← x.nat?) (← parseE e))
  | .list [.atom "emit", t] => do pure (.emit (← t.nat?) none)
  | .list [.atom "emit", t, e] => do pure (.emit (← t.nat?) (some (← parseE e)))
  | .list (.atom "emiti" :: t :: es) => do pure (.emitI (← t.nat?) (← parseEs es))
  | .list (.atom "mklist" :: es) => do pure (.mkList (← parseEs es))
  | .list [.atom "mkobj", c] => c.nat?.map E.mkObj
  | .list [.atom "index", l, i] => do pure (.index (← parseE l) (← parseE i))
  | .list [.atom "push", l, e] => do pure (.push (← parseE l) (← parseE e))
  | .list [.atom "setidx", l, i, e] => do pure (.setIdx (← parseE l) (← parseE i) (← parseE e))
  | .list [.atom "bin", .atom op, a, b] => do pure (.bin (← opOf op) (← parseE a) (← parseE b))
  | .list (.atom "call" :: f :: es) => do pure (.call (← f.nat?) (← parseEs es))
  | .list [.atom "native", .atom k, f, l] => do pure (.native (← natKindOf k) (← f.nat?) (← parseE l))
  | .list [.atom "throw", e] => do pure (.throw (← parseE e))
  | .list [.atom "fault", .atom k] => (faultOf k).map E.fault
  | .list (.atom "seq" :: es) => do pure (.seq (← parseEs es))
  | .list [.atom "if", c, t, e] => do pure (.ite (← parseE c) (← parseE t) (← parseE e))
  | .list [.atom "forl", x, l, b] => do pure (.forList (← x.nat?) (← parseE l) (← parseE b))
  | .list [.atom "forg", x, g, .list (.atom "args" :: es), b] => do
    pure (.forGen (← x.nat?) (← g.nat?) (← parseEs es) (← parseE b))
  | .list [.atom "brk"] => some .brk
  | .list [.atom "brkv", e] => do pure (.brkV (← parseE e))
  | .list [.atom "cont"] => some .cont
  | .list [.atom "ret", e] => do pure (.ret (← parseE e))
  | .list [.atom "try", b, .list (.atom "catches" :: cs)] => do
    pure (.try_ (← parseE b) (← parseCs cs) none)
  | .list [.atom "try", b, .list (.atom "catches" :: cs), .list [.atom "fin", f]] => do
    pure (.try_ (← parseE b) (← parseCs cs) (some (← parseE f)))
  | _ => none

partial def parseEs : List Sexp → Option (List E)
  | [] => some []
  | s :: rest => do pure ((← parseE s) :: (← parseEs rest))

partial def parseCs : List Sexp → Option (List Catch)
  | [] => some []
  | .list [.atom "c", .atom ty, x, b] :: rest => do
    let t ← if ty == "any" then pure none else (tyOfName ty).map some
    pure ((t, ← x.nat?, ← parseE b) :: (← parseCs rest))
  | _ => none
end

def optNat (s : Sexp) : Option (Option Nat) :=
  match s with
  | .atom "-" => some none
  | s => s.nat?.map some

def parseSegs : List Sexp → Option (List (E × E))
  | [] => some []
  | .list [.atom "seg", p, y] :: rest => do pure ((← parseE p, ← parseE y) :: (← parseSegs rest))
  | _ => none

def parseDefs : List Sexp → Option (List Def)
  | [] => some []
  | .list [.atom "fn", np, nl, b] :: rest => do
    pure ({ isGen := false, nparams := ← np.nat?, nlocals := ← nl.nat?, body := ← parseE b } :: (← parseDefs rest))
  | .list [.atom "gen", np, nl, .list (.atom "segs" :: segs), t] :: rest => do
    pure ({ isGen := true, nparams := ← np.nat?, nlocals := ← nl.nat?, segs := ← parseSegs segs,
            tail := ← parseE t } :: (← parseDefs rest))
  | _ => none

def parseClss : List Sexp → Option (List Cls)
  | [] => some []
  | .list [.atom "cls", a, l] :: rest => do
    pure ({ addFn := ← optNat a, ltFn := ← optNat l } :: (← parseClss rest))
  | .list [.atom "cls", a, l, d] :: rest => do
    pure ({ addFn := ← optNat a, ltFn := ← optNat l, dispFn := ← optNat d } :: (← parseClss rest))
  | _ => none

def parseProg : Sexp → Option Prog
  | .list [.atom "prog", .list [.atom "globals", g], .list (.atom "classes" :: cs),
           .list (.atom "defs" :: ds), .list [.atom "main", nl, b]] => do
    pure { nglobals := ← g.nat?, classes := ← parseClss cs, defs := ← parseDefs ds,
           mainLocals := ← nl.nat?, main := ← parseE b }
  | _ => none

def mechText (r : Mech.Outcome) : String :=
  " | ".intercalate (r.out.map (fun t => s!"#{t}")) ++ " || " ++
    (match r.result with
     | .done => "ok"
     | .uncaught v => "err " ++ dispTop v
     | .stuck => "stuck"
     | .oof => "oof"
     | .running => "running")

def handle (line : String) : String :=
  match parseLine line with
  | [.atom "run", .atom mode, fuel, p] =>
    match parseProg p, fuel.nat? with
    | some P, some n =>
      if mode == "g" then outText (runProg guide P n) else "bad-request"
    | _, _ => "bad-request"
  | [.atom "mech", fuel, p] =>
    match parseProg p, fuel.nat? with
    | some P, some n =>
      match Mech.compileProg P with
      | some code => mechText (Mech.exec code n)
      | none => "unsupported"
    | _, _ => "bad-request"
  | _ => "bad-request"

end C04

def main : IO Unit := Proto.serve C04.handle
