/-
Model driver for C07 (runtime bookkeeping across failed runs). Stateful.

Requests
  `reset`                 → fresh `St` (a new `Koto` instance); response `ok`
  `ev <tok> <tok> …`      → apply the events to the current state; response = state summary
  `state`                 → state summary
  `repl <line> …`         → a REPL session (`Model/Repl.lean`): per typed line `m`/`c` (prompt shown next)
  `gen <tok>… / <tok>… …` → a generator VM (`genInit`) resumed once per `/`-separated event group
                            (`genResume`); response `frames seq str finished` (hook H5 reports the
                            first three for a real generator)

Event tokens (`Model/Unwind.lean : Ev`):
  `nf:N` newFrame · `ts:R:IP` tryStart · `te` tryEnd · `call:FB:A` call · `cn:FB` callNative ·
  `ret` · `ss` seqStart · `se` seqEnd · `rs` strStart · `re` strEnd · `ex:K` exportVal ·
  `raise:0|1` · `osf:N` opSetupFail · `nest:ARGS:A` nested · `ib:M` importBegin ·
  `enter:PRE:ARGS:kA|n|f` · `eop:PRE:ARGS:kA|n|f` enterOp · `ed:PRE:0|1` enterDirect · `nr:0|1` nativeRet · `ie:0|1` importEnd

State summary:
  `regs stackLen seq str base | minRegs contsLen | p<placeholders,> | c<cached,> | e<exports,>`
(the first five fields are what hook H1 reports).
-/
import KotoVerif.Common.Proto
import KotoVerif.Model.Unwind
import KotoVerif.Model.Repl

open KotoVerif KotoVerif.Unwind

def natsOf (xs : List String) : Option (List Nat) := xs.mapM String.toNat?

def parseEv (tok : String) : Option Ev :=
  match tok.splitOn ":" with
  | ["nf", n] => n.toNat?.map Ev.newFrame
  | ["ts", r, ip] => do pure (Ev.tryStart (← r.toNat?) (← ip.toNat?))
  | ["te"] => some .tryEnd
  | ["call", fb, a] => do pure (Ev.call (← fb.toNat?) (← a.toNat?))
  | ["cn", fb] => fb.toNat?.map Ev.callNative
  | ["ret"] => some .ret
  | ["ss"] => some .seqStart
  | ["se"] => some .seqEnd
  | ["rs"] => some .strStart
  | ["re"] => some .strEnd
  | ["ex", k] => k.toNat?.map Ev.exportVal
  | ["raise", c] => c.toNat?.map (fun n => Ev.raise (n != 0))
  | ["osf", n] => n.toNat?.map Ev.opSetupFail
  | ["nest", a, b] => do pure (Ev.nested (← a.toNat?) (← b.toNat?))
  | ["ib", m] => m.toNat?.map Ev.importBegin
  | ["eop", pre, args, c] => do
    let pre ← pre.toNat?
    let args ← args.toNat?
    let callee ← match c.toList with
      | ['n'] => some Callee.native
      | ['f'] => some Callee.fail
      | 'k' :: rest => (String.ofList rest).toNat?.map Callee.koto
      | _ => none
    pure (Ev.enterOp pre args callee)
  | ["enter", pre, args, c] => do
    let pre ← pre.toNat?
    let args ← args.toNat?
    let callee ← match c.toList with
      | ['n'] => some Callee.native
      | ['f'] => some Callee.fail
      | 'k' :: rest => (String.ofList rest).toNat?.map Callee.koto
      | _ => none
    pure (Ev.enter pre args callee)
  | ["ed", pre, ok] => do pure (Ev.enterDirect (← pre.toNat?) ((← ok.toNat?) != 0))
  | ["nr", ok] => ok.toNat?.map (fun n => Ev.nativeRet (n != 0))
  | ["ie", ok] => ok.toNat?.map (fun n => Ev.importEnd (n != 0))
  | _ => none

def listStr (xs : List Nat) : String := ",".intercalate (xs.map toString)

def summary (st : St) : String :=
  let vm := st.vm
  s!"{vm.regs} {vm.stack.length} {vm.seq} {vm.str} {vm.base} | {vm.minRegs} {st.conts.length} | p{listStr vm.placeholders} | c{listStr vm.cached} | e{listStr vm.exports}"

def stepLine (st : St) (line : String) : St × String :=
  match (line.splitOn " ").filter (· ≠ "") with
  | ["reset"] => ({}, "ok")
  | ["state"] => (st, summary st)
  | "ev" :: toks =>
    match toks.mapM parseEv with
    | some evs =>
      let st' := run evs st
      (st', summary st')
    | none => (st, "bad-request")
  | "repl" :: toks =>
    -- one REPL session: a token per typed line `<b|l><indent>:<ok|err|ind|oth>:<0|1>`;
    -- answer: per line `m` (main prompt next) or `c` (continuation prompt next)
    let parseLine (t : String) : Option KotoVerif.Repl.Line :=
      match t.splitOn ":" with
      | [a, v, p] =>
        match a.toList with
        | k :: ds => do
          let ind ← (String.ofList ds).toNat?
          let verdict ← match v with
            | "ok" => some KotoVerif.Repl.Verdict.runOk
            | "err" => some .runErr
            | "ind" => some .indentErr
            | "oth" => some .otherErr
            | _ => none
          pure { blank := k == 'b', indent := ind, verdict := verdict, pushIndents := p == "1" }
        | [] => none
      | _ => none
    match toks.mapM parseLine with
    | none => (st, "bad-request")
    | some ls =>
      let (_, out) := ls.foldl (fun (acc : KotoVerif.Repl.State × List String) l =>
        let s' := KotoVerif.Repl.onLine acc.1 l
        (s', acc.2 ++ [if KotoVerif.Repl.atMainPrompt s' then "m" else "c"])) ({}, [])
      (st, " ".intercalate out)
  | "gen" :: toks =>
    -- one generator VM: resumptions separated by `/`; answer `frames seq str finished`
    let groups := (" ".intercalate toks).splitOn "/"
    let parsed := groups.map (fun g => ((g.splitOn " ").filter (· ≠ "")).mapM parseEv)
    if parsed.any Option.isNone then (st, "bad-request")
    else
      let vm := (parsed.filterMap id).foldl (fun vm evs => (genResume evs vm).vm) (genInit 0)
      (st, s!"{vm.stack.length} {vm.seq} {vm.str} {if genFinished vm then 1 else 0}")
  | _ => (st, "bad-request")

def main : IO Unit := Proto.serveSt ({} : St) stepLine
