/-
Model driver for C08 (execution limit).

Requests
* `new <rate:16hex f64 bits> <cap:16hex f64 bits> <max_interval> <limit_ns> <now_ns>`
    → `<interval_instructions> <interval_seconds:16hex> <deadline>`
* `check <last_check> <deadline> <interval_seconds:16hex> <interval_instructions> <since_last> <limit_ns> <now>`
    → `<skip|ok|timeout> <last_check> <interval_instructions> <since_last> <sound:0|1>`
* `trace <rate:16hex> <cap:16hex> <max_interval> <limit_ns> <t1> <t2> …`  (clock readings of the clock-reading polls, ns since `new`)
    → `<I0> (<calls> <last_check> <interval_instructions> <timed_out:0|1> <sound:0|1>) …`
* `deliver <t|e> (<code> <handler>…) …`   (frames, top first; `t` = timeout, `e` = ordinary error;
    code 0 = plain frame, 1 = barrier frame (entry boundary))
    → `caught <handler> <frames_left>` | `escaped timeout` | `escaped other` (what the host receives)
-/
import KotoVerif.Common.Proto
import KotoVerif.Common.ValueIO
import KotoVerif.Model.Timeout

open KotoVerif KotoVerif.Proto KotoVerif.Timeout

/-- `TOps` backed by the runtime's IEEE-754 `Float` (C `double`): the conversions are the C casts
`(double)(uint64_t)n` (round to nearest even, as Rust `as f64`) and Lean's saturating
`Float.toUInt64` (NaN ↦ 0, as Rust `as usize` on a 64-bit target). -/
def nativeTOps : TOps where
  ofNat n := (UInt64.ofNat n).toFloat.toBits
  add a b := (Float.ofBits a + Float.ofBits b).toBits
  mul a b := (Float.ofBits a * Float.ofBits b).toBits
  div a b := (Float.ofBits a / Float.ofBits b).toBits
  lt a b := Float.ofBits a < Float.ofBits b
  isNaN b := (Float.ofBits b).isNaN
  toNatSat b := (Float.ofBits b).toUInt64.toNat

def hex64? (s : String) : Option UInt64 := ValueIO.parseHex64 s.toList

def b01 (b : Bool) : String := if b then "1" else "0"

def pollStr : Poll → String
  | .skip => "skip"
  | .ok => "ok"
  | .timeout => "timeout"

def snapStr (s : Snap) : String :=
  s!"({s.calls} {s.lastCheck} {s.interval} {b01 s.timedOut} {b01 s.sound})"

def parseFrame : Sexp → Option Frame
  | .list (b :: hs) => do
    let bb ← b.nat?
    let hs' ← hs.mapM Sexp.nat?
    pure { catches := hs', barrier := bb == 1 }
  | _ => none

def deliveryStr : Delivery → String
  | .caught h n => s!"caught {h} {n}"
  | .escaped .timeout => "escaped timeout"
  | .escaped .other => "escaped other"

def handle (line : String) : String :=
  let F := nativeTOps
  match line.splitOn " " with
  | ["new", rate, cap, maxI, limit, now] =>
    match hex64? rate, hex64? cap, maxI.toNat?, limit.toNat?, now.toNat? with
    | some r, some c, some m, some l, some n =>
      let s := Timeout.new F r c m l n
      s!"{s.intervalInstr} {ValueIO.hex16 s.intervalSeconds} {s.deadline}"
    | _, _, _, _, _ => "bad-request"
  | ["check", last, dl, isec, iv, since, limit, now] =>
    match last.toNat?, dl.toNat?, hex64? isec, iv.toNat?, since.toNat?, limit.toNat?, now.toNat? with
    | some last, some dl, some isec, some iv, some since, some limit, some now =>
      let s : St := { lastCheck := last, deadline := dl, intervalSeconds := isec, intervalInstr := iv,
                      sinceLast := since, limit := limit }
      let (s', p) := check F s now
      let sound := p != .ok || decide (UpdateSound F s now)
      s!"{pollStr p} {s'.lastCheck} {s'.intervalInstr} {s'.sinceLast} {b01 sound}"
    | _, _, _, _, _, _, _ => "bad-request"
  | "trace" :: rate :: cap :: maxI :: limit :: ts =>
    match hex64? rate, hex64? cap, maxI.toNat?, limit.toNat?, (ts.filter (· ≠ "")).mapM String.toNat? with
    | some r, some c, some m, some l, some ts =>
      let s := Timeout.new F r c m l 0
      s!"{s.intervalInstr}" ++ String.join ((replay F ts s 0).map (fun x => " " ++ snapStr x))
    | _, _, _, _, _ => "bad-request"
  | "deliver" :: kind :: _ =>
    match parseLine line with
    | _ :: _ :: frames =>
      match frames.mapM parseFrame with
      | some fs =>
        if kind == "t" then deliveryStr (deliverTimeout fs)
        else if kind == "e" then deliveryStr (deliverError fs)
        else "bad-request"
      | none => "bad-request"
    | _ => "bad-request"
  | _ => "bad-request"

def main : IO Unit := Proto.serve handle
