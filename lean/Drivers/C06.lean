/-
Model driver for C06 (panic kernels of `Model/Guards.lean`).

Request: `<kernel> <args…>` — integers in decimal, numbers (`KNumber`) as `i<dec>` / `f<16 hex bits>`,
ranges as `(r <start|_> <end|_> <0|1 inclusive>)`, byte strings as `x<hex>`.
Response: `panic` | `err` | `ok <canonical result>`.
The float → integer views (`NumView`) are computed here with the runtime's IEEE `Float`, mirroring
`number.rs` (`as` casts saturate, NaN ↦ 0).
-/
import KotoVerif.Common.Proto
import KotoVerif.Common.ValueIO
import KotoVerif.Model.Guards

open KotoVerif KotoVerif.Proto KotoVerif.Guards

def sat (lo hi : Int) (x : Int) : Int := max lo (min hi x)

/-- `f as i64` / `f as usize` (saturating, NaN ↦ 0) -/
def floatToI64 (f : Float) : Int := f.toInt64.toInt
def floatToUsize (f : Float) : Int := Int.ofNat f.toUInt64.toNat

def numView (s : String) : Option NumView :=
  match s.toList with
  | 'i' :: rest =>
    (String.ofList rest).toInt?.map fun n =>
      { ltZeroF := (Float.ofInt n) < 0.0, geZeroF := (Float.ofInt n) ≥ 0.0, geZeroI := decide (n ≥ 0), usize := sat 0 USIZE_MAX n, i64 := n }
  | 'f' :: rest =>
    (ValueIO.parseHex64 rest).map fun b =>
      let f := Float.ofBits b
      { ltZeroF := f < 0.0, geZeroF := f ≥ 0.0, geZeroI := decide (floatToI64 f ≥ 0), usize := floatToUsize f, i64 := floatToI64 f }
  | _ => none

/-- the integer `KRange::contains` compares: `if n < 0.0 { floor } else { ceil }` then `i64::from` -/
def containsArg (s : String) : Option Int :=
  match s.toList with
  | 'i' :: rest => (String.ofList rest).toInt?
  | 'f' :: rest =>
    (ValueIO.parseHex64 rest).map fun b =>
      let f := Float.ofBits b
      floatToI64 (if f < 0.0 then f.floor else f.ceil)
  | _ => none

def parseRange : Sexp → Option KRange
  | .list [.atom "r", a, b, incl] =>
    let pa : Option (Option Int) := match a with | .atom "_" => some none | x => x.int?.map some
    let pb : Option (Option (Int × Bool)) := match b with
      | .atom "_" => some none
      | x => x.int?.map fun n => some (n, incl.atom? == some "1")
    match pa, pb with
    | some a, some b => some ⟨a, b⟩
    | _, _ => none
  | _ => none

def resStr {α : Type} (f : α → String) : Res α → String
  | .panic => "panic"
  | .err => "err"
  | .ok a => "ok " ++ f a

def pairStr (p : Int × Int) : String := s!"{p.1} {p.2}"
def optIntStr : Option Int → String
  | some n => toString n
  | none => "none"
def optPairStr : Option (Int × Int) → String
  | some p => pairStr p
  | none => "none"
def boolStr (b : Bool) : String := if b then "1" else "0"
def popStr (r : Option Int × Int × Int × Bool) : String :=
  s!"{optIntStr r.1} {r.2.1} {r.2.2.1} {boolStr r.2.2.2}"
def piecesStr (ps : List (Int × Int)) : String :=
  " ".intercalate (ps.map fun p => s!"{p.1}-{p.2}")

def frameOps (s : String) : List FrameOp :=
  s.toList.filterMap fun c => if c == 'u' then some .push else if c == 'o' then some .pop else none

/-- run a push/pop script on the model, printing every observable result -/
def frameTrace (f : Frame) : List FrameOp → List String → String
  | [], acc => " ".intercalate acc.reverse
  | .push :: ops, acc =>
    match pushRegister f with
    | .panic => " ".intercalate ("panic" :: acc).reverse
    | .err => " ".intercalate ("err" :: acc).reverse
    | .ok (r, f') => frameTrace f' ops ((match r with | some n => s!"u{n}" | none => "uE") :: acc)
  | .pop :: ops, acc =>
    match popRegister f with
    | .panic => " ".intercalate ("panic" :: acc).reverse
    | .err => " ".intercalate ("err" :: acc).reverse
    | .ok (r, f') => frameTrace f' ops ((match r with | some n => s!"o{n}" | none => "oE") :: acc)

/-- `F<rem><hint><range><size><shift><abs><expanded><openIndex>` (one `0`/`1` each): which repairs
the implementation contains (from the status of the findings) -/
def parseFx (s : String) : Option Fx :=
  match s.toList with
  | 'F' :: bits =>
    if bits.length == 8 ∧ bits.all (fun c => c == '0' || c == '1') then
      let b (i : Nat) := bits[i]? == some '1'
      some ⟨b 0, b 1, b 2, b 3, b 4, b 5, b 6, b 7⟩
    else none
  | _ => none

/-- pull trace of a `StepTo`: the size hint first, then per pull (`f` = next, `b` = next_back) the
value (`-` when exhausted) and the size hint again -/
def stepTrace (s : StepTo) (ops : List Char) (acc : List String) : String :=
  let hint := match stepToSizeHint s with | .ok h => s!"h{h}" | _ => "hpanic"
  match ops with
  | [] => " ".intercalate (hint :: acc).reverse
  | c :: rest =>
    match (if c == 'b' then stepToNextBack s else stepToNext s) with
    | .ok (v, s') =>
      stepTrace s' rest ((match v with | some x => s!"{c}{x}" | none => s!"{c}-") :: hint :: acc)
    | _ => " ".intercalate ("panic" :: hint :: acc).reverse

/-- `t3,f2,…` → retain moves -/
def parseMoves (s : String) : Option (List RetainMove) :=
  if s == "-" then some [] else
  (s.splitOn ",").mapM fun m =>
    match m.toList with
    | 't' :: rest => (String.ofList rest).toInt?.map fun n => (true, n)
    | 'f' :: rest => (String.ofList rest).toInt?.map fun n => (false, n)
    | _ => none

def handleFx (fx : Fx) (items : List Sexp) : String :=
  let bad := "bad-request"
  match items with
  | [.atom "abr", r] => match parseRange r with
    | some r => resStr pairStr (asBoundedRangeG fx r) | none => bad
  | [.atom "size", r] => match parseRange r with
    | some r => resStr optIntStr (rangeSizeG fx r) | none => bad
  | [.atom "contains", r, .atom n] => match parseRange r, containsArg n with
    | some r, some n => resStr boolStr (rangeContainsG fx r n) | _, _ => bad
  | [.atom "indices", r, m] => match parseRange r, m.int? with
    | some r, some m => resStr pairStr (rangeIndicesG fx r m) | _, _ => bad
  | [.atom "isect", a, b] => match parseRange a, parseRange b with
    | some a, some b => resStr optPairStr (rangeIntersectionG fx a b) | _, _ => bad
  | [.atom "popf", l, s, e, i] => match l.int?, s.int?, e.int?, i.int? with
    | some l, some s, some e, some i => resStr popStr (popFront (l == 1) s e (i == 1)) | _, _, _, _ => bad
  | [.atom "popb", l, s, e, i] => match l.int?, s.int?, e.int?, i.int? with
    | some l, some s, some e, some i => resStr popStr (popBack (l == 1) s e (i == 1)) | _, _, _, _ => bad
  | [.atom "idxseq", len, .atom n] => match len.int?, numView n with
    | some len, some n => resStr toString (runIndexSeqNum len n) | _, _ => bad
  | [.atom "idxstr", len, .atom n] => match len.int?, numView n with
    | some len, some n => resStr pairStr (runIndexStrNum len n) | _, _ => bad
  | [.atom "idxrange", r, .atom n] => match parseRange r, numView n with
    | some r, some n => resStr toString (runIndexRangeNumG fx r n) | _, _ => bad
  | [.atom "idxseqrange", len, r] => match len.int?, parseRange r with
    | some len, some r => resStr pairStr (runIndexSeqRangeG fx len r) | _, _ => bad
  | [.atom "asglist", len, .atom n] => match len.int?, numView n with
    | some len, some n => resStr toString (indexAssignListNum len n) | _, _ => bad
  | [.atom "asglistrange", len, r] => match len.int?, parseRange r with
    | some len, some r => resStr pairStr (indexAssignListRangeG fx len r) | _, _ => bad
  | [.atom "asgmap", len, .atom n, pair, key] => match len.nat?, numView n, pair.int?, key.nat? with
    | some len, some n, some pair, some key =>
      resStr (fun ks => " ".intercalate (ks.map toString))
        (indexAssignMap (List.range len) n.geZeroF n.usize.toNat (pair == 1) key)
    | _, _, _, _ => bad
  | [.atom "slice", len, idx, to] => match len.int?, idx.int?, to.int? with
    | some len, some idx, some to => resStr optPairStr (runSliceSeq len idx (to == 1)) | _, _, _ => bad
  | [.atom "tmpidx", len, idx] => match len.int?, idx.int? with
    | some len, some idx => resStr optIntStr (runTempIndexSeq len idx) | _, _ => bad
  | [.atom "tmpidxrange", r, idx] => match parseRange r, idx.int? with
    | some r, some idx => resStr optIntStr (runTempIndexRangeG fx r idx) | _, _ => bad
  | [.atom "matchrange", r, idx] => match parseRange r, idx.int? with
    -- a nested pattern `(…, y)` / `(x, …)` on a range: size test (`run_size`), then `run_temp_index`
    | some r, some idx =>
      (match rangeSizeG fx r with
      | .panic => "panic"
      | .err => "err"
      | .ok none => "ok nomatch"
      | .ok (some sz) =>
        if sz < 1 then "ok nomatch" else resStr optIntStr (runTempIndexRangeG fx r idx))
    | _, _ => bad
  | [.atom "matchslice", r, idx, to, minLen] => match parseRange r, idx.int?, to.int?, minLen.int? with
    -- `(x, rest...)` / `(rest..., y)` on a range: size test, then `run_slice`
    | some r, some idx, some to, some minLen =>
      (match rangeSizeG fx r with
      | .panic => "panic"
      | .err => "err"
      | .ok none => "ok nomatch"
      | .ok (some sz) =>
        if sz < minLen then "ok nomatch" else resStr pairStr (runSliceRangeG fx r idx (to == 1)))
    | _, _, _, _ => bad
  | [.atom "hostop", g, next, extra] => match g.int?, next.int?, extra.int? with
    | some g, some next, some extra => resStr toString (hostOp (g == 1) next extra) | _, _, _ => bad
  | [.atom "pad", g, b, w, .atom a] => match g.int?, b.int?, w.int? with
    | some g, some b, some w =>
      let al : Option Align := match a with
        | "dn" => some (.default true) | "ds" => some (.default false) | "l" => some .left
        | "c" => some .center | "r" => some .right | _ => none
      (match al with
      | some al => resStr pairStr (padFill false g b w al)
      | none => bad)
    | _, _, _ => bad
  | .atom "unpack" :: argc :: lens => match argc.int?, lens.mapM Sexp.int? with
    | some argc, some lens => resStr toString (unpackArgs false argc lens)
    | _, _ => bad
  | [.atom "sidx", idx, size] => match idx.int?, size.int? with
    | some idx, some size => resStr toString (signedIndexToUnsigned idx size) | _, _ => bad
  | [.atom "rem", a, b] => match a.int?, b.int? with
    | some a, some b => resStr (fun o => match o with | some v => toString v | none => "nan") (runRemainder a b) | _, _ => bad
  | [.atom "remasg", a, b] => match a.int?, b.int? with
    | some a, some b => resStr (fun o => match o with | some v => toString v | none => "nan") (runRemainderAssignG fx a b) | _, _ => bad
  | [.atom "pow", a, b] => match a.int?, b.int? with
    | some a, some b => resStr toString (powInt a b) | _, _ => bad
  | [.atom "shl", a, .atom n] => match a.int?, numView n with
    | some a, some n => resStr toString (shiftLeftG fx a n) | _, _ => bad
  | [.atom "shr", a, .atom n] => match a.int?, numView n with
    | some a, some n => resStr toString (shiftRightG fx a n) | _, _ => bad
  | [.atom "abs", a] => match a.int? with
    | some a => resStr toString (absIntG fx a) | none => bad
  | [.atom "stepto", a, b, c, .atom ops] => match a.int?, b.int?, c.int? with
    | some a, some b, some c =>
      (match stepToNew a b c with
      | .ok s => "ok " ++ stepTrace s (ops.toList.filter (fun ch => ch == 'f' || ch == 'b')) []
      | .panic => "panic"
      | .err => "err")
    | _, _, _ => bad
  | [.atom "retain", len0, .atom moves] => match len0.int?, parseMoves moves with
    | some len0, some ms => resStr toString (listRetain true len0 ms) | _, _ => bad
  | [.atom "expanded", s, e, n] => match s.int?, e.int?, n.int? with
    | some s, some e, some n => resStr pairStr (rangeExpandedG fx s e n) | _, _, _ => bad
  | [.atom "linsert", len, .atom n] => match len.int?, numView n with
    | some len, some n => resStr toString (listInsert len n) | _, _ => bad
  | [.atom "lremove", len, .atom n] => match len.int?, numView n with
    | some len, some n => resStr toString (listRemove len n) | _, _ => bad
  | [.atom "lget", len, .atom n] => match len.int?, numView n with
    | some len, some n => resStr optIntStr (listGet len n) | _, _ => bad
  | [.atom "lresize", .atom n] => match numView n with
    | some n => resStr toString (listResize n) | none => bad
  | [.atom "split", .atom i, .atom p, k] => match bytesOfHex i, bytesOfHex p, k.nat? with
    | some i, some p, some k =>
      let (ps, h) := splitRunH (sizeHintG fx) i p false k ⟨i.length, 0⟩ []
      s!"{piecesStr ps} | {resStr toString h}"
    | _, _, _ => bad
  | [.atom "lines", .atom i, k] => match bytesOfHex i, k.nat? with
    | some i, some k =>
      let (ps, h) := linesRunH (sizeHintG fx) i k ⟨i.length, 0⟩ []
      s!"{piecesStr ps} | {resStr toString h}"
    | _, _ => bad
  | [.atom "bytes", len, k] => match len.int?, k.nat? with
    | some len, some k =>
      let (n, h) := bytesRun k ⟨len, 0⟩ 0
      s!"{n} | {resStr toString h}"
    | _, _ => bad
  | [.atom "withbounds", dl, ss, bs, be, ok] => match dl.int?, ss.int?, bs.int?, be.int?, ok.int? with
    | some dl, some ss, some bs, some be, some ok => resStr optPairStr (withBounds dl ss bs be (ok == 1))
    | _, _, _, _, _ => bad
  | [.atom "tupwithbounds", dl, ss, se, bs, be] => match dl.int?, ss.int?, se.int?, bs.int?, be.int? with
    | some dl, some ss, some se, some bs, some be => resStr optPairStr (tupleWithBounds dl ss se bs be)
    | _, _, _, _, _ => bad
  | [.atom "strwithbounds", dl, ss, se, bs, be, ok] => match dl.int?, ss.int?, se.int?, bs.int?, be.int?, ok.int? with
    | some dl, some ss, some se, some bs, some be, some ok => resStr optPairStr (stringWithBounds dl ss se bs be (ok == 1))
    | _, _, _, _, _, _ => bad
  | [.atom "strsplit", dl, ss, off, ok] => match dl.int?, ss.int?, off.int?, ok.int? with
    | some dl, some ss, some off, some ok => resStr optIntStr (stringSliceSplit dl ss off (ok == 1))
    | _, _, _, _ => bad
  | [.atom "peek", q, n] => match q.int?, n.int? with
    | some q, some n => resStr toString (lexerPeek q n) | _, _ => bad
  | [.atom "excerpt", nl, sl, sc, el, ec] => match nl.int?, sl.int?, sc.int?, el.int?, ec.int? with
    | some nl, some sl, some sc, some el, some ec => resStr (fun _ => "text") (sourceExcerpt nl sl sc el ec)
    | _, _, _, _, _ => bad
  | [.atom "deadline", now, lim] => match now.int?, lim.int? with
    | some now, some lim => resStr (fun _ => "instant") (timeoutDeadline now lim) | _, _ => bad
  | [.atom "framenew", lc, caps, ph] => match lc.int?, caps.int?, ph.int? with
    | some lc, some caps, some ph => resStr toString (frameNew lc caps ph) | _, _, _ => bad
  | [.atom "frameops", base, .atom ops] => match base.int? with
    | some base => frameTrace ⟨base, 0, 0, []⟩ (frameOps ops) []
    | none => bad
  | [.atom "peekreg", len, n] => match len.int?, n.int? with
    | some len, some n => resStr optIntStr (peekRegister len n) | _, _ => bad
  | _ => bad

def handle (line : String) : String :=
  match parseLine line with
  | .atom f :: rest =>
    (match parseFx f with
    | some fx => handleFx fx rest
    | none => handleFx Fx.none (.atom f :: rest))
  | items => handleFx Fx.none items

def main : IO Unit := Proto.serve handle
