/-
Model driver for C12 (diagnostics positions). Requests (one per line):

* `srcmap <ip:sl:sc:el:ec>* | <q>*`      push sequence, then lookups
      → one field per lookup: `none` or `sl:sc:el:ec`
* `excerpt <sl> <sc> <el> <ec> <xhex-line>*`   `format_source_excerpt` over the `lines()` of a source
      → `panic:<kind>` or `ok w=<width> q=<idx,idx,…> u=<spaces,carets|none> <xhex rendered text>`
* `trace <faultIp> <faultInTry 0|1> <ip:callee:inTry>*`   call chain outermost first, then a fault
      → `caught` or `uncaught <chunk:ip>*`
* `segs <seg> / <seg> …`   entries separated by native re-entries, innermost first;
  seg = `<failIp> <failInTry> <adaptorIp|-> <ip:callee:inTry>*` → same as `trace`
* `unwind <allow 0|1> <chunk> <ip> <chunk:retIp:catch:barrier>*`   raw `pop_call_stack_on_error`
      → same as `trace`
* `compile <root sl:sc:el:ec> <steps…>`   span-stack model; steps: `o<n>` op, `n<n>` op without
  span, `(<sl:sc:el:ec>` open node, `)` close node
      → `<stack depth after> | <ip:span-or-none as looked up in the compressed map>*`
* `dbg <ip:sl:sc:el:ec>* | <q>`          prefix line of a `debug` instruction at ip q → `[n]`/`#ERR`
-/
import KotoVerif.Common.Proto
import KotoVerif.Model.SrcMap
import KotoVerif.Model.Excerpt
import KotoVerif.Model.Trace

open KotoVerif KotoVerif.SrcMap

def nats (s : String) (sep : String) : Option (List Nat) :=
  let ps := (s.splitOn sep).map String.toNat?
  if ps.any Option.isNone then none else some (ps.filterMap id)

def spanOf : List Nat → Option Span
  | [a, b, c, d] => some ⟨⟨a, b⟩, ⟨c, d⟩⟩
  | _ => none

def parseEntry (s : String) : Option Entry :=
  match nats s ":" with
  | some (ip :: rest) => (spanOf rest).map (fun sp => (ip, sp))
  | _ => none

def spanStr (sp : Span) : String :=
  s!"{sp.start.line}:{sp.start.col}:{sp.stop.line}:{sp.stop.col}"

def optSpanStr : Option Span → String
  | some sp => spanStr sp
  | none => "none"

def splitBar (fs : List String) : List String × List String :=
  (fs.takeWhile (· ≠ "|"), (fs.dropWhile (· ≠ "|")).drop 1)

def allSome {α} (xs : List (Option α)) : Option (List α) :=
  if xs.any Option.isNone then none else some (xs.filterMap id)

def handleSrcmap (fs : List String) : String :=
  let (es, qs) := splitBar fs
  match allSome (es.map parseEntry), allSome (qs.map String.toNat?) with
  | some es, some qs =>
    let m := pushAll es
    " ".intercalate (qs.map (fun q => optSpanStr (lookup m q)))
  | _, _ => "bad-request"

def handleDbg (fs : List String) : String :=
  let (es, qs) := splitBar fs
  match allSome (es.map parseEntry), allSome (qs.map String.toNat?) with
  | some es, some [q] =>
    match debugPrefixLine (pushAll es) q with
    | some n => s!"[{n}]"
    | none => "#ERR"
  | _, _ => "bad-request"

def panicStr : Excerpt.Panic → String
  | .lineUnderflow => "lineUnderflow"
  | .noSuchLine => "noSuchLine"
  | .colUnderflow => "colUnderflow"

def utf8Str (bs : List Nat) : String :=
  match String.fromUTF8? (ByteArray.mk (bs.map UInt8.ofNat).toArray) with
  | some s => s
  | none => "?"

def handleExcerpt (fs : List String) : String :=
  match fs with
  | a :: b :: c :: d :: ls =>
    match allSome ([a, b, c, d].map String.toNat?), allSome (ls.map Proto.bytesOfHex) with
    | some [sl, sc, el, ec], some ls =>
      let lines := ls.map utf8Str
      let sp : Span := ⟨⟨sl, sc⟩, ⟨el, ec⟩⟩
      match Excerpt.excerpt lines.length sp with
      | .panic p => s!"panic:{panicStr p}"
      | .ok o =>
        let q := ",".intercalate (o.quoted.map (fun p => toString p.2))
        let u := match o.underline with
          | some (x, y) => s!"{x},{y}"
          | none => "none"
        let txt := (Excerpt.render lines sp).getD ""
        s!"ok w={o.numberWidth} q={q} u={u} {Proto.hexOfBytes (txt.toUTF8.toList.map UInt8.toNat)}"
    | _, _ => "bad-request"
  | _ => "bad-request"

def outcomeStr : Trace.Outcome → String
  | .caught => "caught"
  | .uncaught tr => " ".intercalate ("uncaught" :: tr.map (fun f => s!"{f.chunk}:{f.ip}"))

def handleTrace (fs : List String) : String :=
  match fs with
  | f :: t :: cs =>
    let calls := cs.map (fun s => match nats s ":" with
      | some [ip, c, t] => some ({ ip := ip, callee := c, inTry := t == 1 } : Trace.Call)
      | _ => none)
    match f.toNat?, t.toNat?, allSome calls with
    | some f, some t, some calls => outcomeStr (Trace.predict calls f (t == 1))
    | _, _, _ => "bad-request"
  | _ => "bad-request"

/-- `segs <seg> / <seg> / …` innermost first; seg = `<failIp> <failInTry> <adaptorIp|-> <ip:callee:inTry>*` -/
def parseSeg (fs : List String) : Option Trace.Seg :=
  match fs with
  | f :: t :: a :: cs =>
    let calls := cs.map (fun s => match nats s ":" with
      | some [ip, c, t] => some ({ ip := ip, callee := c, inTry := t == 1 } : Trace.Call)
      | _ => none)
    match f.toNat?, t.toNat?, allSome calls with
    | some f, some t, some calls =>
      if a == "-" then some { calls := calls, failIp := f, failInTry := t == 1 }
      else (a.toNat?).map (fun a => { calls := calls, failIp := f, adaptorIp := some a, failInTry := t == 1 })
    | _, _, _ => none
  | _ => none

def splitOnTok (sep : String) (fs : List String) : List (List String) :=
  let r := fs.foldl (fun (acc : List (List String) × List String) t =>
    if t == sep then (acc.2.reverse :: acc.1, []) else (acc.1, t :: acc.2)) ([], [])
  (r.2.reverse :: r.1).reverse

def handleSegs (fs : List String) : String :=
  match allSome ((splitOnTok "/" fs).map parseSeg) with
  | some segs => outcomeStr (Trace.predictSegs segs [])
  | none => "bad-request"

def handleUnwind (fs : List String) : String :=
  match fs with
  | a :: c :: ip :: frs =>
    let frames := frs.map (fun s => match nats s ":" with
      | some [ch, r, k, b] => some ({ chunk := ch, retIp := r, hasCatch := k == 1, barrier := b == 1 } : Trace.Frame)
      | _ => none)
    match a.toNat?, c.toNat?, ip.toNat?, allSome frames with
    | some a, some c, some ip, some frames =>
      outcomeStr (Trace.unwind (a == 1) { stack := frames, chunk := c, ip := ip })
    | _, _, _, _ => "bad-request"
  | _ => "bad-request"

/-- parse the step tokens of one nesting level; returns the steps and the tokens after the
matching `)` -/
partial def parseSteps (ts : List String) : Option (Steps × List String) :=
  match ts with
  | [] => some (.done, [])
  | ")" :: rest => some (.done, rest)
  | t :: rest =>
    if t.startsWith "(" then
      match (nats (t.drop 1).toString ":").bind spanOf with
      | some sp =>
        match parseSteps rest with
        | some (body, rest') =>
          match parseSteps rest' with
          | some (more, rest'') => some (.node sp body more, rest'')
          | none => none
        | none => none
      | none => none
    else if t.startsWith "o" then
      match (t.drop 1).toString.toNat?, parseSteps rest with
      | some n, some (more, rest') => some (.op n more, rest')
      | _, _ => none
    else if t.startsWith "n" then
      match (t.drop 1).toString.toNat?, parseSteps rest with
      | some n, some (more, rest') => some (.opNoSpan n more, rest')
      | _, _ => none
    else none

def handleCompile (fs : List String) : String :=
  match fs with
  | r :: ts =>
    match (nats r ":").bind spanOf, parseSteps ts with
    | some root, some (steps, _) =>
      let s := compile steps { stack := [root] }
      let m := pushAll s.entries
      let rows := s.instrs.map (fun (ip, _) => s!"{ip}={optSpanStr (lookup m ip)}")
      " ".intercalate (toString s.stack.length :: "|" :: rows)
    | _, _ => "bad-request"
  | _ => "bad-request"

def handle (line : String) : String :=
  match (line.splitOn " ").filter (· ≠ "") with
  | "srcmap" :: rest => handleSrcmap rest
  | "dbg" :: rest => handleDbg rest
  | "excerpt" :: rest => handleExcerpt rest
  | "trace" :: rest => handleTrace rest
  | "unwind" :: rest => handleUnwind rest
  | "segs" :: rest => handleSegs rest
  | "compile" :: rest => handleCompile rest
  | _ => "bad-request"

def main : IO Unit := Proto.serve handle
