/-
Model driver for C05 (bytecode well-formedness, instruction codec, register allocator).

Requests (one per line):
  `wf <xhex bytes> <kinds>`   kinds: one letter per constant (`S` string, `I` i64, `F` f64), `-` if none
      → `ok` | `fail <reason>@<pc>:<Op>`            (verdict = `wfChunk && flagsOk`, reason = `explainChunk` / `explainFlags`)
  `dis <xhex bytes>`          linear decoding of the whole chunk as `InstructionReader` iterates it
      → `<pc>:<size>:<Op> <operands…>|…|end@<pc>`   (`bad@<pc>` on `Instruction::Error`)
  `frame <local_count> (<args>) (<captures>) (<op>)…`   args: `L<id>` `U<id>` `P`
      ops: `(push) (pop) (peek n) (trunc n) (assign id) (reserve id) (commit r) (defer r xhex) (export id)`
           queries `(used) (next) (avail) (size) (assigned id) (aor id) (captures id…)`
      → one observation per operation (including the constructor), processing stops at the first
        panic; errors do not stop the history (the harness decides what to send).
-/
import KotoVerif.Common.Proto
import KotoVerif.Model.WF
import KotoVerif.Model.Frame

open KotoVerif KotoVerif.Proto KotoVerif.Bytecode KotoVerif.Frame

def parseKinds (s : String) : Option (List CKind) :=
  if s == "-" then some []
  else s.toList.mapM (fun c =>
    if c == 'S' then some CKind.str else if c == 'I' then some CKind.int
    else if c == 'F' then some CKind.float else none)

/-- linear decode of the whole chunk -/
def disasm : Nat → Nat → List Nat → List String → List String
  | 0, pc, _, acc => (s!"fuel@{pc}" :: acc).reverse
  | fuel + 1, pc, bs, acc =>
    match decode bs with
    | .ok i size rest => disasm fuel (pc + size) rest (s!"{pc}:{size}:{i.render}" :: acc)
    | .stop => (s!"end@{pc + bs.length}" :: acc).reverse
    | .bad => (s!"bad@{pc}" :: acc).reverse

def errStr : Err → String
  | .emptyRegisterStack => "E:EmptyRegisterStack"
  | .localRegisterOverflow => "E:LocalRegisterOverflow"
  | .stackOverflow => "E:StackOverflow"
  | .unableToCommitRegister r => s!"E:UnableToCommitRegister({r})"
  | .unableToPeekRegister n => s!"E:UnableToPeekRegister({n})"
  | .unexpectedTemporaryRegister r => s!"E:UnexpectedTemporaryRegister({r})"
  | .unreservedRegister r => s!"E:UnreservedRegister({r})"

def obsStr : Obs → String
  | .reg r => s!"r{r}"
  | .unit => "u"
  | .ops l => "d[" ++ ",".intercalate (l.map hexOfBytes) ++ "]"
  | .error e => errStr e
  | .panic => "PANIC"

def optNat : Option Nat → String
  | some n => s!"n{n}"
  | none => "PANIC"

def parseArg (s : String) : Option Arg :=
  match s.toList with
  | ['P'] => some .placeholder
  | 'L' :: r => (String.ofList r).toNat?.map Arg.local_
  | 'U' :: r => (String.ofList r).toNat?.map Arg.unpacked
  | _ => none

/-- one history element: either a state-changing op or a query -/
def frameOp (s : Frame.Frame) (x : Sexp) : Option (Option Frame.Frame × String) :=
  match x with
  | .list [.atom "push"] => let (s', o) := s.step .push; some (s', obsStr o)
  | .list [.atom "pop"] => let (s', o) := s.step .pop; some (s', obsStr o)
  | .list [.atom "peek", n] => n.nat?.map fun n => let (s', o) := s.step (.peek n); (s', obsStr o)
  | .list [.atom "trunc", n] => n.nat?.map fun n => let (s', o) := s.step (.truncate n); (s', obsStr o)
  | .list [.atom "assign", n] => n.nat?.map fun n => let (s', o) := s.step (.assign n); (s', obsStr o)
  | .list [.atom "reserve", n] => n.nat?.map fun n => let (s', o) := s.step (.reserve n); (s', obsStr o)
  | .list [.atom "commit", n] => n.nat?.map fun n => let (s', o) := s.step (.commit n); (s', obsStr o)
  | .list [.atom "defer", n, .atom h] => do
    let n ← n.nat?
    let bs ← bytesOfHex h
    let (s', o) := s.step (.defer n bs)
    pure (s', obsStr o)
  | .list [.atom "export", n] => n.nat?.map fun n => let (s', o) := s.step (.export_ n); (s', obsStr o)
  | .list [.atom "used"] => some (some s, optNat s.registersUsed)
  | .list [.atom "next"] => some (some s, optNat s.nextTemporary)
  | .list [.atom "avail"] => some (some s, optNat s.availableRegisters)
  | .list [.atom "size"] => some (some s, s!"n{s.stackSize}")
  | .list [.atom "assigned", n] => n.nat?.map fun n =>
      (some s, match s.getAssigned n with | some r => s!"r{r}" | none => "none")
  | .list [.atom "aor", n] => n.nat?.map fun n =>
      (some s, match s.getAssignedOrReserved n with
        | .assigned r => s!"A{r}" | .reserved r => s!"R{r}" | .unassigned => "none")
  | .list (.atom "captures" :: ids) => (ids.mapM Sexp.nat?).map fun ids =>
      (some s, "c[" ++ ",".intercalate ((s.capturesFor ids).map toString) ++ "]")
  | _ => none

def runFrame : Frame.Frame → List Sexp → List String → List String
  | _, [], acc => acc.reverse
  | s, x :: xs, acc =>
    match frameOp s x with
    | none => ("bad-op" :: acc).reverse
    | some (none, o) => (o :: acc).reverse
    | some (some s', o) => runFrame s' xs (o :: acc)

def handle (line : String) : String :=
  match line.splitOn " " with
  | ["wf", h, k] =>
    match bytesOfHex h, parseKinds k with
    | some bs, some ks =>
      if !wfChunk bs ks then "fail " ++ explainChunk bs ks
      else if !flagsOk bs then "fail " ++ ((explainFlags (bs.length + 1) 0 none bs).getD "flags")
      else "ok"
    | _, _ => "bad-request"
  | ["dis", h] =>
    match bytesOfHex h with
    | some bs => "|".intercalate (disasm (bs.length + 1) 0 bs [])
    | none => "bad-request"
  | "frame" :: _ =>
    match parseLine line with
    | .atom "frame" :: lc :: .list args :: .list caps :: ops =>
      match lc.nat?, args.mapM (fun a => a.atom? >>= parseArg), caps.mapM Sexp.nat? with
      | some lc, some args, some caps =>
        match Frame.Frame.new lc args caps with
        | .ok s _ => " ".intercalate (runFrame s ops ["new"])
        | .err _ e => errStr e
        | .panic => "PANIC"
      | _, _, _ => "bad-request"
    | _ => "bad-request"
  | _ => "bad-request"

def main : IO Unit := Proto.serve handle
