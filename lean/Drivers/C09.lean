/-
Model driver for C09 (lexer). Request: `lex <ch>*` with `ch = cp,width,flags,g1,g2`
(flags: bit0 XID_Start, bit1 XID_Continue). Response: the model's tokens up to and including the
first Error token, one field group per token: `Kind:sb-eb:sl.sc-el.ec:indent`.
-/
import KotoVerif.Common.Proto
import KotoVerif.Model.Lexer

open KotoVerif KotoVerif.Lexer

def parseCh (s : String) : Option Ch :=
  match (s.splitOn ",").map String.toNat? with
  | [some cp, some w, some f, some g1, some g2] =>
    some { cp := cp, width := w, idStart := f % 2 == 1, idCont := (f / 2) % 2 == 1, g1 := g1, g2 := g2 }
  | _ => none

def quoteStr : Quote → String
  | .dq => "d"
  | .sq => "s"

def tokStr : Token → String
  | .error => "Error" | .whitespace => "Whitespace" | .newLine => "NewLine"
  | .commentSingle => "CommentSingle" | .commentMulti => "CommentMulti"
  | .number => "Number" | .id => "Id"
  | .stringStartNormal q => s!"StrStartN({quoteStr q})"
  | .stringStartRaw q h => s!"StrStartR({quoteStr q},{h})"
  | .stringEnd => "StringEnd" | .stringLiteral => "StringLiteral" | .underscore => "Underscore"
  | .else_ => "Else" | .elseIf => "ElseIf"
  | .sym s => s.name

def lexedStr (l : Lexed) : String :=
  s!"{tokStr l.tok}:{l.startByte}-{l.endByte}:{l.span.start.line}.{l.span.start.col}-{l.span.stop.line}.{l.span.stop.col}:{l.indent}"

def handle (line : String) : String :=
  match line.splitOn " " with
  | "lex" :: rest =>
    let chs := (rest.filter (· ≠ "")).map parseCh
    if chs.any Option.isNone then "bad-request"
    else
      let src := chs.filterMap id
      " ".intercalate ((lexAll src).map (fun l => lexedStr l ++ (if l.fromFormat then "/F" else "/-")))
  | _ => "bad-request"

def main : IO Unit := Proto.serve handle
