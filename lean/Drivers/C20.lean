/-
Model driver for C20 (serde data-model mapping). One request per line:

  tree <val> (fk (f<bits> <xhex>) …)   → ser=… rt=… norm=… sz=… toml=… fin=… sk=… json=… idem=…
  de <sval>                            → ok <val> | err
  rust <ty> <rval>                     → ty=… wf=… fit=… k=<val|err> back=<rval|err|->
  from <ty> <val>                      → ok <rval> | err
  graph <root> (l e …) (m e …) …       → <sval> | err      (e = n<int> | r<node index>; `serG`)
  jint <integer literal> f<bits>       → ok <val> | err    (`de (jsonInt n)`, bits = nearest f64)

Grammars (S-expressions; strings / byte strings hex-encoded `x…`):
  val  : see Common/ValueIO
  sval : unit | none | b0 | b1 | i<dec> | u<dec> | I<dec> | U<dec> | f<16 hex> | c<dec> | s<xhex> |
         y<xhex> | (some x) | (nt x) | (seq …) | (map (k v) …) | (enum variant payload)
  rval : unit | b0 | b1 | n<dec> | g<8 hex> | f<16 hex> | c<dec> | s<xhex> | none | (some x) |
         (seq …) | (tup …) | (map (<xhex> v) …) | (st (<xhex> v) …) | (var <xhex> u|n|t|s payload)
  ty   : unit | bool | i8 … u128 | f32 | f64 | char | string | (opt t) | (seq t) | (tup t …) |
         (map t) | (st (<xhex> t) …) | (en (<xhex> u|n|t|s t) …)
`fk` supplies Rust's `Display` text for the floats that occur as map keys (an input to the model).
Entries of an `rval` map are printed sorted by key (the Rust side is a `BTreeMap`).
-/
import KotoVerif.Common.Proto
import KotoVerif.Common.ValueIO
import KotoVerif.Model.Serde

open KotoVerif KotoVerif.Proto KotoVerif.ValueIO KotoVerif.Serde

def hex8 (n : UInt32) : String :=
  String.ofList ((List.range 8).reverse.map (fun i => hexDigit ((n.toNat >>> (4 * i)) % 16)))

def parseHex32 (cs : List Char) : Option UInt32 :=
  if cs.length ≠ 8 then none
  else cs.foldlM (fun (acc : UInt32) c => (hexVal c).map (fun d => acc * 16 + UInt32.ofNat d)) 0

/-! ### SVal IO -/

partial def svalStr : SVal → String
  | .unit => "unit"
  | .none => "none"
  | .some v => "(some " ++ svalStr v ++ ")"
  | .newtype v => "(nt " ++ svalStr v ++ ")"
  | .bool b => if b then "b1" else "b0"
  | .i64 n => s!"i{n.toInt}"
  | .u64 n => s!"u{n}"
  | .i128 n => s!"I{n}"
  | .u128 n => s!"U{n}"
  | .f64 b => s!"f{hex16 (canonBits b)}"
  | .char c => s!"c{c}"
  | .str s => "s" ++ hexOfBytes s
  | .bytes s => "y" ++ hexOfBytes s
  | .seq xs => "(seq" ++ String.join (xs.map (fun x => " " ++ svalStr x)) ++ ")"
  | .map es => "(map" ++ String.join (es.map (fun (k, v) => " (" ++ svalStr k ++ " " ++ svalStr v ++ ")")) ++ ")"
  | .enum a b => "(enum " ++ svalStr a ++ " " ++ svalStr b ++ ")"

partial def parseSVal : Sexp → Option SVal
  | .atom "unit" => some .unit
  | .atom "none" => some .none
  | .atom "b0" => some (.bool false)
  | .atom "b1" => some (.bool true)
  | .atom s =>
    (match s.toList with
     | 'i' :: rest => (String.ofList rest).toInt?.map (fun n => SVal.i64 (Int64.ofInt n))
     | 'u' :: rest => (String.ofList rest).toNat?.map SVal.u64
     | 'I' :: rest => (String.ofList rest).toInt?.map SVal.i128
     | 'U' :: rest => (String.ofList rest).toNat?.map SVal.u128
     | 'f' :: rest => (parseHex64 rest).map SVal.f64
     | 'c' :: rest => (String.ofList rest).toNat?.map SVal.char
     | 's' :: rest => (bytesOfHex (String.ofList rest)).map SVal.str
     | 'y' :: rest => (bytesOfHex (String.ofList rest)).map SVal.bytes
     | _ => none)
  | .list [.atom "some", x] => (parseSVal x).map .some
  | .list [.atom "nt", x] => (parseSVal x).map .newtype
  | .list (.atom "seq" :: xs) => (xs.mapM parseSVal).map .seq
  | .list (.atom "map" :: es) =>
    (es.mapM (fun e => match e with
      | Sexp.list [k, v] => do pure ((← parseSVal k), (← parseSVal v))
      | _ => none)).map .map
  | .list [.atom "enum", a, b] => do pure (.enum (← parseSVal a) (← parseSVal b))
  | _ => none

/-! ### RVal / Ty IO -/

def kindStr : VKind → String
  | .unit => "u" | .newtype => "n" | .tuple => "t" | .struct => "s"

def parseKind : Sexp → Option VKind
  | .atom "u" => some .unit
  | .atom "n" => some .newtype
  | .atom "t" => some .tuple
  | .atom "s" => some .struct
  | _ => none

def lexLt : List Nat → List Nat → Bool
  | [], [] => false
  | [], _ :: _ => true
  | _ :: _, [] => false
  | a :: as, b :: bs => a < b || (a == b && lexLt as bs)

def insertSorted (e : Name × RVal) : List (Name × RVal) → List (Name × RVal)
  | [] => [e]
  | x :: xs => if lexLt e.1 x.1 then e :: x :: xs else x :: insertSorted e xs

def sortEntries (es : List (Name × RVal)) : List (Name × RVal) := es.foldl (fun acc e => insertSorted e acc) []

partial def rvalStr : RVal → String
  | .unit => "unit"
  | .bool b => if b then "b1" else "b0"
  | .int n => s!"n{n}"
  | .f32 b => s!"g{hex8 (if (Float32.ofBits b).isNaN then 0x7fc00000 else b)}"
  | .f64 b => s!"f{hex16 (canonBits b)}"
  | .char c => s!"c{c}"
  | .str s => "s" ++ hexOfBytes s
  | .none => "none"
  | .some x => "(some " ++ rvalStr x ++ ")"
  | .seq xs => "(seq" ++ String.join (xs.map (fun x => " " ++ rvalStr x)) ++ ")"
  | .tuple xs => "(tup" ++ String.join (xs.map (fun x => " " ++ rvalStr x)) ++ ")"
  | .map es => "(map" ++ String.join ((sortEntries es).map (fun (k, v) => " (" ++ hexOfBytes k ++ " " ++ rvalStr v ++ ")")) ++ ")"
  | .struct es => "(st" ++ String.join (es.map (fun (k, v) => " (" ++ hexOfBytes k ++ " " ++ rvalStr v ++ ")")) ++ ")"
  | .variant n k p => "(var " ++ hexOfBytes n ++ " " ++ kindStr k ++ " " ++ rvalStr p ++ ")"

def parseName (s : Sexp) : Option Name := s.atom? >>= bytesOfHex

partial def parseRVal : Sexp → Option RVal
  | .atom "unit" => some .unit
  | .atom "none" => some .none
  | .atom "b0" => some (.bool false)
  | .atom "b1" => some (.bool true)
  | .atom s =>
    (match s.toList with
     | 'n' :: rest => (String.ofList rest).toInt?.map RVal.int
     | 'g' :: rest => (parseHex32 rest).map RVal.f32
     | 'f' :: rest => (parseHex64 rest).map RVal.f64
     | 'c' :: rest => (String.ofList rest).toNat?.map RVal.char
     | 's' :: rest => (bytesOfHex (String.ofList rest)).map RVal.str
     | _ => none)
  | .list [.atom "some", x] => (parseRVal x).map .some
  | .list (.atom "seq" :: xs) => (xs.mapM parseRVal).map .seq
  | .list (.atom "tup" :: xs) => (xs.mapM parseRVal).map .tuple
  | .list (.atom "map" :: es) => (es.mapM parseField).map .map
  | .list (.atom "st" :: es) => (es.mapM parseField).map .struct
  | .list [.atom "var", n, k, p] => do pure (.variant (← parseName n) (← parseKind k) (← parseRVal p))
  | _ => none
where
  parseField : Sexp → Option (Name × RVal)
    | .list [k, v] => do pure ((← parseName k), (← parseRVal v))
    | _ => none

partial def parseTy : Sexp → Option Ty
  | .atom "unit" => some .unit
  | .atom "bool" => some .bool
  | .atom "i8" => some (.int .i8) | .atom "i16" => some (.int .i16)
  | .atom "i32" => some (.int .i32) | .atom "i64" => some (.int .i64)
  | .atom "u8" => some (.int .u8) | .atom "u16" => some (.int .u16)
  | .atom "u32" => some (.int .u32) | .atom "u64" => some (.int .u64)
  | .atom "i128" => some (.int .i128) | .atom "u128" => some (.int .u128)
  | .atom "f32" => some .f32
  | .atom "f64" => some .f64
  | .atom "char" => some .char
  | .atom "string" => some .string
  | .list [.atom "opt", t] => (parseTy t).map .option
  | .list [.atom "seq", t] => (parseTy t).map .seq
  | .list [.atom "map", t] => (parseTy t).map .map
  | .list (.atom "tup" :: ts) => (ts.mapM parseTy).map .tuple
  | .list (.atom "st" :: fs) =>
    (fs.mapM (fun f => match f with
      | Sexp.list [n, t] => do pure ((← parseName n), (← parseTy t))
      | _ => none)).map .struct
  | .list (.atom "en" :: vs) =>
    (vs.mapM (fun f => match f with
      | Sexp.list [n, k, t] => do pure ((← parseName n), (← parseKind k), (← parseTy t))
      | _ => none)).map .enum
  | _ => none

/-! ### external facts from the runtime -/

def mkExt (fk : List (UInt64 × List Nat)) (big : UInt64 := 0) : Ext where
  big2f _ := big
  fmtFloat b := match fk.find? (fun e => e.1 == b) with | some e => e.2 | none => []
  widen b := (Float32.ofBits b).toFloat.toBits
  narrow b := (Float.ofBits b).toFloat32.toBits
  f2i b := (Float.ofBits b).toInt64
  f2iOk b :=
    let f := Float.ofBits b
    f >= -9223372036854775808.0 && f < 9223372036854775808.0
  i2f n := n.toFloat.toBits
  i2f32 n := n.toFloat32.toBits

def parseFk : List Sexp → List (UInt64 × List Nat)
  | [.list (.atom "fk" :: es)] =>
    es.filterMap (fun e => match e with
      | Sexp.list [.atom f, .atom h] =>
        (match f.toList with
         | 'f' :: rest => do pure ((← parseHex64 rest), (← bytesOfHex h))
         | _ => none)
      | _ => none)
  | _ => []

/-- canonical float bits in values (all NaNs as one) -/
partial def canonVal : Val → Val
  | .num (.f b) => .num (.f (canonBits b))
  | .tuple xs => .tuple (xs.map canonVal)
  | .list xs => .list (xs.map canonVal)
  | .map es => .map (es.map (fun (k, v) => (canonVal k, canonVal v)))
  | v => v

def optVal : Option Val → String
  | some v => valStr (canonVal v)
  | none => "err"

def b01 (b : Bool) : String := if b then "1" else "0"

def handle (line : String) : String :=
  match parseLine line with
  | .atom "tree" :: v :: rest =>
    (match parseVal v with
     | none => "bad-request"
     | some v =>
       let X := mkExt (parseFk rest)
       let s := serW X v
       let rt := s.bind de
       let n := norm X v
       let toml := match s with | some s => tomlAccepts s | none => false
       let js := (s.map jsonLayer).bind de
       s!"ser={match s with | some s => svalStr s | none => "err"} rt={optVal rt} norm={valStr (canonVal n)} sz={b01 (serializable v)} toml={b01 toml} fin={b01 (allFinite v)} sk={b01 (strKeys v)} json={optVal js} idem={b01 (decide (norm X n = n))} depth={depth v} ndepth={depth n} tomlrt={optVal (rt.map tomlOrd)}")
  | [.atom "de", s] =>
    (match parseSVal s with
     | none => "bad-request"
     | some s => match de s with | some v => "ok " ++ valStr (canonVal v) | none => "err")
  | [.atom "limits"] => s!"json={jsonDepthLimit} yaml={yamlDepthLimit} toml={tomlDepthLimit} writer={writerDepthLimit}"
  | .atom "graph" :: root :: nodes =>
    -- graph <root> (l e …) (m e …) …   with e = n<int> | r<idx>
    let parseElem : Sexp → Option GElem := fun e =>
      match e.atom?.map String.toList with
      | some ('n' :: rest) => (String.ofList rest).toInt?.map (fun n => GElem.leaf (Int64.ofInt n))
      | some ('r' :: rest) => (String.ofList rest).toNat?.map GElem.ref
      | _ => none
    let parseNode : Sexp → Option GNode := fun nd =>
      match nd with
      | .list (.atom "l" :: es) => (es.mapM parseElem).map (fun es => ⟨false, es⟩)
      | .list (.atom "m" :: es) => (es.mapM parseElem).map (fun es => ⟨true, es⟩)
      | _ => none
    (match root.nat?, nodes.mapM parseNode with
     | some r, some g =>
       (match serG g (g.length + 2) [] r with
        | some sv => svalStr sv
        | none => "err")
     | _, _ => "bad-request")
  | [.atom "jint", n, f] =>
    -- jint <decimal integer literal> f<bits of the nearest f64>
    (match n.int?, f.atom?.map String.toList with
     | some n, some ('f' :: rest) =>
       (match parseHex64 rest with
        | some bits =>
          (match de (jsonInt (mkExt [] bits) n) with
           | some v => "ok " ++ valStr (canonVal v)
           | none => "err")
        | none => "bad-request")
     | _, _ => "bad-request")
  | [.atom "rust", t, x] =>
    (match parseTy t, parseRVal x with
     | some t, some x =>
       let X := mkExt []
       let k := toKoto X x
       let back := match k with
         | some v => (match fromKoto X t v with | some y => rvalStr y | none => "err")
         | none => "-"
       s!"ty={b01 (hasTy t x)} wf={b01 (wfTy t)} fit={b01 (intsFit x)} k={optVal k} back={back}"
     | _, _ => "bad-request")
  | [.atom "from", t, v] =>
    (match parseTy t, parseVal v with
     | some t, some v =>
       (match fromKoto (mkExt []) t v with | some y => "ok " ++ rvalStr y | none => "err")
     | _, _ => "bad-request")
  | _ => "bad-request"

def main : IO Unit := Proto.serve handle
