/-
Model driver for C18 (modules). One request line = one scenario:

  run (cfg <runImportTests 0|1> <hostTests 0|1> <exportAlias 0|1> <canonFile 0|1> <exportStrAlias 0|1> <exportsFirst 0|1> <wildRefresh 0|1> <importCaptures 0|1>
       (stems (<name> <stem>)*) <prelude name>*) (fs <file>*) (ops <op>*)
  file  = (f <path> bad) | (f <path> <tact>*)
  path  = (p (<dir name>*) <name> <0|1 isDir>)
  tact  = (a <act>) | (main <mk> <act>*) | (test <name> <mk> <act>*) | (fn <key> <mk> <act>*)
        | (callm <m> <key>) | (call <key>)
  act   = (print mk) | (export k v) | (assign k v) | (exportid k src) | (show mk k) | (import <item>*)
        | (from m <item>*) | (fromall m) | (try m mk) | (fail mk)
        | (pat <0|1 export> (<target>*) (<rhs>*)) | (cmp k <op> <rhs>) | (loop n k <op> <rhs>)
        | (cond <form> k v) | (cb <last> k) | (tshow mk k)        op = add | sub | mul | rem | pow
  target = (id k) | (ign) | (map <entry>*)      entry = (e key target) | (e key _)
  rhs   = (lit n) | (ref k)
  item  = (i <ref>) | (i <ref> alias)     ref = name | (r name <0|1 string> <seg>* [(sub <name>*)])   seg = name | ..
  op    = (op (<dir name>*) <0|1 exportTop> <tact>*)

Response: one group per operation, separated by " | ":
  <ok|E:class> [<event>*] <exports>
  event   = P<mk> | S<mk>=<xhex of the displayed value> | C<mk>:<class> | D:<relative path>
            (+ ghost events `>path` / `!path` when the request starts with `rung`)
  exports = canonical value text of the host exports map (`kvh::canon::value`)
-/
import KotoVerif.Common.Proto
import KotoVerif.Model.Modules

open KotoVerif KotoVerif.Proto KotoVerif.Modules

/-- names 200 + 10·a + b are the dotted names `m<a>.v<b>` -/
def nameStr (n : Nat) : String :=
  if n == 99 then "string" else if n == 89 then "zi" else if n == 90 then "size" else if n == 91 then "type" else if n == 92 then "copy" else if n ≥ 200 then s!"m{(n - 200) / 10}.v{(n - 200) % 10}"
  else if n < 50 then s!"m{n}" else s!"k{n}"

def pathStr (p : Path) : String :=
  String.join (p.dir.map (fun d => (match d with | some d => nameStr d | none => "..") ++ "/")) ++ nameStr p.name ++ (if p.isDir then "/main.koto" else ".koto")

def errStr : Err → String
  | .recursive => "rec" | .notFound => "nf" | .compile => "compile" | .thrown => "thrown"
  | .idNotFound => "idnf" | .access => "access" | .type => "type" | .exportEntry => "exportentry"
  | .call => "call" | .arith => "arith"

/-- Koto's display of a value (`{a: 1, b: {}}`), module references resolved through the cache -/
def display (cache : Path → Option Entry) : Nat → V → String
  | _, .int n => toString n
  | _, .core _ => "<core>"
  | _, .native _ => "||"
  | _, .null => "null"
  | _, .fn _ _ => "||"
  | 0, .mref _ => "<deep>"
  | d + 1, .mref p =>
    match resolve cache (.mref p) with
    | none => "<unresolved>"
    | some es =>
      if es.isEmpty then "{}"
      else "{" ++ ", ".intercalate (es.map (fun (k, v) => nameStr k ++ ": " ++ display cache d v)) ++ "}"

/-- canonical value text (`kvh::canon::value`) -/
def canon (cache : Path → Option Entry) : Nat → V → String
  | _, .int n => s!"i{n}"
  | _, .core _ => "<core>"
  | _, .native _ => "<native>"
  | _, .null => "null"
  | _, .fn _ _ => "<fn>"
  | 0, .mref _ => "<deep>"
  | d + 1, .mref p =>
    match resolve cache (.mref p) with
    | none => "<unresolved>"
    | some es => "(m" ++ String.join (es.map (fun (k, v) =>
        " (s" ++ hexOfBytes ((nameStr k).toUTF8.toList.map UInt8.toNat) ++ " " ++ canon cache d v ++ ")")) ++ ")"

def canonExports (st : St) : String :=
  "(m" ++ String.join (st.exports.data.map (fun (k, v) =>
    " (s" ++ hexOfBytes ((nameStr k).toUTF8.toList.map UInt8.toNat) ++ " " ++ canon st.cache 40 v ++ ")")) ++ ")"

def eventStr (ghost : Bool) (cache : Path → Option Entry) : Event → Option String
  | .print mk => some s!"P{mk}"
  | .show mk v => some (s!"S{mk}=" ++ hexOfBytes ((display cache 40 v).toUTF8.toList.map UInt8.toNat))
  | .caught mk e => some s!"C{mk}:{errStr e}"
  | .done p => some ("D:" ++ pathStr p)
  | .enter p => if ghost then some (">" ++ pathStr p) else none
  | .failed p => if ghost then some ("!" ++ pathStr p) else none

/-! request parsing -/

def pNames (xs : List Sexp) : Option (List Nat) := xs.mapM Sexp.nat?

def pPath : Sexp → Option Path
  | .list [.atom "p", .list dir, n, d] => do
    pure { dir := (← pNames dir).map some, name := (← n.nat?), isDir := (← d.nat?) == 1 }
  | _ => none

def pSeg : Sexp → Option (Option Nat)
  | .atom ".." => some none
  | x => x.nat?.map some

/-- `name` (an id) or `(r name <0|1 str> seg*)` -/
def pRef : Sexp → Option Ref
  | .list (.atom "r" :: n :: st :: rest) => do
    let subs := rest.filterMap (fun x => match x with
      | .list (.atom "sub" :: ks) => some ks
      | _ => none)
    let segs := rest.filter (fun x => match x with
      | .list _ => false
      | _ => true)
    pure { name := (← n.nat?), str := (← st.nat?) == 1, segs := (← segs.mapM pSeg),
           sub := (← (subs.headD []).mapM Sexp.nat?) }
  | x => do pure { name := (← x.nat?) }

def pItem : Sexp → Option Item
  | .list [.atom "i", n] => do pure { toRef := (← pRef n), as_ := none }
  | .list [.atom "i", n, a] => do pure { toRef := (← pRef n), as_ := some (← a.nat?) }
  | _ => none

def pEntry : Sexp → Option PEntry
  | .list [.atom "e", k, .atom "_"] => do pure { key := (← k.nat?), target := none }
  | .list [.atom "e", k, t] => do pure { key := (← k.nat?), target := some (← t.nat?) }
  | _ => none

def pTarget : Sexp → Option Target
  | .list [.atom "id", k] => do pure (.id (← k.nat?))
  | .list [.atom "ign"] => some .ignored
  | .list (.atom "map" :: es) => do pure (.mapPat (← es.mapM pEntry))
  | _ => none

def pRhs : Sexp → Option Rhs
  | .list [.atom "lit", n] => do pure (.lit (← n.int?))
  | .list [.atom "ref", k] => do pure (.ref (← k.nat?))
  | _ => none

def pCOp : Sexp → Option COp
  | .atom "add" => some .add | .atom "sub" => some .sub | .atom "mul" => some .mul
  | .atom "rem" => some .rem | .atom "pow" => some .pow
  | _ => none

def pAct : Sexp → Option Act
  | .list [.atom "print", mk] => do pure (.print (← mk.nat?))
  | .list [.atom "export", k, v] => do pure (.export_ (← k.nat?) (← v.int?))
  | .list [.atom "assign", k, v] => do pure (.assign (← k.nat?) (← v.int?))
  | .list [.atom "exportid", k, s] => do pure (.exportId (← k.nat?) (← s.nat?))
  | .list [.atom "show", mk, k] => do pure (.show (← mk.nat?) (← k.nat?))
  | .list (.atom "import" :: items) => do pure (.importMods (← items.mapM pItem))
  | .list (.atom "from" :: m :: items) => do pure (.fromImport (← pRef m) (← items.mapM pItem))
  | .list [.atom "fromall", m] => do pure (.fromAll (← pRef m))
  | .list [.atom "try", m, mk] => do
    let r ← pRef m
    pure (.tryImport { r with str := true } (← mk.nat?))
  | .list [.atom "fail", mk] => do pure (.fail (← mk.nat?))
  | .list [.atom "tshow", mk, k] => do pure (.tryShow (← mk.nat?) (← k.nat?))
  | .list [.atom "cmp", k, op, r] => do pure (.compound (← k.nat?) (← pCOp op) (← pRhs r))
  | .list [.atom "loop", n, k, op, r] => do pure (.loopCompound (← n.nat?) (← k.nat?) (← pCOp op) (← pRhs r))
  | .list [.atom "cond", f, k, v] => do pure (.condAssign (← f.nat?) (← k.nat?) (← v.int?))
  | .list [.atom "cb", l, k] => do pure (.cbExport (← l.nat?) (← k.nat?))
  | .list [.atom "pat", e, .list ts, .list rs] => do
    pure (.assignPat ((← e.nat?) == 1) (← ts.mapM pTarget) (← rs.mapM pRhs))
  | _ => none

def pTAct : Sexp → Option TAct
  | .list [.atom "a", a] => do pure (.act (← pAct a))
  | .list (.atom "main" :: mk :: body) => do pure (.defMain (← mk.nat?) (← body.mapM pAct))
  | .list (.atom "test" :: n :: mk :: body) => do pure (.defTest (← n.nat?) (← mk.nat?) (← body.mapM pAct))
  | .list (.atom "fn" :: k :: mk :: body) => do pure (.exportFn (← k.nat?) (← mk.nat?) (← body.mapM pAct))
  | .list [.atom "callm", m, k] => do pure (.callMember (← m.nat?) (← k.nat?))
  | .list [.atom "call", k] => do pure (.call (← k.nat?))
  | _ => none

def pFile : Sexp → Option (Path × File)
  | .list [.atom "f", p, .atom "bad"] => do pure ((← pPath p), .bad)
  | .list (.atom "f" :: p :: body) => do pure ((← pPath p), .ok (← body.mapM pTAct))
  | _ => none

def pOp : Sexp → Option Op
  | .list (.atom "op" :: .list dir :: e :: body) => do
    pure { dir := (← pNames dir), exportTop := (← e.nat?) == 1, body := (← body.mapM pTAct) }
  | _ => none

def mkFS (files : List (Path × File)) : FS := fun p => (files.find? (fun pf => pf.1 == p)).map (·.2)

/-- generous: covers several spellings per file while `find_module` does not normalise its keys -/
def fuelFor (files : List (Path × File)) : Nat := 6 * files.length + 8

def handle (line : String) : String :=
  match parseLine line with
  | [.atom cmd, .list (.atom "cfg" :: it :: ht :: al :: cf :: sa :: ef :: wr :: ic :: .list (.atom "stems" :: stems) :: pre),
      .list (.atom "fs" :: files), .list (.atom "ops" :: ops)] =>
    let ghost := cmd == "rung"
    let stems := stems.filterMap (fun x => match x with
      | .list [a, b] => do pure ((← a.nat?), (← b.nat?))
      | _ => none)
    match it.nat?, ht.nat?, al.nat?, pNames pre, files.mapM pFile, ops.mapM pOp with
    | some it, some ht, some al, some pre, some files, some ops =>
      let cfg : Cfg := { runImportTests := it == 1, hostTests := ht == 1, exportAlias := al == 1,
                         canonFile := cf.nat? == some 1, exportStrAlias := sa.nat? == some 1,
                         exportsFirst := ef.nat? == some 1, wildRefresh := wr.nat? == some 1, importCaptures := ic.nat? == some 1,
                         stem := fun n => ((stems.find? (fun x => x.1 == n)).map (·.2)).getD n,
                         prelude := fun n => if pre.contains n then some (if n ≥ 90 ∧ n ≤ 92 then .native n else .core n) else none }
      let fs := mkFS files
      match runOps cfg fs (fuelFor files) ops init with
      | none => "FUEL"
      | some rs =>
        let groups := (rs.foldl (fun (acc : List String × Nat) (r : Option Err × St) =>
          let st := r.2
          let evs := (st.out.drop acc.2).filterMap (eventStr ghost st.cache)
          let res := match r.1 with | none => "ok" | some e => "E:" ++ errStr e
          (acc.1 ++ [res ++ " [" ++ " ".intercalate evs ++ "] " ++ canonExports st], st.out.length)) ([], 0)).1
        " | ".intercalate groups
    | _, _, _, _, _, _ => "bad-request"
  | _ => "bad-request"

def main : IO Unit := Proto.serve handle
