/-
Model driver for C10 (token cursor layer of the parser).

Request : `trace <ch>* | <call>*`
  `ch`   = `cp,width,flags,g1,g2` (as for C09; the token list is `Model/Lexer.lexAll` of the chars)
  `call` = `<name>;<p>;<arg>` — primitive `name` called when `p` tokens have been consumed;
           `arg` = the expression context `L?M?S?B?X?:<indentation>` for the `*_with_context`
           family, `n` for `peek_token_n`, `-` otherwise.
Response: one field per call, `<current token before>|<result>|<tokens consumed when the hook logs>`
  in exactly the text the H2 hook (`koto_parser::verif`) writes for the same call.
`tokens <ch>*` returns the model's token list (kinds, byte ranges, spans, indents).
-/
import KotoVerif.Common.Proto
import KotoVerif.Model.Cursor

open KotoVerif KotoVerif.Lexer KotoVerif.Cursor

def parseCh (s : String) : Option Ch :=
  match (s.splitOn ",").map String.toNat? with
  | [some cp, some w, some f, some g1, some g2] =>
    some { cp := cp, width := w, idStart := f % 2 == 1, idCont := (f / 2) % 2 == 1, g1 := g1, g2 := g2 }
  | _ => none

def quoteStr : Quote → String
  | .dq => "d"
  | .sq => "s"

def tokStr : Token → String
  | .error => "Error" | .whitespace => "Whitespace" | .newLine => "NewLine"
  | .commentSingle => "CommentSingle" | .commentMulti => "CommentMulti"
  | .number => "Number" | .id => "Id"
  | .stringStartNormal q => s!"StrStartN({quoteStr q})"
  | .stringStartRaw q h => s!"StrStartR({quoteStr q},{h})"
  | .stringEnd => "StringEnd" | .stringLiteral => "StringLiteral" | .underscore => "Underscore"
  | .else_ => "Else" | .elseIf => "ElseIf"
  | .sym s => s.name

def spanStr (s : Span) : String :=
  s!"{s.start.line}.{s.start.col}-{s.stop.line}.{s.stop.col}"

def lexedStr (l : Lexed) : String :=
  s!"{tokStr l.tok}:{l.startByte}-{l.endByte}:{spanStr l.span}:{l.indent}"

def indentStr : Indentation → String
  | .flexible => "F"
  | .equal n => s!"E{n}"
  | .greater => "G"
  | .greaterThan n => s!"GT{n}"
  | .greaterOrEqual n => s!"GE{n}"

def b01 (b : Bool) : String := if b then "1" else "0"

def ctxStr (c : Ctx) : String :=
  s!"L{b01 c.allowLinebreaks}M{b01 c.allowMapBlock}S{b01 c.allowSpaceSeparatedCall}B{b01 c.insideBraces}X{b01 c.exportMapEntries}:{indentStr c.expected}"

def parseIndent (s : String) : Option Indentation :=
  if s == "F" then some .flexible
  else if s == "G" then some .greater
  else if s.startsWith "GT" then (s.drop 2).toNat?.map .greaterThan
  else if s.startsWith "GE" then (s.drop 2).toNat?.map .greaterOrEqual
  else if s.startsWith "E" then (s.drop 1).toNat?.map .equal
  else none

def parseCtx (s : String) : Option Ctx :=
  match s.splitOn ":" with
  | [flags, ind] =>
    match flags.toList, parseIndent ind with
    | ['L', l, 'M', m, 'S', sp, 'B', b, 'X', x], some e =>
      some { allowLinebreaks := l == '1', allowMapBlock := m == '1', allowSpaceSeparatedCall := sp == '1',
             insideBraces := b == '1', exportMapEntries := x == '1', expected := e }
    | _, _ => none
  | _ => none

def optStr (o : Option String) : String :=
  match o with
  | some s => s!"Some({s})"
  | none => "None"

/-- result text and the consumed-token count at the moment the hook writes its entry -/
def runCall (ts : List Lexed) (name : String) (p : Nat) (arg : String) : String :=
  let c := Cur.atPos ts p
  let pos := fun (c' : Cur) => ts.length - c'.rest.length
  let out := fun (res : String) (q : Nat) => s!"{lexedStr c.cur}|{res}|{q}"
  match name with
  | "consume_token" =>
    let (r, c') := consumeToken c
    out (optStr (r.map (fun _ => lexedStr c'.cur))) (pos c')
  | "peek_token_n" =>
    match arg.toNat? with
    | some n => out (optStr ((peekTokenN n c).map tokStr)) p
    | none => "bad-arg"
  | "current_line" => out (toString (currentLine c)) p
  | "current_indent" => out (toString (currentIndent c)) p
  | "peek_span" => out (optStr ((peekSpan c).map spanStr)) p
  | "current_span" => out (optStr (some (spanStr (currentSpan c)))) p
  | "peek_token_with_context" =>
    match parseCtx arg with
    | some ctx => out (optStr ((peekTokenWithContext ctx c).map (fun i => s!"{lexedStr i.info},{i.peekCount}"))) p
    | none => "bad-arg"
  | "consume_token_with_context" =>
    match parseCtx arg with
    | some ctx =>
      let (r, c') := consumeTokenWithContext ctx c
      out (optStr (r.map (fun x => s!"{lexedStr c'.cur},{ctxStr x.2}"))) (pos c')
    | none => "bad-arg"
  | "consume_until_token_with_context" =>
    match parseCtx arg with
    | some ctx =>
      let (r, c') := consumeUntilTokenWithContext ctx c
      out (optStr (r.map (fun x => s!"{lexedStr c'.cur},{ctxStr x}"))) (pos c')
    | none => "bad-arg"
  | "peek_next_token_on_same_line" =>
    out (optStr ((sameLineLoop c.rest 0).map (fun x => s!"{tokStr x.1.tok},{x.2}"))) p
  | "peek_next_token_on_same_line_with_span" =>
    out (optStr ((sameLineLoop c.rest 0).map (fun x => s!"{tokStr x.1.tok},{spanStr x.1.span},{x.2}"))) p
  | "consume_until_next_token_on_same_line" =>
    let c' := consumeUntilNextTokenOnSameLine c
    out (optStr (c'.rest.head?.map (fun t => s!"{tokStr t.tok},0"))) (pos c')
  | "consume_next_token_on_same_line" =>
    -- the hook logs just before the final `consume_token()`
    let (r, _) := consumeNextTokenOnSameLine c
    let c' := consumeUntilNextTokenOnSameLine c
    out (optStr (r.map (fun t => s!"{tokStr t},0"))) (pos c')
  | _ => "bad-name"

def splitAtBar (xs : List String) : List String × List String :=
  (xs.takeWhile (· ≠ "|"), (xs.dropWhile (· ≠ "|")).drop 1)

def lexReq (chs : List String) : Option (List Lexed) :=
  let cs := (chs.filter (· ≠ "")).map parseCh
  if cs.any Option.isNone then none
  else
    let src := cs.filterMap id
    some (lexAll src)

def handle (line : String) : String :=
  match line.splitOn " " with
  | "tokens" :: rest =>
    match lexReq rest with
    | some ts => " ".intercalate (ts.map lexedStr)
    | none => "bad-request"
  | "trace" :: rest =>
    let (chs, calls) := splitAtBar rest
    match lexReq chs with
    | none => "bad-request"
    | some ts =>
      " ".intercalate ((calls.filter (· ≠ "")).map (fun c =>
        match c.splitOn ";" with
        | [name, p, arg] =>
          match p.toNat? with
          | some p => runCall ts name p arg
          | none => "bad-call"
        | _ => "bad-call"))
  | _ => "bad-request"

def main : IO Unit := Proto.serve handle
