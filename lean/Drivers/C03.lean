/-
Model driver for C03 (pattern matching and unpacking). Stateful line protocol:

  cfg <0|1>×7                      which repairs the mirrored code contains (Match.Cfg: sizeNullJumps,
                                   nestedLast, accessFalls, rangeSlices, subjectCopied, typedFirst, mapAtomic); response `ok`
  arms <nvars> <v|e|m> <arm>*      set the current match; response `ok`
      arm   := (arm (<alt>*) <guard>)            no alternatives = `else`
      alt   := (one <pat>) | (many <pat>*)
      pat   := (lit <val>) | (id <n> <ty>) | (wild <ty>) | (map <ty> (ent <keyhex> <n|-> <ty>)*)
             | (seq (<pat>*) <rest> (<pat>*))     rest := - | _ | <n>
      ty    := - | (ty <name> <0|1>)
      guard := - | (c <0|1>) | (eq <n> <val>) | (ne <n> <val>) | (and g g) | (or g g) | (not g)
    subject mode: v = `match s` on a bare local (register 99), e = any other expression,
    m = `match s, t, …`
  s <val>*                         run the current match on the subject(s); response
      `A<i> <regs> T:<trace>` | `N <regs> T:<trace>` | `E:<class>`
      and, after ` ; `, the guide-level (declarative) verdict for the same case
      `GA<i> <bound> R: <regs>` | `GN R: <regs>` (regs = only the selected alternative's bindings
      written) — evaluated by `Drivers` glue `guideArms` below
      (regs = registers 0..nvars-1, then the subject locals 99, 98, …; unassigned = sU)
  ma (<tgt>*) <val>|(g <val>*)     multi-assignment; tgt := <n> | _ ; response `<regs> = <value>`
  mt (<tgt>*) <val>*               multi-assignment from a temporary tuple
  mas (<tgt>*) <val>*              multi-assignment from a stateful source yielding the values;
                                   response `<regs> ; (t <values still to come>)`
  for (<tgt>*) <val>               response: registers at every body entry, `|`-separated
-/
import KotoVerif.Common.Proto
import KotoVerif.Common.ValueIO
import KotoVerif.Model.Match
import KotoVerif.Model.Unpack

open KotoVerif KotoVerif.Proto KotoVerif.ValueIO KotoVerif.Match KotoVerif.Unpack

def F := nativeFloatOps

def parseTy : Sexp → Option (Option Ty)
  | .atom "-" => some none
  | .list [.atom "ty", .atom n, .atom o] =>
    let nm : Option TyName := match n with
      | "Any" => some .any | "Number" => some .number | "String" => some .string | "Bool" => some .bool
      | "Null" => some .null | "List" => some .list | "Tuple" => some .tuple | "Map" => some .map
      | "Range" => some .range | _ => none
    nm.map (fun t => some { name := t, opt := o == "1" })
  | _ => none

def litOfVal : Val → Option Lit
  | .null => some .null
  | .bool b => some (.bool b)
  | .num n => some (.num n)
  | .str bs => some (.str bs)
  | _ => none

def parseEnt : Sexp → Option Ent
  | .list [.atom "ent", .atom k, b, t] => do
    let key ← bytesOfHex k
    let ty ← parseTy t
    let bind ← (match b with | .atom "-" => some none | x => x.nat?.map some)
    pure { key := key, bind := bind, ty := ty }
  | _ => none

partial def parsePat : Sexp → Option Pat
  | .list [.atom "lit", v] => do
    let x ← parseVal v
    let l ← litOfVal x
    pure (.lit l)
  | .list [.atom "id", n, t] => do pure (.id (← n.nat?) (← parseTy t))
  | .list [.atom "wild", t] => do pure (.wild (← parseTy t))
  | .list (.atom "map" :: t :: es) => do pure (.map (← es.mapM parseEnt) (← parseTy t))
  | .list [.atom "seq", .list pre, r, .list post] => do
    let rest ← (match r with
      | .atom "-" => some none
      | .atom "_" => some (some none)
      | x => x.nat?.map (fun n => some (some n)))
    pure (.seq (← pre.mapM parsePat) rest (← post.mapM parsePat))
  | _ => none

def parseAlt : Sexp → Option Alt
  | .list [.atom "one", p] => (parsePat p).map Alt.one
  | .list (.atom "many" :: ps) => (ps.mapM parsePat).map Alt.many
  | _ => none

partial def parseGuard : Sexp → Option (Env → Bool)
  | .list [.atom "c", .atom b] => some (fun _ => b == "1")
  | .list [.atom "eq", n, v] => do
    let x ← n.nat?
    let l ← (parseVal v) >>= litOfVal
    pure (fun ρ => litEq F l (ρ x))
  | .list [.atom "ne", n, v] => do
    let x ← n.nat?
    let l ← (parseVal v) >>= litOfVal
    pure (fun ρ => !litEq F l (ρ x))
  | .list [.atom "and", a, b] => do
    let f ← parseGuard a
    let g ← parseGuard b
    pure (fun ρ => f ρ && g ρ)
  | .list [.atom "or", a, b] => do
    let f ← parseGuard a
    let g ← parseGuard b
    pure (fun ρ => f ρ || g ρ)
  | .list [.atom "not", a] => do
    let f ← parseGuard a
    pure (fun ρ => !f ρ)
  | _ => none

def parseArm : Sexp → Option Arm
  | .list [.atom "arm", .list alts, g] => do
    let as ← alts.mapM parseAlt
    let guard ← (match g with | .atom "-" => some none | x => (parseGuard x).map some)
    pure { alts := as, guard := guard }
  | _ => none

structure St where
  cfg : Cfg := Cfg.recorded
  nvars : Nat := 0
  mode : String := "e"
  arms : List Arm := []

def sentinel : Val := .str [85]   -- 'U'
def env0 : Env := fun _ => sentinel

/-- registers 0..n-1, then the `k` subject locals (registers 99, 98, …) -/
def regsStr (n : Nat) (k : Nat) (ρ : Env) : String :=
  " ".intercalate (((List.range n).map (fun i => valStr (ρ i))) ++ ((List.range k).map (fun i => valStr (ρ (99 - i)))))

/-- the subject locals `s, t, u` hold the subject values in every mode -/
def setSubjects : List Val → Nat → Env → Env
  | [], _, ρ => ρ
  | v :: vs, i, ρ => setSubjects vs (i + 1) (ρ.set (99 - i) v)

def errStr : Err → String
  | .geNull => "E:ge-null" | .index => "E:index" | .slice => "E:slice" | .access => "E:access"
  | .compile => "E:compile" | .utf8 => "E:utf8"

def evStr : Ev → String
  | .subj => "S" | .guard i => s!"G{i}" | .body i => s!"B{i}"

/-! guide-level evaluation (declarative reading, executable form used only for the (D) comparison:
no errors, a failed alternative leaves no trace, selection = first arm with a matching alternative
and a true guard).  It is *not* part of any theorem; `Props/C03` relates the algorithmic matcher to
the `Decl` relation directly. -/

def guideEnts : List Ent → Val → Option Writes
  | [], _ => some []
  | e :: es, v =>
    match v with
    | .map m =>
      match lookupKey e.key m with
      | none => none
      | some x =>
        if tyFail e.ty x then none
        else (guideEnts es v).map (fun β => (match e.bind with | some n => [(n, x)] | none => []) ++ β)
    | _ => none

/-- sequence view including bounded ascending ranges (elements only; slicing a range has no
guide-level meaning and is reported as `none` = "no verdict") -/
def guideView (v : Val) : Option (List Val × (Nat → Nat → Val)) :=
  match v with
  | .str bs =>
    -- the guide-level elements of a string are its characters (as in unpacking); on ASCII
    -- strings this is the byte view of `Match.view` (F-C03-10 otherwise)
    let cs := Unpack.splitChars bs []
    some (cs.map Val.str, fun i j => .str (((cs.drop i).take (j - i)).flatten))
  | _ =>
  match view v with
  | some r => some r
  | none =>
    match v with
    | .range (some a) (some _) =>
      (Unpack.elems v).map (fun xs =>
        (xs, fun i j => Val.range (some (Int64.ofInt (a.toInt + i))) (some (Int64.ofInt (a.toInt + j), false))))
    | _ => none

mutual
partial def guidePat (p : Pat) (v : Val) : Option Writes :=
  match p with
  | .lit l => if litEq F l v then some [] else none
  | .id x ty => if tyFail ty v then none else some [(x, v)]
  | .wild ty => if tyFail ty v then none else some []
  | .map es ty => if tyFail ty v then none else guideEnts es v
  | .seq pre rest post =>
    match guideView v with
    | none => none
    | some (xs, sl) =>
      let np := pre.length
      let nq := post.length
      if rest.isNone then
        if xs.length == np + nq then guideAll (pre ++ post) xs else none
      else if xs.length < np + nq then none
      else do
        let β₁ ← guideAll pre (xs.take np)
        let β₂ ← guideAll post (xs.drop (xs.length - nq))
        pure (β₁ ++ restWrites rest (sl np (xs.length - nq)) ++ β₂)
partial def guideAll (ps : List Pat) (xs : List Val) : Option Writes :=
  match ps, xs with
  | [], [] => some []
  | p :: ps, x :: xs => do
    let β₁ ← guidePat p x
    let β₂ ← guideAll ps xs
    pure (β₁ ++ β₂)
  | _, _ => none
end

def guideAlt (a : Alt) (v : Val) : Option Writes :=
  match a, v with
  | .one p, v => guidePat p v
  | .many ps, .tuple vs => guideAll ps vs
  | _, _ => none

def guideAlts : List Alt → Val → Option Writes
  | [], _ => none
  | a :: as, v => match guideAlt a v with | some β => some β | none => guideAlts as v

/-- guide: first arm with a matching alternative and a true guard; the answer is the arm index and
the bindings of the matching alternative -/
def guideArms : List Arm → Nat → Val → Env → Option (Nat × Writes)
  | [], _, _, _ => none
  | arm :: arms, i, v, ρ =>
    if arm.alts.isEmpty then some (i, [])
    else
      match guideAlts arm.alts v with
      | none => guideArms arms (i + 1) v ρ
      | some β =>
        match arm.guard with
        | none => some (i, β)
        | some g => if g (ρ.apply β) then some (i, β) else guideArms arms (i + 1) v ρ

def dedupNames : List Name → List Name
  | [] => []
  | x :: xs => if xs.contains x then dedupNames xs else x :: dedupNames xs

def armBinds99 (a : Arm) : Bool := a.alts.any (fun al => (altVars al).any (fun x => x ≥ 97))
def altEarlyFree : Alt → Bool
  | .one p => earlyFree p
  | .many ps => earlyFreeL ps true
/-- some alternative other than the last one of its arm has the F-C03-3 shape -/
def armEarly (a : Arm) : Bool := (a.alts.dropLast).any (fun al => !altEarlyFree al)

def parseTgts (xs : List Sexp) : Option (List Tgt) :=
  xs.mapM (fun x => match x with | .atom "_" => some Tgt.wild | y => y.nat?.map Tgt.id)

def maxTgt (ts : List Tgt) : Nat := (tgtNames ts).foldl (fun m x => max m (x + 1)) 0

def step (st : St) (line : String) : St × String :=
  match parseLine line with
  | .atom "arms" :: nv :: .atom mode :: arms =>
    (match nv.nat?, arms.mapM parseArm with
     | some n, some as =>
       ({ st with nvars := n, mode := mode, arms := as },
        s!"ok early={if as.any armEarly then 1 else 0} binds99={if as.any armBinds99 then 1 else 0}")
     | _, _ => (st, "bad-request"))
  | [.atom "cfg", .atom a, .atom b, .atom c, .atom d, .atom e, .atom f, .atom g] =>
    ({ st with cfg := ⟨a == "1", b == "1", c == "1", d == "1", e == "1", f == "1", g == "1"⟩ }, "ok")
  | .atom "s" :: vals =>
    (match vals.mapM parseVal with
     | none => (st, "bad-request")
     | some vs =>
       let subj? : Option Subj := match st.mode, vs with
         | "v", [_] => some (.var 99)
         | "e", [v] => some (.expr v)
         | "m", vs => some (.multi vs)
         | _, _ => none
       match subj? with
       | none => (st, "bad-request")
       | some subj =>
         let k := vs.length
         let ρ0 : Env := setSubjects vs 0 env0
         let r := evalMatch F st.cfg subj st.arms ρ0
         let tr := ",".intercalate (r.trace.map evStr)
         let code := match r.out with
           | .arm i ρ => s!"A{i} {regsStr st.nvars k ρ} T:{tr}"
           | .none ρ => s!"N {regsStr st.nvars k ρ} T:{tr}"
           | .err e => errStr e
         let gv : Val := match st.mode, vs with
           | "m", vs => .tuple vs
           | _, vs => vs.headD .null
         let guide := match guideArms st.arms 0 gv ρ0 with
           | some (i, β) =>
             let ρ := ρ0.apply β
             s!"GA{i}" ++ String.join ((dedupNames (β.map Prod.fst)).map (fun n => s!" {n}:{valStr (ρ n)}"))
               ++ " R: " ++ regsStr st.nvars k ρ
           | none => "GN R: " ++ regsStr st.nvars k ρ0
         (st, code ++ " ; " ++ guide))
  | [.atom "ma", .list ts, rhs] =>
    (match parseTgts ts with
     | none => (st, "bad-request")
     | some tg =>
       let n := maxTgt tg
       match rhs with
       | .list (.atom "g" :: vals) =>
         (match vals.mapM parseVal with
          | some vs => (st, s!"{regsStr n 0 (assign tg vs env0)} = <iter>")
          | none => (st, "bad-request"))
       | x =>
         match parseVal x with
         | none => (st, "bad-request")
         | some v =>
           match multiAssign tg v env0 with
           | none => (st, "E:iter")
           | some (ρ, r) => (st, s!"{regsStr n 0 ρ} = {valStr r}"))
  | .atom "mas" :: .list ts :: vals =>
    -- stateful source: registers after the assignment, then what the source still yields
    (match parseTgts ts, vals.mapM parseVal with
     | some tg, some vs =>
       let (ρ, rest) := assignSt tg vs env0
       (st, s!"{regsStr (maxTgt tg) 0 ρ} ; {valStr (.tuple rest)}")
     | _, _ => (st, "bad-request"))
  | .atom "mt" :: .list ts :: vals =>
    (match parseTgts ts, vals.mapM parseVal with
     | some tg, some vs =>
       let (ρ, r) := multiAssignTemp tg vs env0
       (st, s!"{regsStr (maxTgt tg) 0 ρ} = {valStr r}")
     | _, _ => (st, "bad-request"))
  | [.atom "for", .list ts, it] =>
    (match parseTgts ts, parseVal it with
     | some tg, some v =>
       (match forUnpack tg v env0 with
        | none => (st, "E:iter")
        | some (steps, ρ) =>
          let n := maxTgt tg
          (st, " | ".intercalate (steps.map (regsStr n 0)) ++ " || " ++ regsStr n 0 ρ))
     | _, _ => (st, "bad-request"))
  | _ => (st, "bad-request")

def main : IO Unit := Proto.serveSt ({} : St) step
