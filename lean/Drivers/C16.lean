/-
Model driver for C16 (type hints).

Requests (one per line, S-expressions, see `harness/src/bin/c16.rs` for the printer):

  run <fuel> (funs F…) MAIN     → `<res on> ;; <trace on> ;; fails=<n> ;; <res off> ;; <trace off>`
  ty V                          → `ty=<xhex> callable=<0|1> indexable=<0|1> iterable=<0|1>`
  chk H V                       → `<0|1>`          (H = `(h x<hex> <0|1>)`)
  cyc H ((<-|!|x<hex>> <-|i>)…) n → `ty=<xhex> chk=<0|1>`   (graph of maps, possibly cyclic; node n)

  V ::= null | b0 | b1 | i<int> | fl<int> | s<xhex> | (r a b) | (l V…) | (t V…) | (m (n V)…)
      | (o <-|!|x<hex>> <call><iter><next> ((n V)…) <-|V>) | (fn i) | (gf i) | (nat i) | (gi i) | (it V…)
      | (host x<hex> <c><i><t>)
  H? ::= - | (h x<hex> <0|1>)
  E ::= (lit V) | (var x) | (add E E) | (lt E E) | (ty E) | (let <x|_> H? E) | (seq E E) | (emit E)
      | (if E E E) | (for ((b <x|_> H?)…) E E) | (call E E…) | (ret E) | (throw E)
      | (try E ((c <x|_> H E)…) <x|_> E) | (match (E…) (arm ((P…)…) <-|E> E)…)
      | (lett ((b <x|_> H?)…) E…) | (letu ((b <x|_> H?)…) E)
  P ::= (pb <x|_> H?) | (pl <int>) | (pt P…)
  F ::= (fun (P…) H? (plain E)) | (fun (P…) H? (gen (y E) | (x E) …))

Results: `ok <canon>` | `E:type <xhex message>` | `E:thrown <canon>` | `stuck <n>`;
canon: `null b0 b1 i<n> f<16 hex> s<xhex> (r a b) (l …) (t …) (m (s<xhex> v)…) (o s<xhex type> (k v)…)
<fn> <genfn> <native> <iter> <host:x<hex>>`. Driver glue only; no theorem depends on this file.
-/
import KotoVerif.Common.Proto
import KotoVerif.Model.HintEval

open KotoVerif KotoVerif.Proto KotoVerif.Types KotoVerif.HintEval

namespace C16Driver

def cpsOfBytes (bs : List Nat) : List Nat :=
  if bs.all (· < 128) then bs
  else
    match String.fromUTF8? (ByteArray.mk (bs.map UInt8.ofNat).toArray) with
    | some s => s.toList.map Char.toNat
    | none => bs

def bytesOfCps (cs : List Nat) : List Nat :=
  if cs.all (· < 128) then cs
  else (String.ofList (cs.map Char.ofNat)).toUTF8.toList.map UInt8.toNat

def nameOfAtom (s : String) : Option (List Nat) := (bytesOfHex s).map cpsOfBytes

def flagsOf (s : String) : Option (Bool × Bool × Bool) :=
  match s.toList with
  | [a, b, c] => some (a == '1', b == '1', c == '1')
  | _ => none

def tailOf (s : String) (n : Nat) : String := String.ofList (s.toList.drop n)

partial def parseV : Sexp → Option V
  | .atom "null" => some .null
  | .atom "b0" => some (.bool false)
  | .atom "b1" => some (.bool true)
  | .atom s =>
    match s.toList with
    | 'i' :: rest => (String.ofList rest).toInt?.map V.int
    | 'f' :: 'l' :: rest => (String.ofList rest).toInt?.map V.float
    | 's' :: rest => (nameOfAtom (String.ofList rest)).map V.str
    | _ => none
  | .list [.atom "r", a, b] => do pure (.range (← a.int?) (← b.int?))
  | .list (.atom "l" :: xs) => (xs.mapM parseV).map V.list
  | .list (.atom "t" :: xs) => (xs.mapM parseV).map V.tuple
  | .list (.atom "it" :: xs) => (xs.mapM parseV).map V.iter
  | .list (.atom "m" :: es) => (es.mapM parseEntry).map V.map
  | .list [.atom "o", .atom ty, .atom fl, .list es, base] => do
    let ty ← (match ty with
      | "-" => some MetaTy.absent
      | "!" => some MetaTy.nonString
      | t => (nameOfAtom t).map MetaTy.str)
    let (c, i, n) ← flagsOf fl
    let es ← es.mapM parseEntry
    let base ← (match base with
      | .atom "-" => some none
      | b => (parseV b).map some)
    pure (.obj ty { call := c, iter := i, next := n } es base)
  | .list [.atom "fn", i] => i.nat?.map V.fn
  | .list [.atom "gf", i] => i.nat?.map V.genFn
  | .list [.atom "nat", i] => i.nat?.map V.native
  | .list [.atom "gi", i] => i.nat?.map (fun i => V.gen i [] false 0)
  | .list [.atom "host", .atom ty, .atom fl] => do
    let ty ← nameOfAtom ty
    let (c, i, t) ← flagsOf fl
    pure (.host ty c i t)
  | _ => none
where
  parseEntry : Sexp → Option (Nat × V)
    | .list [k, v] => do pure ((← k.nat?), (← parseV v))
    | _ => none

def parseHint : Sexp → Option Hint
  | .list [.atom "h", .atom n, .atom o] => do pure { name := (← nameOfAtom n), opt := o == "1" }
  | _ => none

def parseHintOpt : Sexp → Option (Option Hint)
  | .atom "-" => some none
  | h => (parseHint h).map some

def parseVarOpt : Sexp → Option (Option Var)
  | .atom "_" => some none
  | x => x.nat?.map some

partial def parsePat : Sexp → Option P
  | .list [.atom "pb", x, h] => do pure (.b (← parseVarOpt x) (← parseHintOpt h))
  | .list [.atom "pl", n] => n.int?.map P.lit
  | .list (.atom "pt" :: ps) => (ps.mapM parsePat).map P.tup
  | _ => none

def parseBinder : Sexp → Option Binder
  | .list [.atom "b", x, h] => do pure ((← parseVarOpt x), (← parseHintOpt h))
  | _ => none

partial def parseE : Sexp → Option Expr
  | .list [.atom "lit", v] => (parseV v).map Expr.lit
  | .list [.atom "var", x] => x.nat?.map Expr.var
  | .list [.atom "add", a, b] => do pure (.add (← parseE a) (← parseE b))
  | .list [.atom "lt", a, b] => do pure (.lt (← parseE a) (← parseE b))
  | .list [.atom "ty", e] => (parseE e).map Expr.typeOf
  | .list [.atom "let", x, h, e] => do pure (.letH (← parseVarOpt x) (← parseHintOpt h) (← parseE e))
  | .list (.atom "lett" :: .list bs :: es) => do pure (.letTemps (← bs.mapM parseBinder) (← es.mapM parseE))
  | .list [.atom "letu", .list bs, e] => do pure (.letUnpack (← bs.mapM parseBinder) (← parseE e))
  | .list [.atom "seq", a, b] => do pure (.seq (← parseE a) (← parseE b))
  | .list [.atom "emit", e] => (parseE e).map Expr.emit
  | .list [.atom "if", c, t, e] => do pure (.ite (← parseE c) (← parseE t) (← parseE e))
  | .list [.atom "for", .list bs, it, body] => do
    pure (.forIn (← bs.mapM parseBinder) (← parseE it) (← parseE body))
  | .list (.atom "call" :: f :: args) => do pure (.call (← parseE f) (← args.mapM parseE))
  | .list [.atom "ret", e] => (parseE e).map Expr.ret
  | .list [.atom "throw", e] => (parseE e).map Expr.throw
  | .list [.atom "try", body, .list typed, x, final] => do
    let typed ← typed.mapM (fun (a : Sexp) => match a with
      | .list [.atom "c", y, h, b] => do pure (CatchArm.mk (← parseVarOpt y) (← parseHint h) (← parseE b))
      | _ => none)
    pure (.tryC (← parseE body) typed (← parseVarOpt x) (← parseE final))
  | .list (.atom "match" :: .list scruts :: arms) => do
    let arms ← arms.mapM (fun (a : Sexp) => match a with
      | .list [.atom "arm", .list alts, g, b] => do
        let alts ← alts.mapM (fun (alt : Sexp) => match alt with
          | .list ps => ps.mapM parsePat
          | _ => none)
        let g ← (match g with
          | .atom "-" => some none
          | ge => (parseE ge).map some)
        pure (Arm.mk alts g (← parseE b))
      | _ => none)
    pure (.matchE (← scruts.mapM parseE) arms)
  | _ => none

def parseFun : Sexp → Option FunDef
  | .list [.atom "fun", .list ps, out, body] => do
    let ps ← ps.mapM parsePat
    let out ← parseHintOpt out
    let body ← (match body with
      | .list [.atom "plain", e] => (parseE e).map Body.plain
      | .list (.atom "gen" :: ss) =>
        (ss.mapM (fun (s : Sexp) => match s with
          | .list [.atom "y", e] => (parseE e).map GStmt.yld
          | .list [.atom "x", e] => (parseE e).map GStmt.exec
          | _ => none)).map Body.gen
      | _ => none)
    pure { params := ps, out := out, body := body }
  | _ => none

def hex16 (n : UInt64) : String :=
  String.ofList ((List.range 16).reverse.map (fun i => hexDigit ((n.toNat >>> (4 * i)) % 16)))

def strCanon (cs : List Nat) : String := "s" ++ hexOfBytes (bytesOfCps cs)

partial def canon : V → String
  | .null => "null"
  | .bool b => if b then "b1" else "b0"
  | .int n => s!"i{n}"
  | .float n => "f" ++ hex16 (Float.ofInt n + 0.5).toBits
  | .str cs => strCanon cs
  | .range a b => s!"(r {a} {b})"
  | .list xs => "(l" ++ String.join (xs.map (fun x => " " ++ canon x)) ++ ")"
  | .tuple xs => "(t" ++ String.join (xs.map (fun x => " " ++ canon x)) ++ ")"
  | .map es => "(m" ++ entries es ++ ")"
  | .obj ty fl es b => "(o " ++ strCanon (typeName (.obj ty fl es b)) ++ entries es ++ ")"
  | .fn _ => "<fn>"
  | .genFn _ => "<genfn>"
  | .native _ => "<native>"
  | .iter _ => "<iter>"
  | .gen _ _ _ _ => "<iter>"
  | .host ty _ _ _ => "<host:" ++ hexOfBytes (bytesOfCps ty) ++ ">"
where
  entries (es : List (Nat × V)) : String :=
    String.join (es.map (fun (k, v) => " (" ++ strCanon ("k".toList.map Char.toNat ++ (toString k).toList.map Char.toNat) ++ " " ++ canon v ++ ")"))

def resStr : Res → String
  | .ok v => "ok " ++ canon v
  | .ret v => "ok " ++ canon v
  | .err (.type h found) => "E:type " ++ hexOfBytes (bytesOfCps (typeErrMsg h found))
  | .err (.thrown v) => "E:thrown " ++ canon v
  | .stuck n => s!"stuck {n}"

def traceStr (t : List V) : String :=
  if t.isEmpty then "-" else " ".intercalate (t.reverse.map canon)

def b01 (b : Bool) : String := if b then "1" else "0"

def handle (line : String) : String :=
  match parseLine line with
  | [.atom "run", fuel, .list (.atom "funs" :: fs), main] =>
    match fuel.nat?, fs.mapM parseFun, parseE main with
    | some fuel, some funs, some main =>
      let p : Prog := { funs := funs, main := main }
      let (r1, s1) := run true p fuel
      let (r2, s2) := run false p fuel
      s!"{resStr r1} ;; {traceStr s1.trace} ;; fails={s1.fails} ;; {resStr r2} ;; {traceStr s2.trace}"
    | _, _, _ => "bad-request"
  | [.atom "ty", v] =>
    match parseV v with
    | some v =>
      s!"ty={hexOfBytes (bytesOfCps (typeName v))} callable={b01 (callable v)} indexable={b01 (indexable v)} iterable={b01 (iterable v)}"
    | none => "bad-request"
  | [.atom "cyc", h, .list nodes, start] =>
    -- graph of maps: nodes `(<-|!|x<hex>> <-|index>)`; reply: type name of `start` and the check
    let parseNode : Sexp → Option GNode := fun nd =>
      match nd with
      | .list [.atom ty, b] => do
        let ty ← (match ty with
          | "-" => some MetaTy.absent
          | "!" => some MetaTy.nonString
          | t => (nameOfAtom t).map MetaTy.str)
        let b ← (match b with
          | .atom "-" => some none
          | x => x.nat?.map some)
        pure { ty := ty, base := b }
      | _ => none
    match parseHint h, nodes.mapM parseNode, start.nat? with
    | some h, some g, some n =>
      s!"ty={hexOfBytes (bytesOfCps (typeNameG g n))} chk={b01 (checkG g h.name h.opt n)}"
    | _, _, _ => "bad-request"
  | [.atom "chk", h, v] =>
    match parseHint h, parseV v with
    | some h, some v => b01 (check h.name h.opt v)
    | _, _ => "bad-request"
  | _ => "bad-request"

end C16Driver

def main : IO Unit := Proto.serve C16Driver.handle
