/-
Model driver for C17 (metamap / host object dispatch).

Request (one line, S-expressions):
  arith <add|sub|mul|div|rem|pow> <opd> <opd>      compound <op> <opd> <opd> <0|1 same instance>
  cmp <lt|le|gt|ge|eq|ne> <opd> <opd>
  neg|not|size|call|for|tolist|reversed|type|display|displaynested|debug <opd>
  index|indexassign <opd> <num0|str>
  access|method|accessassign <opd> <key id>
  daccess|dmethod|daccessassign <derived> <key id>   (host objects defined with #[koto_impl])
  lookup <key id> <layer>*                          (access chain only: hit / miss / badBase / coreMap)
opd   := (p <kind>) | (m <layer>+) | (h <name> <gen> <ni|it|(fw n)|(bi n)> (<HM> <beh>)*)
layer := (L <name> (d <key>*) <src>)       src := - | (own <meta>) | (sh <proto> <meta>|-)
meta  := (M <tag> (ops (<MetaKeyId> <mv>)*) (named <key>*) <- | (ty <id>) | bad> <0|1 baseBad>)
mv    := (f <beh>) | (nat <rv>) | nc | (ch (<mid>*) <beh>|-)
beh   := (r <rv>) | u | t | (c <n>)        rv := null | b0 | b1 | i<n> | str | self | lst | tup | iter | rng | pmap | gen | innernext | inneriter | nest:<d>:<lst|int|back>
Response: `<event>;<event>;… => <result>`, event = `n<tag>.<key> self=<av> args=[<av>,…]`.
-/
import KotoVerif.Common.Proto
import KotoVerif.Model.Meta

open KotoVerif KotoVerif.Proto KotoVerif.Meta KotoVerif.Gen

/-- harness convention: key ids ↦ names in scripts; 3 is a `map` module function, 4 an `iterator`
module function, 2 holds function values -/
def keyNames : List String := ["ka", "kb", "kf", "keys", "to_tuple", "m1", "m1b", "g1", "g1b", "s1", "zz"]
def keyName (k : Nat) : String := keyNames.getD k s!"k{k}"
def mods : Mods := { inMap := fun k => k == 3, inIter := fun k => k == 4, isFn := fun k => k == 2 }

def allMKeys : List MetaKeyId := metaKeyTable.map (·.2)
def parseMKey (s : String) : Option MetaKeyId := allMKeys.find? (fun k => k.name == s)

def hmTable : List (String × HM) := [
  ("add", .add), ("subtract", .subtract), ("multiply", .multiply), ("divide", .divide),
  ("remainder", .remainder), ("power", .power),
  ("add_rhs", .addRhs), ("subtract_rhs", .subtractRhs), ("multiply_rhs", .multiplyRhs),
  ("divide_rhs", .divideRhs), ("remainder_rhs", .remainderRhs), ("power_rhs", .powerRhs),
  ("add_assign", .addAssign), ("subtract_assign", .subtractAssign), ("multiply_assign", .multiplyAssign),
  ("divide_assign", .divideAssign), ("remainder_assign", .remainderAssign), ("power_assign", .powerAssign),
  ("less", .less), ("less_or_equal", .lessOrEqual), ("greater", .greater),
  ("greater_or_equal", .greaterOrEqual), ("equal", .equal), ("not_equal", .notEqual),
  ("negate", .negate), ("index", .index), ("index_assign", .indexAssign), ("size", .size),
  ("call", .call), ("access", .access), ("access_assign", .accessAssign), ("display", .display),
  ("make_iterator", .makeIterator), ("iterator_next", .iteratorNext), ("iterator_next_back", .iteratorNextBack)]
def parseHM (s : String) : Option HM := hmTable.lookup s
def hmName (m : HM) : String := ((hmTable.find? (fun p => p.2 == m)).map (·.1)).getD "?"

def primTable : List (String × PrimK) := [
  ("null", .null), ("bool", .bool), ("num", .num), ("str", .str), ("list", .list), ("tuple", .tuple),
  ("range", .range), ("fn", .fn), ("iter", .iter)]

def parseRV (s : String) : Option RV :=
  match s with
  | "null" => some .null | "b0" => some (.bool false) | "b1" => some (.bool true)
  | "str" => some .str | "self" => some .self | "lst" => some .lst | "tup" => some .tup
  | "iter" => some .iter
  | "rng" => some .rng | "pmap" => some .pmap | "gen" => some .gen
  | "innernext" => some .innerNext | "inneriter" => some .innerIter
  | s => match s.splitOn ":" with
    | ["nest", d, fin] => do
      let d ← d.toNat?
      let fin ← (match fin with
        | "lst" => some NestFin.lst | "int" => some NestFin.int | "back" => some NestFin.back
        | _ => none)
      pure (RV.nest d fin)
    | _ => match s.toList with
      | 'i' :: rest => (String.ofList rest).toInt?.map RV.int
      | _ => none

def parseBeh : Sexp → Option Beh
  | .atom "u" => some .unimpl
  | .atom "t" => some .throw
  | .list [.atom "r", .atom v] => (parseRV v).map Beh.ret
  | .list [.atom "c", n] => n.nat?.map Beh.count
  | _ => none

def parseMV : Sexp → Option MV
  | .atom "nc" => some .nonCallable
  | .list [.atom "nat", .atom v] => (parseRV v).map MV.native
  | .list [.atom "f", b] => (parseBeh b).map MV.fn
  | .list [.atom "ch", .list mids, .atom "-"] => (mids.mapM Sexp.nat?).map (fun ms => MV.chain ms none)
  | .list [.atom "ch", .list mids, b] => do
    let ms ← mids.mapM Sexp.nat?
    let b ← parseBeh b
    pure (MV.chain ms (some b))
  | _ => none

def parseMeta : Sexp → Option Meta
  | .list [.atom "M", tag, .list (.atom "ops" :: ops), .list (.atom "named" :: named), ty, bb] => do
    let tag ← tag.nat?
    let ops ← ops.mapM (fun e => match e with
      | Sexp.list [.atom k, mv] => do pure ((← parseMKey k), (← parseMV mv))
      | _ => none)
    let named ← named.mapM Sexp.nat?
    let ty ← (match ty with
      | .atom "-" => some TypeD.none
      | .atom "bad" => some TypeD.nonStr
      | .list [.atom "ty", n] => n.nat?.map TypeD.str
      | _ => none)
    let bb ← bb.nat?
    pure { tag := tag, ops := ops, named := named, type := ty, baseBad := bb == 1 }
  | _ => none

def parseSrc : Sexp → Option MetaSrc
  | .atom "-" => some .none
  | .list [.atom "own", m] => (parseMeta m).map MetaSrc.own
  | .list [.atom "sh", p, .atom "-"] => p.nat?.map (fun p => MetaSrc.shared p none)
  | .list [.atom "sh", p, m] => do pure (MetaSrc.shared (← p.nat?) (some (← parseMeta m)))
  | _ => none

def parseLayer : Sexp → Option Layer
  | .list [.atom "L", name, .list (.atom "d" :: ks), src] => do
    pure { name := (← name.nat?), data := (← ks.mapM Sexp.nat?), src := (← parseSrc src) }
  | _ => none

def parseOpd : Sexp → Option Opd
  | .list [.atom "p", .atom k] => (primTable.lookup k).map Opd.prim
  | .list (.atom "m" :: top :: bases) => do
    pure (Opd.map { top := (← parseLayer top), bases := (← bases.mapM parseLayer) })
  | .list (.atom "h" :: name :: gen :: it :: impl) => do
    let impl ← impl.mapM (fun e => match e with
      | Sexp.list [.atom m, b] => do pure ((← parseHM m), (← parseBeh b))
      | _ => none)
    let it ← (match it with
      | .atom "ni" => some HostIter.notIterable
      | .atom "it" => some HostIter.iterable
      | .list [.atom "fw", n] => n.nat?.map HostIter.forward
      | .list [.atom "bi", n] => n.nat?.map HostIter.bidirectional
      | _ => none)
    pure (Opd.host { name := (← name.nat?), gen := (← gen.nat?), impl := impl, iter := it })
  | _ => none

def tyStr : TyName → String
  | .user n => s!"u{n}"
  | .badType => "bad"
  | .object => "object"
  | .map => "map"

def intsStr (xs : List Int) : String := String.join (xs.map (fun x => s!" i{x}"))

def avStr : AV → String
  | .prim .null => "null"
  | .prim .bool => "b1"
  | .prim .num => "i7"
  | .prim .str => "s:s"
  | .prim .list => "(l i1)"
  | .prim .tuple => "(t i1)"
  | .prim .range => "range"
  | .prim .fn => "fn"
  | .prim .iter => "iter"
  | .null => "null"
  | .bool b => if b then "b1" else "b0"
  | .int n => s!"i{n}"
  | .str => "s:r"
  | .lst xs => "(l" ++ intsStr xs ++ ")"
  | .tup xs => "(t" ++ intsStr xs ++ ")"
  | .iter => "iter"
  | .gen => "iter"
  | .pmap => "m:?"
  | .inner nx => if nx then "m:n900" else "m:n901"
  | .aux i _ _ => s!"m:n{909 + i}"
  | .one v => "(l " ++ avStr v ++ ")"
  | .obj n => s!"m:n{n}"
  | .objCopy _ => "m:?"
  | .host n g => s!"h:n{n}#{g}"
  | .found l s k =>
    if mods.isFn k then "fn"
    else s!"s:n{l}.{match s with | .data => "d" | .named => "m"}.k{k}"
  | .core m k => s!"core:{match m with | .map => "map" | .iterator => "iterator"}.k{k}"
  | .key k => s!"s:{keyName k}"
  | .native => "native"
  | .builtin => "builtin"
  | .keys ks => "(t" ++ String.join (ks.map (fun k => " s:" ++ keyName k)) ++ ")"
  | .shown pre => s!"shown:{match pre with | some t => tyStr t | none => "-"}"
  | .ty t => s!"ty:{tyStr t}"

def dfnStr : DFn → String
  | .getOverride => "get_override" | .getFallback => "get_fallback"
  | .setOverride => "set_override" | .setFallback => "set_fallback"
  | .method f => s!"method{f}" | .getter f => s!"getter{f}" | .setter f => s!"setter{f}"

def evKeyStr : EvKey → String
  | .dv f => s!"dv.{dfnStr f}"
  | .mk k => k.name
  | .host m => s!"h.{hmName m}"
  | .copy => "copy"
  | .entry s k => s!"{match s with | .data => "d" | .named => "m"}.k{k}"

def evStr (e : Ev) : String :=
  s!"n{e.tag}.{evKeyStr e.key} self={avStr e.self} args=[{",".intercalate (e.args.map avStr)}]"

def errStr : Err → String
  | .binop k => s!"E:binop:{k.name}"
  | .type => "E:type"
  | .hostUnimpl => "E:hunimpl"
  | .thrownUnimpl => "E:kunimpl"
  | .thrown => "E:thrown"
  | .hostErr => "E:herr"
  | .notFound => "E:notfound"
  | .unexpectedKey => "E:unexpectedkey"
  | .oob => "E:oob"
  | .noIndex => "E:noindex"
  | .tooNested => "E:toonested"
  | .notReversible => "E:notrev"
  | .diverge => "E:diverge"

def outStr (o : Out) : String :=
  ";".intercalate (o.trace.map evStr) ++ " => " ++
    (match o.res with
    | .ok v => "ok " ++ avStr v
    | .err e => errStr e)

def arithTable : List (String × ArithOp) :=
  [("add", .add), ("sub", .sub), ("mul", .mul), ("div", .div), ("rem", .rem), ("pow", .pow)]
def cmpTable : List (String × CmpOp) :=
  [("lt", .lt), ("le", .le), ("gt", .gt), ("ge", .ge), ("eq", .eq), ("ne", .ne)]

def parsePairs (xs : List Sexp) : Option (List (Nat × Nat)) :=
  xs.mapM (fun e => match e with
    | Sexp.list [a, b] => do pure ((← a.nat?), (← b.nat?))
    | _ => none)

def parseOptKeys : Sexp → Option (Option (List Nat))
  | .atom "-" => some none
  | .list xs => (xs.mapM Sexp.nat?).map some
  | _ => none

/-- `(dv <name> (methods (k f)*) (getters (k f)*) (setters (k f)*) <ov> <fb> <sov> <sfb>)`,
each of the last four `-` or `(<key>*)` -/
def parseDerived : Sexp → Option DerivedD
  | .list [.atom "dv", name, .list (.atom "methods" :: ms), .list (.atom "getters" :: gs),
      .list (.atom "setters" :: ss), ov, fb, sov, sfb] => do
    pure { name := (← name.nat?), methods := (← parsePairs ms), getters := (← parsePairs gs),
           setters := (← parsePairs ss), getOverride := (← parseOptKeys ov),
           getFallback := (← parseOptKeys fb), setOverride := (← parseOptKeys sov),
           setFallback := (← parseOptKeys sfb) }
  | _ => none

def parseIdx : Sexp → Option IdxK
  | .atom "num0" => some .num0
  | .atom "str" => some .str
  | _ => none

def lookStr : Look → String
  | .hit v => "hit " ++ avStr v
  | .miss => "miss"
  | .badBase => "badBase"
  | .coreMap => "coreMap"

def handle (line : String) : String :=
  match parseLine line with
  | [.atom "arith", .atom op, a, b] =>
    (do pure (outStr (arith (← arithTable.lookup op) (← parseOpd a) (← parseOpd b)))).getD "bad-request"
  | [.atom "compound", .atom op, a, b, same] =>
    (do pure (outStr (compound (← arithTable.lookup op) (← parseOpd a) (← parseOpd b)
      ((← same.nat?) == 1)))).getD "bad-request"
  | [.atom "cmp", .atom op, a, b] =>
    (do pure (outStr (compareOp (← cmpTable.lookup op) (← parseOpd a) (← parseOpd b)))).getD "bad-request"
  | [.atom "neg", a] => ((parseOpd a).map (fun o => outStr (negate o))).getD "bad-request"
  | [.atom "not", a] => ((parseOpd a).map (fun o => outStr (notOp o))).getD "bad-request"
  | [.atom "size", a] => ((parseOpd a).map (fun o => outStr (size o))).getD "bad-request"
  | [.atom "call", a] => ((parseOpd a).map (fun o => outStr (callOp o))).getD "bad-request"
  | [.atom "for", a] => ((parseOpd a).map (fun o => outStr (forLoop o))).getD "bad-request"
  | [.atom "reversed", a] => ((parseOpd a).map (fun o => outStr (reversed o))).getD "bad-request"
  | [.atom "tolist", a] => ((parseOpd a).map (fun o => outStr (toList o))).getD "bad-request"
  | [.atom "type", a] => ((parseOpd a).map (fun o => outStr (typeOf o))).getD "bad-request"
  | [.atom "display", a] => ((parseOpd a).map (fun o => outStr (display o))).getD "bad-request"
  | [.atom "displaynested", a] => ((parseOpd a).map (fun o => outStr (displayNested o))).getD "bad-request"
  | [.atom "debug", a] => ((parseOpd a).map (fun o => outStr (debug o))).getD "bad-request"
  | [.atom "index", a, i] =>
    (do pure (outStr (index (← parseOpd a) (← parseIdx i)))).getD "bad-request"
  | [.atom "indexassign", a, i] =>
    (do pure (outStr (indexAssign (← parseOpd a) (← parseIdx i)))).getD "bad-request"
  | [.atom "access", a, k] =>
    (do pure (outStr (access mods (← parseOpd a) (← k.nat?)))).getD "bad-request"
  | [.atom "method", a, k] =>
    (do pure (outStr (methodCall mods (← parseOpd a) (← k.nat?)))).getD "bad-request"
  | [.atom "accessassign", a, k] =>
    (do pure (outStr (accessAssign (← parseOpd a) (← k.nat?)))).getD "bad-request"
  | [.atom "apicompound", .atom op, a, b] =>
    (do pure (outStr (apiCompound (← arithTable.lookup op) (← parseOpd a) (← parseOpd b)))).getD "bad-request"
  | [.atom "debugnested", a] => ((parseOpd a).map (fun o => outStr (debugNested o))).getD "bad-request"
  | [.atom "matchlast", a] => ((parseOpd a).map (fun o => outStr (matchLast o))).getD "bad-request"
  | [.atom "callpacked", a] => ((parseOpd a).map (fun o => outStr (callPacked o))).getD "bad-request"
  | [.atom "apiindexassign", a, i] =>
    (do pure (outStr (apiIndexAssign (← parseOpd a) (← parseIdx i)))).getD "bad-request"
  | [.atom "literal", l] => ((parseLayer l).map (fun l => outStr (literalKeys l))).getD "bad-request"
  | [.atom "daccess", d, k] =>
    (do pure (outStr (derivedAccess (← parseDerived d) (← k.nat?)))).getD "bad-request"
  | [.atom "dmethod", d, k] =>
    (do pure (outStr (derivedMethod (← parseDerived d) (← k.nat?)))).getD "bad-request"
  | [.atom "daccessassign", d, k] =>
    (do pure (outStr (derivedAccessAssign (← parseDerived d) (← k.nat?)))).getD "bad-request"
  | .atom "lookup" :: k :: layers =>
    (do pure (lookStr (lookupLayers (← k.nat?) (← layers.mapM parseLayer)))).getD "bad-request"
  | _ => "bad-request"

def main : IO Unit := Proto.serve handle
