/-
Model driver for C01.

Requests (one per line):
* `eval <fuel> <program sexp>` → `<outcome> ;; <event> ;; <event> …`
    outcome: `ok <value>` | `E:type` | `E:index` | `E:unbound` | `X:unmodelled` | `X:break` |
             `X:continue` | `X:nofuel`
    events:  `e:<value>` (emit) | `p:<xhex>` (print)
* `prec <optree sexp>` → `<koto source of the minimal rendering> ;; <model parse of those tokens as sexp | none>`
* `ptoks <token>*` → `<koto source> ;; <model parse as sexp | none>` for an arbitrary token list
    tokens: `n<k>` `i<k>` `o<OpTokName>` `=` `not` `(` `)`

Program grammar: see `parseExpr` below (the harness's `c01_gen::sexp` prints it).
Optree grammar: `(n k)` `(m k)` (negative literal) `(i k)` `(neg t)` `(not t)` `(bin Name l r)` `(asg k t)`.
-/
import KotoVerif.Common.Proto
import KotoVerif.Common.ValueIO
import KotoVerif.Model.Prec
import KotoVerif.Model.CoreEval

open KotoVerif KotoVerif.Proto KotoVerif.Core KotoVerif.ValueIO

def arithOp? : String → Option ArithOp
  | "add" => some .add | "sub" => some .sub | "mul" => some .mul
  | "div" => some .div | "rem" => some .rem | "pow" => some .pow
  | _ => none

def cmpOp? : String → Option CmpOp
  | "lt" => some .lt | "le" => some .le | "gt" => some .gt
  | "ge" => some .ge | "eq" => some .eq | "ne" => some .ne
  | _ => none

partial def parseExpr : Sexp → Option Expr
  | .list [.atom "lit", v] => (parseVal v).map Expr.lit
  | .list [.atom "var", n] => n.nat?.map Expr.var
  | .list [.atom "neg", e] => (parseExpr e).map Expr.neg
  | .list [.atom "not", e] => (parseExpr e).map Expr.not
  | .list [.atom "ar", .atom op, a, b] => do
    pure (Expr.arith (← arithOp? op) (← parseExpr a) (← parseExpr b))
  | .list (.atom "cmp" :: a :: rest) => do
    let first ← parseExpr a
    let pairs ← rest.mapM (fun p => match p with
      | Sexp.list [.atom op, e] => do pure ((← cmpOp? op), (← parseExpr e))
      | _ => none)
    pure (Expr.cmp first (Chain.ofList pairs))
  | .list [.atom "and", a, b] => do pure (Expr.and (← parseExpr a) (← parseExpr b))
  | .list [.atom "or", a, b] => do pure (Expr.or (← parseExpr a) (← parseExpr b))
  | .list [.atom "set", n, e] => do pure (Expr.assign (← n.nat?) (← parseExpr e))
  | .list [.atom "opset", .atom op, n, e] => do
    pure (Expr.opAssign (← arithOp? op) (← n.nat?) (← parseExpr e))
  | .list (.atom "list" :: es) => (es.mapM parseExpr).map (fun l => Expr.list (Exprs.ofList l))
  | .list (.atom "tuple" :: es) => (es.mapM parseExpr).map (fun l => Expr.tuple (Exprs.ofList l))
  | .list (.atom "map" :: es) => do
    let entries ← es.mapM (fun p => match p with
      | Sexp.list [.atom k, e] => do pure ((← bytesOfHex k), (← parseExpr e))
      | _ => none)
    pure (Expr.map (Entries.ofList entries))
  | .list [.atom "range", a, b, .atom incl] => do
    pure (Expr.range (← parseExpr a) (← parseExpr b) (incl == "1"))
  | .list [.atom "rfrom", a] => (parseExpr a).map Expr.rangeFrom
  | .list [.atom "rto", b, .atom incl] => (parseExpr b).map (fun e => Expr.rangeTo e (incl == "1"))
  | .list [.atom "rfull"] => some Expr.rangeFull
  | .list [.atom "idx", a, i] => do pure (Expr.index (← parseExpr a) (← parseExpr i))
  | .list [.atom "idxset", n, i, e] => do
    pure (Expr.indexAssign (← n.nat?) (← parseExpr i) (← parseExpr e))
  | .list [.atom "acc", a, .atom k] => do pure (Expr.access (← parseExpr a) (← bytesOfHex k))
  | .list [.atom "size", a] => (parseExpr a).map Expr.size
  | .list (.atom "interp" :: es) => (es.mapM parseExpr).map (fun l => Expr.interp (Exprs.ofList l))
  | .list [.atom "emit", a] => (parseExpr a).map Expr.emit
  | .list [.atom "print", a] => (parseExpr a).map Expr.print
  | .list (.atom "block" :: es) => (es.mapM parseExpr).map (fun l => Expr.block (Exprs.ofList l))
  | .list [.atom "if", c, t] => do pure (Expr.ifThen (← parseExpr c) (← parseExpr t))
  | .list [.atom "ife", c, t, e] => do
    pure (Expr.ifElse (← parseExpr c) (← parseExpr t) (← parseExpr e))
  | .list (.atom "switch" :: arms) => (parseArms arms).map Expr.switch
  | .list [.atom "while", c, b] => do pure (Expr.while (← parseExpr c) (← parseExpr b))
  | .list [.atom "until", c, b] => do pure (Expr.until (← parseExpr c) (← parseExpr b))
  | .list [.atom "loop", b] => (parseExpr b).map Expr.loop
  | .list [.atom "for", n, it, b] => do
    pure (Expr.for (← n.nat?) (← parseExpr it) (← parseExpr b))
  | .list [.atom "brk"] => some Expr.brk
  | .list [.atom "brkv", e] => (parseExpr e).map Expr.brkVal
  | .list [.atom "cont"] => some Expr.cont
  | _ => none
where
  parseArms : List Sexp → Option Arms
    | [] => some .nil
    | [.list [.atom "else", e]] => (parseExpr e).map Arms.els
    | .list [c, e] :: rest => do pure (Arms.cons (← parseExpr c) (← parseExpr e) (← parseArms rest))
    | _ => none

/-- values with NaN normalised like `kvh::canon::float` -/
partial def canonVal : Val → Val
  | .num (.f b) => .num (.f (canonBits b))
  | .tuple xs => .tuple (xs.map canonVal)
  | .list xs => .list (xs.map canonVal)
  | .map es => .map (es.map (fun (k, v) => (canonVal k, canonVal v)))
  | v => v

def evStr : Ev → String
  | .emit v => "e:" ++ valStr (canonVal v)
  | .print bs => "p:" ++ hexOfBytes bs

def outcomeStr : Res Val → String
  | .ok v => "ok " ++ valStr (canonVal v)
  | .err .type => "E:type"
  | .err .index => "E:index"
  | .err .unbound => "E:unbound"
  | .err .unmodelled => "X:unmodelled"
  | .brk _ => "X:break"
  | .cont => "X:continue"
  | .nofuel => "X:nofuel"

/-! ### precedence requests -/

open KotoVerif.Prec KotoVerif.Gen in
def opTok? (s : String) : Option OpTok := OpTok.all.find? (fun o => o.name == s)

open KotoVerif.Prec in
partial def parseTree : Sexp → Option OpTree
  | .list [.atom "n", k] => k.nat?.map (fun n => .atom (.num n))
  | .list [.atom "m", k] => k.nat?.map (fun n => .atom (.negNum n))
  | .list [.atom "i", k] => k.nat?.map (fun n => .atom (.id n))
  | .list [.atom "neg", t] => (parseTree t).map OpTree.neg
  | .list [.atom "not", t] => (parseTree t).map OpTree.not
  | .list [.atom "bin", .atom o, l, r] => do
    pure (OpTree.bin (← opTok? o) (← parseTree l) (← parseTree r))
  | .list [.atom "asg", k, t] => do pure (OpTree.assign (← k.nat?) (← parseTree t))
  | _ => none

open KotoVerif.Prec in
def treeStr : OpTree → String
  | .atom (.num n) => s!"(n {n})"
  | .atom (.negNum n) => s!"(m {n})"
  | .atom (.id x) => s!"(i {x})"
  | .neg t => "(neg " ++ treeStr t ++ ")"
  | .not t => "(not " ++ treeStr t ++ ")"
  | .bin o l r => "(bin " ++ o.name ++ " " ++ treeStr l ++ " " ++ treeStr r ++ ")"
  | .assign x t => s!"(asg {x} " ++ treeStr t ++ ")"

open KotoVerif.Prec in
def tok? (s : String) : Option Tok :=
  match s with
  | "=" => some .assign
  | "not" => some .not
  | "(" => some .lparen
  | ")" => some .rparen
  | _ =>
    match s.toList with
    | 'n' :: r => (String.ofList r).toNat?.map Tok.num
    | 'i' :: r => (String.ofList r).toNat?.map Tok.id
    | 'o' :: r => (opTok? (String.ofList r)).map Tok.op
    | _ => none

open KotoVerif.Prec in
def parsedStr (ts : List Tok) : String :=
  match Prec.parse ts with
  | some t => treeStr t
  | none => "none"

def handle (line : String) : String :=
  match line.splitOn " " with
  | "eval" :: fuel :: _ =>
    match fuel.toNat?, parseLine line with
    | some n, [_, _, prog] =>
      match parseExpr prog with
      | some e =>
        let (r, st) := Core.run nativeFloatOps n e
        " ;; ".intercalate (outcomeStr r :: st.out.map evStr)
      | none => "bad-program"
    | _, _ => "bad-request"
  | "prec" :: _ =>
    match parseLine line with
    | [_, t] =>
      match parseTree t with
      | some tree =>
        let ts := Prec.tokens tree
        Prec.text ts ++ " ;; " ++ parsedStr ts
      | none => "bad-tree"
    | _ => "bad-request"
  | "ptoks" :: rest =>
    let ts := (rest.filter (· ≠ "")).map tok?
    if ts.any Option.isNone then "bad-token"
    else
      let ts := ts.filterMap id
      Prec.text ts ++ " ;; " ++ parsedStr ts
  | _ => "bad-request"

def main : IO Unit := Proto.serve handle
