/-
Model driver for C11 (formatter). Requests:

  fparse <g1> <g2> <cp>*
      `StringFormatOptions::parse` on the format string with code points `cp*`, whose first two
      grapheme clusters have `g1` and `g2` code points (0 = absent). Response
        ok <align> <minWidth|-> <precision|-> <fill cps a,b,..|-> <repr|-> => <rendered cps a,b,..>
        err <kind>[:<cp>]
      (after `=>`: `render_format_options` of the parsed options.)

  slice <sl> <sc> <el> <ec> <entry>* <ch>*   entry = @line:col:byte (token-boundary table, sorted,
      deduplicated) ; ch = cp,bytes,width ; lines end after cp 10
      `FormatContext::source_slice` for the span (sl,sc)-(el,ec). Response
        <start> <end> T<cps a,b,..>    or    <start> <end> panic
-/
import KotoVerif.Common.Proto
import KotoVerif.Model.FmtOptions
import KotoVerif.Model.SrcSlice
import KotoVerif.Model.Layout

open KotoVerif

def joinNats (xs : List Nat) : String := ",".intercalate (xs.map toString)

def alignName : FmtOptions.Align → String
  | .default => "Default" | .left => "Left" | .center => "Center" | .right => "Right"

def reprName : FmtOptions.Repr' → String
  | .debug => "Debug" | .hexLower => "HexLower" | .hexUpper => "HexUpper" | .binary => "Binary"
  | .octal => "Octal" | .expLower => "ExpLower" | .expUpper => "ExpUpper"

def optNat : Option Nat → String
  | some n => toString n
  | none => "-"

def errStr : FmtOptions.Err → String
  | .expectedNumber c => s!"err expectedNumber:{c}"
  | .tooLarge => "err tooLarge"
  | .unexpected c => s!"err unexpected:{c}"
  | .fuel => "err fuel"

def handleFparse (args : List String) : String :=
  match args.map String.toNat? with
  | some g1 :: some g2 :: cps =>
    if cps.any Option.isNone then "bad-request"
    else
      let s := cps.filterMap id
      match FmtOptions.parse s g1 g2 with
      | .error e => errStr e
      | .ok o =>
        let fill := match o.fill with | some f => joinNats f | none => "-"
        let r := match o.repr with | some r => reprName r | none => "-"
        s!"ok {alignName o.align} {optNat o.minWidth} {optNat o.precision} {fill} {r} => {joinNats (FmtOptions.render o)}"
  | _ => "bad-request"

def parseCh (s : String) : Option SrcSlice.Ch :=
  match (s.splitOn ",").map String.toNat? with
  | [some cp, some b, some w] => some { cp := cp, bytes := b, width := w }
  | _ => none

/-- split after every character with cp = 10 -/
def splitLines : List SrcSlice.Ch → List SrcSlice.Ch → List (List SrcSlice.Ch)
  | [], cur => [cur.reverse]
  | c :: cs, cur => if c.cp == 10 then (c :: cur).reverse :: splitLines cs [] else splitLines cs (c :: cur)

def parseEntry (s : String) : Option (SrcSlice.Pos × Nat) :=
  match ((String.ofList (s.toList.drop 1)).splitOn ":").map String.toNat? with
  | [some l, some c, some b] => some ({ line := l, col := c }, b)
  | _ => none

def handleSlice (args : List String) : String :=
  match args with
  | sl :: sc :: el :: ec :: rest =>
    match sl.toNat?, sc.toNat?, el.toNat?, ec.toNat? with
    | some sl, some sc, some el, some ec =>
      let (es, chs) := rest.partition (fun x => x.startsWith "@")
      let tbl := es.map parseEntry
      let cs := chs.map parseCh
      if cs.any Option.isNone || tbl.any Option.isNone then "bad-request"
      else
        let ls := splitLines (cs.filterMap id) []
        let tbl := tbl.filterMap id
        let sp : SrcSlice.Span := { start := { line := sl, col := sc }, stop := { line := el, col := ec } }
        let (s, e) := SrcSlice.sourceSlice ls tbl sp
        match SrcSlice.sourceSliceText ls tbl sp with
        | some t => s!"{s} {e} T{joinNats (t.map (·.cp))}"
        | none => s!"{s} {e} panic"
    | _, _, _, _ => "bad-request"
  | _ => "bad-request"

/-! `group <line_length> <column> <tree>`: the decision of `render_group` for the item tree
`tree` = (g item*) with item = (c w) | (o w) | (s w lines) | (l) | (b BreakName) | (e) | (g item*).
Response: `<measured> <too_long> <force_break> <last_is_block> <broken> <flatOneLine> <flatWidth>` -/

def brkOfName : String → Option Layout.Brk
  | "None" => some .none | "SpaceOrIndent" => some .spaceOrIndent
  | "SpaceOrIndentIfNecessary" => some .spaceOrIndentIfNecessary | "SpaceOrReturn" => some .spaceOrReturn
  | "MaybeIndent" => some .maybeIndent | "IndentIfNecessary" => some .indentIfNecessary
  | "MaybeReturn" => some .maybeReturn | "IndentedBreak" => some .indentedBreak
  | "ReturnOrIndent" => some .returnOrIndent | "LineStart" => some .lineStart
  | "StartBlock" => some .startBlock | _ => none

mutual
partial def itemOfSexp : Proto.Sexp → Option Layout.Item
  | .list (.atom "c" :: w :: []) => w.nat?.map .char
  | .list (.atom "o" :: w :: []) => w.nat?.map .optChar
  | .list (.atom "s" :: w :: l :: []) => do   -- hook H6 format: first-line width, number of lines
    let w ← w.nat?
    let l ← l.nat?
    pure (.str w (List.replicate (l - 1) 0))
  | .list (.atom "t" :: w :: more) => do      -- all line widths
    let w ← w.nat?
    let ms ← more.mapM (·.nat?)
    pure (.str w ms)
  | .list (.atom "l" :: []) => some .lineBreak
  | .list (.atom "e" :: []) => some .error
  | .list (.atom "b" :: .atom n :: []) => (brkOfName n).map .brk
  | .list (.atom "g" :: rest) => (itemsOfSexps rest).map .group
  | _ => none
partial def itemsOfSexps : List Proto.Sexp → Option Layout.Items
  | [] => some .nil
  | x :: xs => do
    let i ← itemOfSexp x
    let is ← itemsOfSexps xs
    pure (.cons i is)
end

def b01 (b : Bool) : String := if b then "1" else "0"

def handleGroup (line : String) : String :=
  match Proto.parseLine line with
  | .atom "group" :: ll :: col :: tree :: [] =>
    match ll.nat?, col.nat?, itemOfSexp tree with
    | some ll, some col, some (.group is) =>
      s!"{Layout.lineLengthItems is} {b01 (Layout.tooLong ll col is)} {b01 (Layout.anyItem Layout.forceBreak is)} {b01 (Layout.lastIs Layout.isIndentedBlock is)} {b01 (Layout.broken ll col is)} {b01 (Layout.flatOneLineItems is)} {Layout.flatWidthItems is}"
    | _, _, _ => "bad-request"
  | _ => "bad-request"

/-! `render <line_length> <indent_width> <column> <indented 0|1> <tree>`: the text shape `render_group`
produces for the group (widths of the lines it appends, first line first), or `error`. -/
def handleRender (line : String) : String :=
  match Proto.parseLine line with
  | .atom "render" :: ll :: iw :: col :: ind :: tree :: [] =>
    match ll.nat?, iw.nat?, col.nat?, ind.nat?, itemOfSexp tree with
    | some ll, some iw, some col, some ind, some (.group is) =>
      match Layout.renderGroupLines { lineLen := ll, indentWidth := iw } is (ind == 1) col with
      | some ws => joinNats ws
      | none => "error"
    | _, _, _, _, _ => "bad-request"
  | _ => "bad-request"

def handle (line : String) : String :=
  match (line.splitOn " ").filter (· ≠ "") with
  | "fparse" :: rest => handleFparse rest
  | "slice" :: rest => handleSlice rest
  | "group" :: _ => handleGroup line
  | "render" :: _ => handleRender line
  | _ => "bad-request"

def main : IO Unit := Proto.serve handle
