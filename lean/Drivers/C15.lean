/-
Model driver for C15 (strings). Stateful line protocol (one request → one response line).

  facts (<xchar> <0|1 white> <xlower> <xupper>) …      per-character facts for the session → `ok`
  fixes <finding id> …                                  findings recorded as *fixed* in known_findings.json:
                                                        the model then describes the repaired code
                                                        (F-C15-1: `F:` strings validate; F-C15-2: integer
                                                        centre halves; F-C15-3: checked \u{…} accumulator) → `ok`
  <op> <D> <args…> (G <xstring> <len₁> <len₂> …)…       D = F:<xhex>            (`Full` storage)
                                                            | L:<xhex>              (literal: slice of a constant pool;
                                                              modelled as a slice of itself — see
                                                              `withBounds_buffer_irrelevant`)
                                                            | S:<pre>:<xhex>:<xpost> (slice of the buffer
                                                              pre×'x' ++ s ++ post at offset pre)
    trailing (G …) lists give the grapheme-cluster byte lengths of the strings whose segmentation
    the operation may consult (the harness computes them with unicode-segmentation).

  ops: apiwb D hi | apisp D hi | idx D lo hi | rng D lo hi | unpx D | unph D k | unpt D k | chars D | rchars D | cidx D | bytes D | lines D
       | trim D | trimp D <xpat> | pat D <xpat> | replace D <xpat> <xto> | repeat D n | case D
       | tonum <xhex> | tonumb <xhex> base | lit <xhex> | fparse <xhex> | fmt <xopts> <val>
  Responses: canonical values `s<xhex> | null | b0 | b1 | i<n> | F | (r a b 0) | (t …)`,
  errors `E:<kind>`, `PANIC:<why>`; several results are separated by single spaces.
  A trailing ` !spec:<op>` marks a request on which the code-level (`KStr`) model and the byte-level
  definition the theorems speak about disagree.
-/
import KotoVerif.Common.Proto
import KotoVerif.Model.Str
import KotoVerif.Model.FmtSpec
import KotoVerif.Common.ValueIO

open KotoVerif KotoVerif.Proto KotoVerif.Utf8 KotoVerif.Str KotoVerif.FmtSpec

structure CharFact where
  c : Bytes
  white : Bool
  lower : Bytes
  upper : Bytes

structure DSt where
  cf : List CharFact := []
  fix1 : Bool := false
  fix2 : Bool := false
  fix3 : Bool := false
  fix6 : Bool := false
  fix8 : Bool := false
  fix9 : Bool := false
  fix10 : Bool := false
  fix11 : Bool := false
  fix12 : Bool := false
  fix13 : Bool := false
  fix14 : Bool := false
  fix15 : Bool := false
  fix16 : Bool := false

structure SegTab where
  s : Bytes
  lens : List Nat

/-- cluster length starting at byte offset `off` -/
def clusterAt : List Nat → Nat → Nat → Option Nat
  | [], _, _ => none
  | l :: ls, acc, off => if acc == off then some l else if acc > off then none else clusterAt ls (acc + l) off

/-- cluster length ending at byte offset `off` -/
def clusterEndingAt : List Nat → Nat → Nat → Option Nat
  | [], _, _ => none
  | l :: ls, acc, off => if acc + l == off then some l else if acc + l > off then none else clusterEndingAt ls (acc + l) off

/-- `(offset, length)` of every cluster of a table -/
def clusterStarts : List Nat → Nat → List (Nat × Nat)
  | [], _ => []
  | l :: ls, acc => (acc, l) :: clusterStarts ls (acc + l)

/-- first cluster of `x`: `x` is looked up as a cluster-aligned piece of one of the supplied strings
(a suffix, or a prefix of a suffix that contains the whole cluster) -/
def gFirstOf (tabs : List SegTab) (x : Bytes) : Nat :=
  let r := tabs.findSome? fun t =>
    (clusterStarts t.lens 0).findSome? fun (off, l) =>
      if l ≤ x.length ∧ x.length + off ≤ t.s.length ∧ x.isPrefixOf (t.s.drop off) then some l else none
  r.getD (gFirstChar x)

def gLastOf (tabs : List SegTab) (x : Bytes) : Nat :=
  let r := tabs.findSome? fun t =>
    if x.length ≤ t.s.length ∧ t.s.take x.length == x then clusterEndingAt t.lens 0 x.length
    else none
  r.getD (UFacts.trivial.gLast x)

def mkFacts (cf : List CharFact) (tabs : List SegTab) : UFacts where
  gFirst := gFirstOf tabs
  gLast := gLastOf tabs
  isWhite c := match cf.find? (·.c == c) with | some f => f.white | none => false
  lower c := match cf.find? (·.c == c) with | some f => f.lower | none => c
  upper c := match cf.find? (·.c == c) with | some f => f.upper | none => c

partial def resStr : Res → String
  | .str b => "s" ++ hexOfBytes b
  | .null => "null"
  | .bool b => if b then "b1" else "b0"
  | .int n => s!"i{n}"
  | .float => "F"
  | .range a b => s!"(r {a} {b} 0)"
  | .tuple xs => "(t" ++ String.join (xs.map fun x => " " ++ resStr x) ++ ")"
  | .err k => "E:" ++ k
  | .panic w => "PANIC:" ++ w

def parseDesc (fix1 : Bool) (a : String) : Option KStr :=
  match a.splitOn ":" with
  | ["F", h] => (bytesOfHex h).map (if fix1 then KStr.ofStringV else KStr.ofString)
  | ["L", h] => (bytesOfHex h).map fun s => KStr.ofSlice s 0 s.length
  | ["S", pre, h, post] => do
    let p ← pre.toNat?
    let s ← bytesOfHex h
    let q ← bytesOfHex post
    pure (KStr.ofSlice (List.replicate p 120 ++ s ++ q) p (p + s.length))
  | _ => none

def parseTabs (xs : List Sexp) : List SegTab :=
  xs.filterMap fun x =>
    match x with
    | .list (.atom "G" :: .atom h :: lens) =>
      (bytesOfHex h).map fun s => { s := s, lens := lens.filterMap Sexp.nat? }
    | _ => none

def intRange (lo hi : Int) : List Int := (List.range (hi - lo + 1).toNat).map fun (i : Nat) => lo + (i : Int)

def strList (xs : List Bytes) : Res := .tuple (xs.map .str)

def pErrStr : PErr → String
  | .expectedNumber _ => "E:fmt:ExpectedNumber"
  | .tooLarge => "E:fmt:FormatNumberIsTooLarge"
  | .unexpectedToken _ => "E:fmt:UnexpectedToken"
  | .reprNotInteger => "E:repr"

def alignStr : Align → String
  | .default => "D" | .left => "L" | .center => "C" | .right => "R"

def repStr : Rep → String
  | .debug => "Debug" | .hexLower => "HexLower" | .hexUpper => "HexUpper" | .binary => "Binary"
  | .octal => "Octal" | .expLower => "ExpLower" | .expUpper => "ExpUpper"

def optStr (o : Opts) : String :=
  let f := match o.fill with | some b => hexOfBytes b | none => "-"
  let w := match o.minWidth with | some n => toString n | none => "-"
  let p := match o.precision with | some n => toString n | none => "-"
  let r := match o.rep with | some r => repStr r | none => "-"
  s!"(o {alignStr o.align} {w} {p} {f} {r})"

def parseFVal (a : String) : Option FVal :=
  match a.toList with
  | ['n', 'u', 'l', 'l'] => some .null
  | ['b', '0'] => some (.bool false)
  | ['b', '1'] => some (.bool true)
  | 'i' :: r => (String.ofList r).toInt?.map .int
  | 's' :: r => (bytesOfHex (String.ofList r)).map .str
  | _ => none

def parseSimple (a : String) : Option Simple :=
  match a.toList with
  | ['n', 'u', 'l', 'l'] => some .null
  | ['b', '0'] => some (.bool false)
  | ['b', '1'] => some (.bool true)
  | 'i' :: r => (String.ofList r).toInt?.map .int
  | 's' :: r => (bytesOfHex (String.ofList r)).map .str
  | 'o' :: r =>
    (match (String.ofList r).splitOn ";" with
     | [d, g] => do pure (.obj (← bytesOfHex d) (← bytesOfHex g))
     | _ => none)
  | _ => none

def inner (a : String) (pre : String) : Option (List String) :=
  if a.startsWith pre ∧ a.endsWith "]" then
    let cs := a.toList
    some ((String.ofList ((cs.drop pre.length).take (cs.length - pre.length - 1))).splitOn "," |>.filter (· ≠ ""))
  else none

/-- values of every kind: `null b0 b1 i<n> s<xhex> f<16 hex bits>/<xdigits>/<exp> T[e,…] L[e,…] M[<xkey>=e,…]
O[<xdisplay>,<xdebug>]` with elements `null b0 b1 i<n> s<xhex> o<xdisplay>;<xdebug>` -/
def parseXVal (a : String) : Option XVal :=
  if a.startsWith "f" ∧ a.contains '/' then
    (match a.splitOn "/" with
     | [b, d, e] => do
       let bits ← ValueIO.parseHex64 (b.toList.drop 1)
       let ds ← bytesOfHex d
       let ex ← e.toInt?
       pure (.float bits.toNat { digits := ds, exp := ex })
     | _ => none)
  else if a.startsWith "T[" then (inner a "T[").bind fun xs => (xs.mapM parseSimple).map .tuple
  else if a.startsWith "L[" then (inner a "L[").bind fun xs => (xs.mapM parseSimple).map .list
  else if a.startsWith "M[" then
    (inner a "M[").bind fun xs =>
      (xs.mapM fun (kv : String) => match kv.splitOn "=" with
        | [k, v] => do pure ((← bytesOfHex k), (← parseSimple v))
        | _ => none).map .map
  else if a.startsWith "O[" then
    (match inner a "O[" with
     | some [d, g] => do pure (.obj (← bytesOfHex d) (← bytesOfHex g))
     | _ => none)
  else (parseFVal a).map .base

def spaced (xs : List String) : String := " ".intercalate xs

def handleOp (st : DSt) (line : String) : String :=
  let cf := st.cf
  let parseDesc := parseDesc st.fix1
  let sx := parseLine line
  let tabs := parseTabs sx
  let U := mkFacts cf tabs
  let atoms := sx.filterMap Sexp.atom?
  match atoms with
  | ["idx", d, lo, hi] =>
    (match parseDesc d, lo.toInt?, hi.toInt? with
     | some s, some lo, some hi => spaced ((intRange lo hi).map fun i => resStr (index s i))
     | _, _, _ => "bad-request")
  | ["rng", d, lo, hi] =>
    (match parseDesc d, lo.toInt?, hi.toInt? with
     | some s, some lo, some hi =>
       let r := intRange lo hi
       let ab := r.flatMap fun a => r.map fun b => resStr (indexRange s (some a) (some (b, false)))
       let abi := r.flatMap fun a => r.map fun b => resStr (indexRange s (some a) (some (b, true)))
       let a_ := r.map fun a => resStr (indexRange s (some a) none)
       let _b := r.map fun b => resStr (indexRange s none (some (b, false)))
       let _bi := r.map fun b => resStr (indexRange s none (some (b, true)))
       spaced (ab ++ abi ++ a_ ++ _b ++ _bi)
     | _, _, _ => "bad-request")
  | ["unpx", d] =>
    (match parseDesc d with
     | some s => resStr (unpackExact s s.len st.fix9)
     | none => "bad-request")
  | ["unph", d, k] =>
    (match parseDesc d, k.toNat? with
     | some s, some k => resStr (unpackHead s k st.fix9)
     | _, _ => "bad-request")
  | ["unpt", d, k] =>
    (match parseDesc d, k.toNat? with
     | some s, some k => resStr (unpackTail s k st.fix9)
     | _, _ => "bad-request")
  | ["apiwb", d, hi] =>
    -- the public `KString::with_bounds(a..b)` for all 0 ≤ a, b ≤ hi (beyond the string's own end too)
    (match parseDesc d, hi.toNat? with
     | some s, some hi =>
       let r := List.range (hi + 1)
       spaced (r.flatMap fun a => r.map fun b =>
         match s.withBoundsApi a b st.fix10 with
         | some t => "s" ++ hexOfBytes t.bytes
         | none => "none")
     | _, _ => "bad-request")
  | ["apisp", d, hi] =>
    -- the public `StringSlice::<usize>::split(off)` for all 0 ≤ off ≤ hi; beyond the own end only the
    -- first half is looked at (the second has start > end)
    (match parseDesc d, hi.toNat? with
     | some s, some hi =>
       let s : KStr := { s with form := .large }
       spaced ((List.range (hi + 1)).map fun off =>
         match s.splitAtApi off st.fix12 with
         | some (p, r) =>
           if off ≤ s.len then "(" ++ hexOfBytes p.bytes ++ " " ++ hexOfBytes r.bytes ++ ")"
           else "(" ++ hexOfBytes p.bytes ++ " !)"
         | none => "none")
     | _, _ => "bad-request")
  | ["chars", d] =>
    (match parseDesc d with
     | some s =>
       let r := charsOp U s
       let ok := resStr r == resStr (strList (charsB U s.bytes))
       resStr r ++ (if ok then "" else " !spec:chars")
     | none => "bad-request")
  | ["rchars", d] =>
    (match parseDesc d with
     | some s =>
       let r := rcharsOp U s
       let ok := resStr r == resStr (strList (rcharsB U s.bytes))
       resStr r ++ (if ok then "" else " !spec:rchars")
     | none => "bad-request")
  | ["cidx", d] =>
    (match parseDesc d with
     | some s => resStr (charIndicesOp U s)
     | none => "bad-request")
  | ["bytes", d] =>
    (match parseDesc d with
     | some s => resStr (bytesOp s)
     | none => "bad-request")
  | ["lines", d] =>
    (match parseDesc d with
     | some s =>
       let r := linesOp s
       let ok := resStr r == resStr (strList (linesB s.bytes []))
       resStr r ++ (if ok then "" else " !spec:lines")
     | none => "bad-request")
  | ["trim", d] =>
    (match parseDesc d with
     | some s =>
       let r := [trimOp U s none, trimStartOp U s none, trimEndOp U s none]
       let sp := [Res.str (trimB U s.bytes), Res.str (trimStartB U s.bytes), Res.str (trimEndB U s.bytes)]
       let ok := r.map resStr == sp.map resStr
       spaced (r.map resStr) ++ (if ok then "" else " !spec:trim")
     | none => "bad-request")
  | ["trimp", d, p] =>
    (match parseDesc d, bytesOfHex p with
     | some s, some p =>
       let r := [trimOp U s (some p), trimStartOp U s (some p), trimEndOp U s (some p)]
       let sp := [Res.str (trimMatchesB p s.bytes), Res.str (trimStartMatchesB p s.len s.bytes),
                  Res.str (trimEndMatchesB p s.bytes)]
       let ok := r.map resStr == sp.map resStr
       spaced (r.map resStr) ++ (if ok then "" else " !spec:trimp")
     | _, _ => "bad-request")
  | ["pat", d, p] =>
    (match parseDesc d, bytesOfHex p with
     | some s, some p =>
       let sp := splitOp s p
       let ok := resStr sp == resStr (strList (splitB p (s.len + 2) s.bytes))
       spaced [resStr sp, resStr (splitWithOp U (fun g => g == p) s st.fix6), resStr (stripPrefixOp s p),
               resStr (stripSuffixOp s p), resStr (.bool (containsB p s.bytes)),
               resStr (.bool (startsWithB p s.bytes)), resStr (.bool (endsWithB p s.bytes))]
         ++ (if ok then "" else " !spec:split")
     | _, _ => "bad-request")
  | ["replace", d, p, t] =>
    (match parseDesc d, bytesOfHex p, bytesOfHex t with
     | some s, some p, some t => resStr (.str (replaceB p t s.bytes))
     | _, _, _ => "bad-request")
  | ["repeat", d, n] =>
    (match parseDesc d, n.toInt? with
     | some s, some n => resStr (repeatOp s n st.fix11)
     | _, _ => "bad-request")
  | ["case", d] =>
    (match parseDesc d with
     | some s => spaced [resStr (.str (lowerB U s.bytes)), resStr (.str (upperB U s.bytes))]
     | none => "bad-request")
  | ["tonum", h] =>
    (match bytesOfHex h with
     | some b => resStr (toNumberB b)
     | none => "bad-request")
  | ["tonumb", h, base] =>
    (match bytesOfHex h, base.toInt? with
     | some b, some base => resStr (toNumberBaseB b base)
     | _, _ => "bad-request")
  | ["lit", h] =>
    (match bytesOfHex h with
     | some b =>
       (match unescape U b { overflow := st.fix3, digits := st.fix13 } with
        | .ok r => "s" ++ hexOfBytes r
        | .error e => if e.startsWith "PANIC" then e else "E:" ++ e)
     | none => "bad-request")
  | ["fparse", h] =>
    (match bytesOfHex h with
     | some b =>
       (match parse U.gFirst b st.fix8 with
        | .ok o => optStr o
        | .error e => pErrStr e)
     | none => "bad-request")
  | ["fmt", h, v] =>
    (match bytesOfHex h, parseXVal v with
     | some b, some v =>
       let cfg : FmtCfg := { exactCenter := st.fix2, clusterFirst := st.fix8, signAware := st.fix14,
                             precRepr := st.fix15, radixStrict := st.fix16 }
       (match formatX U.gFirst b v cfg with
        | .ok r => "s" ++ hexOfBytes r
        | .error e => pErrStr e)
     | _, _ => "bad-request")
  | _ => "bad-request"

def parseFacts (sx : List Sexp) : List CharFact :=
  sx.filterMap fun x =>
    match x with
    | .list [.atom c, .atom w, .atom l, .atom u] =>
      match bytesOfHex c, bytesOfHex l, bytesOfHex u with
      | some c, some l, some u => some { c := c, white := w == "1", lower := l, upper := u }
      | _, _, _ => none
    | _ => none

def step (st : DSt) (line : String) : DSt × String :=
  if line.startsWith "facts" then
    let sx := parseLine line
    ({ st with cf := st.cf ++ parseFacts sx }, "ok")
  else if line.startsWith "fixes" then
    let ids := line.splitOn " "
    ({ st with fix1 := st.fix1 || ids.contains "F-C15-1", fix2 := st.fix2 || ids.contains "F-C15-2",
               fix3 := st.fix3 || ids.contains "F-C15-3", fix6 := st.fix6 || ids.contains "F-C15-6", fix8 := st.fix8 || ids.contains "F-C15-8",
               fix9 := st.fix9 || ids.contains "F-C15-9", fix10 := st.fix10 || ids.contains "F-C15-10", fix11 := st.fix11 || ids.contains "F-C15-11",
               fix12 := st.fix12 || ids.contains "F-C15-12", fix13 := st.fix13 || ids.contains "F-C15-13",
               fix14 := st.fix14 || ids.contains "F-C15-14", fix15 := st.fix15 || ids.contains "F-C15-15",
               fix16 := st.fix16 || ids.contains "F-C15-16" }, "ok")
  else (st, handleOp st line)

def main : IO Unit := Proto.serveSt ({} : DSt) step
