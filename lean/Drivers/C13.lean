/-
Model driver for C13 (iterator pipelines).

Request : `run <fuel> <consumer> <pipeline>`   (S-expressions, see `parsePipe` / `parseCons`)
Response: `<answer> | <event>;<event>;… | <spec answer>`
  answer      = `V <canonical value>` or `E:<kind>`
  event       = `pull,k,i` | `back,k,i` | `done,k` | `call,tag,<value>,…`
  spec answer = the consumer applied to the mathematical denotation `den` of the pipeline
                (`-` when the pipeline has no finite denotation)
-/
import KotoVerif.Common.Proto
import KotoVerif.Common.ValueIO
import KotoVerif.Model.Iter

open KotoVerif KotoVerif.Proto KotoVerif.Iter KotoVerif.ValueIO

def parseVals (xs : List Sexp) : Option (List Val) := xs.mapM parseVal

def parseFn : Sexp → Option Fn
  | .atom "ident" => some .ident
  | .atom "num" => some .num
  | .atom "wrap" => some .wrap
  | .atom "box" => some .box
  | _ => none

def parsePred : Sexp → Option Pred
  | .atom "tt" => some .tt
  | .atom "ff" => some .ff
  | .atom "even" => some .even
  | .atom "small" => some .small
  | .atom "nz3" => some .nz3
  | _ => none

def parseKeyFn : Sexp → Option KeyFn
  | .atom "mod3" => some .mod3
  | .atom "neg" => some .neg
  | _ => none

def parseSrc : Sexp → Option Src
  | .list (.atom "seq" :: vs) => (parseVals vs).map Src.seq
  | .list [.atom "range", a, b, i] => do
    pure (Src.range (← a.int?) (← b.int?) (i.atom? == some "1"))
  | .list (.atom "str" :: vs) => (parseVals vs).map Src.str
  | .list (.atom "fwd" :: vs) => (parseVals vs).map Src.fwd
  | .list (.atom "gen" :: k :: vs) => do pure (Src.gen (← k.nat?) (← parseVals vs))
  | .list (.atom "obj" :: k :: vs) => do pure (Src.obj (← k.nat?) (← parseVals vs))
  | .list (.atom "objb" :: k :: vs) => do pure (Src.objb (← k.nat?) (← parseVals vs))
  | .list [.atom "rep", v, n] => do pure (Src.rep (← parseVal v) (← n.nat?))
  | .list [.atom "repinf", v] => do pure (Src.repInf (← parseVal v))
  | .list (.atom "hostbytes" :: vs) => (parseVals vs).map Src.hostBytes
  | _ => none

partial def parsePipe : Sexp → Option Pipe
  | .list [.atom "each", f, p] => do pure (.each (← parseFn f) (← parsePipe p))
  | .list [.atom "keep", q, p] => do pure (.keep (← parsePred q) (← parsePipe p))
  | .list [.atom "take", n, p] => do pure (.take (← n.nat?) (← parsePipe p))
  | .list [.atom "takewhile", q, p] => do pure (.takeWhile (← parsePred q) (← parsePipe p))
  | .list [.atom "skip", n, p] => do pure (.skip (← n.nat?) (← parsePipe p))
  | .list [.atom "step", n, p] => do pure (.step (← n.nat?) (← parsePipe p))
  | .list [.atom "chain", p, q] => do pure (.chain (← parsePipe p) (← parsePipe q))
  | .list [.atom "zip", p, q] => do pure (.zip (← parsePipe p) (← parsePipe q))
  | .list [.atom "enumerate", p] => do pure (.enumerate (← parsePipe p))
  | .list [.atom "chunks", n, p] => do pure (.chunks (← n.nat?) (← parsePipe p))
  | .list [.atom "windows", n, p] => do pure (.windows (← n.nat?) (← parsePipe p))
  | .list [.atom "flatten", p] => do pure (.flatten (← parsePipe p))
  | .list [.atom "intersperse", v, p] => do pure (.intersperse (← parseVal v) (← parsePipe p))
  | .list [.atom "interspersewith", p] => do pure (.intersperseWith (← parsePipe p))
  | .list [.atom "cycle", p] => do pure (.cycle (← parsePipe p))
  | .list [.atom "reversed", p] => do pure (.reversed (← parsePipe p))
  | .list [.atom "peekable", p] => do pure (.peekable (← parsePipe p))
  | .list [.atom "pairfirst", p] => do pure (.pairFirst (← parsePipe p))
  | .list [.atom "pairsecond", p] => do pure (.pairSecond (← parsePipe p))
  | s => (parseSrc s).map Pipe.src

def parsePeekOp (o : Sexp) : Option PeekOp :=
  match o.atom? with
  | some "n" => some PeekOp.next
  | some "b" => some PeekOp.back
  | some "p" => some PeekOp.peek
  | some "q" => some PeekOp.peekBack
  | _ => none

def parseCons : Sexp → Option Cons
  | .atom "tolist" => some .toList
  | .atom "totuple" => some .toTuple
  | .atom "tomap" => some .toMap
  | .atom "tostring" => some .toString
  | .atom "count" => some .count
  | .atom "sum" => some .sum
  | .atom "product" => some .product
  | .atom "min" => some .min
  | .atom "max" => some .max
  | .atom "minmax" => some .minMax
  | .atom "foldpair" => some .foldPair
  | .list [.atom "suminit", v] => (parseVal v).map Cons.sumInit
  | .list [.atom "productinit", v] => (parseVal v).map Cons.productInit
  | .list [.atom "minby", k] => (parseKeyFn k).map Cons.minBy
  | .list [.atom "maxby", k] => (parseKeyFn k).map Cons.maxBy
  | .list [.atom "minmaxby", k] => (parseKeyFn k).map Cons.minMaxBy
  | .list [.atom "find", q] => (parsePred q).map Cons.find
  | .list [.atom "position", q] => (parsePred q).map Cons.position
  | .list [.atom "any", q] => (parsePred q).map Cons.any
  | .list [.atom "all", q] => (parsePred q).map Cons.all
  | .atom "last" => some .last
  | .atom "fold" => some .fold
  | .atom "consume" => some .consume
  | .list [.atom "consumef", f] => (parseFn f).map Cons.consumeF
  | .atom "for" => some .forLoop
  | .list (.atom "calls" :: ds) => some (.calls (ds.map (fun d => d.atom? == some "n")))
  | .list [.atom "advance", n] => n.nat?.map Cons.advance
  | .atom "unpack" => some .unpack
  | .list [.atom "copy", k, first] => do pure (.copyAt (← k.nat?) (first.atom? == some "1"))
  | .list [.atom "copyops", .list pre, .list post] => do
    let post ← post.mapM (fun (o : Sexp) => match o with
      | .list [w, d] => some (w.atom? == some "c", d.atom? == some "n")
      | _ => none)
    pure (.copyOps (pre.map (fun d => d.atom? == some "n")) post)
  | .list [.atom "peekcopy", .list pre, .list post] => do
    let pre ← pre.mapM (fun (o : Sexp) => parsePeekOp o)
    let post ← post.mapM (fun (o : Sexp) => match o with
      | .list [w, d] => (parsePeekOp d).map (fun op => (w.atom? == some "c", op))
      | _ => none)
    pure (.peekCopy pre post)
  | .list [.atom "entry", per, pre, mode] => do
    pure (.entry (per.atom? == some "1") (← pre.nat?) (← mode.nat?))
  | .list (.atom "peekops" :: ops) =>
    (ops.mapM (fun (o : Sexp) => match o.atom? with
      | some "n" => some PeekOp.next
      | some "b" => some PeekOp.back
      | some "p" => some PeekOp.peek
      | some "q" => some PeekOp.peekBack
      | _ => none)).map Cons.peekOps
  | _ => none

def errStr : Err → String
  | .chunks => "E:chunks" | .windows => "E:windows" | .step => "E:step" | .reversed => "E:reversed"
  | .type => "E:type" | .key => "E:key" | .fuel => "E:fuel" | .unsupported => "E:unsupported"

def ansStr : Ans → String
  | .ok v => "V " ++ valStr v
  | .error e => errStr e

def evStr : Ev → String
  | .pull k i => s!"pull,{k},{i}"
  | .back k i => s!"back,{k},{i}"
  | .done k => s!"done,{k}"
  | .call f args => s!"call,{f}" ++ String.join (args.map (fun a => "," ++ valStr a))

def handle (line : String) : String :=
  match parseLine line with
  | [.atom "run", fuel, cons, pipe] =>
    match fuel.nat?, parseCons cons, parsePipe pipe with
    | some fuel, some c, some p =>
      let (a, ev) := runCase fuel p c
      let spec := match specCase p c with
        | some s => ansStr s
        | none => "-"
      ansStr a ++ " | " ++ ";".intercalate (ev.map evStr) ++ " | " ++ spec
    | _, _, _ => "bad-request"
  | _ => "bad-request"

def main : IO Unit := Proto.serve handle
