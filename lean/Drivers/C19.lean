/-
Model driver for C19 (cell protocol, container operations as brackets).

Requests (one per line):
  lock <rc|arc> <readers> <0|1 writer> <req>*      req ∈ b bm tb tbm dr dw r w<n>
      → `<outcome>* | <readers> <writer>`           outcome ∈ ok none panic block noguard
        (the script stops after a panic / block, as `Cell.run` does)
  seq l (<int>*) <op>*        list ops:  (push x) (pop) (size) (get i) (first) (last) (contains x)
                                         (set i x) (clear) (fill x) (reverse) (snap)
  seq m ((k v)*) <op>*        map ops:   (ins k v) (rem k) (get k) (has k) (size) (clear) (geti i)
      → `<res>* | <final contents>`  computed by running the *bracket script* of the operations on
        the rc cell and on the arc cell (`Cell.run` over `flatMap bracket`); if the two differ or
        differ from `Cell.seqOps` the answer is `MODEL-DISAGREES` (never happens: theorem
        `rc_arc_equiv_brackets`)
  lin l (<int>*) (<t> <op>)*   /  lin m ((k v)*) (<t> <op>)*
      → `<t>:<res>*;…  | <final>`: `Cell.seqAll` on the proposed linearization (operations in that
        order, whole, one after the other) and every thread's results `Cell.resOf`.
Results: `u` (container itself / nothing), `null`, `i<n>`, `b0|b1`, `(<int>*)`, `E`.
-/
import KotoVerif.Common.Proto
import KotoVerif.Model.Cell

open KotoVerif KotoVerif.Proto KotoVerif.Cell

def reqOf : String → Option Req
  | "b" => some .borrow
  | "bm" => some .borrowMut
  | "tb" => some .tryBorrow
  | "tbm" => some .tryBorrowMut
  | "dr" => some .dropRead
  | "dw" => some .dropWrite
  | _ => none

def outStr : Outcome → String
  | .ok => "ok" | .none => "none" | .panic => "panic" | .block => "block" | .noGuard => "noguard"

def evStr : Ev Int → String
  | .lock o => outStr o
  | .val r => s!"v{r}"
  | .fault => "fault"

/-- script tokens: lock requests, `r` (read through a guard), `w<n>` (add n through the exclusive
guard, returns the old value) -/
def actOf (s : String) : Option (Act Int Int) :=
  match reqOf s with
  | some r => some (.req r)
  | none =>
    if s == "r" then some (.read id)
    else match s.toList with
      | 'w' :: ds => (String.ofList ds).toInt?.map (fun n => .write (fun d => (d + n, d)))
      | _ => none

def intsStr (xs : List Int) : String := "(" ++ " ".intercalate (xs.map toString) ++ ")"

def resStr : Res → String
  | .unit => "u"
  | .null => "null"
  | .int n => s!"i{n}"
  | .bool b => if b then "b1" else "b0"
  | .ints xs => intsStr xs
  | .err => "E"

def assocStr (m : Assoc) : String :=
  "(" ++ " ".intercalate (m.map (fun (k, v) => s!"({k} {v})")) ++ ")"

def parseLOp : Sexp → Option LOp
  | .list [.atom "push", x] => x.int?.map .push
  | .list [.atom "pop"] => some .pop
  | .list [.atom "size"] => some .size
  | .list [.atom "get", i] => i.nat?.map .get
  | .list [.atom "first"] => some .first
  | .list [.atom "last"] => some .last
  | .list [.atom "contains", x] => x.int?.map .contains
  | .list [.atom "set", i, x] => do some (.set (← i.nat?) (← x.int?))
  | .list [.atom "clear"] => some .clear
  | .list [.atom "fill", x] => x.int?.map .fill
  | .list [.atom "reverse"] => some .reverse
  | .list [.atom "snap"] => some .snapshot
  | .list [.atom "sort"] => some .sort
  | .list [.atom "resize", n, x] => do some (.resize (← n.nat?) (← x.int?))
  | .list (.atom "extend" :: xs) => (xs.mapM Sexp.int?).map .extend
  | .list [.atom "insert", i, x] => do some (.insert (← i.nat?) (← x.int?))
  | .list [.atom "remove", i] => i.nat?.map .remove
  | .list [.atom "retain", x] => x.int?.map .retain
  | .list [.atom "isempty"] => some .isEmpty
  | .list (.atom "eq" :: xs) => (xs.mapM Sexp.int?).map .eqTo
  | .list (.atom "swap" :: xs) => (xs.mapM Sexp.int?).map .swapWith
  | .list [.atom "addall", d] => d.int?.map .addAll
  | .list [.atom "tail"] => some .tailSnap
  | .list [.atom "init"] => some .initSnap
  | _ => none

def parsePairs (xs : List Sexp) : Option (List (Int × Int)) :=
  xs.mapM (fun e => match e with
    | .list [k, v] => do some ((← k.int?), (← v.int?))
    | _ => none)

def parseMOp : Sexp → Option MOp
  | .list [.atom "ins", k, v] => do some (.insert (← k.int?) (← v.int?))
  | .list [.atom "rem", k] => k.int?.map .remove
  | .list [.atom "get", k] => k.int?.map .get
  | .list [.atom "has", k] => k.int?.map .containsKey
  | .list [.atom "size"] => some .size
  | .list [.atom "clear"] => some .clear
  | .list [.atom "geti", i] => i.nat?.map .getIndex
  | .list [.atom "ins1", k] => k.int?.map .insert1
  | .list [.atom "setat", i, k, v] => do some (.setAt (← i.nat?) (← k.int?) (← v.int?))
  | .list [.atom "put", k, v] => do some (.put (← k.int?) (← v.int?))
  | .list [.atom "sort"] => some .sort
  | .list (.atom "extend" :: es) => (parsePairs es).map .extend
  | .list [.atom "isempty"] => some .isEmpty
  | .list [.atom "snap"] => some .snapshot
  | .list (.atom "eq" :: es) => (parsePairs es).map .eqTo
  | _ => none

def parseInts : Sexp → Option (List Int)
  | .list xs => xs.mapM Sexp.int?
  | _ => none

def parseAssoc : Sexp → Option Assoc
  | .list xs => xs.mapM (fun e => match e with
      | .list [k, v] => do some ((← k.int?), (← v.int?))
      | _ => none)
  | _ => none

def vals {ρ : Type} : List (Ev ρ) → List ρ
  | [] => []
  | .val r :: es => r :: vals es
  | _ :: es => vals es

/-- run the operations as bracket scripts on both cells and as whole sequential operations -/
def seqBoth {σ : Type} [DecidableEq σ] (d : σ) (ops : List (Op σ Res)) (show_ : σ → String) : String :=
  let script := ops.flatMap bracket
  let rc := run .rc { data := d } script
  let arc := run .arc { data := d } script
  let sq := seqOps d ops
  if vals rc.1 = sq.1 ∧ vals arc.1 = sq.1 ∧ rc.2.data = sq.2 ∧ arc.2.data = sq.2 ∧
     rc.2.lock = {} ∧ arc.2.lock = {} then
    " ".intercalate (sq.1.map resStr) ++ " | " ++ show_ sq.2
  else "MODEL-DISAGREES"

def linOut {σ : Type} (d : σ) (lin : List (Nat × Op σ Res)) (show_ : σ → String) : String :=
  let r := seqAll d lin
  let ts := (lin.map (·.1)).eraseDups
  let maxT := ts.foldl max 0
  let per := (List.range (maxT + 1)).map (fun t => s!"{t}:" ++ " ".intercalate ((resOf t r.2).map resStr))
  ";".intercalate per ++ " | " ++ show_ r.1

def parseTagged {α : Type} (p : Sexp → Option α) : Sexp → Option (Nat × α)
  | .list [t, o] => do some ((← t.nat?), (← p o))
  | _ => none

def handle (line : String) : String :=
  match line.splitOn " " with
  | "lock" :: m :: r :: w :: reqs =>
    match (if m == "rc" then some Mode.rc else if m == "arc" then some Mode.arc else none),
          r.toNat?, w.toNat?, (reqs.filter (· ≠ "")).mapM actOf with
    | some mode, some rd, some wr, some script =>
      let c : CellSt Int := { data := 0, lock := { readers := rd, writer := wr == 1 } }
      let (evs, c') := run mode c script
      " ".intercalate (evs.map evStr) ++ s!" | {c'.lock.readers} {if c'.lock.writer then 1 else 0}"
    | _, _, _, _ => "bad-request"
  | "seq" :: "l" :: _ =>
    match parseLine line with
    | _ :: _ :: init :: ops =>
      match parseInts init, ops.mapM parseLOp with
      | some d, some os => seqBoth d (os.map LOp.toOp) intsStr
      | _, _ => "bad-request"
    | _ => "bad-request"
  | "seq" :: "m" :: _ =>
    match parseLine line with
    | _ :: _ :: init :: ops =>
      match parseAssoc init, ops.mapM parseMOp with
      | some d, some os => seqBoth d (os.map MOp.toOp) assocStr
      | _, _ => "bad-request"
    | _ => "bad-request"
  | "lin" :: "l" :: _ =>
    match parseLine line with
    | _ :: _ :: init :: ops =>
      match parseInts init, ops.mapM (parseTagged parseLOp) with
      | some d, some os => linOut d (os.map (fun (t, o) => (t, o.toOp))) intsStr
      | _, _ => "bad-request"
    | _ => "bad-request"
  | "lin" :: "m" :: _ =>
    match parseLine line with
    | _ :: _ :: init :: ops =>
      match parseAssoc init, ops.mapM (parseTagged parseMOp) with
      | some d, some os => linOut d (os.map (fun (t, o) => (t, o.toOp))) assocStr
      | _, _ => "bad-request"
    | _ => "bad-request"
  | _ => "bad-request"

def main : IO Unit := Proto.serve handle
