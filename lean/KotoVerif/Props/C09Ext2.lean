/-
C09 — second extension module: the losslessness clause of the property in its literal form
("concatenating the texts of the tokens before the first error token reproduces that prefix of the
input"), stated with the text slices `textOf` (`&src[a..b]`) of `Model/Lexer.lean`'s `dropBytes` /
`prefixAt`, over the tokens of `lexAll`; and the per-token form connecting byte range, text slice and
reported lines.
-/
import KotoVerif.Props.C09Ext

namespace KotoVerif.C09Ext2
open KotoVerif.Lexer KotoVerif.C09 KotoVerif.C09Ext

/-- two character boundaries `m ≤ n` of `src` delimit a text slice: `&src[..n] = &src[..m] ++ &src[m..n]` -/
theorem slice_of_boundaries {src a b : List Ch} {m n : Nat} (ha : prefixAt m src = some a)
    (hb : prefixAt n src = some b) (hle : m ≤ n) :
    ∃ t, b = a ++ t ∧ textOf src m n = some t ∧ n = m + byteLen t := by
  obtain ⟨t, ht⟩ := prefixAt_extend ha hb hle
  obtain ⟨b1, b2, _⟩ := prefixAt_spec _ _ _ hb
  obtain ⟨_, a2, _⟩ := prefixAt_spec _ _ _ ha
  have hsrc : ∃ post, src = b ++ post := ⟨src.drop b.length, by
    have := List.take_append_drop b.length src
    rw [← b1] at this; exact this.symm⟩
  obtain ⟨post, hpost⟩ := hsrc
  refine ⟨t, ht, ?_, ?_⟩
  · rw [hpost, ht, List.append_assoc, ← a2]
    have hn : n = byteLen a + byteLen t := by rw [← b2, ht, byteLen_append]
    rw [hn]
    exact textOf_mid a t post
  · rw [← b2, ht, byteLen_append, a2]

/-- a prefix of a chain is a chain -/
theorem chain_append_left : ∀ (xs ys : List Lexed) (a : Nat), Chain a (xs ++ ys) → Chain a xs := by
  intro xs
  induction xs with
  | nil => intro ys a _; simp [Chain]
  | cons x xs ih =>
    intro ys a h
    exact ⟨h.1, ih ys _ h.2⟩

/-- **Chains of tokens on boundaries concatenate.** For any list of non-error tokens that tile from
byte `a` (a character boundary) and end on character boundaries, every token has a text slice and
the slices, concatenated after `&src[..a]`, are exactly `&src[..end of the last token]`. -/
theorem chain_texts_concat (src : List Ch) : ∀ (ls : List Lexed) (a : Nat) (pre : List Ch),
    Chain a ls → (∀ l ∈ ls, l.tok ≠ .error) → (∀ l ∈ ls, boundaryAt src l.endByte = true) →
    prefixAt a src = some pre →
    ∃ ts : List (List Ch),
      ls.map (fun l => textOf src l.startByte l.endByte) = ts.map some ∧
      prefixAt (ls.foldl (fun _ l => l.endByte) a) src = some (pre ++ ts.flatten) := by
  intro ls
  induction ls with
  | nil => intro a pre _ _ _ hp; exact ⟨[], rfl, by simpa using hp⟩
  | cons l ls ih =>
    intro a pre hc hne hb hp
    obtain ⟨h1, h2⟩ := hc
    obtain ⟨e1, e2⟩ := h1 (hne l (by simp))
    have hbl := hb l (by simp)
    unfold boundaryAt at hbl
    obtain ⟨b, hbb⟩ := Option.isSome_iff_exists.mp hbl
    obtain ⟨t, ht, htx, _⟩ := slice_of_boundaries hp hbb (by omega)
    obtain ⟨ts, f, hpre⟩ := ih l.endByte b h2 (fun x hx => hne x (by simp [hx]))
      (fun x hx => hb x (by simp [hx])) hbb
    refine ⟨t :: ts, by simp only [List.map_cons, f, e1, htx], ?_⟩
    simp only [List.foldl_cons, List.flatten_cons]
    rw [hpre, ht, List.append_assoc]

/-- **Losslessness, literal form.** For every input, any initial segment `toks` of the lexer's output
that contains no error token (in particular: all tokens before the first error token) has text
slices `ts` in the input, and concatenating them reproduces exactly the prefix of the input that
ends where the last of those tokens ends. -/
theorem tokens_texts_reproduce_prefix (src : List Ch) (ht : TableOk src) (toks rest : List Lexed)
    (h : lexAll src = toks ++ rest) (hne : ∀ l ∈ toks, l.tok ≠ .error) :
    ∃ ts : List (List Ch),
      toks.map (fun l => textOf src l.startByte l.endByte) = ts.map some ∧
      prefixAt (toks.foldl (fun _ l => l.endByte) 0) src = some ts.flatten := by
  have hc : Chain 0 toks := chain_append_left toks rest 0 (h ▸ tokens_contiguous src ht)
  have hb : ∀ l ∈ toks, boundaryAt src l.endByte = true := fun l hl =>
    (tokens_on_boundaries src ht l (by rw [h]; simp [hl]) (hne l hl)).2
  obtain ⟨ts, f, hp⟩ := chain_texts_concat src toks 0 [] hc hne hb (prefixAt_zero src)
  exact ⟨ts, f, by simpa using hp⟩

example : lexAll sampleOk = lexAll sampleOk ++ [] ∧ ∀ l ∈ lexAll sampleOk, l.tok ≠ .error := by
  decide

/-- **Whole-input losslessness.** If lexing produces no error token and the last token ends at the end
of the input, the token texts concatenate to the entire input. -/
theorem tokens_texts_reproduce_input (src : List Ch) (ht : TableOk src)
    (hne : ∀ l ∈ lexAll src, l.tok ≠ .error)
    (hend : (lexAll src).foldl (fun _ l => l.endByte) 0 = byteLen src) :
    ∃ ts : List (List Ch),
      (lexAll src).map (fun l => textOf src l.startByte l.endByte) = ts.map some ∧
      ts.flatten = src := by
  obtain ⟨ts, f, hp⟩ := tokens_texts_reproduce_prefix src ht (lexAll src) [] (by simp) hne
  refine ⟨ts, f, ?_⟩
  rw [hend] at hp
  have := prefixAt_append src []
  rw [List.append_nil] at this
  rw [this] at hp
  exact (Option.some.inj hp).symm

example : (lexAll sampleOk).foldl (fun _ l => l.endByte) 0 = byteLen sampleOk := by decide

/-- **Per-token exactness, end to end.** Every non-error token has a text slice `t = &src[start..end]`
after a prefix `pre = &src[..start]`; its byte length is the length of `t`, its reported start line is
the number of line breaks in `pre`, and its reported stop line is the start line plus the number of
line breaks in `t`. -/
theorem token_text_exact (src : List Ch) (ht : TableOk src) :
    ∀ l ∈ lexAll src, l.tok ≠ .error →
      ∃ pre t, prefixAt l.startByte src = some pre ∧ textOf src l.startByte l.endByte = some t ∧
        l.endByte = l.startByte + byteLen t ∧
        l.span.start.line = nlCount pre ∧ l.span.stop.line = l.span.start.line + nlCount t := by
  intro l hl hne
  obtain ⟨h1, h2⟩ := lines_exact src ht l hl hne
  obtain ⟨hle, _⟩ := tokens_within_input src ht l hl hne
  unfold exactAt at h1 h2
  cases ha : prefixAt l.startByte src with
  | none => simp [ha] at h1
  | some a =>
    cases hb : prefixAt l.endByte src with
    | none => simp [hb] at h2
    | some b =>
      simp only [ha, beq_iff_eq] at h1
      simp only [hb, beq_iff_eq] at h2
      obtain ⟨t, e, htx, hn⟩ := slice_of_boundaries ha hb hle
      refine ⟨a, t, rfl, htx, hn, h1, ?_⟩
      rw [h2, e, nlCount_append, h1]

end KotoVerif.C09Ext2
