/-
C12 extension: further theorems about the executable model of C12 (source map, debug prefix,
trace collection across native re-entries, excerpt arithmetic).
-/
import KotoVerif.Model.SrcMap
import KotoVerif.Model.Excerpt
import KotoVerif.Model.Trace
import KotoVerif.Lemmas.C12
import KotoVerif.Props.C12

namespace KotoVerif.C12Ext
open KotoVerif.SrcMap KotoVerif.Excerpt KotoVerif.Trace
open KotoVerif.C12L (spA spB spR exPushes exTree exCalls)

/-! ## 1. source map: lookups only ever return recorded spans; compression is idempotent -/

theorem lookupGo_mem (m : List Entry) (q : Nat) (r : Option Span) (sp : Span)
    (h : lookupGo m q r = some sp) : r = some sp ∨ ∃ i, (i, sp) ∈ m ∧ i ≤ q := by
  induction m generalizing r with
  | nil => exact Or.inl (by simpa [lookupGo] using h)
  | cons e rest ih =>
    obtain ⟨i, s⟩ := e
    simp only [lookupGo] at h
    split at h
    · rcases ih _ h with h1 | ⟨j, hj, hle⟩
      · injection h1 with h1
        subst h1
        exact Or.inr ⟨i, by simp, by assumption⟩
      · exact Or.inr ⟨j, by simp [hj], hle⟩
    · exact Or.inl h

/-- Whatever the order of the entries: a span returned by `get_source_span` is the span of a
recorded entry whose ip is not after the query (no span is invented, none comes from the future). -/
theorem lookup_mem (m : List Entry) (q : Nat) (sp : Span) (h : lookup m q = some sp) :
    ∃ i, (i, sp) ∈ m ∧ i ≤ q := by
  rcases lookupGo_mem m q none sp h with h1 | h1
  · cases h1
  · exact h1

example : lookup exPushes 6 = some spB := by decide

/-- From the first entry's ip on, every lookup finds a span. -/
theorem lookup_isSome_from_first (i : Nat) (s : Span) (rest : List Entry) (q : Nat) (h : i ≤ q) :
    (lookup ((i, s) :: rest) q).isSome = true := by
  have gen : ∀ (m : List Entry) (r : Option Span), r.isSome = true →
      (lookupGo m q r).isSome = true := by
    intro m
    induction m with
    | nil => intro r hr; simpa [lookupGo] using hr
    | cons e rest ih =>
      intro r hr
      obtain ⟨j, t⟩ := e
      simp only [lookupGo]
      split
      · exact ih _ rfl
      · exact hr
  simp only [lookup, lookupGo, h, if_true]
  exact gen rest _ rfl

example : (lookup ((3, spA) :: [(5, spB)]) 4).isSome = true := by decide

theorem compressFrom_idem (last : Option Span) (es : List Entry) :
    compressFrom last (compressFrom last es) = compressFrom last es := by
  induction es generalizing last with
  | nil => rfl
  | cons e rest ih =>
    obtain ⟨i, s⟩ := e
    by_cases hl : last = some s
    · simp only [compressFrom, hl, if_true]
      have := ih (some s)
      exact this
    · simp only [compressFrom, hl, if_false]
      rw [ih]

/-- Replaying the finished source map through `DebugInfo::push` changes nothing: the map is
already fully merged. -/
theorem pushAll_idem (es : List Entry) : pushAll (pushAll es) = pushAll es := by
  rw [C12.pushAll_eq_compress, C12.pushAll_eq_compress]
  exact compressFrom_idem none es

theorem mem_compressFrom' (last : Option Span) (es : List Entry) (e : Entry)
    (h : e ∈ compressFrom last es) : e ∈ es := by
  induction es generalizing last with
  | nil => simp [compressFrom] at h
  | cons x rest ih =>
    obtain ⟨i, s⟩ := x
    simp only [compressFrom] at h
    split at h
    · exact List.mem_cons_of_mem _ (ih _ h)
    · rcases List.mem_cons.mp h with h | h
      · simp [h]
      · exact List.mem_cons_of_mem _ (ih _ h)

/-- The source map contains only pairs that were pushed. -/
theorem pushAll_subset (es : List Entry) (e : Entry) (h : e ∈ pushAll es) : e ∈ es := by
  rw [C12.pushAll_eq_compress] at h
  exact mem_compressFrom' none es e h

theorem compressFrom_sublist (last : Option Span) (es : List Entry) :
    (compressFrom last es).Sublist es := by
  induction es generalizing last with
  | nil => simp [compressFrom]
  | cons x rest ih =>
    obtain ⟨i, s⟩ := x
    simp only [compressFrom]
    split
    · exact (ih _).cons _
    · exact (ih _).cons_cons _

/-- The source map is the push sequence with some entries left out, order kept. -/
theorem pushAll_sublist (es : List Entry) : (pushAll es).Sublist es := by
  rw [C12.pushAll_eq_compress]
  exact compressFrom_sublist none es

/-- Pushes made in ip order give a source map in ip order (the precondition of the lookup
theorems is preserved by `DebugInfo::push`). -/
theorem pushAll_sorted (es : List Entry) (h : C12.Sorted es) : C12.Sorted (pushAll es) :=
  List.Pairwise.sublist (pushAll_sublist es) h

theorem pushAll_strictSorted (es : List Entry) (h : C12.StrictSorted es) :
    C12.StrictSorted (pushAll es) :=
  List.Pairwise.sublist (pushAll_sublist es) h

example : C12.Sorted exPushes ∧ C12.Sorted (pushAll exPushes) := by unfold C12.Sorted; decide

/-- no entry carries the span of the entry before it (`last` = span before the list) -/
def NoAdj : Option Span → List Entry → Prop
  | _, [] => True
  | last, (_, s) :: rest => last ≠ some s ∧ NoAdj (some s) rest

theorem compressFrom_noAdj (last : Option Span) (es : List Entry) :
    NoAdj last (compressFrom last es) := by
  induction es generalizing last with
  | nil => simp [compressFrom, NoAdj]
  | cons x rest ih =>
    obtain ⟨i, s⟩ := x
    simp only [compressFrom]
    split
    · exact ih _
    · exact ⟨by assumption, ih _⟩

/-- In the source map no two neighbouring entries carry the same span. -/
theorem pushAll_noAdj (es : List Entry) : NoAdj none (pushAll es) := by
  rw [C12.pushAll_eq_compress]
  exact compressFrom_noAdj none es

theorem compressFrom_fix (last : Option Span) (m : List Entry) (h : NoAdj last m) :
    compressFrom last m = m := by
  induction m generalizing last with
  | nil => rfl
  | cons x rest ih =>
    obtain ⟨i, s⟩ := x
    obtain ⟨h1, h2⟩ := h
    simp only [compressFrom, h1, if_false]
    rw [ih _ h2]

/-- The fixed points of the merge are exactly the lists without equal neighbouring spans. -/
theorem pushAll_fix_iff (m : List Entry) : pushAll m = m ↔ NoAdj none m := by
  constructor
  · intro h; rw [← h]; exact pushAll_noAdj m
  · intro h; rw [C12.pushAll_eq_compress]; exact compressFrom_fix none m h

example : NoAdj none [(0, spA), (5, spB), (9, spA)] := by
  simp only [NoAdj]; decide

/-- Once an ip has a span, every later ip has one too (whatever the order of the entries). -/
theorem lookup_isSome_mono (m : List Entry) (q q' : Nat) (hq : q ≤ q')
    (h : (lookup m q).isSome = true) : (lookup m q').isSome = true := by
  cases m with
  | nil => simp [lookup, lookupGo] at h
  | cons e rest =>
    obtain ⟨i, s⟩ := e
    by_cases hi : i ≤ q
    · exact lookup_isSome_from_first i s rest q' (by omega)
    · simp [lookup, lookupGo, hi] at h

example : (lookup exPushes 5).isSome = true := by decide

/-! ## 2. the `debug` prefix -/

/-- The prefix line of a `debug` instruction is one-based and is the start line of a recorded
entry at or before the instruction. -/
theorem debugPrefixLine_sound (m : List Entry) (ip n : Nat) (h : debugPrefixLine m ip = some n) :
    ∃ i sp, (i, sp) ∈ m ∧ i ≤ ip ∧ n = sp.start.line + 1 := by
  unfold debugPrefixLine at h
  cases hl : lookup m ip with
  | none => simp [hl] at h
  | some sp =>
    simp [hl] at h
    obtain ⟨i, hi, hle⟩ := lookup_mem m ip sp hl
    exact ⟨i, sp, hi, hle, h.symm⟩

example : debugPrefixLine exPushes 6 = some 2 := by decide

/-- Merging equal neighbours does not change any `debug` prefix. -/
theorem debugPrefixLine_pushAll (es : List Entry) (h : C12.Sorted es) (ip : Nat) :
    debugPrefixLine (pushAll es) ip = debugPrefixLine es ip := by
  unfold debugPrefixLine
  rw [C12.srcmap_lossless es h ip]

example : C12.Sorted exPushes ∧ debugPrefixLine (pushAll exPushes) 6 = some 2 := by
  unfold C12.Sorted; decide

/-- A `debug` instruction emitted with `push_op` inside any tree of nodes is prefixed with the
(one-based) start line of its innermost enclosing node — clause "debug output is prefixed with the
line on which the debug expression starts", for the span-stack mechanism. -/
theorem debugPrefixLine_instr (root : Span) (t : Steps) (h : t.sizesPos = true) :
    ∀ e ∈ (annot t root 0).1,
      debugPrefixLine (debugInfoOf root t) e.1 = some (e.2.start.line + 1) := by
  intro e he
  unfold debugPrefixLine
  rw [C12.instr_span root t h e he]
  rfl

example : exTree.sizesPos = true ∧ (5, spB) ∈ (annot exTree spR 0).1 ∧
    debugPrefixLine (debugInfoOf spR exTree) 5 = some 2 := by decide

/-! ## 3. the trace -/

/-- prepend frames to the trace of an outcome -/
def prepend (p : List IFrame) : Outcome → Outcome
  | .caught => .caught
  | .uncaught t => .uncaught (p ++ t)

/-- The unwinding only ever appends: frames already collected are kept in front, and whether the
error is caught does not depend on them. -/
theorem unwindGo_prefix (allow : Bool) (st : List Frame) (p tr : List IFrame) :
    unwindGo allow st (p ++ tr) = prepend p (unwindGo allow st tr) := by
  induction st generalizing tr with
  | nil => simp [unwindGo, prepend]
  | cons f rest ih =>
    cases rest with
    | nil =>
      simp only [unwindGo]
      split <;> simp [prepend]
    | cons g r =>
      simp only [unwindGo]
      split
      · simp [prepend]
      · split
        · simp [prepend]
        · rw [List.append_assoc]
          exact ih _

/-- With catching disallowed (`allow_catch = false`) the unwinding never swallows the error. -/
theorem unwindGo_noCatch (st : List Frame) (tr : List IFrame) :
    ∃ t, unwindGo false st tr = .uncaught (tr ++ t) := by
  induction st generalizing tr with
  | nil => exact ⟨[], by simp [unwindGo]⟩
  | cons f rest ih =>
    cases rest with
    | nil => exact ⟨[], by simp [unwindGo]⟩
    | cons g r =>
      simp only [unwindGo, Bool.and_false]
      by_cases hb : f.barrier = true
      · exact ⟨[], by simp [hb]⟩
      · obtain ⟨t, ht⟩ := ih (tr ++ [⟨g.chunk, g.retIp⟩])
        refine ⟨⟨g.chunk, g.retIp⟩ :: t, ?_⟩
        simp [hb, ht]

/-- Complete, unconditional description of `predict`: caught iff a `try` is involved, otherwise
the failing instruction first and then every call site, innermost first. -/
theorem predict_complete (calls : List Call) (fault : Nat) (ft : Bool) :
    predict calls fault ft =
      if ft = true ∨ ∃ c ∈ calls, c.inTry = true then .caught
      else .uncaught (⟨lastChunk 0 calls, fault⟩ :: (callSites 0 calls).reverse) := by
  split
  · next h => exact (C12.trace_caught_iff calls fault ft).mpr h
  · next h =>
    have hft : ft = false := by
      cases ft
      · rfl
      · exact absurd (Or.inl rfl) h
    subst hft
    apply C12.trace_order
    intro c hc
    cases hct : c.inTry
    · rfl
    · exact absurd (Or.inr ⟨c, hc, hct⟩) h

theorem callSites_length (cur : Nat) (calls : List Call) :
    (callSites cur calls).length = calls.length := by
  induction calls generalizing cur with
  | nil => rfl
  | cons c rest ih => simp [callSites, ih]

/-- An uncaught error's trace has exactly one frame per call level plus the failing instruction. -/
theorem predict_trace_length (calls : List Call) (fault : Nat) (ft : Bool) (tr : List IFrame)
    (h : predict calls fault ft = .uncaught tr) : tr.length = calls.length + 1 := by
  rw [predict_complete] at h
  split at h
  · cases h
  · injection h with h
    subst h
    simp [callSites_length]

example : predict exCalls 11 false = .uncaught [⟨3, 11⟩, ⟨2, 4⟩, ⟨1, 7⟩, ⟨0, 3⟩] := by decide

/-- what one interpreter entry does to the trace handed over by the entry nested inside it (plus
the optional adaptor frame): it keeps it in front and appends its own `predict` trace -/
theorem seg_step (s : Seg) (tr adaptor : List IFrame) :
    unwindGo true (((VM.run 0).callAll s.calls).at s.failIp s.failInTry).stack
        (tr ++ adaptor ++ [(((VM.run 0).callAll s.calls).at s.failIp s.failInTry).instructionFrame])
      = prepend (tr ++ adaptor) (predict s.calls s.failIp s.failInTry) := by
  rw [unwindGo_prefix]
  rfl

/-- Entries compose: the trace of a sequence of interpreter entries is obtained by running the
inner group and handing its trace to the outer group. -/
theorem predictSegs_append (a b : List Seg) (tr : List IFrame) :
    predictSegs (a ++ b) tr =
      match predictSegs a tr with
      | .caught => .caught
      | .uncaught t => predictSegs b t := by
  induction a generalizing tr with
  | nil => simp [predictSegs]
  | cons s rest ih =>
    simp only [List.cons_append, predictSegs]
    split
    · rfl
    · exact ih _

/-- Across any number of native re-entries: the error is caught exactly when some entry has a
`try` around its failing instruction / native call or around one of its script calls. -/
theorem predictSegs_caught_iff (segs : List Seg) (tr : List IFrame) :
    predictSegs segs tr = .caught ↔
      ∃ s ∈ segs, s.failInTry = true ∨ ∃ c ∈ s.calls, c.inTry = true := by
  induction segs generalizing tr with
  | nil => simp [predictSegs]
  | cons s rest ih =>
    simp only [predictSegs]
    rw [seg_step, predict_complete]
    by_cases hs : s.failInTry = true ∨ ∃ c ∈ s.calls, c.inTry = true
    · simp only [hs, if_true, prepend, true_iff]
      exact ⟨s, by simp, hs⟩
    · simp only [hs, if_false, prepend]
      rw [ih]
      constructor
      · rintro ⟨x, hx, hxc⟩
        exact ⟨x, List.mem_cons_of_mem _ hx, hxc⟩
      · rintro ⟨x, hx, hxc⟩
        rcases List.mem_cons.mp hx with hx | hx
        · subst hx; exact absurd hxc hs
        · exact ⟨x, hx, hxc⟩

example : predictSegs [{ calls := exCalls, failIp := 11 },
    { calls := [⟨3, 1, true⟩], failIp := 2 }] [] = .caught := by decide

/-- Complete, unconditional description of the trace across native re-entries. -/
theorem predictSegs_complete (segs : List Seg) (tr : List IFrame) :
    predictSegs segs tr =
      if ∃ s ∈ segs, s.failInTry = true ∨ ∃ c ∈ s.calls, c.inTry = true then .caught
      else .uncaught (tr ++ (segs.map segFrames).flatten) := by
  split
  · next h => exact (predictSegs_caught_iff segs tr).mpr h
  · next h =>
    apply C12.trace_order_native
    intro s hs
    constructor
    · cases hf : s.failInTry
      · rfl
      · exact absurd ⟨s, hs, Or.inl hf⟩ h
    · intro c hc
      cases hct : c.inTry
      · rfl
      · exact absurd ⟨s, hs, Or.inr ⟨c, hc, hct⟩⟩ h

/-! ## 3b. instructions and debug-info pushes of the span-stack compile -/

/-- the `(ip, span)` pairs of the instructions emitted under a span -/
def spanned (ins : List (Nat × Option Span)) : List Entry :=
  ins.filterMap (fun p => p.2.map (fun sp => (p.1, sp)))

/-- Invariant of `compile` for every tree and every start state: the debug-info pushes are exactly
the instructions emitted under a span, in order (no push without an instruction, no spanned
instruction without a push). -/
theorem compile_instrs_entries (t : Steps) (s : CState) (h : spanned s.instrs = s.entries) :
    spanned (compile t s).instrs = (compile t s).entries := by
  induction t generalizing s with
  | done => exact h
  | op n rest ih =>
    simp only [compile]
    apply ih
    cases hs : s.span <;> simp [spanned, List.filterMap_append] <;> exact h
  | opNoSpan n rest ih =>
    simp only [compile]
    apply ih
    simp [spanned, List.filterMap_append]
    exact h
  | node sp body rest ihb ihr =>
    simp only [compile]
    apply ihr
    exact ihb _ h

example : spanned (compile exTree { stack := [spR] }).instrs
    = (compile exTree { stack := [spR] }).entries := by decide

theorem compile_entries_root (root : Span) (t : Steps) :
    (compile t { stack := [root] }).entries = (annot t root 0).1 := by
  have := (C12.compile_entries t root [] 0 [] []).1
  simpa using this

/-- The finished debug info of any tree is strictly ordered by ip (the precondition of
`lookup_hit` / `lookup_spec` holds for every compiled chunk of the mechanism). -/
theorem debugInfoOf_strictSorted (root : Span) (t : Steps) (h : t.sizesPos = true) :
    C12.StrictSorted (debugInfoOf root t) := by
  unfold debugInfoOf
  rw [compile_entries_root]
  exact pushAll_strictSorted _ (C12L.annot_strict t h root 0)

/-- Lookup at ANY ip of the chunk (a spanned instruction, an instruction emitted with
`push_op_without_span`, an operand byte): the answer is the innermost-node span of the nearest
spanned instruction at or before that ip — the merge of equal neighbours and the span stack are
both invisible. -/
theorem lookup_debugInfoOf_spec (root : Span) (t : Steps) (h : t.sizesPos = true) (q : Nat) :
    lookup (debugInfoOf root t) q
      = (((annot t root 0).1.filter (fun e => decide (e.1 ≤ q))).getLast?).map (·.2) := by
  have hs : C12.Sorted (annot t root 0).1 :=
    (C12L.annot_strict t h root 0).imp (fun hab => Nat.le_of_lt hab)
  unfold debugInfoOf
  rw [compile_entries_root, C12.srcmap_lossless _ hs, C12.lookup_spec _ hs]

/-- Without any assumption on instruction sizes: a span found in the debug info of a tree is the
innermost-node span of a spanned instruction at or before the queried ip. -/
theorem lookup_debugInfoOf_scoped (root : Span) (t : Steps) (q : Nat) (sp : Span)
    (h : lookup (debugInfoOf root t) q = some sp) :
    ∃ i, (i, sp) ∈ (annot t root 0).1 ∧ i ≤ q := by
  obtain ⟨i, hi, hle⟩ := lookup_mem _ q sp h
  refine ⟨i, ?_, hle⟩
  have := pushAll_subset _ _ hi
  rwa [compile_entries_root] at this

/-- ip 6 is an instruction without a span: it reports the child's span `spB` -/
example : exTree.sizesPos = true ∧ lookup (debugInfoOf spR exTree) 6 = some spB ∧
    (5, spB) ∈ (annot exTree spR 0).1 := by decide

/-! ## 4. the excerpt -/

/-- Whenever `format_source_excerpt` returns (guard or not): every quoted line exists in the text,
lies between the span's first and last line, and is printed with its one-based number. -/
theorem excerpt_quoted_inside (n : Nat) (sp : Span) (o : Out) (h : excerpt n sp = .ok o) :
    ∀ p ∈ o.quoted, p.2 < n ∧ sp.start.line ≤ p.2 ∧ p.2 ≤ sp.stop.line ∧ p.1 = p.2 + 1 := by
  obtain ⟨⟨sl, sc⟩, ⟨el, ec⟩⟩ := sp
  unfold excerpt at h
  simp only at h
  split at h
  · cases h
  · split at h
    · split at h
      · cases h
      · split at h
        · cases h
        · injection h with h
          subst h
          intro p hp
          simp at hp
          subst hp
          simp
          omega
    · injection h with h
      subst h
      intro p hp
      simp only [List.mem_map, List.mem_range] at hp
      obtain ⟨k, hk, rfl⟩ := hp
      simp only
      simp only [and_true]; omega

example : excerpt 2 ⟨⟨1, 4⟩, ⟨2, 0⟩⟩ = .ok ⟨(2, 5), 1, [(2, 1)], none⟩ := by decide

/-! ### the width of the line-number column -/

theorem digitsFuel_pos (f n : Nat) : 1 ≤ digitsFuel f n := by
  cases f with
  | zero => simp [digitsFuel]
  | succ f => simp only [digitsFuel]; split <;> omega

theorem digitsFuel_mono (f : Nat) : ∀ (g a b : Nat), a ≤ b → a ≤ f → b ≤ g →
    digitsFuel f a ≤ digitsFuel g b := by
  induction f with
  | zero =>
    intro g a b _ ha _
    have : a = 0 := by omega
    subst this
    simpa [digitsFuel] using digitsFuel_pos g b
  | succ f ih =>
    intro g a b hab ha hb
    simp only [digitsFuel]
    split
    · exact digitsFuel_pos g b
    · cases g with
      | zero => omega
      | succ g =>
        simp only [digitsFuel]
        have hb10 : ¬ b < 10 := by omega
        simp only [hb10, if_false]
        have := ih g (a / 10) (b / 10) (Nat.div_le_div_right hab) (by omega) (by omega)
        omega

/-- `n.to_string().len()` is monotone in `n`. -/
theorem digits_mono (a b : Nat) (h : a ≤ b) : digits a ≤ digits b :=
  digitsFuel_mono a b a b h (Nat.le_refl _) (Nat.le_refl _)

theorem digitsFuel_upper (f : Nat) : ∀ n, n ≤ f → n < 10 ^ digitsFuel f n := by
  induction f with
  | zero => intro n hn; simp [digitsFuel]; omega
  | succ f ih =>
    intro n hn
    simp only [digitsFuel]
    split
    · simpa using ‹n < 10›
    · have := ih (n / 10) (by omega)
      rw [Nat.add_comm, Nat.pow_succ]
      generalize 10 ^ digitsFuel f (n / 10) = x at this ⊢
      omega

/-- `digits n` decimal digits are enough to write `n`. -/
theorem digits_upper (n : Nat) : n < 10 ^ digits n := digitsFuel_upper n n (Nat.le_refl _)

theorem excerpt_width (n : Nat) (sp : Span) (o : Out) (h : excerpt n sp = .ok o) :
    o.numberWidth = digits (sp.stop.line + 1) := by
  obtain ⟨⟨sl, sc⟩, ⟨el, ec⟩⟩ := sp
  unfold excerpt at h
  simp only at h
  split at h
  · cases h
  · split at h
    · split at h
      · cases h
      · split at h
        · cases h
        · injection h with h
          subst h
          rfl
    · injection h with h
      subst h
      rfl

/-- The line-number column is wide enough for every printed line number (so `rjust` never has to
truncate and the `|` separators line up), whenever the function returns. -/
theorem excerpt_width_fits (n : Nat) (sp : Span) (o : Out) (h : excerpt n sp = .ok o) :
    ∀ p ∈ o.quoted, digits p.1 ≤ o.numberWidth ∧ p.1 < 10 ^ o.numberWidth := by
  intro p hp
  obtain ⟨_, _, h3, h4⟩ := excerpt_quoted_inside n sp o h p hp
  rw [excerpt_width n sp o h]
  have hle : p.1 ≤ sp.stop.line + 1 := by omega
  exact ⟨digits_mono _ _ hle, Nat.lt_of_le_of_lt hle (digits_upper _)⟩

example : excerpt 12 ⟨⟨8, 2⟩, ⟨10, 0⟩⟩ = .ok ⟨(9, 3), 2, [(9, 8), (10, 9), (11, 10)], none⟩ := by
  decide

end KotoVerif.C12Ext
