/-
C20 — data interchange round-trips: property theorems about `Model/Serde.lean`.

All theorems hold for every value tree / every type description (structural induction, no bound on
nesting or width) and for every instance of the external facts `Ext` (float text, float casts).
`none` = the real function returns `Err`.
-/
import KotoVerif.Model.Serde
import KotoVerif.Lemmas.C20

namespace KotoVerif.C20
open KotoVerif KotoVerif.Serde

/-- an `Ext` for the non-vacuity examples (no float keys / float casts occur in them) -/
def X0 : Ext :=
  { fmtFloat := fun _ => [], widen := fun b => b.toUInt64, narrow := fun b => b.toUInt32,
    f2i := fun _ => 0, f2iOk := fun _ => true, big2f := fun _ => 0, i2f := fun _ => 0, i2f32 := fun _ => 0 }

/-! ## Koto value → serde data model → Koto value -/

mutual
/-- `serialize.rs` succeeds exactly on the serializable trees (no range in a value position). -/
theorem ser_isSome (X : Ext) : ∀ v : Val, (ser X v).isSome = serializable v
  | .null => rfl
  | .bool _ => rfl
  | .num (.i _) => rfl
  | .num (.f _) => rfl
  | .str _ => rfl
  | .range _ _ => rfl
  | .list xs => by simp [ser, serializable, serL_isSome X xs]
  | .tuple xs => by simp [ser, serializable, serL_isSome X xs]
  | .map es => by simp [ser, serializable, serE_isSome X es]
theorem serL_isSome (X : Ext) : ∀ xs : List Val, (serL X xs).isSome = serializableL xs
  | [] => rfl
  | x :: xs => by
    have h1 := ser_isSome X x
    have h2 := serL_isSome X xs
    simp only [serL, serializableL]
    cases h : ser X x <;> cases h' : serL X xs <;> simp_all
theorem serE_isSome (X : Ext) : ∀ es : List (Val × Val), (serE X es).isSome = serializableE es
  | [] => rfl
  | (k, v) :: es => by
    have h1 := ser_isSome X v
    have h2 := serE_isSome X es
    simp only [serE, serializableE]
    cases h : ser X v <;> cases h' : serE X es <;> simp_all
end

mutual
/-- Core of `de_ser`: whatever `serialize.rs` emits, `KValueVisitor` rebuilds as the normal form. -/
theorem de_of_ser (X : Ext) : ∀ (v : Val) (s : SVal), ser X v = some s → de s = some (norm X v)
  | .null, s, h => by simp [ser] at h; subst h; rfl
  | .bool _, s, h => by simp [ser] at h; subst h; rfl
  | .num (.i _), s, h => by simp [ser] at h; subst h; rfl
  | .num (.f _), s, h => by simp [ser] at h; subst h; rfl
  | .str _, s, h => by simp [ser] at h; subst h; rfl
  | .range _ _, s, h => by simp [ser] at h
  | .list xs, s, h => by
    simp only [ser, Option.map_eq_some_iff] at h
    obtain ⟨ss, h1, rfl⟩ := h
    simp [de, norm, deL_of_serL X xs ss h1]
  | .tuple xs, s, h => by
    simp only [ser, Option.map_eq_some_iff] at h
    obtain ⟨ss, h1, rfl⟩ := h
    simp [de, norm, deL_of_serL X xs ss h1]
  | .map es, s, h => by
    simp only [ser, Option.map_eq_some_iff] at h
    obtain ⟨ss, h1, rfl⟩ := h
    simp [de, norm, deE_of_serE X es ss h1]
theorem deL_of_serL (X : Ext) : ∀ (xs : List Val) (ss : List SVal), serL X xs = some ss → deL ss = some (normL X xs)
  | [], ss, h => by simp [serL] at h; subst h; rfl
  | x :: xs, ss, h => by
    simp only [serL] at h
    cases h1 : ser X x <;> cases h2 : serL X xs <;> simp [h1, h2] at h
    subst h
    simp [deL, normL, de_of_ser X x _ h1, deL_of_serL X xs _ h2]
theorem deE_of_serE (X : Ext) : ∀ (es : List (Val × Val)) (ss : List (SVal × SVal)),
    serE X es = some ss → deE ss = some (normE X es)
  | [], ss, h => by simp [serE] at h; subst h; rfl
  | (k, v) :: es, ss, h => by
    simp only [serE] at h
    cases h1 : ser X v <;> cases h2 : serE X es <;> simp [h1, h2] at h
    subst h
    simp [deE, normE, de, hashable, de_of_ser X v _ h1, deE_of_serE X es _ h2]
end

/-- the code (`serW`) is the mapping `ser` within the writer's nesting limit, and an error beyond -/
theorem serW_of_le (X : Ext) (v : Val) (h : depth v ≤ writerDepthLimit) : serW X v = ser X v := by
  simp [serW, h]

theorem serW_some_ser (X : Ext) (v : Val) (s : SVal) (h : serW X v = some s) : ser X v = some s := by
  unfold serW at h
  split at h
  · exact h
  · cases h

/-- `serialize.rs` succeeds exactly on the serializable trees nested at most 127 levels deep -/
theorem serW_isSome (X : Ext) (v : Val) :
    (serW X v).isSome = (serializable v && decide (depth v ≤ writerDepthLimit)) := by
  unfold serW
  split <;> simp_all [ser_isSome]

/-- deeper than the writer's limit is an explicit error (not a stack overflow, not a truncation) -/
theorem serW_too_deep_is_error (X : Ext) (v : Val) (h : writerDepthLimit < depth v) : serW X v = none := by
  have : ¬ depth v ≤ writerDepthLimit := by omega
  simp [serW, this]

/-- **de_ser**: every serializable value tree (nested at most 127 levels, the writer's limit),
serialized by `serialize.rs` and deserialized by `KValueVisitor`, is the documented normal form of
the tree (lists → tuples, keys → strings). -/
theorem de_ser (X : Ext) (v : Val) (h : serializable v = true) (hd : depth v ≤ writerDepthLimit) :
    (serW X v).bind de = some (norm X v) := by
  rw [serW_of_le X v hd]
  have hs := ser_isSome X v
  rw [h] at hs
  obtain ⟨s, hs⟩ := Option.isSome_iff_exists.mp hs
  simp [hs, de_of_ser X v s hs]

example : depth (.map [(.num (.i 1), .list [.null, .str [97]]), (.bool true, .num (.i (-5)))]) ≤ writerDepthLimit := by decide
example : serializable (.map [(.num (.i 1), .list [.null, .str [97]]), (.bool true, .num (.i (-5)))]) = true := by decide
example :
    (serW X0 (.map [(.num (.i 1), .list [.null, .str [97]]), (.str [49], .num (.i (-5)))])).bind de
      = some (.map [(.str [49], .num (.i (-5)))]) := by decide

/-- an unserializable tree is rejected (the `other => Err(…)` arm), it is not silently altered -/
theorem ser_error (X : Ext) (v : Val) (h : serializable v = false) : ser X v = none := by
  have hs := ser_isSome X v
  rw [h] at hs
  cases h' : ser X v <;> simp_all

example : serializable (.tuple [.range (some 0) (some (3, false))]) = false := by decide

mutual
theorem normL_idem (X : Ext) : ∀ xs : List Val, normL X (normL X xs) = normL X xs
  | [] => rfl
  | x :: xs => by simp [normL, norm_idem X x, normL_idem X xs]
theorem normE_good (X : Ext) : ∀ es : List (Val × Val),
    ∀ e ∈ normE X es, (∃ s, e.1 = .str s) ∧ norm X e.2 = e.2
  | [], e, h => by simp [normE] at h
  | (k, v) :: es, e, h => by
    simp only [normE, List.mem_cons] at h
    rcases h with h | h
    · subst h
      exact ⟨⟨_, rfl⟩, norm_idem X v⟩
    · exact normE_good X es e h
/-- **norm_idem**: the normal form is a fixed point of normalisation. -/
theorem norm_idem (X : Ext) : ∀ v : Val, norm X (norm X v) = norm X v
  | .null => rfl
  | .bool _ => rfl
  | .num _ => rfl
  | .str _ => rfl
  | .range _ _ => rfl
  | .list xs => by simp [norm, normL_idem X xs]
  | .tuple xs => by simp [norm, normL_idem X xs]
  | .map es => by
    have hfix : normE X (buildMap (normE X es)) = buildMap (normE X es) :=
      normE_fix X _ (buildMap_pres (fun k => ∃ s, k = .str s) (fun w => norm X w = w) _ (normE_good X es))
    simp [norm, hfix, buildMap_idem]
end

example : norm X0 (.list [.map [(.num (.i 7), .list [])]]) = .tuple [.map [(.str [55], .tuple [])]] := by decide

mutual
theorem serializable_norm (X : Ext) : ∀ v : Val, serializable v = true → serializable (norm X v) = true
  | .null, _ => rfl
  | .bool _, _ => rfl
  | .num _, _ => rfl
  | .str _, _ => rfl
  | .range _ _, h => by simp [serializable] at h
  | .list xs, h => by
    simp only [serializable] at h
    simp [norm, serializable, serializableL_norm X xs h]
  | .tuple xs, h => by
    simp only [serializable] at h
    simp [norm, serializable, serializableL_norm X xs h]
  | .map es, h => by
    simp only [serializable] at h
    simp only [norm, serializable, serializableE_iff]
    intro e he
    exact (buildMap_pres (fun _ => True) (fun w => serializable w = true) _
      (fun e he => ⟨trivial, serializableE_norm X es h e he⟩) e he).2
theorem serializableL_norm (X : Ext) : ∀ xs : List Val, serializableL xs = true → serializableL (normL X xs) = true
  | [], _ => rfl
  | x :: xs, h => by
    simp only [serializableL, Bool.and_eq_true] at h
    simp [normL, serializableL, serializable_norm X x h.1, serializableL_norm X xs h.2]
theorem serializableE_norm (X : Ext) : ∀ es : List (Val × Val), serializableE es = true →
    ∀ e ∈ normE X es, serializable e.2 = true
  | [], _, e, he => by simp [normE] at he
  | (k, v) :: es, h, e, he => by
    simp only [serializableE, Bool.and_eq_true] at h
    simp only [normE, List.mem_cons] at he
    rcases he with he | he
    · subst he
      exact serializable_norm X v h.1
    · exact serializableE_norm X es h.2 e he
end

mutual
/-- The normal form is never deeper than the value: if the first trip stays within a reader's
nesting limit, so does the second. -/
theorem depth_norm_le (X : Ext) : ∀ v : Val, depth (norm X v) ≤ depth v
  | .null => Nat.le_refl _
  | .bool _ => Nat.le_refl _
  | .num _ => Nat.le_refl _
  | .str _ => Nat.le_refl _
  | .range _ _ => Nat.le_refl _
  | .list xs => by simp only [norm, depth]; exact Nat.succ_le_succ (depthL_norm_le X xs)
  | .tuple xs => by simp only [norm, depth]; exact Nat.succ_le_succ (depthL_norm_le X xs)
  | .map es => by
    simp only [norm, depth]
    apply Nat.succ_le_succ
    rw [depthE_le_iff]
    intro e he
    exact (buildMap_pres (fun _ => True) (fun w => depth w ≤ depthE es) _
      (fun e he => ⟨trivial, depthE_norm_le X es e he⟩) e he).2
theorem depthL_norm_le (X : Ext) : ∀ xs : List Val, depthL (normL X xs) ≤ depthL xs
  | [] => Nat.le_refl _
  | x :: xs => by
    simp only [normL, depthL]
    have h1 := depth_norm_le X x
    have h2 := depthL_norm_le X xs
    omega
theorem depthE_norm_le (X : Ext) : ∀ es : List (Val × Val), ∀ e ∈ normE X es, depth e.2 ≤ depthE es
  | [], e, he => by simp [normE] at he
  | (k, v) :: es, e, he => by
    simp only [normE, List.mem_cons] at he
    simp only [depthE]
    rcases he with he | he
    · subst he
      have := depth_norm_le X v
      simp only
      omega
    · have := depthE_norm_le X es e he
      omega
end

example : depth (.list [.map [(.str [97], .tuple [.null])], .num (.i 1)]) = 3 := by decide

/-- **second_trip_id**: a second round trip (of the result of the first) is the identity; it is
defined whenever the first is, because the normal form is never deeper than the value. -/
theorem second_trip_id (X : Ext) (v : Val) (h : serializable v = true) (hd : depth v ≤ writerDepthLimit) :
    (serW X (norm X v)).bind de = some (norm X v) := by
  rw [de_ser X (norm X v) (serializable_norm X v h) (Nat.le_trans (depth_norm_le X v) hd), norm_idem]

example : (serW X0 (norm X0 (.list [.map [(.num (.i 7), .list [])]]))).bind de
    = some (norm X0 (.list [.map [(.num (.i 7), .list [])]])) := by decide

mutual
/-- The normal form has string keys only (at every level). -/
theorem norm_strKeys (X : Ext) : ∀ v : Val, strKeys (norm X v) = true
  | .null => rfl
  | .bool _ => rfl
  | .num _ => rfl
  | .str _ => rfl
  | .range _ _ => rfl
  | .list xs => by simp [norm, strKeys, normL_strKeys X xs]
  | .tuple xs => by simp [norm, strKeys, normL_strKeys X xs]
  | .map es => by
    simp only [norm, strKeys, strKeysE_iff]
    exact buildMap_pres (fun k => ∃ s, k = .str s) (fun w => strKeys w = true) _ (normE_strKeys X es)
theorem normL_strKeys (X : Ext) : ∀ xs : List Val, strKeysL (normL X xs) = true
  | [] => rfl
  | x :: xs => by simp [normL, strKeysL, norm_strKeys X x, normL_strKeys X xs]
theorem normE_strKeys (X : Ext) : ∀ es : List (Val × Val),
    ∀ e ∈ normE X es, (∃ s, e.1 = .str s) ∧ strKeys e.2 = true
  | [], e, h => by simp [normE] at h
  | (k, v) :: es, e, h => by
    simp only [normE, List.mem_cons] at h
    rcases h with h | h
    · subst h
      exact ⟨⟨_, rfl⟩, norm_strKeys X v⟩
    · exact normE_strKeys X es e h
end

/-! ## Per-format side conditions (contracts of the text layers at the data-model interface) -/

mutual
theorem tomlNoUnit_ser (X : Ext) : ∀ (v : Val) (s : SVal), ser X v = some s → tomlNoUnit s = noNull v
  | .null, s, h => by simp [ser] at h; subst h; rfl
  | .bool _, s, h => by simp [ser] at h; subst h; rfl
  | .num (.i _), s, h => by simp [ser] at h; subst h; rfl
  | .num (.f _), s, h => by simp [ser] at h; subst h; rfl
  | .str _, s, h => by simp [ser] at h; subst h; rfl
  | .range _ _, s, h => by simp [ser] at h
  | .list xs, s, h => by
    simp only [ser, Option.map_eq_some_iff] at h
    obtain ⟨ss, h1, rfl⟩ := h
    simp [tomlNoUnit, noNull, tomlNoUnitL_ser X xs ss h1]
  | .tuple xs, s, h => by
    simp only [ser, Option.map_eq_some_iff] at h
    obtain ⟨ss, h1, rfl⟩ := h
    simp [tomlNoUnit, noNull, tomlNoUnitL_ser X xs ss h1]
  | .map es, s, h => by
    simp only [ser, Option.map_eq_some_iff] at h
    obtain ⟨ss, h1, rfl⟩ := h
    simp [tomlNoUnit, noNull, tomlNoUnitE_ser X es ss h1]
theorem tomlNoUnitL_ser (X : Ext) : ∀ (xs : List Val) (ss : List SVal), serL X xs = some ss → tomlNoUnitL ss = noNullL xs
  | [], ss, h => by simp [serL] at h; subst h; rfl
  | x :: xs, ss, h => by
    simp only [serL] at h
    cases h1 : ser X x <;> cases h2 : serL X xs <;> simp [h1, h2] at h
    subst h
    simp [tomlNoUnitL, noNullL, tomlNoUnit_ser X x _ h1, tomlNoUnitL_ser X xs _ h2]
theorem tomlNoUnitE_ser (X : Ext) : ∀ (es : List (Val × Val)) (ss : List (SVal × SVal)),
    serE X es = some ss → tomlNoUnitE ss = noNullE es
  | [], ss, h => by simp [serE] at h; subst h; rfl
  | (k, v) :: es, ss, h => by
    simp only [serE] at h
    cases h1 : ser X v <;> cases h2 : serE X es <;> simp [h1, h2] at h
    subst h
    simp [tomlNoUnitE, noNullE, tomlNoUnit_ser X v _ h1, tomlNoUnitE_ser X es _ h2]
end

/-- The TOML layer accepts what `serialize.rs` emits exactly for maps without null. -/
theorem toml_accepts_iff (X : Ext) (v : Val) (s : SVal) (h : ser X v = some s) :
    tomlAccepts s = (isMap v && noNull v) := by
  cases v with
  | map es =>
    simp only [ser, Option.map_eq_some_iff] at h
    obtain ⟨ss, h1, rfl⟩ := h
    simp [tomlAccepts, isMap, noNull, tomlNoUnitE_ser X es ss h1]
  | list xs =>
    simp only [ser, Option.map_eq_some_iff] at h
    obtain ⟨ss, _, rfl⟩ := h
    simp [tomlAccepts, isMap]
  | tuple xs =>
    simp only [ser, Option.map_eq_some_iff] at h
    obtain ⟨ss, _, rfl⟩ := h
    simp [tomlAccepts, isMap]
  | num n => cases n <;> (simp [ser] at h; subst h; simp [tomlAccepts, isMap])
  | range a b => simp [ser] at h
  | null => simp [ser] at h; subst h; simp [tomlAccepts, isMap]
  | bool b => simp [ser] at h; subst h; simp [tomlAccepts, isMap]
  | str b => simp [ser] at h; subst h; simp [tomlAccepts, isMap]

/-- **toml_top_map**: TOML needs a map at the top. -/
theorem toml_top_map (X : Ext) (v : Val) (s : SVal) (h : ser X v = some s) (ha : tomlAccepts s = true) :
    isMap v = true := by
  rw [toml_accepts_iff X v s h] at ha
  simp_all

/-- **toml_no_null**: TOML has no null, at any depth. -/
theorem toml_no_null (X : Ext) (v : Val) (s : SVal) (h : ser X v = some s) (ha : tomlAccepts s = true) :
    noNull v = true := by
  rw [toml_accepts_iff X v s h] at ha
  simp_all

example : (ser X0 (.map [(.str [97], .tuple [.num (.i 1)])])).map tomlAccepts = some true := by decide
example : (ser X0 (.map [(.str [97], .tuple [.null])])).map tomlAccepts = some false := by decide
example : (ser X0 (.tuple [.num (.i 1)])).map tomlAccepts = some false := by decide

mutual
theorem noNull_norm (X : Ext) : ∀ v : Val, noNull v = true → noNull (norm X v) = true
  | .null, h => by simp [noNull] at h
  | .bool _, _ => rfl
  | .num _, _ => rfl
  | .str _, _ => rfl
  | .range _ _, _ => rfl
  | .list xs, h => by
    simp only [noNull] at h
    simp [norm, noNull, noNullL_norm X xs h]
  | .tuple xs, h => by
    simp only [noNull] at h
    simp [norm, noNull, noNullL_norm X xs h]
  | .map es, h => by
    simp only [noNull] at h
    simp only [norm, noNull, noNullE_iff]
    intro e he
    exact (buildMap_pres (fun _ => True) (fun w => noNull w = true) _
      (fun e he => ⟨trivial, noNullE_norm X es h e he⟩) e he).2
theorem noNullL_norm (X : Ext) : ∀ xs : List Val, noNullL xs = true → noNullL (normL X xs) = true
  | [], _ => rfl
  | x :: xs, h => by
    simp only [noNullL, Bool.and_eq_true] at h
    simp [normL, noNullL, noNull_norm X x h.1, noNullL_norm X xs h.2]
theorem noNullE_norm (X : Ext) : ∀ es : List (Val × Val), noNullE es = true →
    ∀ e ∈ normE X es, noNull e.2 = true
  | [], _, e, he => by simp [normE] at he
  | (k, v) :: es, h, e, he => by
    simp only [noNullE, Bool.and_eq_true] at h
    simp only [normE, List.mem_cons] at he
    rcases he with he | he
    · subst he
      exact noNull_norm X v h.1
    · exact noNullE_norm X es h.2 e he
end

/-- The result of a TOML round trip is again a TOML-compatible value (so the second trip is defined):
`norm` keeps "map at the top" and "no null". -/
theorem toml_result_compatible (X : Ext) (v : Val) (hm : isMap v = true) (hn : noNull v = true) :
    isMap (norm X v) = true ∧ noNull (norm X v) = true := by
  refine ⟨?_, noNull_norm X v hn⟩
  cases v <;> simp_all [isMap, norm]

example : isMap (.map [(.str [116], .map [(.num (.i 1), .list [])])]) = true ∧
    noNull (.map [(.str [116], .map [(.num (.i 1), .list [])])]) = true ∧
    norm X0 (.map [(.str [116], .map [(.num (.i 1), .list [])])]) = .map [(.str [116], .map [(.str [49], .tuple [])])] := by decide

mutual
theorem jsonLayer_ser (X : Ext) : ∀ (v : Val) (s : SVal), ser X v = some s → allFinite v = true → jsonLayer s = s
  | .null, s, h, _ => by simp [ser] at h; subst h; rfl
  | .bool _, s, h, _ => by simp [ser] at h; subst h; rfl
  | .num (.i _), s, h, _ => by simp [ser] at h; subst h; rfl
  | .num (.f b), s, h, hf => by
    simp [ser] at h; subst h
    simp only [allFinite] at hf
    simp [jsonLayer, hf]
  | .str _, s, h, _ => by simp [ser] at h; subst h; rfl
  | .range _ _, s, h, _ => by simp [ser] at h
  | .list xs, s, h, hf => by
    simp only [ser, Option.map_eq_some_iff] at h
    obtain ⟨ss, h1, rfl⟩ := h
    simp only [allFinite] at hf
    simp [jsonLayer, jsonLayerL_ser X xs ss h1 hf]
  | .tuple xs, s, h, hf => by
    simp only [ser, Option.map_eq_some_iff] at h
    obtain ⟨ss, h1, rfl⟩ := h
    simp only [allFinite] at hf
    simp [jsonLayer, jsonLayerL_ser X xs ss h1 hf]
  | .map es, s, h, hf => by
    simp only [ser, Option.map_eq_some_iff] at h
    obtain ⟨ss, h1, rfl⟩ := h
    simp only [allFinite] at hf
    simp [jsonLayer, jsonLayerE_ser X es ss h1 hf]
theorem jsonLayerL_ser (X : Ext) : ∀ (xs : List Val) (ss : List SVal), serL X xs = some ss →
    allFiniteL xs = true → jsonLayerL ss = ss
  | [], ss, h, _ => by simp [serL] at h; subst h; rfl
  | x :: xs, ss, h, hf => by
    simp only [serL] at h
    cases h1 : ser X x <;> cases h2 : serL X xs <;> simp [h1, h2] at h
    subst h
    simp only [allFiniteL, Bool.and_eq_true] at hf
    simp [jsonLayerL, jsonLayer_ser X x _ h1 hf.1, jsonLayerL_ser X xs _ h2 hf.2]
theorem jsonLayerE_ser (X : Ext) : ∀ (es : List (Val × Val)) (ss : List (SVal × SVal)), serE X es = some ss →
    allFiniteE es = true → jsonLayerE ss = ss
  | [], ss, h, _ => by simp [serE] at h; subst h; rfl
  | (k, v) :: es, ss, h, hf => by
    simp only [serE] at h
    cases h1 : ser X v <;> cases h2 : serE X es <;> simp [h1, h2] at h
    subst h
    simp only [allFiniteE, Bool.and_eq_true] at hf
    simp [jsonLayerE, jsonLayer_ser X v _ h1 hf.1, jsonLayerE_ser X es _ h2 hf.2]
end

/-- **json_finite**: with finite floats only, JSON's "non-finite → null" contract changes nothing,
so the JSON round trip is `norm` as well. -/
theorem json_finite (X : Ext) (v : Val) (h : serializable v = true) (hd : depth v ≤ writerDepthLimit)
    (hf : allFinite v = true) :
    ((serW X v).map jsonLayer).bind de = some (norm X v) := by
  rw [serW_of_le X v hd]
  have hs := ser_isSome X v
  rw [h] at hs
  obtain ⟨s, hs⟩ := Option.isSome_iff_exists.mp hs
  simp [hs, jsonLayer_ser X v s hs hf, de_of_ser X v s hs]

example : serializable (.list [.num (.f 0x3ff8000000000000), .map [(.str [97], .num (.f 0x8000000000000000))]]) = true ∧
    allFinite (.list [.num (.f 0x3ff8000000000000), .map [(.str [97], .num (.f 0x8000000000000000))]]) = true := by decide

/-- outside the envelope ("finite floats") JSON really loses the value: +∞ comes back as null -/
theorem json_non_finite_witness :
    ((ser X0 (.num (.f 0x7ff0000000000000))).map jsonLayer).bind de = some .null ∧
    norm X0 (.num (.f 0x7ff0000000000000)) ≠ .null := by decide

/-! ## Out-of-range input is an error (the functions are total: no other outcome exists) -/

theorem ofI_none (n : Int) (h : n < i64Min ∨ i64Max < n) : ofI n = none := by
  unfold ofI inI64
  rcases h with h | h
  · have : ¬ i64Min ≤ n := by omega
    simp [this]
  · have : ¬ n ≤ i64Max := by omega
    simp [this]

theorem ofI_some (n : Int) (h1 : i64Min ≤ n) (h2 : n ≤ i64Max) :
    ∃ a : Int64, ofI n = some (.num (.i a)) ∧ a.toInt = n := by
  refine ⟨Int64.ofInt n, by simp [ofI, inI64, h1, h2], ?_⟩
  apply Int64.toInt_ofInt_of_le <;> simp [i64Min, i64Max] at h1 h2 <;> omega

/-- **out_of_range_is_error** (deserialize.rs): an integer beyond `i64` handed over by a format
(`u64` > i64::MAX, `i128`, `u128`) is an error — never a wrapped or truncated number. -/
theorem out_of_range_is_error :
    (∀ n : Nat, i64Max < (n : Int) → de (.u64 n) = none) ∧
    (∀ n : Int, (n < i64Min ∨ i64Max < n) → de (.i128 n) = none) ∧
    (∀ n : Nat, i64Max < (n : Int) → de (.u128 n) = none) := by
  refine ⟨fun n h => ?_, fun n h => ?_, fun n h => ?_⟩
  · simp [de, ofI_none _ (Or.inr h)]
  · simp [de, ofI_none _ h]
  · simp [de, ofI_none _ (Or.inr h)]

example : de (.u64 18446744073709551615) = none := by decide
example : de (.u64 9223372036854775807) = some (.num (.i 9223372036854775807)) := by decide

/-- in range, the value is kept exactly -/
theorem in_range_is_exact (n : Nat) (h : (n : Int) ≤ i64Max) :
    ∃ a : Int64, de (.u64 n) = some (.num (.i a)) ∧ a.toInt = n := by
  have := ofI_some (n : Int) (by simp [i64Min]) h
  simpa [de] using this

mutual
/-- the error is not lost in a container: if any integer inside is out of range, the whole
deserialization fails -/
theorem de_isSome_inRange : ∀ s : SVal, (de s).isSome = true → intsInRange s = true
  | .unit, _ => rfl
  | .none, _ => rfl
  | .bool _, _ => rfl
  | .i64 _, _ => rfl
  | .f64 _, _ => rfl
  | .char _, _ => rfl
  | .str _, _ => rfl
  | .bytes _, _ => rfl
  | .u64 n, h => by
    simp only [de, ofI] at h
    simp only [intsInRange]
    split at h <;> simp_all
  | .i128 n, h => by
    simp only [de, ofI] at h
    simp only [intsInRange]
    split at h <;> simp_all
  | .u128 n, h => by
    simp only [de, ofI] at h
    simp only [intsInRange]
    split at h <;> simp_all
  | .some v, h => by simp only [de] at h; simpa [intsInRange] using de_isSome_inRange v h
  | .newtype v, h => by simp only [de] at h; simpa [intsInRange] using de_isSome_inRange v h
  | .seq xs, h => by
    simp only [de, Option.isSome_map] at h
    simpa [intsInRange] using deL_isSome_inRange xs h
  | .map es, h => by
    simp only [de, Option.isSome_map] at h
    simpa [intsInRange] using deE_isSome_inRange es h
  | .enum a b, h => by
    simp only [de] at h
    cases h1 : de a <;> cases h2 : de b <;> simp [h1, h2] at h
    have ha := de_isSome_inRange a (by simp [h1])
    have hb := de_isSome_inRange b (by simp [h2])
    simp [intsInRange, ha, hb]
theorem deL_isSome_inRange : ∀ xs : List SVal, (deL xs).isSome = true → intsInRangeL xs = true
  | [], _ => rfl
  | x :: xs, h => by
    simp only [deL] at h
    cases h1 : de x <;> cases h2 : deL xs <;> simp [h1, h2] at h
    simp [intsInRangeL, de_isSome_inRange x (by simp [h1]), deL_isSome_inRange xs (by simp [h2])]
theorem deE_isSome_inRange : ∀ es : List (SVal × SVal), (deE es).isSome = true → intsInRangeE es = true
  | [], _ => rfl
  | (k, v) :: es, h => by
    simp only [deE] at h
    cases h1 : de k <;> cases h2 : de v <;> cases h3 : deE es <;> simp [h1, h2, h3] at h
    simp [intsInRangeE, de_isSome_inRange k (by simp [h1]), de_isSome_inRange v (by simp [h2]),
      deE_isSome_inRange es (by simp [h3])]
end

example : de (.map [(.str [97], .seq [.u64 1, .u64 18446744073709551615])]) = none := by decide

/-- **out_of_range_is_error**, serializer.rs side: a Rust integer beyond `i64` (`u64`, `i128`,
`u128`) makes `to_koto_value` fail (`OutOfRangeU64/I128/U128`). -/
theorem out_of_range_is_error_toKoto (X : Ext) (n : Int) (h : n < i64Min ∨ i64Max < n) :
    toKoto X (.int n) = none := by
  simp [toKoto, ofI_none n h]

example : toKoto X0 (.int 18446744073709551615) = none := by decide

/-- **out_of_range_is_error**, deserializer.rs side (`from_koto_value` into an integer type, after
fix 277d668): whatever integer comes out lies in the target type's range — so a number outside it
(an `i64` beyond the bounds, or a float that is NaN / beyond ±2^63, for which `number_to_i64` has no
value) is an error, never a saturated or wrapped value. -/
theorem out_of_range_is_error_fromKoto (X : Ext) (k : IntK) (v : Val) (x : RVal)
    (h : fromKoto X (.int k) v = some x) : hasTy (.int k) x = true := by
  cases v <;> simp [fromKoto] at h
  rename_i n
  unfold fromInt at h
  cases hn : numI64 X n <;> simp [hn] at h
  obtain ⟨hr, rfl⟩ := h
  simp [hasTy, hr.1, hr.2]

theorem out_of_range_int_is_error (X : Ext) (k : IntK) (a : Int64) (h : a.toInt < k.lo ∨ k.hi < a.toInt) :
    fromKoto X (.int k) (.num (.i a)) = none := by
  have : ¬ (k.lo ≤ a.toInt ∧ a.toInt ≤ k.hi) := by omega
  simp [fromKoto, fromInt, numI64, this]

theorem out_of_range_float_is_error (X : Ext) (k : IntK) (b : UInt64) (h : X.f2iOk b = false) :
    fromKoto X (.int k) (.num (.f b)) = none := by
  simp [fromKoto, fromInt, numI64, h]

/-- the former witnesses of F-C20-1 (`u8 ← 300` was `255`, `i8 ← -1000` was `-128`) are errors now,
and the bounds themselves are accepted -/
example (X : Ext) : fromKoto X (.int .u8) (.num (.i 300)) = none ∧
    fromKoto X (.int .i8) (.num (.i (-1000))) = none ∧
    fromKoto X (.int .u64) (.num (.i (-1))) = none ∧
    fromKoto X (.int .u8) (.num (.i 255)) = some (.int 255) ∧
    fromKoto X (.int .i8) (.num (.i (-128))) = some (.int (-128)) := by
  refine ⟨rfl, rfl, rfl, rfl, rfl⟩

/-- Model decisions mirrored from deserializer.rs that are *not* range errors (precision, spelling):
a float into an integer type is truncated first (`255.9 → 255u8` is accepted because the truncated
value is in range, `256.0` is not); an `i64` into `f64` is rounded; and a bare string selects a
variant with a null payload, so it is also accepted for a newtype variant whose payload type reads
null (`"B"` is read as `B(None)`). -/
theorem fromKoto_enum_string (X : Ext) (vs : List (Name × VKind × Ty)) (s : Name) :
    fromKoto X (.enum vs) (.str s) = fromVariant X vs s .null := rfl

example (X : Ext) : fromKoto X (.enum [([66], .newtype, .option (.int .i64))]) (.str [66])
    = some (.variant [66] .newtype .none) := rfl

/-! ## Rust data → Koto value → Rust data (`to_koto_value` / `from_koto_value`) -/

mutual
/-- `to_koto_value` succeeds exactly when every integer of the value fits `i64`. -/
theorem toKoto_isSome (X : Ext) : ∀ x : RVal, (toKoto X x).isSome = intsFit x
  | .unit => rfl
  | .bool _ => rfl
  | .int n => by simp only [toKoto, ofI, intsFit]; split <;> simp_all
  | .f32 _ => rfl
  | .f64 _ => rfl
  | .char _ => rfl
  | .str _ => rfl
  | .none => rfl
  | .some x => by simpa [toKoto, intsFit] using toKoto_isSome X x
  | .seq xs => by simpa [toKoto, intsFit] using toKotoL_isSome X xs
  | .tuple xs => by simpa [toKoto, intsFit] using toKotoL_isSome X xs
  | .map es => by simpa [toKoto, intsFit] using toKotoF_isSome X es
  | .struct es => by simpa [toKoto, intsFit] using toKotoF_isSome X es
  | .variant n k p => by
    cases k <;> simp [toKoto, intsFit] <;> exact toKoto_isSome X p
theorem toKotoL_isSome (X : Ext) : ∀ xs : List RVal, (toKotoL X xs).isSome = intsFitL xs
  | [] => rfl
  | x :: xs => by
    have h1 := toKoto_isSome X x
    have h2 := toKotoL_isSome X xs
    simp only [toKotoL, intsFitL]
    cases h : toKoto X x <;> cases h' : toKotoL X xs <;> simp_all
theorem toKotoF_isSome (X : Ext) : ∀ es : List (Name × RVal), (toKotoF X es).isSome = intsFitF es
  | [] => rfl
  | (n, x) :: es => by
    have h1 := toKoto_isSome X x
    have h2 := toKotoF_isSome X es
    simp only [toKotoF, intsFitF]
    cases h : toKoto X x <;> cases h' : toKotoF X es <;> simp_all
end

mutual
theorem rust_roundtrip_core (X : Ext) (hf : F32Exact X) :
    ∀ (t : Ty) (x : RVal) (v : Val), wfTy t = true → hasTy t x = true → toKoto X x = some v →
      fromKoto X t v = some x
  | .unit, x, v, _, ht, hk => by
    cases x <;> simp [hasTy] at ht
    simp [toKoto] at hk; subst hk; simp [fromKoto]
  | .bool, x, v, _, ht, hk => by
    cases x <;> simp [hasTy] at ht
    simp [toKoto] at hk; subst hk; simp [fromKoto]
  | .int k, x, v, _, ht, hk => by
    cases x <;> simp [hasTy] at ht
    exact rt_int X k _ v ht.1 ht.2 hk
  | .f32, x, v, _, ht, hk => by
    cases x <;> simp [hasTy] at ht
    simp only [toKoto, Option.some.injEq] at hk; subst hk
    rename_i b
    have h1 := (hf b).1
    have h2 := (hf b).2
    simp only [fromKoto, h1]
    by_cases hfin : finiteBits (X.widen b) = true
    · simp [hfin, h2 hfin]
    · simp [hfin]
  | .f64, x, v, _, ht, hk => by
    cases x <;> simp [hasTy] at ht
    simp [toKoto] at hk; subst hk; simp [fromKoto]
  | .char, x, v, _, ht, hk => by
    cases x <;> simp [hasTy] at ht
    simp [toKoto] at hk; subst hk; simp [fromKoto, decodeOne_utf8 _ ht]
  | .string, x, v, _, ht, hk => by
    cases x <;> simp [hasTy] at ht
    simp [toKoto] at hk; subst hk; simp [fromKoto]
  | .option t, x, v, hw, ht, hk => by
    simp only [wfTy, Bool.and_eq_true, Bool.not_eq_true'] at hw
    cases x <;> simp [hasTy] at ht
    · simp [toKoto] at hk; subst hk; simp [fromKoto]
    · rename_i y
      simp only [toKoto] at hk
      have hne : v ≠ .null := fun e => toKoto_ne_null X t y hw.1 ht (e ▸ hk)
      have ih := rust_roundtrip_core X hf t y v hw.2 ht hk
      cases v <;> simp_all [fromKoto]
  | .seq t, x, v, hw, ht, hk => by
    simp only [wfTy] at hw
    cases x <;> simp [hasTy] at ht
    rename_i xs
    simp only [toKoto, Option.map_eq_some_iff] at hk
    obtain ⟨vs, h1, rfl⟩ := hk
    have := allM_rt X (fromKoto X t) xs vs (fun y hy w hw' => rust_roundtrip_core X hf t y w hw (ht y hy) hw') h1
    simp [fromKoto, this]
  | .tuple ts, x, v, hw, ht, hk => by
    simp only [wfTy] at hw
    cases x <;> simp [hasTy] at ht
    rename_i xs
    simp only [toKoto, Option.map_eq_some_iff] at hk
    obtain ⟨vs, h1, rfl⟩ := hk
    simp [fromKoto, rust_roundtrip_pos X hf ts xs vs hw ht h1]
  | .map t, x, v, hw, ht, hk => by
    simp only [wfTy] at hw
    cases x <;> simp [hasTy] at ht
    rename_i es
    simp only [toKoto, Option.map_eq_some_iff] at hk
    obtain ⟨kvs, h1, rfl⟩ := hk
    have hb := buildMap_toKotoF X es kvs h1 ht.2
    have := entriesM_rt X (fromKoto X t) es kvs
      (fun e he w hw' => rust_roundtrip_core X hf t e.2 w hw (ht.1 e.1 e.2 he) hw') h1
    simp [fromKoto, hb, this, buildN_of_nodup es ht.2]
  | .struct fs, x, v, hw, ht, hk => by
    simp only [wfTy, Bool.and_eq_true, decide_eq_true_eq] at hw
    cases x <;> simp [hasTy] at ht
    rename_i xs
    simp only [toKoto, Option.map_eq_some_iff] at hk
    obtain ⟨kvs, h1, rfl⟩ := hk
    have hn : (names xs).Nodup := hasTyFields_names fs xs ht ▸ hw.1
    have hb := buildMap_toKotoF X xs kvs h1 hn
    have h2 := rust_roundtrip_fields X hf fs xs kvs hw.2 ht (lookup_toKotoF X xs kvs h1 hn)
    simp [fromKoto, hb, h2, allStrKeys_toKotoF X xs kvs h1, fieldsOnce_of_nodup X xs kvs h1 hn fs]
  | .enum vs, x, v, hw, ht, hk => by
    simp only [wfTy, Bool.and_eq_true, decide_eq_true_eq] at hw
    cases x <;> simp [hasTy] at ht
    rename_i n k p
    cases k with
    | unit =>
      simp [toKoto] at hk; subst hk
      obtain ⟨h1, rfl⟩ := rtVariantUnit X vs n p hw.2 ht
      simp [fromKoto, h1]
    | newtype =>
      simp only [toKoto, Option.map_eq_some_iff] at hk
      obtain ⟨w, h1, rfl⟩ := hk
      simp [fromKoto, rust_roundtrip_variant X hf vs n .newtype p w hw.2 ht (by simp) h1]
    | tuple =>
      simp only [toKoto, Option.map_eq_some_iff] at hk
      obtain ⟨w, h1, rfl⟩ := hk
      simp [fromKoto, rust_roundtrip_variant X hf vs n .tuple p w hw.2 ht (by simp) h1]
    | struct =>
      simp only [toKoto, Option.map_eq_some_iff] at hk
      obtain ⟨w, h1, rfl⟩ := hk
      simp [fromKoto, rust_roundtrip_variant X hf vs n .struct p w hw.2 ht (by simp) h1]
theorem rust_roundtrip_pos (X : Ext) (hf : F32Exact X) :
    ∀ (ts : List Ty) (xs : List RVal) (vs : List Val), wfTyL ts = true → hasTyPos ts xs = true →
      toKotoL X xs = some vs → fromPos X ts vs = some xs
  | [], xs, vs, _, ht, hk => by
    cases xs <;> simp [hasTyPos] at ht
    simp [toKotoL] at hk; subst hk; simp [fromPos]
  | t :: ts, xs, vs, hw, ht, hk => by
    cases xs with
    | nil => simp [hasTyPos] at ht
    | cons x xs =>
      simp only [hasTyPos, Bool.and_eq_true] at ht
      simp only [wfTyL, Bool.and_eq_true] at hw
      simp only [toKotoL] at hk
      cases h1 : toKoto X x <;> cases h2 : toKotoL X xs <;> simp [h1, h2] at hk
      subst hk
      simp [fromPos, rust_roundtrip_core X hf t x _ hw.1 ht.1 h1, rust_roundtrip_pos X hf ts xs _ hw.2 ht.2 h2]
theorem rust_roundtrip_fields (X : Ext) (hf : F32Exact X) :
    ∀ (fs : List (Name × Ty)) (xs : List (Name × RVal)) (kvs : List (Val × Val)), wfTyF fs = true →
      hasTyFields fs xs = true →
      (∀ e ∈ xs, ∃ v, toKoto X e.2 = some v ∧ lookupStr e.1 kvs = some v) →
      fromFields X fs kvs = some xs
  | [], xs, kvs, _, ht, _ => by
    cases xs <;> simp [hasTyFields] at ht
    simp [fromFields]
  | (n, t) :: fs, xs, kvs, hw, ht, hl => by
    cases xs with
    | nil => simp [hasTyFields] at ht
    | cons e xs =>
      obtain ⟨m, x⟩ := e
      simp only [hasTyFields, Bool.and_eq_true, decide_eq_true_eq] at ht
      obtain ⟨⟨rfl, htx⟩, htr⟩ := ht
      simp only [wfTyF, Bool.and_eq_true] at hw
      obtain ⟨v, hv1, hv2⟩ := hl (n, x) (by simp)
      have ih1 := rust_roundtrip_core X hf t x v hw.1 htx hv1
      have ih2 := rust_roundtrip_fields X hf fs xs kvs hw.2 htr (fun e he => hl e (by simp [he]))
      simp only at hv2
      simp [fromFields, hv2, ih1, ih2]
theorem rust_roundtrip_variant (X : Ext) (hf : F32Exact X) :
    ∀ (vs : List (Name × VKind × Ty)) (n : Name) (k : VKind) (p : RVal) (w : Val), wfTyV vs = true →
      hasTyVariant vs n k p = true → k ≠ .unit → toKoto X p = some w →
      fromVariant X vs n w = some (.variant n k p)
  | [], n, k, p, w, _, ht, _, _ => by simp [hasTyVariant] at ht
  | (m, k', t) :: vs, n, k, p, w, hw, ht, hk, h1 => by
    simp only [wfTyV, Bool.and_eq_true] at hw
    simp only [hasTyVariant] at ht
    by_cases hm : m = n
    · subst hm
      simp only [↓reduceIte, Bool.and_eq_true, decide_eq_true_eq] at ht
      obtain ⟨rfl, htp⟩ := ht
      have ih := rust_roundtrip_core X hf t p w hw.1.2 htp h1
      cases k' with
      | unit => exact absurd rfl hk
      | newtype => simp [fromVariant, ih]
      | tuple => simp [fromVariant, ih]
      | struct =>
        have hko := hw.1.1
        cases t <;> simp [kindOk] at hko
        cases p <;> simp [hasTy] at htp
        simp only [toKoto, Option.map_eq_some_iff] at h1
        obtain ⟨kvs, _, rfl⟩ := h1
        simp [fromVariant, ih]
    · simp only [hm, ↓reduceIte] at ht
      simp [fromVariant, hm, rust_roundtrip_variant X hf vs n k p w hw.2 ht hk h1]
end


/-- **rust_roundtrip** (partial): for every well-formed type description `t` — any nesting of
structs, enums with unit/newtype/tuple/struct variants, options, sequences, tuples, string-keyed maps
and primitives — and every value `x` of that type whose integers fit `i64`, `from_koto_value` applied
to `to_koto_value x` returns exactly `x`.
Excluded (`wfTy`): an `Option` directly around a type whose values can serialize to null (`Option<_>`,
`()`), for which the statement is false — see `rust_roundtrip_nested_option_witness`.
Assumed (`hf : F32Exact X`): `(x as f64) as f32 = x` for every `f32` (IEEE-754 widening is exact) and a
non-finite `f32` widens to a non-finite `f64`. -/
theorem rust_roundtrip_partial (X : Ext) (hf : F32Exact X) (t : Ty) (x : RVal)
    (hw : wfTy t = true) (ht : hasTy t x = true) (hfit : intsFit x = true) :
    (toKoto X x).bind (fromKoto X t) = some x := by
  have hs := toKoto_isSome X x
  rw [hfit] at hs
  obtain ⟨v, hv⟩ := Option.isSome_iff_exists.mp hs
  simp [hv, rust_roundtrip_core X hf t x v hw ht hv]

/-- the hypotheses are satisfiable: a struct with an enum, an option, a map and a tuple inside -/
example :
    let t : Ty := .struct [([97], .int .u8), ([98], .option .string),
      ([99], .enum [([65], .unit, .unit), ([66], .newtype, .int .i8), ([67], .tuple, .tuple [.bool, .char]),
                    ([68], .struct, .struct [([120], .seq (.map (.int .i64)))])])]
    let x : RVal := .struct [([97], .int 200), ([98], .none),
      ([99], .variant [68] .struct (.struct [([120], .seq [.map [([107], .int (-5))]])]))]
    wfTy t = true ∧ hasTy t x = true ∧ intsFit x = true ∧
      (toKoto X0 x).bind (fromKoto X0 t) = some x := by
  refine ⟨by decide, by decide, by decide, by rfl⟩

/-- out-of-range is an error for the `f32` target as well (fix-7): a finite number whose narrowing is
not finite is rejected, everything else is narrowed -/
theorem out_of_range_is_error_f32 (X : Ext) (b : UInt64) (h1 : finiteBits b = true)
    (h2 : finiteBits32 (X.narrow b) = false) : fromKoto X .f32 (.num (.f b)) = none := by
  simp [fromKoto, h1, h2]

/-! ### Recursive Rust types

A `Ty` is a finite tree. A recursive Rust type (`struct Chain { head: u8, tail: Option<Box<Chain>> }`)
is described by its unfolding to any depth with the empty enum at the cut: the empty enum has no
value and accepts no input, so the unfolding to depth `n` is exactly the type of the values of depth
≤ `n`, and `rust_roundtrip_partial` (which quantifies over all `Ty`) applies to every unfolding. -/

theorem empty_enum_has_no_value (x : RVal) : hasTy (.enum []) x = false := by
  cases x <;> simp [hasTy, hasTyVariant]

theorem empty_enum_rejects_all (X : Ext) (v : Val) : fromKoto X (.enum []) v = none := by
  simp only [fromKoto, fromVariant]
  split <;> rfl

/-- `Chain` unfolded twice; the value `Chain { head: 1, tail: Some(Chain { head: 2, tail: None }) }` -/
example :
    let chain0 : Ty := .struct [([104], .int .u8), ([116], .option (.enum []))]
    let chain1 : Ty := .struct [([104], .int .u8), ([116], .option chain0)]
    let x : RVal := .struct [([104], .int 1), ([116], .some (.struct [([104], .int 2), ([116], .none)]))]
    wfTy chain1 = true ∧ hasTy chain1 x = true ∧ (toKoto X0 x).bind (fromKoto X0 chain1) = some x := by
  refine ⟨by decide, by decide, by rfl⟩

/-- The excluded shape really fails (finding F-C20-2): `Some(None)` of type `Option<Option<i64>>`
is a well-typed value, it serializes to `null`, and `null` reads back as `None`. -/
theorem rust_roundtrip_nested_option_witness (X : Ext) :
    hasTy (.option (.option (.int .i64))) (.some .none) = true ∧
    toKoto X (.some .none) = some .null ∧
    fromKoto X (.option (.option (.int .i64))) .null = some .none ∧
    RVal.none ≠ RVal.some .none := by
  refine ⟨by decide, rfl, rfl, ?_⟩
  intro h
  cases h

/-- out-of-range Rust integers are errors, inside any structure (`to_koto_value` is total) -/
theorem toKoto_error_iff (X : Ext) (x : RVal) : toKoto X x = none ↔ intsFit x = false := by
  have h := toKoto_isSome X x
  cases h' : toKoto X x <;> simp_all

/-! ## Nesting depth, integer literals beyond 64 bits, aliasing -/


/-- **json_int_error_iff**: of the integer literals outside `i64`, JSON rejects exactly those that
still fit `u64`; the others arrive as floats and are accepted (finding F-C20-6 — the negation of
"out-of-range input yields an error" for the JSON reader). -/
theorem json_int_error_iff (X : Ext) (n : Int) :
    de (jsonInt X n) = none ↔ (i64Max < n ∧ n ≤ 18446744073709551615) := by
  unfold jsonInt
  by_cases h1 : inI64 n = true
  · have h1' : i64Min ≤ n ∧ n ≤ i64Max := by simpa [inI64] using h1
    simp only [h1, ↓reduceIte, de]
    constructor
    · intro h; cases h
    · intro h; omega
  · have h1' : ¬ (i64Min ≤ n ∧ n ≤ i64Max) := by simpa [inI64] using h1
    simp only [h1, Bool.false_eq_true, ↓reduceIte]
    by_cases h2 : 0 ≤ n ∧ n ≤ 18446744073709551615
    · simp only [h2, and_self, ↓reduceIte, de]
      have hn : ((n.toNat : Nat) : Int) = n := Int.toNat_of_nonneg h2.1
      have hbig : i64Max < n := by
        simp only [i64Min, i64Max] at h1' ⊢
        omega
      constructor
      · intro _; simp [hbig, h2.2]
      · intro _; exact ofI_none _ (Or.inr (by rw [hn]; exact hbig))
    · simp only [h2, ↓reduceIte, de]
      constructor
      · intro h; cases h
      · intro h
        exfalso
        apply h2
        simp only [i64Max] at h
        omega

theorem json_int_inconsistent_witness (X : Ext) :
    de (jsonInt X 18446744073709551615) = none ∧
    de (jsonInt X 18446744073709551616) = some (.num (.f (X.big2f 18446744073709551616))) ∧
    de (jsonInt X (-9223372036854775809)) = some (.num (.f (X.big2f (-9223372036854775809)))) := by
  refine ⟨rfl, rfl, rfl⟩

/-- **serG_cycle_is_error**: a container that lies on a cycle (a set of nodes each of which has a
successor in the set — e.g. a list that contains itself) cannot be serialized: `serialize.rs`
reports an error, for every amount of fuel and from every path. -/
theorem serG_cycle_is_error (g : Graph) (C : Nat → Prop) (hC : ∀ i, C i → ∃ j, C j ∧ gSucc g i j) :
    ∀ (fuel : Nat) (path : List Nat) (i : Nat), C i → serG g fuel path i = none
  | 0, _, _, _ => rfl
  | fuel + 1, path, i, hi => by
    obtain ⟨j, hj, node, hn, hmem⟩ := hC i hi
    simp only [serG]
    split
    · rfl
    · simp only [hn]
      have ih := serG_cycle_is_error g C hC fuel (i :: path) j hj
      split
      · rfl
      rw [Option.map_eq_none_iff]
      apply allSome_none_of_mem
      exact List.mem_map.mpr ⟨.ref j, hmem, by simp [ih]⟩

/-- a list that contains itself, and a two-container cycle through a map -/
example : serG [⟨false, [.leaf 1, .ref 0]⟩] 10 [] 0 = none := by decide
example : serG [⟨false, [.ref 1]⟩, ⟨true, [.leaf 2, .ref 0]⟩] 10 [] 0 = none := by decide
/-- the nesting limit applies to graphs as well: whatever the graph, nothing is serialized below 127
containers -/
theorem serG_too_deep_is_error (g : Graph) (fuel : Nat) (path : List Nat) (i : Nat)
    (h : writerDepthLimit ≤ path.length) : serG g fuel path i = none := by
  cases fuel with
  | zero => rfl
  | succ n =>
    simp only [serG]
    split
    · rfl
    · simp [h]

/-- sharing without a cycle is fine: the same list twice (and once more one level down) serializes as
its unfolding -/
example : serG [⟨false, [.ref 1, .ref 2, .ref 1]⟩, ⟨false, [.leaf 1]⟩, ⟨true, [.ref 1]⟩] 4 [] 0
    = some (.seq [.seq [.i64 1], .map [(.str [107, 48], .seq [.i64 1])], .seq [.i64 1]]) := by rfl
example : (ser X0 (.list [.list [.num (.i 1)], .map [(.str [107, 48], .list [.num (.i 1)])], .list [.num (.i 1)]]))
    = some (.seq [.seq [.i64 1], .map [(.str [107, 48], .seq [.i64 1])], .seq [.i64 1]]) := by rfl

/-! ## TOML entry order (inline entries, then tables) -/

mutual
/-- **tomlOrd_idem**: the order TOML imposes is stable — after the first trip a further trip changes
nothing, entry order included. -/
theorem tomlOrd_idem : ∀ v : Val, tomlOrd (tomlOrd v) = tomlOrd v
  | .null => rfl
  | .bool _ => rfl
  | .num _ => rfl
  | .str _ => rfl
  | .range _ _ => rfl
  | .map es => by
    simp only [tomlOrd, tomlPlain_append, tomlTables_append, tomlPlain_plain, tomlTables_plain,
      tomlPlain_tables, tomlTables_tables es, List.append_nil, List.nil_append]
  | .tuple xs => by
    by_cases h : (!xs.isEmpty && xs.all isMap) = true
    · simp only [tomlOrd, h, ↓reduceIte, tomlOrdL_isEmpty, tomlOrdL_all_isMap, tomlOrdL_idem xs]
    · simp [tomlOrd, h]
  | .list xs => by
    by_cases h : (!xs.isEmpty && xs.all isMap) = true
    · simp only [tomlOrd, h, ↓reduceIte, tomlOrdL_isEmpty, tomlOrdL_all_isMap, tomlOrdL_idem xs]
    · simp [tomlOrd, h]
theorem tomlOrdL_idem : ∀ xs : List Val, tomlOrdL (tomlOrdL xs) = tomlOrdL xs
  | [] => rfl
  | x :: xs => by simp [tomlOrdL, tomlOrd_idem x, tomlOrdL_idem xs]
theorem tomlTables_tables : ∀ es : List (Val × Val), tomlTables (tomlTables es) = tomlTables es
  | [] => rfl
  | (k, v) :: es => by
    simp only [tomlTables]
    split
    · rename_i h
      simp [tomlTables, isTableLike_tomlOrd, h, tomlOrd_idem v, tomlTables_tables es]
    · exact tomlTables_tables es
end

/-- TOML only permutes the entries of a map (so the result `==` the normal form in Koto, whose map
equality ignores entry order). -/
theorem tomlOrd_keys_perm : ∀ es : List (Val × Val),
    (keysOf (tomlPlain es ++ tomlTables es)).Perm (keysOf es)
  | [] => by simp [tomlPlain, tomlTables, keysOf]
  | (k, v) :: es => by
    have ih := tomlOrd_keys_perm es
    simp only [keysOf, List.map_append] at ih ⊢
    by_cases h : isTableLike v = true
    · simp only [tomlPlain, tomlTables, h, ↓reduceIte, List.map_cons]
      exact List.perm_middle.trans (List.Perm.cons k ih)
    · simp only [tomlPlain, tomlTables, h, ↓reduceIte, List.map_cons, List.cons_append, Bool.false_eq_true]
      exact List.Perm.cons k ih

example : tomlOrd (.map [(.str [97], .map [(.str [120], .num (.i 1))]), (.str [98], .num (.i 2))])
    = .map [(.str [98], .num (.i 2)), (.str [97], .map [(.str [120], .num (.i 1))])] := by decide

end KotoVerif.C20
