/-
C09 — Lexing is lossless and positions are exact: property theorems about `Model/Lexer.lean`
(the model is tied to `koto_lexer` by the exhaustive correspondence run of `harness/src/bin/c09.rs`).

Conventions: `src : List Ch` is the input with its supplied Unicode facts; `lexAll src` are the
model's tokens up to and including the first `Error` token; `TableOk src` is the only assumption on
the supplied tables (a line feed is not an identifier character — checked by the harness on every
character it sends).
-/
import KotoVerif.Lemmas.C09Inv
import KotoVerif.Lemmas.C09Newline

namespace KotoVerif.C09
open KotoVerif.Lexer

/-! ## specification vocabulary (no implementation detail) -/

/-- byte offset `n` is a character boundary inside `src` -/
def boundaryAt (src : List Ch) (n : Nat) : Bool := (prefixAt n src).isSome

/-- byte offset `n` is a character boundary of `src` and exactly `line` line breaks precede it -/
def exactAt (src : List Ch) (n line : Nat) : Bool :=
  match prefixAt n src with
  | some pre => line == nlCount pre
  | none => false

/-- consecutive non-error tokens tile the input from byte `a` on -/
def Chain : Nat → List Lexed → Prop
  | _, [] => True
  | a, l :: ls => (l.tok ≠ .error → l.startByte = a ∧ l.startByte ≤ l.endByte) ∧ Chain l.endByte ls

/-! ## generic run lemma -/

theorem exactAt_of (src pre post : List Ch) (n line : Nat) (h : src = pre ++ post) (hn : byteLen pre = n)
    (hl : line = nlCount pre) : exactAt src n line = true := by
  unfold exactAt
  rw [h, ← hn, prefixAt_append]; simp [hl]

theorem boundaryAt_of (src pre post : List Ch) (n : Nat) (h : src = pre ++ post) (hn : byteLen pre = n) :
    boundaryAt src n = true := by
  unfold boundaryAt
  rw [h, ← hn, prefixAt_append]; rfl

/-! ## property theorems -/

/-- **Contiguity / losslessness.** The tokens before the first error token tile the input
contiguously from its start: the first starts at byte 0 and each starts where the previous one
ended (so concatenating their texts reproduces that prefix of the input). -/
theorem tokens_contiguous (src : List Ch) (ht : TableOk src) : Chain 0 (lexAll src) := by
  suffices H : ∀ fuel s, Inv false src s → Chain s.cur (lexFuel src fuel s) by
    exact H _ _ (inv_init false src)
  intro fuel
  induction fuel with
  | zero => intro s _; simp [lexFuel, Chain]
  | succ fuel ih =>
    intro s hinv
    simp only [lexFuel]
    cases hstep : stepD src s with
    | none => simp [Chain]
    | some ds =>
      obtain ⟨d, s'⟩ := ds
      simp only
      by_cases he : d.tok = .error
      · simp [he, Chain, lexedOf]
      · simp only [he, if_false]
        obtain ⟨hinv', h1, h2, _⟩ := stepD_inv false src s s' d ht hinv hstep he
        refine ⟨fun _ => ⟨h1, by simp [lexedOf, h1, h2]⟩, ?_⟩
        exact ih s' hinv'

/-- **Character boundaries.** Every non-error token starts and ends on a character boundary of the
input (in particular inside the input). -/
theorem tokens_on_boundaries (src : List Ch) (ht : TableOk src) :
    ∀ l ∈ lexAll src, l.tok ≠ .error →
      boundaryAt src l.startByte = true ∧ boundaryAt src l.endByte = true := by
  suffices H : ∀ fuel s, Inv false src s → ∀ l ∈ lexFuel src fuel s, l.tok ≠ .error →
      boundaryAt src l.startByte = true ∧ boundaryAt src l.endByte = true by
    exact H _ _ (inv_init false src)
  intro fuel
  induction fuel with
  | zero => intro s _ l hl; simp [lexFuel] at hl
  | succ fuel ih =>
    intro s hinv l hl hne
    simp only [lexFuel] at hl
    cases hstep : stepD src s with
    | none => simp [hstep] at hl
    | some ds =>
      obtain ⟨d, s'⟩ := ds
      simp only [hstep] at hl
      by_cases he : d.tok = .error
      · simp only [he, if_true, List.mem_singleton] at hl
        subst hl
        exact absurd he hne
      · simp only [he, if_false, List.mem_cons] at hl
        obtain ⟨hinv', h1, _, _⟩ := stepD_inv false src s s' d ht hinv hstep he
        rcases hl with hl | hl
        · subst hl
          obtain ⟨pre, post, e1, e2, _⟩ := hinv
          obtain ⟨pre', post', e1', e2', _⟩ := hinv'
          exact ⟨boundaryAt_of src pre post _ e1 (by simp [lexedOf, h1, e2]),
                 boundaryAt_of src pre' post' _ e1' (by simp [lexedOf, e2'])⟩
        · exact ih s' hinv' l hl hne

/-- **Exact lines.** For every non-error token the reported start line and end line equal the number
of line breaks before the token's start and end. (Since the repair of F-C09-1 — commit 0591829,
`consume_format_options` tracks its position per character — this holds without exception; before
it, format-options tokens containing a line break had to be excluded.) -/
theorem lines_exact (src : List Ch) (ht : TableOk src) :
    ∀ l ∈ lexAll src, l.tok ≠ .error →
      exactAt src l.startByte l.span.start.line = true ∧
      exactAt src l.endByte l.span.stop.line = true := by
  suffices H : ∀ fuel s, Inv true src s → ∀ l ∈ lexFuel src fuel s, l.tok ≠ .error →
      exactAt src l.startByte l.span.start.line = true ∧
      exactAt src l.endByte l.span.stop.line = true by
    exact H _ _ (inv_init true src)
  intro fuel
  induction fuel with
  | zero => intro s _ l hl; simp [lexFuel] at hl
  | succ fuel ih =>
    intro s hinv l hl hne
    simp only [lexFuel] at hl
    cases hstep : stepD src s with
    | none => simp [hstep] at hl
    | some ds =>
      obtain ⟨d, s'⟩ := ds
      simp only [hstep] at hl
      by_cases he : d.tok = .error
      · simp only [he, if_true, List.mem_singleton] at hl
        subst hl
        exact absurd he hne
      · simp only [he, if_false, List.mem_cons] at hl
        obtain ⟨hinv', h1, _, h4⟩ := stepD_inv true src s s' d ht hinv hstep he
        rcases hl with hl | hl
        · subst hl
          obtain ⟨pre, post, e1, e2, e3, _⟩ := hinv
          obtain ⟨pre', post', e1', e2', e3', _⟩ := hinv'
          exact ⟨exactAt_of src pre post _ _ e1 (by simp [lexedOf, h1, e2]) (by simp [lexedOf, h4, e3 rfl]),
                 exactAt_of src pre' post' _ _ e1' (by simp [lexedOf, e2']) (by simp [lexedOf, e3' rfl])⟩
        · exact ih s' hinv' l hl hne

/-- consecutive tokens: each span starts where the previous one stopped, and a `NewLine` token
stops at column 0 -/
def SpanChain : Pos → List Lexed → Prop
  | _, [] => True
  | p, l :: ls => (l.tok ≠ .error → l.span.start = p ∧ (l.tok = .newLine → l.span.stop.col = 0)) ∧
      SpanChain l.span.stop ls

/-- **Span chaining and column reset (partial).** Every non-error token's span starts exactly where
the previous token's span stopped (position (0,0) for the first), and every `NewLine` token stops at
column 0 — so the token that follows a line break *that is a NewLine token* starts at column 0.
Partial: line breaks inside multi-line tokens (strings, comments) are covered by the correspondence
run and the direct check only, not by this theorem. -/
theorem column_reset_newline_partial (src : List Ch) (ht : TableOk src) :
    SpanChain ⟨0, 0⟩ (lexAll src) := by
  suffices H : ∀ fuel s, Inv false src s → SpanChain s.span.stop (lexFuel src fuel s) by
    exact H _ _ (inv_init false src)
  intro fuel
  induction fuel with
  | zero => intro s _; simp [lexFuel, SpanChain]
  | succ fuel ih =>
    intro s hinv
    simp only [lexFuel]
    cases hstep : stepD src s with
    | none => simp [SpanChain]
    | some ds =>
      obtain ⟨d, s'⟩ := ds
      simp only
      by_cases he : d.tok = .error
      · simp [he, SpanChain, lexedOf]
      · simp only [he, if_false]
        obtain ⟨hinv', _, _, h4⟩ := stepD_inv false src s s' d ht hinv hstep he
        refine ⟨fun _ => ⟨by simp [lexedOf, h4], ?_⟩, ih s' hinv'⟩
        intro hnl
        simp only [lexedOf] at hnl ⊢
        -- unfold the step: the decision is a NewLine decision
        unfold stepD at hstep
        cases hd : dropBytes s.cur src with
        | none => simp [hd] at hstep
        | some post =>
          cases post with
          | nil => simp [hd] at hstep
          | cons c rest =>
            simp only [hd, Option.some.injEq, Prod.mk.injEq] at hstep
            obtain ⟨hd', hs'⟩ := hstep
            rw [← hd'] at hnl
            obtain ⟨n, hm⟩ := decideTok_newline _ _ _ c rest hnl
            rw [← hs']
            simp [applyDecision, applyMove, hm]

/-! ## the formerly excluded case (F-C09-1, repaired) -/

/-- ASCII character with the Unicode facts the real tables give it (width 1, XID flags as listed) -/
def ascii (cp : Nat) (idS idC : Bool) : Ch := { cp := cp, width := 1, idStart := idS, idCont := idC, g1 := 1, g2 := 1 }

/-- the former witness `'{a:⏎}'` (the line feed has width 0) -/
def witnessF1 : List Ch :=
  [ascii 39 false false, ascii 123 false false, ascii 97 true true, ascii 58 false false,
   { cp := 10, width := 0, idStart := false, idCont := false, g1 := 1, g2 := 1 },
   ascii 125 false false, ascii 39 false false]

/-- On `'{a:⏎}'` the format-options token (bytes 4..5) now reports end line 1, column 0, and all
seven tokens have exact lines (before commit 0591829 the model — like the code — reported line 0). -/
theorem format_options_line_break_counted :
    (⟨.stringLiteral, 4, 5, ⟨⟨0, 4⟩, ⟨1, 0⟩⟩, 0, true⟩ : Lexed) ∈ lexAll witnessF1 ∧
    (lexAll witnessF1).all (fun l => exactAt witnessF1 l.endByte l.span.stop.line) = true := by
  constructor <;> decide

/-! ## non-vacuity -/

/-- the table assumption is satisfiable by a non-trivial input that exercises strings, format
options and line breaks, and `lines_exact` says something about all of its tokens -/
example : TableOk witnessF1 := by
  intro c hc h
  simp only [witnessF1, List.mem_cons, List.mem_nil_iff, or_false] at hc
  rcases hc with rfl | rfl | rfl | rfl | rfl | rfl | rfl <;> simp_all [ascii, cpNL]

/-- `x = 'a⏎b'` followed by a newline: no bad token at all, every token is covered -/
def sampleOk : List Ch :=
  [ascii 120 true true, ascii 32 false false, ascii 61 false false, ascii 32 false false,
   ascii 39 false false, ascii 97 true true,
   { cp := 10, width := 0, idStart := false, idCont := false, g1 := 1, g2 := 1 },
   ascii 98 true true, ascii 39 false false,
   { cp := 10, width := 0, idStart := false, idCont := false, g1 := 1, g2 := 1 }]

example : (lexAll sampleOk).length = 8 ∧
    (lexAll sampleOk).all (fun l => exactAt sampleOk l.startByte l.span.start.line) = true := by
  decide

end KotoVerif.C09
