import KotoVerif.Model.Lexer
namespace KotoVerif.C09
open KotoVerif.Lexer

theorem lexAll_nil : lexAll [] = [] := by decide

end KotoVerif.C09
