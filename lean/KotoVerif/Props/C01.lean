/-
C01 — core evaluation (layers 1–3: precedence, number tower, reference semantics).
Property theorems only; helper lemmas live in `Lemmas/C01Prec.lean`, `Lemmas/C01Eval.lean`.
-/
import KotoVerif.Model.Prec
import KotoVerif.Model.NumOps
import KotoVerif.Model.CoreEval
import KotoVerif.Lemmas.C01Prec
import KotoVerif.Lemmas.C01Eval

namespace KotoVerif.C01
open KotoVerif KotoVerif.Core KotoVerif.Prec KotoVerif.Gen

/-! ## number tower -/

/-- integer `+ - *` and negation are the `Int64` operations, i.e. arithmetic modulo 2⁶⁴ -/
theorem int_arith_wraps (F : FloatOps) (a b : Int64) :
    Num.add F (.i a) (.i b) = .i (a + b) ∧ Num.sub F (.i a) (.i b) = .i (a - b)
    ∧ Num.mul F (.i a) (.i b) = .i (a * b) ∧ Num.neg F (.i a) = .i (-a) :=
  ⟨rfl, rfl, rfl, rfl⟩

/-- … and `Int64` arithmetic is arithmetic on the integers reduced modulo 2⁶⁴ -/
theorem int_arith_mod (x y : Int) :
    Int64.ofInt x + Int64.ofInt y = Int64.ofInt (x + y)
    ∧ Int64.ofInt x * Int64.ofInt y = Int64.ofInt (x * y) :=
  ⟨(Int64.ofInt_add x y).symm, (Int64.ofInt_mul x y).symm⟩

example : Num.add ValueIO_free (.i (Int64.ofInt 9223372036854775807)) (.i 1)
    = .i (Int64.ofInt (-9223372036854775808)) := by decide
where ValueIO_free : FloatOps :=
  { add := fun a _ => a, sub := fun a _ => a, mul := fun a _ => a, div := fun a _ => a,
    rem := fun a _ => a, pow := fun a _ => a, neg := id, lt := fun _ _ => false,
    le := fun _ _ => false, eq := fun _ _ => false, ofInt := fun n => n.toUInt64,
    toInt := fun b => b.toInt64, isNaN := fun _ => false }

/-- `/` always yields a float -/
theorem div_is_float (F : FloatOps) (a b : Num) : (Num.div F a b).isFloat = true := rfl

/-- mixed int/float operands promote the int (`i as f64`) and yield a float -/
theorem mixed_promotes (F : FloatOps) (a : Int64) (b : UInt64) :
    Num.add F (.i a) (.f b) = .f (F.add (F.ofInt a) b)
    ∧ Num.add F (.f b) (.i a) = .f (F.add b (F.ofInt a))
    ∧ Num.sub F (.i a) (.f b) = .f (F.sub (F.ofInt a) b)
    ∧ Num.mul F (.f b) (.i a) = .f (F.mul b (F.ofInt a)) :=
  ⟨rfl, rfl, rfl, rfl⟩

/-- `null` and `false` are the only falsy values -/
theorem falsy_iff (v : Val) : v.truthy = false ↔ v = .null ∨ v = .bool false := by
  cases v with
  | bool b => cases b <;> simp [Val.truthy]
  | _ => simp [Val.truthy]

example : (Val.int 0).truthy = true ∧ (Val.str []).truthy = true ∧ (Val.list []).truthy = true :=
  ⟨rfl, rfl, rfl⟩

end KotoVerif.C01
