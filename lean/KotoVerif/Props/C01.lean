/-
C01 — core evaluation (layers 1–3: precedence, number tower, reference semantics).
Property theorems only; helper lemmas live in `Lemmas/C01Prec.lean`, `Lemmas/C01Eval.lean`.
-/
import KotoVerif.Model.Prec
import KotoVerif.Model.NumOps
import KotoVerif.Model.CoreEval
import KotoVerif.Lemmas.C01Prec
import KotoVerif.Lemmas.C01Eval

namespace KotoVerif.C01
open KotoVerif KotoVerif.Core KotoVerif.Prec KotoVerif.Gen

/-! ## precedence (layer 1) -/

/-- Rendering an operator tree with the fewest parentheses the generated table allows and parsing
the tokens with the model of `parse_expression_start/continued` gives the tree back — for every
tree (any operators of the table, unary minus, `not`, assignment, any nesting). -/
theorem prec_roundtrip (e : OpTree) : parse (tokens e) = some e := by
  unfold parse tokens
  have h := roundtrip_gen e 0 0 [] 1 (e, []) (parseFuel (render 0 0 e)) (by simp [Follow])
    (parseCont_stop0 (by simp [Follow]) 0 0 e)
    (by have := cost_le e 0 0; unfold parseFuel; omega)
  simp only [List.append_nil] at h
  rw [h]

/-- more fuel never changes a parse -/
theorem parse_fuel_monotone {n N m : Nat} {ts : List Tok} {r : OpTree × List Tok} (h : n ≤ N)
    (hp : parseStart n m ts = some r) : parseStart N m ts = some r :=
  parseStart_mono h hp

private abbrev v (x : Nat) : OpTree := .atom (.id x)

/-- `x + y * z` is `x + (y * z)` — read off the *generated* table through `prec_roundtrip` -/
theorem mul_over_add (x y z : Nat) :
    parse [.id x, .op .Add, .id y, .op .Multiply, .id z]
      = some (.bin .Add (v x) (.bin .Multiply (v y) (v z))) := by
  simpa [tokens, render, lp, rp, OpTok.prec] using
    prec_roundtrip (.bin .Add (v x) (.bin .Multiply (v y) (v z)))

/-- `x + y < z` is `(x + y) < z` -/
theorem add_over_cmp (x y z : Nat) :
    parse [.id x, .op .Add, .id y, .op .Less, .id z]
      = some (.bin .Less (.bin .Add (v x) (v y)) (v z)) := by
  simpa [tokens, render, lp, rp, OpTok.prec] using
    prec_roundtrip (.bin .Less (.bin .Add (v x) (v y)) (v z))

/-- `x < y and z` is `(x < y) and z` -/
theorem cmp_over_and (x y z : Nat) :
    parse [.id x, .op .Less, .id y, .op .And, .id z]
      = some (.bin .And (.bin .Less (v x) (v y)) (v z)) := by
  simpa [tokens, render, lp, rp, OpTok.prec] using
    prec_roundtrip (.bin .And (.bin .Less (v x) (v y)) (v z))

/-- `x or y and z` is `x or (y and z)` -/
theorem and_over_or (x y z : Nat) :
    parse [.id x, .op .Or, .id y, .op .And, .id z]
      = some (.bin .Or (v x) (.bin .And (v y) (v z))) := by
  simpa [tokens, render, lp, rp, OpTok.prec] using
    prec_roundtrip (.bin .Or (v x) (.bin .And (v y) (v z)))

/-- `x - y - z` is `(x - y) - z`, `x / y / z` is `(x / y) / z`, and (the code's decision, the guide
is silent) `x ^ y ^ z` is `(x ^ y) ^ z` -/
theorem arith_left_assoc (x y z : Nat) :
    parse [.id x, .op .Subtract, .id y, .op .Subtract, .id z]
      = some (.bin .Subtract (.bin .Subtract (v x) (v y)) (v z))
    ∧ parse [.id x, .op .Divide, .id y, .op .Divide, .id z]
      = some (.bin .Divide (.bin .Divide (v x) (v y)) (v z))
    ∧ parse [.id x, .op .Power, .id y, .op .Power, .id z]
      = some (.bin .Power (.bin .Power (v x) (v y)) (v z)) := by
  refine ⟨?_, ?_, ?_⟩
  · simpa [tokens, render, lp, rp, OpTok.prec] using
      prec_roundtrip (.bin .Subtract (.bin .Subtract (v x) (v y)) (v z))
  · simpa [tokens, render, lp, rp, OpTok.prec] using
      prec_roundtrip (.bin .Divide (.bin .Divide (v x) (v y)) (v z))
  · simpa [tokens, render, lp, rp, OpTok.prec] using
      prec_roundtrip (.bin .Power (.bin .Power (v x) (v y)) (v z))

/-- comparisons nest to the right (`x < y < z` is `x < (y < z)` in the AST — the shape the compiler
turns into a chain), equality operators bind looser than ordering operators -/
theorem cmp_right_nested (x y z : Nat) :
    parse [.id x, .op .Less, .id y, .op .Less, .id z]
      = some (.bin .Less (v x) (.bin .Less (v y) (v z)))
    ∧ parse [.id x, .op .Equal, .id y, .op .Less, .id z]
      = some (.bin .Equal (v x) (.bin .Less (v y) (v z)))
    ∧ parse [.id x, .op .Less, .id y, .op .Equal, .id z]
      = some (.bin .Equal (.bin .Less (v x) (v y)) (v z)) := by
  refine ⟨?_, ?_, ?_⟩
  · simpa [tokens, render, lp, rp, OpTok.prec] using
      prec_roundtrip (.bin .Less (v x) (.bin .Less (v y) (v z)))
  · simpa [tokens, render, lp, rp, OpTok.prec] using
      prec_roundtrip (.bin .Equal (v x) (.bin .Less (v y) (v z)))
  · simpa [tokens, render, lp, rp, OpTok.prec] using
      prec_roundtrip (.bin .Equal (.bin .Less (v x) (v y)) (v z))

/-- unary forms: `not x and y` is `not (x and y)`; `-x ^ y` is `(-x) ^ y`; `-2 ^ y` has a negative
literal as base -/
theorem unary_binding (x y k : Nat) :
    parse [.not, .id x, .op .And, .id y] = some (.not (.bin .And (v x) (v y)))
    ∧ parse [.op .Subtract, .id x, .op .Power, .id y] = some (.bin .Power (.neg (v x)) (v y))
    ∧ parse [.op .Subtract, .num k, .op .Power, .id y]
      = some (.bin .Power (.atom (.negNum k)) (v y)) := by
  refine ⟨?_, ?_, ?_⟩
  · simpa [tokens, render, lp, rp, OpTok.prec] using prec_roundtrip (.not (.bin .And (v x) (v y)))
  · simpa [tokens, render, lp, rp, OpTok.prec] using prec_roundtrip (.bin .Power (.neg (v x)) (v y))
  · simpa [tokens, render, lp, rp, OpTok.prec] using
      prec_roundtrip (.bin .Power (.atom (.negNum k)) (v y))

/-- non-vacuity: a tree that needs parentheses on both sides, and its rendering -/
example : Prec.text (tokens (.bin .Multiply (.bin .Add (v 0) (v 1)) (.bin .Subtract (v 2) (.neg (.atom (.num 3))))))
    = "(a + b) * (c - -(3))" := by decide

/-! ## number tower -/

/-- integer `+ - *` and negation are the `Int64` operations, i.e. arithmetic modulo 2⁶⁴ -/
theorem int_arith_wraps (F : FloatOps) (a b : Int64) :
    Num.add F (.i a) (.i b) = .i (a + b) ∧ Num.sub F (.i a) (.i b) = .i (a - b)
    ∧ Num.mul F (.i a) (.i b) = .i (a * b) ∧ Num.neg F (.i a) = .i (-a) :=
  ⟨rfl, rfl, rfl, rfl⟩

/-- … and `Int64` arithmetic is arithmetic on the integers reduced modulo 2⁶⁴ -/
theorem int_arith_mod (x y : Int) :
    Int64.ofInt x + Int64.ofInt y = Int64.ofInt (x + y)
    ∧ Int64.ofInt x * Int64.ofInt y = Int64.ofInt (x * y) :=
  ⟨(Int64.ofInt_add x y).symm, (Int64.ofInt_mul x y).symm⟩

example : Num.add stubFloatOps (.i (Int64.ofInt 9223372036854775807)) (.i 1)
    = .i (Int64.ofInt (-9223372036854775808)) := by decide

/-- integer `^` with a non-negative exponent wraps like `+ - *`: it is the mathematical power of the
integers reduced modulo 2⁶⁴, for *every* exponent (no truncation) -/
theorem int_pow_wraps (F : FloatOps) (x : Int) (b : Int64) (hb : ¬ b < 0) :
    Num.pow F (.i (Int64.ofInt x)) (.i b) = .i (Int64.ofInt (x ^ b.toInt.toNat)) := by
  have hlt : b.toInt.toNat < 2 ^ 64 := by
    have := Int64.toInt_lt b
    omega
  simp only [Num.pow, hb, if_false]
  rw [wpow_spec 64 x _ hlt]

/-- the code's former `wrapping_pow(b as u32)` (`Num.powTrunc`, before /repo 1b7bdc2) was **not** that
function: the exponent was truncated to 32 bits, so `2 ^ 4294967296` was `1` where wrapping
arithmetic gives `0` (finding F-C01-5, fixed; kept as the historical witness) -/
theorem pow_trunc_witness :
    Num.powTrunc stubFloatOps (.i 2) (.i 4294967296) = .i 1
    ∧ Num.pow stubFloatOps (.i 2) (.i 4294967296) = .i 0
    ∧ Num.powTrunc stubFloatOps (.i 3) (.i 4294967297) = .i 3
    ∧ Num.pow stubFloatOps (.i 3) (.i 4294967297) = .i 7473929035676909571 := by
  decide

/-- `/` always yields a float -/
theorem div_is_float (F : FloatOps) (a b : Num) : (Num.div F a b).isFloat = true := rfl

/-- mixed int/float operands promote the int (`i as f64`) and yield a float -/
theorem mixed_promotes (F : FloatOps) (a : Int64) (b : UInt64) :
    Num.add F (.i a) (.f b) = .f (F.add (F.ofInt a) b)
    ∧ Num.add F (.f b) (.i a) = .f (F.add b (F.ofInt a))
    ∧ Num.sub F (.i a) (.f b) = .f (F.sub (F.ofInt a) b)
    ∧ Num.mul F (.f b) (.i a) = .f (F.mul b (F.ofInt a)) :=
  ⟨rfl, rfl, rfl, rfl⟩

/-- `null` and `false` are the only falsy values -/
theorem falsy_iff (v : Val) : v.truthy = false ↔ v = .null ∨ v = .bool false := by
  cases v with
  | bool b => cases b <;> simp [Val.truthy]
  | _ => simp [Val.truthy]

example : (Val.int 0).truthy = true ∧ (Val.str []).truthy = true ∧ (Val.list []).truthy = true :=
  ⟨rfl, rfl, rfl⟩

/-! ## reference semantics (layer 3)

All statements are for every fuel `n`, every state `s`, every float implementation `F`.
`(eval F n e s).2.out` is the output trace after evaluating `e` (the trace is part of the state and
only ever appended to). -/

/-- the semantics is a function: one program, one state, one outcome -/
theorem eval_deterministic (F : FloatOps) (n : Nat) (e : Expr) (s : St) (r₁ r₂ : Res Val × St)
    (h₁ : eval F n e s = r₁) (h₂ : eval F n e s = r₂) : r₁ = r₂ := h₁ ▸ h₂ ▸ rfl

/-- `a and b`: `a` is evaluated; `b` is evaluated (in the state `a` left) exactly when `a`'s value is
truthy, and then `b`'s outcome is the outcome; otherwise the value is `a`'s value and nothing else
happens. In particular the output trace is `a`'s trace, extended by `b`'s trace iff `a` was truthy. -/
theorem and_short (F : FloatOps) (n : Nat) (a b : Expr) (s : St) :
    eval F (n + 1) (.and a b) s =
      match eval F n a s with
      | (.ok va, s₁) => if va.truthy then eval F n b s₁ else (.ok va, s₁)
      | (.err e, s₁) => (.err e, s₁)
      | (.brk v, s₁) => (.brk v, s₁)
      | (.cont, s₁) => (.cont, s₁)
      | (.nofuel, s₁) => (.nofuel, s₁) := by
  rw [eval_and]; rcases eval F n a s with ⟨r, s₁⟩; cases r <;> simp [seq]

theorem or_short (F : FloatOps) (n : Nat) (a b : Expr) (s : St) :
    eval F (n + 1) (.or a b) s =
      match eval F n a s with
      | (.ok va, s₁) => if va.truthy then (.ok va, s₁) else eval F n b s₁
      | (.err e, s₁) => (.err e, s₁)
      | (.brk v, s₁) => (.brk v, s₁)
      | (.cont, s₁) => (.cont, s₁)
      | (.nofuel, s₁) => (.nofuel, s₁) := by
  rw [eval_or]; rcases eval F n a s with ⟨r, s₁⟩; cases r <;> simp [seq]

/-- trace form: a falsy left operand of `and` means the right operand contributes no output -/
theorem and_short_trace (F : FloatOps) (n : Nat) (a b : Expr) (s s₁ : St) (va : Val)
    (ha : eval F n a s = (.ok va, s₁)) :
    (eval F (n + 1) (.and a b) s).2.out
      = if va.truthy then (eval F n b s₁).2.out else s₁.out := by
  rw [eval_and, ha]; simp only [seq]; split <;> simp_all

theorem or_short_trace (F : FloatOps) (n : Nat) (a b : Expr) (s s₁ : St) (va : Val)
    (ha : eval F n a s = (.ok va, s₁)) :
    (eval F (n + 1) (.or a b) s).2.out
      = if va.truthy then s₁.out else (eval F n b s₁).2.out := by
  rw [eval_or, ha]; simp only [seq]; split <;> simp_all

/-- value semantics of the guide: `null or 42` is `42`, `0 and 5` is `5`, `'' or 7` is `''` -/
example :
    (eval stubFloatOps 3 (.or (.lit .null) (.lit (Val.int 42))) {}).1 matches .ok (.num (.i 42))
    ∧ (eval stubFloatOps 3 (.and (.lit (Val.int 0)) (.lit (Val.int 5))) {}).1 matches .ok (.num (.i 5))
    ∧ (eval stubFloatOps 3 (.or (.lit (.str [])) (.lit (Val.int 7))) {}).1 matches .ok (.str []) := by
  decide

/-- comparison chain, one link: the operand `e` is evaluated exactly once (the single `eval` below);
its value `v` is the right operand of this comparison *and* the left operand of the next one; when
the comparison is false the chain ends there with `false`, in the state `e` left — no operand to the
right of it is evaluated. -/
theorem chain_once (F : FloatOps) (n : Nat) (prev : Val) (op : CmpOp) (e : Expr) (rest : Chain) (s : St) :
    evalChain F (n + 1) prev (.cons op e rest) s =
      match eval F n e s with
      | (.ok v, s₁) =>
        match cmpV F op prev v with
        | .error err => (.err err, s₁)
        | .ok false => (.ok (.bool false), s₁)
        | .ok true =>
          match rest with
          | .nil => (.ok (.bool true), s₁)
          | .cons _ _ _ => evalChain F n v rest s₁
      | (.err e, s₁) => (.err e, s₁)
      | (.brk v, s₁) => (.brk v, s₁)
      | (.cont, s₁) => (.cont, s₁)
      | (.nofuel, s₁) => (.nofuel, s₁) := by
  rw [evalChain]; rcases eval F n e s with ⟨r, s₁⟩; cases r <;> rfl

/-- … so in `a op₁ b op₂ c`, when `a op₁ b` is false, `c` leaves no trace: the output is the output
after `b` -/
theorem chain_short_trace (F : FloatOps) (n : Nat) (va vb : Val) (op₁ : CmpOp) (b : Expr) (rest : Chain)
    (s s₁ : St) (hb : eval F n b s = (.ok vb, s₁)) (hfalse : cmpV F op₁ va vb = .ok false) :
    evalChain F (n + 1) va (.cons op₁ b rest) s = (.ok (.bool false), s₁) := by
  rw [chain_once, hb]; simp [hfalse]

/-- `1 < 3 < 2 < 'a'`: every operand up to the first false comparison is emitted once, in order,
the operand after it (which would be a type error) is never evaluated -/
example :
    let e := Expr.cmp (.emit (.lit (Val.int 1)))
      (.cons .lt (.emit (.lit (Val.int 3))) (.cons .lt (.emit (.lit (Val.int 2)))
        (.cons .lt (.emit (.lit (.str [97]))) .nil)))
    let r := eval stubFloatOps 10 e {}
    (r.1 matches .ok (.bool false)) ∧ r.2.out.length = 3 := by
  decide

/-- `if` without `else` whose condition is falsy is `null` (and nothing but the condition ran) -/
theorem if_no_else_null (F : FloatOps) (n : Nat) (c t : Expr) (s s₁ : St) (vc : Val)
    (hc : eval F n c s = (.ok vc, s₁)) (hf : vc.truthy = false) :
    eval F (n + 1) (.ifThen c t) s = (.ok .null, s₁) := by
  rw [eval_ifThen, hc]; simp [seq, hf]

/-- `switch` whose arms all fail is `null` (one arm shown; `evalArms … .nil` is `null`) -/
theorem switch_no_arm_null (F : FloatOps) (n : Nat) (c e : Expr) (s s₁ : St) (vc : Val)
    (hc : eval F (n + 1) c s = (.ok vc, s₁)) (hf : vc.truthy = false) :
    eval F (n + 3) (.switch (.cons c e .nil)) s = (.ok .null, s₁) := by
  rw [eval_switch, evalArms_cons, hc]; simp only [seq, hf]; rw [evalArms_nil]; rfl

/-- a `while` loop whose condition is falsy at the first test never runs and is `null`
(`until`: truthy) -/
theorem loop_never_runs_null (F : FloatOps) (n : Nat) (c b : Expr) (s s₁ : St) (vc : Val)
    (hc : eval F n c s = (.ok vc, s₁)) :
    (vc.truthy = false → eval F (n + 2) (.while c b) s = (.ok .null, s₁))
    ∧ (vc.truthy = true → eval F (n + 2) (.until c b) s = (.ok .null, s₁)) := by
  constructor <;> intro hf
  · rw [eval_while, evalLoop_cond, hc]; simp [seq, hf]
  · rw [eval_until, evalLoop_cond, hc]; simp [seq, hf]

/-- a `for` loop over an empty list is `null` (and leaves its loop variable `null`) -/
theorem for_empty_null (F : FloatOps) (n x : Nat) (it b : Expr) (s s₁ : St)
    (hi : eval F n it s = (.ok (.list []), s₁)) :
    eval F (n + 1) (.for x it b) s = (.ok .null, s₁.set x .null) := by
  obtain ⟨k, rfl⟩ := eval_pos hi
  rw [eval_for F (k + 1) x it b s s₁ _ [] hi rfl, evalFor_nil]

/-- `break v` in the body ends the loop with value `v` (whatever earlier iterations produced);
`break` without value gives `null` -/
theorem break_value (F : FloatOps) (n : Nat) (b : Expr) (acc v : Val) (s s₁ : St)
    (hb : eval F n b s = (.brk v, s₁)) :
    evalLoop F (n + 1) none b acc s = (.ok v, s₁)
    ∧ eval F (n + 2) (.loop b) s = (.ok v, s₁) := by
  constructor
  · rw [evalLoop_none, hb]; rfl
  · rw [eval_loop, evalLoop_none, hb]; rfl

theorem break_without_value_null (F : FloatOps) (n : Nat) (s : St) :
    eval F (n + 1) .brk s = (.brk .null, s) := by simp [eval]

/-- `continue` makes the iteration's value `null` and goes on with the next round -/
theorem continue_value (F : FloatOps) (n : Nat) (b : Expr) (acc : Val) (s s₁ : St)
    (hb : eval F n b s = (.cont, s₁)) :
    evalLoop F (n + 1) none b acc s = evalLoop F n none b .null s₁ := by
  rw [evalLoop_none, hb]; rfl

/-- the value of an assignment is the assigned value, and the variable holds it afterwards -/
theorem assign_value (F : FloatOps) (n x : Nat) (e : Expr) (s s₁ : St) (v : Val)
    (he : eval F n e s = (.ok v, s₁)) :
    eval F (n + 1) (.assign x e) s = (.ok v, s₁.set x v) ∧ lookup x (s₁.set x v).env = some v := by
  constructor
  · rw [eval_assign, he]; rfl
  · simp only [St.set]
    generalize s₁.env = env
    induction env with
    | nil => simp [update, lookup]
    | cons p rest ih =>
      obtain ⟨y, w⟩ := p
      by_cases h : x = y <;> simp [update, lookup, h, ih]

/-- `x op= e` is `x = x op e` with `x` read first: its outcome only depends on the value `x` had
before `e` ran -/
theorem op_assign_reads_first (F : FloatOps) (n x : Nat) (op : ArithOp) (e : Expr) (s s₁ : St) (v₀ v₁ r : Val)
    (hx : lookup x s.env = some v₀) (he : eval F n e s = (.ok v₁, s₁))
    (hr : opAssignV F op v₀ v₁ = .ok r) :
    eval F (n + 1) (.opAssign op x e) s = (.ok r, s₁.set x r) := by
  rw [eval_opAssign F n x op e s s₁ v₀ v₁ hx he, hr]

/-- non-vacuity: a loop that runs twice, `continue`s once and ends with `break 7` -/
example :
    (eval stubFloatOps 40
      (.block (.cons (.assign 0 (.lit (Val.int 0)))
        (.cons (.loop (.block (.cons (.opAssign .add 0 (.lit (Val.int 1)))
          (.cons (.ifThen (.cmp (.var 0) (.cons .lt (.lit (Val.int 2)) .nil)) .cont)
          (.cons (.brkVal (.lit (Val.int 7))) .nil))))) .nil))) {}).1 matches .ok (.num (.i 7)) := by
  decide

/-- more fuel never changes a finished result: once `eval` returns anything but "out of fuel", it
returns the same outcome and state for every larger fuel -/
theorem fuel_monotone (F : FloatOps) (n : Nat) (e : Expr) (s : St)
    (h : ∀ s', eval F n e s ≠ (.nofuel, s')) (k : Nat) : eval F (n + k) e s = eval F n e s := by
  induction k with
  | zero => rfl
  | succ k ih =>
    rcases (fuel_mono_succ F (n + k)).1 e s with ⟨s', hs⟩ | heq
    · rw [ih] at hs; exact absurd hs (h s')
    · rw [← ih]; exact heq.symm

/-- a non-vacuity instance: 3 units of fuel finish `1 + 2`, and so does any larger amount -/
example (k : Nat) : (eval stubFloatOps (3 + k) (.arith .add (.lit (Val.int 1)) (.lit (Val.int 2))) {}).1
    matches .ok (.num (.i 3)) := by
  have hok : (eval stubFloatOps 3 (.arith .add (.lit (Val.int 1)) (.lit (Val.int 2))) {}).1
      matches .ok _ := by decide
  rw [fuel_monotone stubFloatOps 3 _ {} (by intro s' h; rw [h] at hok; simp at hok) k]; decide

/-- output that has been produced is never changed: the trace after evaluating `e` is the trace
before it with something appended -/
theorem out_append_only (F : FloatOps) (n : Nat) (e : Expr) (s : St) :
    ∃ t, (eval F n e s).2.out = s.out ++ t := (out_extends F n).1 e s

/-- `and`, trace form: `trace (a and b) = trace a ++ (if truthy vₐ then trace b else [])` -/
theorem and_short_append (F : FloatOps) (n : Nat) (a b : Expr) (s s₁ : St) (va : Val)
    (ha : eval F n a s = (.ok va, s₁)) :
    ∃ ta tb, s₁.out = s.out ++ ta ∧ (eval F n b s₁).2.out = s₁.out ++ tb
      ∧ (eval F (n + 1) (.and a b) s).2.out = s.out ++ ta ++ (if va.truthy then tb else []) := by
  obtain ⟨ta, hta⟩ := out_append_only F n a s
  obtain ⟨tb, htb⟩ := out_append_only F n b s₁
  rw [ha] at hta
  replace hta : s₁.out = s.out ++ ta := hta
  refine ⟨ta, tb, hta, htb, ?_⟩
  rw [and_short_trace F n a b s s₁ va ha]
  split
  · rw [htb, hta]
  · simpa using hta

/-- `or`, trace form: `trace (a or b) = trace a ++ (if truthy vₐ then [] else trace b)` -/
theorem or_short_append (F : FloatOps) (n : Nat) (a b : Expr) (s s₁ : St) (va : Val)
    (ha : eval F n a s = (.ok va, s₁)) :
    ∃ ta tb, s₁.out = s.out ++ ta ∧ (eval F n b s₁).2.out = s₁.out ++ tb
      ∧ (eval F (n + 1) (.or a b) s).2.out = s.out ++ ta ++ (if va.truthy then [] else tb) := by
  obtain ⟨ta, hta⟩ := out_append_only F n a s
  obtain ⟨tb, htb⟩ := out_append_only F n b s₁
  rw [ha] at hta
  replace hta : s₁.out = s.out ++ ta := hta
  refine ⟨ta, tb, hta, htb, ?_⟩
  rw [or_short_trace F n a b s s₁ va ha]
  split
  · simpa using hta
  · rw [htb, hta]

end KotoVerif.C01
