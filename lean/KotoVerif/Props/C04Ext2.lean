/-
C04 — second extension: end-to-end statements about the guide-level evaluator `Try.run` that
connect `try_` / `catchWith` / `.catches` / `thenFinally` / `finish` / `.loopL` (all executed by the
driver): non-error exits ignore the catch blocks, an error no catch accepts passes a `finally`
unchanged (after running it from the raise-point state), falls through to the next enclosing try,
a rethrow keeps the value, and `break` / `continue` out of a try inside a loop run the `finally`
block before the loop stops / goes on.
-/
import KotoVerif.Model.TryEval
import KotoVerif.Props.C04
import KotoVerif.Props.C04Ext

namespace KotoVerif.C04Ext2

open KotoVerif.Try KotoVerif.C04 KotoVerif.C04Ext

variable (cfg : Cfg) (P : Prog)

/-- one-step unfolding of a try without `finally` (fuel stays symbolic) -/
theorem try_none_unfold (n : Nat) (b : E) (cs : List Catch) (σ : St) :
    run cfg P (n + 1) (.ev (.try_ b cs none)) σ =
      catchWith (run cfg P n (.ev b) σ) (fun v σ1 => run cfg P n (.catches cs v) σ1) := by
  simp only [run]

/-- one-step unfolding of the catch-block search -/
theorem catches_cons_unfold (n : Nat) (ty : Option Ty) (x : Nat) (body : E) (rest : List Catch)
    (v : Val) (σ : St) :
    run cfg P (n + 1) (.catches ((ty, x, body) :: rest) v) σ =
      if accepts ty v then run cfg P n (.ev body) (bindCatch σ ty x v)
      else run cfg P n (.catches rest v) σ := by
  simp only [run]

/-- a `for` loop whose body ends its first item with `break` stops there -/
theorem loopL_cons_brk (n : Nat) (x : Nat) (it : Val) (rest : List Val) (body : E) (σ σ' : St)
    (h : run cfg P n (.ev body) (setLocal σ x it) = (.brk, σ')) :
    run cfg P (n + 1) (.loopL x (it :: rest) body) σ = (.ok .null, σ') := by
  simp only [run, h]

/-- a `for` loop whose body ends its first item with `continue` goes on with the rest -/
theorem loopL_cons_cont (n : Nat) (x : Nat) (it : Val) (rest : List Val) (body : E) (σ σ' : St)
    (h : run cfg P n (.ev body) (setLocal σ x it) = (.cont, σ')) :
    run cfg P (n + 1) (.loopL x (it :: rest) body) σ = run cfg P n (.loopL x rest body) σ' := by
  simp only [run, h]

/-- a `for` loop whose body ends its first item with an error ends with that error -/
theorem loopL_cons_err (n : Nat) (x : Nat) (it : Val) (rest : List Val) (body : E) (σ σ' : St)
    (v : Val) (h : run cfg P n (.ev body) (setLocal σ x it) = (.err v, σ')) :
    run cfg P (n + 1) (.loopL x (it :: rest) body) σ = (.err v, σ') := by
  simp only [run, h]

/-- Catch blocks only ever see errors: when the try block ends with any non-error outcome
(normal value, `return`, `break`, `continue`, out of fuel) the try expression is that outcome and
state, whatever the catch blocks are. -/
theorem catch_ignores_non_errors (n : Nat) (b : E) (cs : List Catch) (σ σ1 : St) (s : Sig)
    (h : run cfg P n (.ev b) σ = (s, σ1)) (hs : ∀ v, s ≠ .err v) :
    run cfg P (n + 1) (.ev (.try_ b cs none)) σ = (s, σ1) := by
  rw [try_none_unfold, h]
  cases s <;> simp_all [catchWith]

example : run guide {} 3 (.ev (.ret (.lit (.int 1)))) {} = (.ret (.int 1), {}) ∧
    ∀ v, Sig.ret (.int 1) ≠ .err v := by
  constructor
  · decide
  · intro v h; cases h

/-- An error that no catch block of the try accepts passes a (normally ending) `finally` block
unchanged: the `finally` block runs from the raise-point state `σ1`, and the try expression's
outcome is the same error `v` with the state the `finally` block left. -/
theorem unaccepted_error_through_finally (m : Nat) (b f : E) (cs : List Catch) (σ σ1 σ2 : St)
    (v w : Val)
    (h1 : run cfg P (m + cs.length + 1) (.ev b) σ = (.err v, σ1))
    (hacc : ∀ c ∈ cs, accepts c.1 v = false)
    (h2 : run cfg P (m + cs.length + 1) (.ev f) σ1 = (.ok w, σ2)) :
    run cfg P (m + cs.length + 1 + 1) (.ev (.try_ b cs (some f))) σ = (.err v, σ2) := by
  rw [finally_decomp, try_none_unfold, h1]
  simp only [catchWith]
  rw [no_accepting_catch cfg P cs v hacc m σ1]
  simp [thenFinally, h2, finish]

example : run guide {} 3 (.ev (.try_ (.fault .idx) [(some .number, 0, .lit .null)]
    (some (.lit (.int 5))))) {} = (.err (errK FaultKind.idx.ek), {}) := by decide

/-- Typed catches that do not accept hand the error to the next enclosing try: if the inner try's
catch blocks all reject `v`, an enclosing untyped `catch x` runs its body with `x` bound to `v` in
the raise-point state `σ1` (nothing the inner try did is visible except through `σ1`). -/
theorem rejected_error_reaches_outer_try (m : Nat) (b body : E) (cs : List Catch) (x : Nat)
    (σ σ1 : St) (v : Val)
    (h1 : run cfg P (m + cs.length + 1) (.ev b) σ = (.err v, σ1))
    (hacc : ∀ c ∈ cs, accepts c.1 v = false) :
    run cfg P (m + cs.length + 1 + 2) (.ev (.try_ (.try_ b cs none) [(none, x, body)] none)) σ =
      run cfg P (m + cs.length + 1) (.ev body) (setLocal σ1 x v) := by
  rw [show m + cs.length + 1 + 2 = (m + cs.length + 1 + 1) + 1 by omega]
  rw [try_none_unfold, try_none_unfold, h1]
  simp only [catchWith]
  rw [no_accepting_catch cfg P cs v hacc m σ1]
  simp only [catchWith]
  rw [catches_cons_unfold]
  simp [accepts, bindCatch]

example : run guide {} 5 (.ev (.try_ (.try_ (.throw (.lit (.int 7))) [(some .string, 0, .lit .null)] none)
    [(none, 0, .var 0)] none)) {} = (.ok (.int 7), { locals := [.int 7] }) := by decide

/-- Catch-and-rethrow keeps the thrown value: `try b catch x: throw x` ends with the same error
value `v` as `b`; the only difference in the state is that `x` now holds `v`. -/
theorem rethrow_preserves_value (n : Nat) (b : E) (x : Nat) (σ σ1 : St) (v : Val)
    (h1 : run cfg P (n + 3) (.ev b) σ = (.err v, σ1)) :
    run cfg P (n + 4) (.ev (.try_ b [(none, x, .throw (.var x))] none)) σ =
      (.err v, setLocal σ1 x v) := by
  rw [show n + 4 = (n + 3) + 1 by omega, try_none_unfold, h1]
  simp only [catchWith]
  rw [show n + 3 = (n + 2) + 1 by omega, catches_cons_unfold]
  simp [run, accepts, bindCatch, getLocal_setLocal]

example : run guide {} 3 (.ev (.throw (.lit (.int 7)))) {} = (.err (.int 7), {}) := by decide

/-- `break` out of a try inside a `for` loop: the `finally` block runs (once, from the state at the
`break`), then the loop ends — the remaining items are not visited — with the state the `finally`
block left. -/
theorem break_in_try_runs_finally_then_leaves_loop (n : Nat) (b f : E) (cs : List Catch) (x : Nat)
    (it : Val) (rest : List Val) (σ σ1 σ2 : St) (w : Val)
    (h1 : run cfg P n (.ev b) (setLocal σ x it) = (.brk, σ1))
    (h2 : run cfg P n (.ev f) σ1 = (.ok w, σ2)) :
    run cfg P (n + 2) (.loopL x (it :: rest) (.try_ b cs (some f))) σ = (.ok .null, σ2) := by
  have hb : run cfg P (n + 1) (.ev (.try_ b cs (some f))) (setLocal σ x it) = (.brk, σ2) := by
    rw [finally_decomp, try_none_unfold, h1]
    simp [catchWith, thenFinally, h2, finish]
  exact loopL_cons_brk cfg P (n + 1) x it rest _ σ σ2 hb

example : run guide {} 2 (.ev .brk) (setLocal {} 0 (.int 1)) = (.brk, setLocal {} 0 (.int 1)) := by
  decide

/-- `continue` out of a try inside a `for` loop: the `finally` block runs (once, from the state at
the `continue`), then the loop goes on with the remaining items from the state the `finally` block
left. -/
theorem continue_in_try_runs_finally_then_continues (n : Nat) (b f : E) (cs : List Catch) (x : Nat)
    (it : Val) (rest : List Val) (σ σ1 σ2 : St) (w : Val)
    (h1 : run cfg P n (.ev b) (setLocal σ x it) = (.cont, σ1))
    (h2 : run cfg P n (.ev f) σ1 = (.ok w, σ2)) :
    run cfg P (n + 2) (.loopL x (it :: rest) (.try_ b cs (some f))) σ =
      run cfg P (n + 1) (.loopL x rest (.try_ b cs (some f))) σ2 := by
  have hb : run cfg P (n + 1) (.ev (.try_ b cs (some f))) (setLocal σ x it) = (.cont, σ2) := by
    rw [finally_decomp, try_none_unfold, h1]
    simp [catchWith, thenFinally, h2, finish]
  exact loopL_cons_cont cfg P (n + 1) x it rest _ σ σ2 hb

example : run guide {} 2 (.ev .cont) (setLocal {} 0 (.int 1)) = (.cont, setLocal {} 0 (.int 1)) := by
  decide

/-- An error escaping a try inside a `for` loop (no catch accepts it) still runs the `finally`
block and then ends the loop with that error: later items are not visited. -/
theorem error_in_loop_try_runs_finally_then_ends_loop (m : Nat) (b f : E) (cs : List Catch)
    (x : Nat) (it : Val) (rest : List Val) (σ σ1 σ2 : St) (v w : Val)
    (h1 : run cfg P (m + cs.length + 1) (.ev b) (setLocal σ x it) = (.err v, σ1))
    (hacc : ∀ c ∈ cs, accepts c.1 v = false)
    (h2 : run cfg P (m + cs.length + 1) (.ev f) σ1 = (.ok w, σ2)) :
    run cfg P (m + cs.length + 1 + 2) (.loopL x (it :: rest) (.try_ b cs (some f))) σ =
      (.err v, σ2) := by
  have h := unaccepted_error_through_finally cfg P m b f cs (setLocal σ x it) σ1 σ2 v w h1 hacc h2
  rw [show m + cs.length + 1 + 2 = (m + cs.length + 1 + 1) + 1 by omega]
  exact loopL_cons_err cfg P _ x it rest _ σ σ2 v h

example : run guide {} 4 (.loopL 0 [.int 1, .int 2] (.try_ (.fault .idx) [] (some (.lit .null)))) {} =
    (.err (errK FaultKind.idx.ek), setLocal {} 0 (.int 1)) := by decide

end KotoVerif.C04Ext2
