/-
C05 extension: theorems about allocator queries the driver exposes (`captures`, `assigned`, `aor`,
`next`, `avail`, `size`, `trunc`, `export`) that the base theorem files do not talk about.
-/
import KotoVerif.Lemmas.C05Frame

namespace KotoVerif.C05Ext
open KotoVerif.Frame

/-! ### capture list: order and content (determinism clause of the property) -/

/-- The capture list is a sub-sequence of the accessed ids: order is inherited, nothing is added. -/
theorem capturesFor_sublist (s : Frame.Frame) (acc : List Nat) :
    (s.capturesFor acc).Sublist acc := by
  unfold Frame.capturesFor
  exact List.filter_sublist

/-- Capture selection is per id: it distributes over concatenation of accessed lists. -/
theorem capturesFor_append (s : Frame.Frame) (a b : List Nat) :
    s.capturesFor (a ++ b) = s.capturesFor a ++ s.capturesFor b := by
  simp [Frame.capturesFor]

/-- Selecting captures twice selects nothing new (idempotence). -/
theorem capturesFor_idem (s : Frame.Frame) (acc : List Nat) :
    s.capturesFor (s.capturesFor acc) = s.capturesFor acc := by
  simp [Frame.capturesFor, List.filter_filter]

/-- `lookupLocal` finds something exactly when some local entry carries the id. -/
theorem lookupLocal_unassigned_iff (id : Nat) (ls : List Local) (i : Nat) :
    lookupLocal id ls i = .unassigned ↔
      ls.any (fun l => match l with
        | .assigned a => a == id
        | .reserved a _ => a == id
        | .allocated => false) = false := by
  induction ls generalizing i with
  | nil => simp [lookupLocal]
  | cons l ls ih =>
    cases l with
    | assigned a =>
      by_cases h : a = id
      · simp [lookupLocal, h]
      · simp [lookupLocal, h, ih]
    | reserved a d =>
      by_cases h : a = id
      · simp [lookupLocal, h]
      · simp [lookupLocal, h, ih]
    | allocated => simp [lookupLocal, ih]

/-- Content of the capture list: exactly the accessed ids that `get_local_assigned_or_reserved_register`
resolves in this frame, or that were exported. -/
theorem capturesFor_mem_iff (s : Frame.Frame) (acc : List Nat) (id : Nat) :
    id ∈ s.capturesFor acc ↔
      id ∈ acc ∧ (s.getAssignedOrReserved id ≠ .unassigned ∨ id ∈ s.exported) := by
  have h := lookupLocal_unassigned_iff id s.locals 0
  unfold Frame.capturesFor Frame.getAssignedOrReserved
  simp only [List.mem_filter, Bool.or_eq_true, ne_eq, h, Bool.not_eq_false, List.contains_iff_mem]
  exact Iff.rfl

example : (Frame.capturesFor { locals := [.allocated, .assigned 7, .reserved 9 []], exported := [4] }
    [9, 5, 4, 7]) = [9, 4, 7] := by decide

/-- The capture list does not depend on the temporaries (register stack, counters). -/
theorem capturesFor_ignores_temporaries (s : Frame.Frame) (st : List Nat) (tb tc used : Nat)
    (acc : List Nat) :
    ({ s with stack := st, tb := tb, tc := tc, used := used } : Frame.Frame).capturesFor acc
      = s.capturesFor acc := rfl

/-- push / pop / peek / truncate never change the capture list of any accessed set. -/
theorem capturesFor_stable_temps (s : Frame.Frame) (h : Inv s) (acc : List Nat) :
    (∀ s' r, s.pushRegister = .ok s' r → s'.capturesFor acc = s.capturesFor acc)
    ∧ (∀ s' r, s.popRegister = .ok s' r → s'.capturesFor acc = s.capturesFor acc)
    ∧ (∀ c s', s.truncate c = .ok s' () → s'.capturesFor acc = s.capturesFor acc) := by
  refine ⟨?_, ?_, ?_⟩
  · intro s' r hp
    rcases push_spec s h with ⟨_, he⟩ | ⟨_, s1, he, _, _, _, hl⟩
    · rw [he] at hp; cases hp
    · rw [he] at hp; cases hp
      have hx : s'.exported = s.exported := by
        simp only [Frame.pushRegister] at he
        split at he
        · cases he
        · split at he
          · cases he
          · cases he; rfl
      simp [Frame.capturesFor, hl, hx]
  · intro s' r hp
    have hx : s'.exported = s.exported ∧ s'.locals = s.locals := by
      simp only [Frame.popRegister] at hp
      split at hp
      · cases hp
      · split at hp
        · split at hp
          · cases hp
          · cases hp; exact ⟨rfl, rfl⟩
        · cases hp; exact ⟨rfl, rfl⟩
    simp [Frame.capturesFor, hx.1, hx.2]
  · intro c s' ht
    have key : ∀ fuel (t t' : Frame.Frame), Frame.truncateFuel fuel t c = .ok t' () →
        t'.exported = t.exported ∧ t'.locals = t.locals := by
      intro fuel
      induction fuel with
      | zero => intro t t' e; simp only [Frame.truncateFuel] at e; cases e; exact ⟨rfl, rfl⟩
      | succ n ih =>
        intro t t' e
        simp only [Frame.truncateFuel] at e
        split at e
        · cases hpop : t.popRegister with
          | ok t1 r1 =>
            rw [hpop] at e
            have h1 : t1.exported = t.exported ∧ t1.locals = t.locals := by
              simp only [Frame.popRegister] at hpop
              split at hpop
              · cases hpop
              · split at hpop
                · split at hpop
                  · cases hpop
                  · cases hpop; exact ⟨rfl, rfl⟩
                · cases hpop; exact ⟨rfl, rfl⟩
            have h2 := ih t1 t' e
            exact ⟨h2.1.trans h1.1, h2.2.trans h1.2⟩
          | err t1 e1 => rw [hpop] at e; cases e
          | panic => rw [hpop] at e; cases e
        · cases e; exact ⟨rfl, rfl⟩
    have hx := key _ s s' ht
    simp [Frame.capturesFor, hx.1, hx.2]

/-! ### exported ids -/

/-- `add_to_exported_ids` is idempotent and makes the id exported. -/
theorem addExported_idem (s : Frame.Frame) (id : Nat) :
    (s.addExported id).addExported id = s.addExported id ∧ id ∈ (s.addExported id).exported := by
  by_cases h : s.exported.contains id = true
  · have hm : id ∈ s.exported := by simpa using h
    simp [Frame.addExported, hm]
  · have hm : id ∉ s.exported := by simpa using h
    simp [Frame.addExported, hm]

/-- The exported set never holds duplicates (it models a `HashSet`). -/
theorem addExported_nodup (s : Frame.Frame) (id : Nat) (h : s.exported.Nodup) :
    (s.addExported id).exported.Nodup := by
  by_cases hc : s.exported.contains id = true
  · have hm : id ∈ s.exported := by simpa using hc
    simpa [Frame.addExported, hm] using h
  · have hm : id ∉ s.exported := by simpa using hc
    simp [Frame.addExported, hm, h]

/-- Exporting commutes up to membership: the set of exported ids after two exports does not depend on
the order. -/
theorem addExported_comm_mem (s : Frame.Frame) (a b x : Nat) :
    x ∈ ((s.addExported a).addExported b).exported ↔ x ∈ ((s.addExported b).addExported a).exported := by
  have key : ∀ (t : Frame.Frame) (i y : Nat), y ∈ (t.addExported i).exported ↔ y = i ∨ y ∈ t.exported := by
    intro t i y
    by_cases hc : t.exported.contains i = true
    · have hm : i ∈ t.exported := by simpa using hc
      simp only [Frame.addExported, hc, if_true]
      constructor
      · intro h; exact Or.inr h
      · rintro (h | h)
        · exact h ▸ hm
        · exact h
    · have hm : i ∉ t.exported := by simpa using hc
      simp [Frame.addExported, hm]
  rw [key, key, key, key]
  constructor
  · rintro (h | h | h)
    · exact Or.inr (Or.inl h)
    · exact Or.inl h
    · exact Or.inr (Or.inr h)
  · rintro (h | h | h)
    · exact Or.inr (Or.inl h)
    · exact Or.inl h
    · exact Or.inr (Or.inr h)

/-- Exporting only enlarges capture lists (as sub-sequences of the same accessed list). -/
theorem capturesFor_mono_export (s : Frame.Frame) (id : Nat) (acc : List Nat) :
    (s.capturesFor acc).Sublist ((s.addExported id).capturesFor acc) := by
  unfold Frame.capturesFor
  induction acc with
  | nil => simp
  | cons a as ih =>
    have hl : (s.addExported id).locals = s.locals := by
      unfold Frame.addExported; split <;> rfl
    have hm : ∀ y, y ∈ s.exported → y ∈ (s.addExported id).exported := by
      intro y hy
      unfold Frame.addExported; split
      · exact hy
      · exact List.mem_cons_of_mem _ hy
    rw [hl] at ih ⊢
    simp only [List.filter_cons]
    split
    · rename_i hp
      split
      · exact ih.cons_cons a
      · rename_i hq
        exfalso; apply hq
        rcases Bool.or_eq_true _ _ |>.mp hp with h1 | h2
        · exact Bool.or_eq_true _ _ |>.mpr (Or.inl h1)
        · have : a ∈ (s.addExported id).exported := hm a (by simpa using h2)
          exact Bool.or_eq_true _ _ |>.mpr (Or.inr (by simpa using this))
    · split
      · exact ih.cons a
      · exact ih

/-! ### local lookups agree -/

/-- If `get_local_assigned_or_reserved_register` says `Assigned(r)`, then
`get_local_assigned_register` returns the same register. -/
theorem lookup_assigned_agrees (id : Nat) (ls : List Local) (i r : Nat)
    (h : lookupLocal id ls i = .assigned r) :
    (findIdx (fun l => l == .assigned id) ls i).map asU8 = some r := by
  induction ls generalizing i with
  | nil => simp [lookupLocal] at h
  | cons l ls ih =>
    cases l with
    | assigned a =>
      by_cases ha : a = id
      · subst ha; simp [lookupLocal] at h; simp [findIdx, h]
      · simp [lookupLocal, ha] at h; simp [findIdx, ha]; simpa using ih _ h
    | reserved a d =>
      by_cases ha : a = id
      · simp [lookupLocal, ha] at h
      · simp [lookupLocal, ha] at h; simp [findIdx]; simpa using ih _ h
    | allocated => simp [lookupLocal] at h; simp [findIdx]; simpa using ih _ h

theorem getAssigned_of_aor (s : Frame.Frame) (id r : Nat)
    (h : s.getAssignedOrReserved id = .assigned r) : s.getAssigned id = some r :=
  lookup_assigned_agrees id s.locals 0 r h

example : (Frame.getAssignedOrReserved { locals := [.allocated, .reserved 3 [], .assigned 5] } 5)
    = .assigned 2 := by decide

/-! ### temporaries: queries and exact truncate -/

/-- Under the invariant the queries never overflow, and `push_register` succeeds exactly when
`available_registers_count` is non-zero. -/
theorem available_spec (s : Frame.Frame) (h : Inv s) :
    s.nextTemporary = some (s.tb + s.tc)
    ∧ s.availableRegisters = some (255 - (s.tb + s.tc))
    ∧ s.stackSize = s.tc
    ∧ ((∃ s' r, s.pushRegister = .ok s' r) ↔ s.availableRegisters ≠ some 0) := by
  have hb := h.bound
  have hn : s.nextTemporary = some (s.tb + s.tc) := by
    simp [Frame.nextTemporary, u8Max, Nat.add_comm, hb]
  have ha : s.availableRegisters = some (255 - (s.tb + s.tc)) := by
    simp [Frame.availableRegisters, hn, u8Max]
  refine ⟨hn, ha, by simp [Frame.stackSize, h.stack, tempsDesc_length], ?_⟩
  rw [ha]
  rcases push_spec s h with ⟨he, hp⟩ | ⟨hlt, s1, hp, _⟩
  · constructor
    · rintro ⟨s', r, hq⟩; rw [hp] at hq; cases hq
    · intro hne; exfalso; apply hne; congr 1; omega
  · constructor
    · intro _ hc; have := Option.some.inj hc; omega
    · intro _; exact ⟨s1, _, hp⟩

example : Inv { tb := 3, tc := 0, used := 0, locals := [.allocated] } :=
  ⟨by decide, by decide, by decide, by decide, by decide⟩

/-- `truncate_register_stack(count)` leaves exactly `min size count` temporaries. -/
theorem truncateFuel_exact (fuel : Nat) (s : Frame.Frame) (h : Inv s) (count : Nat)
    (hf : s.tc ≤ fuel + count) :
    ∃ s', Frame.truncateFuel fuel s count = .ok s' () ∧ Inv s' ∧ s'.tb = s.tb
      ∧ s'.tc = min s.tc count := by
  induction fuel generalizing s with
  | zero => exact ⟨s, rfl, h, rfl, by omega⟩
  | succ fuel ih =>
    have hl : s.stack.length = s.tc := by rw [h.stack, tempsDesc_length]
    simp only [Frame.truncateFuel]
    by_cases hc : s.stack.length > count
    · rw [if_pos hc]
      rcases pop_spec s h with ⟨h0, _⟩ | ⟨_, s1, hp, hi, hw, htc, _, _⟩
      · omega
      · rw [hp]
        obtain ⟨s2, h2, hi2, htb2, htc2⟩ := ih s1 hi (by omega)
        exact ⟨s2, h2, hi2, htb2.trans hw.tb, by omega⟩
    · rw [if_neg hc]
      exact ⟨s, rfl, h, rfl, by omega⟩

theorem truncate_exact (s : Frame.Frame) (h : Inv s) (count : Nat) :
    ∃ s', s.truncate count = .ok s' () ∧ Inv s' ∧ s'.stackSize = min s.stackSize count
      ∧ s'.nextTemporary = some (s.tb + min s.tc count) := by
  have hl : s.stack.length = s.tc := by rw [h.stack, tempsDesc_length]
  obtain ⟨s', he, hi, htb, htc⟩ := truncateFuel_exact s.stack.length s h count (by omega)
  refine ⟨s', he, hi, ?_, ?_⟩
  · rw [(available_spec s' hi).2.2.1, Frame.stackSize, hl, htc]
  · rw [(available_spec s' hi).1, htb, htc]

/-- Truncating twice to the same size is the same as once (idempotence on the observable sizes). -/
theorem truncate_idem (s : Frame.Frame) (h : Inv s) (count : Nat) :
    ∃ s1 s2, s.truncate count = .ok s1 () ∧ s1.truncate count = .ok s2 ()
      ∧ s2.stackSize = s1.stackSize ∧ s2.nextTemporary = s1.nextTemporary := by
  obtain ⟨s1, h1, i1, z1, n1⟩ := truncate_exact s h count
  obtain ⟨s2, h2, i2, z2, n2⟩ := truncate_exact s1 i1 count
  refine ⟨s1, s2, h1, h2, ?_, ?_⟩
  · rw [z2, z1]; omega
  · have a1 := (available_spec s1 i1)
    have e1 : s1.tb + s1.tc = s.tb + min s.tc count := by
      have := a1.1; rw [n1] at this; exact (Option.some.inj this).symm
    rw [n2, n1]
    have hz : s1.tc = s1.stackSize := a1.2.2.1.symm
    congr 1
    rw [hz, z1] at e1 ⊢
    have : s.stackSize = s.tc := (available_spec s h).2.2.1
    omega

/-! ### histories compose -/

/-- The model loses the state only on a panic. -/
theorem step_none_panic (s : Frame.Frame) (op : FOp) (o : Obs) (h : s.step op = (none, o)) :
    o = .panic := by
  cases op <;> simp only [Frame.step] at h
  case push => cases hx : s.pushRegister <;> simp_all [liftReg]
  case pop => cases hx : s.popRegister <;> simp_all [liftReg]
  case peek n => cases hx : s.peekRegister n <;> simp_all [liftReg]
  case truncate c => cases hx : s.truncate c <;> simp_all [liftUnit]
  case assign id => cases hx : s.assignLocal id <;> simp_all [liftReg]
  case reserve id => cases hx : s.reserveLocal id <;> simp_all [liftReg]
  case commit r => cases hx : s.commitLocal r <;> simp_all
  case defer r b => cases hx : s.deferOp r b <;> simp_all [liftUnit]
  case export_ id => simp_all

/-- Histories compose: a failure-free prefix can be run first and the rest from the state it reaches;
states and observations concatenate (so a compile is a function of the op sequence alone). -/
theorem run_append (s : Frame.Frame) (a b : List FOp)
    (h : ∀ o ∈ (s.run a).2, o.isFailure = false) :
    s.run (a ++ b) = (((s.run a).1.run b).1, (s.run a).2 ++ ((s.run a).1.run b).2) := by
  induction a generalizing s with
  | nil => simp [Frame.run]
  | cons op ops ih =>
    rcases hs : s.step op with ⟨fs, o⟩
    cases fs with
    | none =>
      have := step_none_panic s op o hs; subst this
      simp [Frame.run, hs, Obs.isFailure] at h
    | some s1 =>
      cases o with
      | error e => simp [Frame.run, hs, Obs.isFailure] at h
      | _ =>
        simp only [List.cons_append, Frame.run, hs] at h ⊢
        have := ih s1 (fun o ho => h o (by simp [ho]))
        simp [this]

example : ∀ o ∈ (Frame.run { tb := 3 } [.push, .push, .pop]).2, o.isFailure = false := by decide

end KotoVerif.C05Ext
