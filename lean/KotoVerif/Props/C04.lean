/-
C04 — Errors unwind to the right handler; finally always runs.

Part A: theorems about the guide-level evaluator `Try.run` (all programs of the mini language, all
fuel, both configurations).  Part B: the mechanism model `Mech` (the implementation's
try/catch/finally code layout on a frame / catch-stack machine): the partial theorem that holds and
the negations, with concrete witnesses, where the code deviates from the guide.
-/
import KotoVerif.Lemmas.C04
import KotoVerif.Lemmas.C04Unwind
import KotoVerif.Lemmas.C04Refine
import KotoVerif.Model.TryMech
import KotoVerif.Model.TryBuilders

namespace KotoVerif.C04

open KotoVerif.Try

variable (cfg : Cfg) (P : Prog)

/-! ## A. guide level -/

/-- An error that comes out of the try block — raised at any depth below it, see
`handler_innermost_deep` — is handed to this try's catch chain (the dynamically innermost enclosing
one: the body's outcome is `err` only if no try inside it accepted the error), together with the
state at the raise point. -/
theorem handler_innermost (n : Nat) (b : E) (cs : List Catch) (σ σ1 : St) (v : Val)
    (h : run cfg P n (.ev b) σ = (.err v, σ1)) :
    run cfg P (n + 1) (.ev (.try_ b cs none)) σ = run cfg P n (.catches cs v) σ1 := by
  simp only [run, h, catchWith]

example : run guide {} 5 (.ev (.try_ (.throw (.lit (.int 7))) [(none, 0, .var 0)] none)) {} =
    (.ok (.int 7), { locals := [.int 7] }) := by decide

/-- The same with a `finally` block: the catch chain first, then the `finally` block once. -/
theorem handler_innermost_fin (n : Nat) (b f : E) (cs : List Catch) (σ σ1 : St) (v : Val)
    (h : run cfg P n (.ev b) σ = (.err v, σ1)) :
    run cfg P (n + 1) (.ev (.try_ b cs (some f))) σ =
      thenFinally (run cfg P n (.catches cs v) σ1) (fun σ2 => run cfg P n (.ev f) σ2) := by
  simp only [run, h, catchWith]

/-- **Across any number of calls and native boundaries.** `Path k (t, σ) (t', σ')`: evaluating `t`
in `σ` reaches the sub-evaluation of `t'` in `σ'` through `k` links, none of which is a try block
(sequence positions, argument lists, function bodies, native-adaptor callbacks `each/keep/fold/sort`,
loop bodies, generator segments, overloaded-operator bodies, catch blocks of a try without finally;
see `Lemmas/C04Unwind.lean`). If the inner evaluation raises `v`, the outer one raises the same `v`
with the heap and the trace of the raise point. -/
theorem handler_innermost_deep (k n : Nat) (t t' : Task) (σ σ' σ1 : St) (v : Val)
    (hp : Path guide P k n (t, σ) (t', σ')) (h : run guide P n t' σ' = (.err v, σ1)) :
    ∃ σ2, run guide P (n + k) t σ = (.err v, σ2) ∧ σ2.heap = σ1.heap ∧ σ2.out = σ1.out :=
  path_err_transparent P k n t t' σ σ' σ1 v hp h

/-- …and therefore the innermost enclosing try receives it, with the raise-point heap and trace. -/
theorem handler_innermost_through (k n : Nat) (b : E) (cs : List Catch) (t' : Task) (σ σ' σ1 : St)
    (v : Val) (hp : Path guide P k n (.ev b, σ) (t', σ')) (h : run guide P n t' σ' = (.err v, σ1)) :
    ∃ σ2, run guide P (n + k + 1) (.ev (.try_ b cs none)) σ = run guide P (n + k) (.catches cs v) σ2 ∧
      σ2.heap = σ1.heap ∧ σ2.out = σ1.out := by
  obtain ⟨σ2, h2, hh, ho⟩ := path_err_transparent P k n _ t' σ σ' σ1 v hp h
  exact ⟨σ2, by simp only [run, h2, catchWith], hh, ho⟩

/-- Catch blocks are tried in source order: the first whose argument accepts the value — no hint,
a type hint, or a map pattern all of whose keys the thrown map has — runs, with the value (or the
pattern's entries) bound. -/
theorem typed_catch_order (pre : List Catch) (ty : Option Ty) (x : Nat) (body : E) (rest : List Catch)
    (v : Val) (hpre : ∀ c ∈ pre, accepts c.1 v = false) (hacc : accepts ty v = true) (n : Nat) (σ : St) :
    run cfg P (n + pre.length + 1) (.catches (pre ++ (ty, x, body) :: rest) v) σ =
      run cfg P n (.ev body) (bindCatch σ ty x v) := by
  induction pre with
  | nil => simp [run, hacc]
  | cons c pre ih =>
    obtain ⟨ty', x', body'⟩ := c
    have h1 : accepts ty' v = false := hpre (ty', x', body') (by simp)
    have h2 := ih (fun c hc => hpre c (by simp [hc]))
    simp only [List.length_cons, List.cons_append]
    rw [show n + (pre.length + 1) + 1 = (n + pre.length + 1) + 1 by omega]
    simp only [run, h1]
    exact h2

example : run guide {} 6 (.catches [(some .number, 0, .lit (.int 1)), (some .string, 0, .lit (.int 2)),
    (none, 0, .lit (.int 3))] (.str (.lit 0))) {} = (.ok (.int 2), { locals := [.str (.lit 0)] }) := by
  decide

/-- No catch block accepts — in particular a map pattern in the *last* catch block that does not
match (finding F-C04-9: the code used to swallow the error there) —: the error continues outwards
unchanged, state untouched. -/
theorem no_accepting_catch (cs : List Catch) (v : Val) (h : ∀ c ∈ cs, accepts c.1 v = false)
    (n : Nat) (σ : St) :
    run cfg P (n + cs.length + 1) (.catches cs v) σ = (.err v, σ) := by
  induction cs with
  | nil => simp [run]
  | cons c cs ih =>
    obtain ⟨ty', x', body'⟩ := c
    have h1 : accepts ty' v = false := h (ty', x', body') (by simp)
    have h2 := ih (fun c hc => h c (by simp [hc]))
    simp only [List.length_cons]
    rw [show n + (cs.length + 1) + 1 = (n + cs.length + 1) + 1 by omega]
    simp only [run, h1]
    exact h2

/-- **finally runs exactly once, on every exit path** (decomposition form): a try with a `finally`
block is the same try without it, followed by exactly one evaluation of the `finally` block from the
state reached — whatever the outcome `s1` so far: normal, caught error, error escaping a catch
block, `return`, `break`, `continue`. -/
theorem finally_decomp (n : Nat) (b f : E) (cs : List Catch) (σ : St) :
    run cfg P (n + 1) (.ev (.try_ b cs (some f))) σ =
      thenFinally (run cfg P (n + 1) (.ev (.try_ b cs none)) σ) (fun σ1 => run cfg P n (.ev f) σ1) := by
  simp only [run]

/-- the `finally` block `emit m; f` (with `f` unable to emit `m`) adds exactly one `m` -/
theorem fin_block_once (m : Nat) (hP : ProgNoEmit m P) (f : E) (hf : NoEmit m f) (k : Nat) (σ1 σ2 : St)
    (s2 : Sig) (h : run cfg P k (.ev (.seq [.emit m none, f])) σ1 = (s2, σ2)) (hs : s2 ≠ .oof) :
    countTag m σ2.out = countTag m σ1.out + 1 := by
  match k with
  | 0 => simp [run] at h; exact absurd h.1.symm hs
  | 1 => simp [run] at h; exact absurd h.1.symm hs
  | 2 => simp [run] at h; exact absurd h.1.symm hs
  | k + 3 =>
    simp only [run] at h
    have hseq : TaskNoEmit m (.seq [f] .null) := by
      intro e he; simp at he; subst he; exact hf
    have := noEmit_run cfg P m hP (k + 1) (.seq [f] .null) (emitEv σ1 ⟨m, none⟩) s2 σ2 hseq h
    rw [this]
    simp [countTag]

/-- **finally_once**: if the try block, the catch blocks and the rest of the `finally` block cannot
emit the marker `m` (nor can any definition of the program), the `finally` block's entry marker `m`
occurs exactly once more in the trace after `try b cs finally (emit m; f)` than before it — for
every exit path (`s` is any of ok / err / ret / brk / cont), any state, any fuel that suffices. -/
theorem finally_once (m : Nat) (hP : ProgNoEmit m P) (b f : E) (cs : List Catch) (hb : NoEmit m b)
    (hcs : ∀ c ∈ cs, NoEmit m c.2.2) (hf : NoEmit m f) (n : Nat) (σ σ' : St) (s : Sig)
    (h : run cfg P (n + 1) (.ev (.try_ b cs (some (.seq [.emit m none, f])))) σ = (s, σ'))
    (hs : s ≠ .oof) :
    countTag m σ'.out = countTag m σ.out + 1 := by
  rw [finally_decomp] at h
  have hne : TaskNoEmit m (.ev (.try_ b cs none)) :=
    NoEmit.try_ b cs none hb hcs (fun _ hh => by cases hh)
  cases h1 : run cfg P (n + 1) (.ev (.try_ b cs none)) σ with
  | mk s1 σ1 =>
    have hc := noEmit_run cfg P m hP (n + 1) _ σ s1 σ1 hne h1
    rw [h1] at h
    cases h2 : run cfg P n (.ev (.seq [.emit m none, f])) σ1 with
    | mk s2 σ2 =>
      have hfin : s1 ≠ .oof → (s2 ≠ .oof) → countTag m σ2.out = countTag m σ1.out + 1 :=
        fun _ h2' => fin_block_once cfg P m hP f hf n σ1 σ2 s2 h2 h2'
      cases s1 <;> cases s2 <;> simp_all [finish, thenFinally] <;> (obtain ⟨rfl, rfl⟩ := h) <;> simp_all

/-- all six exit paths are inhabited (non-vacuity): normal, caught, error escaping the catch block,
return, break, continue — the marker `9` appears exactly once each time -/
example : (List.map (fun b : E =>
      let r := run guide {} 12 (.ev (.try_ b [(none, 0, .ite (.var 0) (.throw (.lit (.int 2))) (.lit .null))]
        (some (.seq [.emit 9 none, .lit .null])))) {}
      (r.1, countTag 9 r.2.out))
    [.lit (.int 1), .throw (.lit .null), .throw (.lit (.int 1)), .ret (.lit (.int 5)), .brk, .cont]) =
    [(.ok .null, 1), (.ok .null, 1), (.err (.int 2), 1), (.ret (.int 5), 1), (.brk, 1), (.cont, 1)] := by
  decide

/-- **finally_value**: when the outcome so far is normal, the value of the expression is the value
of the `finally` block. -/
theorem finally_value (n : Nat) (b f : E) (cs : List Catch) (σ σ1 σ2 : St) (v1 v2 : Val)
    (h1 : run cfg P (n + 1) (.ev (.try_ b cs none)) σ = (.ok v1, σ1))
    (h2 : run cfg P n (.ev f) σ1 = (.ok v2, σ2)) :
    run cfg P (n + 1) (.ev (.try_ b cs (some f))) σ = (.ok v2, σ2) := by
  rw [finally_decomp, h1]
  simp [h2, finish, thenFinally]

/-- without a `finally` block the value is the try block's … -/
theorem try_value_normal (n : Nat) (b : E) (cs : List Catch) (σ σ1 : St) (v : Val)
    (h : run cfg P n (.ev b) σ = (.ok v, σ1)) :
    run cfg P (n + 1) (.ev (.try_ b cs none)) σ = (.ok v, σ1) := by
  simp only [run, h, catchWith]

/-- … or the value of the catch block that ran. -/
theorem try_value_caught (n : Nat) (b : E) (cs : List Catch) (σ σ1 σ2 : St) (v w : Val)
    (h : run cfg P n (.ev b) σ = (.err v, σ1)) (hc : run cfg P n (.catches cs v) σ1 = (.ok w, σ2)) :
    run cfg P (n + 1) (.ev (.try_ b cs none)) σ = (.ok w, σ2) := by
  simp only [run, h, hc, catchWith]

/-- a pending abrupt outcome (error escaping the catch block, return, break, continue) continues
after a `finally` block that completes normally -/
theorem finally_then_continue (n : Nat) (b f : E) (cs : List Catch) (σ σ1 σ2 : St) (s1 : Sig) (v2 : Val)
    (h1 : run cfg P (n + 1) (.ev (.try_ b cs none)) σ = (s1, σ1))
    (hs : s1 = .brk ∨ s1 = .cont ∨ (∃ v, s1 = .ret v) ∨ (∃ v, s1 = .err v))
    (h2 : run cfg P n (.ev f) σ1 = (.ok v2, σ2)) :
    run cfg P (n + 1) (.ev (.try_ b cs (some f))) σ = (s1, σ2) := by
  rw [finally_decomp, h1]
  rcases hs with rfl | rfl | ⟨v, rfl⟩ | ⟨v, rfl⟩ <;> simp [h2, finish, thenFinally]

/-- **state_after_catch**: the catch block that accepts the error starts in the state of the raise
point — same heap, same trace, the frame's locals — plus the binding of the caught value. -/
theorem state_after_catch (n : Nat) (b : E) (pre : List Catch) (ty : Option Ty) (x : Nat) (body : E)
    (rest : List Catch) (σ σ1 : St) (v : Val)
    (h : run cfg P (n + pre.length + 1) (.ev b) σ = (.err v, σ1))
    (hpre : ∀ c ∈ pre, accepts c.1 v = false) (hacc : accepts ty v = true) :
    run cfg P (n + pre.length + 2) (.ev (.try_ b (pre ++ (ty, x, body) :: rest) none)) σ =
      run cfg P n (.ev body) (bindCatch σ1 ty x v) ∧
    (bindCatch σ1 ty x v).heap = σ1.heap ∧ (bindCatch σ1 ty x v).out = σ1.out ∧
    ((∀ ks, ty ≠ some (.keys ks)) → ∀ y, y ≠ x → getLocal (bindCatch σ1 ty x v) y = getLocal σ1 y) := by
  refine ⟨?_, bindCatch_heap _ _ _ _, bindCatch_out _ _ _ _, ?_⟩
  · rw [show n + pre.length + 2 = (n + pre.length + 1) + 1 by omega,
      handler_innermost cfg P (n + pre.length + 1) b _ σ σ1 v h]
    exact typed_catch_order cfg P pre ty x body rest v hpre hacc n σ1
  · intro hty y hy
    rw [bindCatch_plain σ1 ty x v hty]
    simp only [getLocal, setLocal]
    rw [List.getD_eq_getElem?_getD, List.getD_eq_getElem?_getD, List.getElem?_set_ne (Ne.symm hy)]
    by_cases hlt : y < σ1.locals.length
    · rw [List.getElem?_append_left hlt]
    · have hge : σ1.locals.length ≤ y := Nat.le_of_not_lt hlt
      rw [List.getElem?_append_right hge, List.getElem?_eq_none hge]
      by_cases h2 : y - σ1.locals.length < x + 1 - σ1.locals.length
      · simp [h2]
      · simp [h2]

/-- a map pattern: matching, missing key (next block), not a map (next block), and — in last
position — no match at all: the error leaves the try unchanged -/
example : (List.map (fun v : Val =>
      (run guide {} 9 (.ev (.try_ (.throw (.lit v))
        [(some (.keys [0, 2]), 0, .bin .add (.var 0) (.var 1)), (some (.keys [1]), 0, .lit (.int 7))] none)) {}).1)
    [.mp [(0, 1), (2, 5)], .mp [(1, 3)], .mp [(0, 1)], .str (.lit 4)]) =
    [.ok (.int 6), .ok (.int 7), .err (.mp [(0, 1)]), .err (.str (.lit 4))] := by decide

/-- the raise point itself: `throw` and every failing primitive raise in the current state -/
theorem raise_state_throw (n : Nat) (e : E) (σ σ1 : St) (v : Val)
    (h : run cfg P n (.ev e) σ = (.ok v, σ1)) :
    run cfg P (n + 1) (.ev (.throw e)) σ = (.err v, σ1) := by
  simp only [run, h]

theorem raise_state_fault (n : Nat) (k : FaultKind) (σ : St) :
    run cfg P (n + 1) (.ev (.fault k)) σ = (.err (errK k.ek), σ) := by
  simp only [run]

/-- a failing call leaves the caller's locals as they were when the call was made (this is what
finding F-C04-2 breaks in the implementation) -/
theorem state_after_failed_call (n : Nat) (f : Nat) (args : List Val) (d : Def) (σ σ1 : St) (v : Val)
    (hd : P.defs[f]? = some d) (hg : d.isGen = false) (ha : args.length = d.nparams)
    (h : run cfg P n (.ev d.body)
        { σ with locals := args ++ List.replicate (d.nlocals - args.length) Val.null } = (.err v, σ1)) :
    run cfg P (n + 1) (.callF f args) σ = (.err v, { σ1 with locals := σ.locals }) := by
  have hlt : ¬ (args.length < d.nparams) := by omega
  have hgt : ¬ (args.length > d.nparams) := by omega
  simp only [run, hd, hg, hlt, hgt, h, callResult_err, Bool.false_eq_true, ↓reduceIte]

/-- a function pushes to a global list and throws; the assignment target keeps its value, the
catch block sees the pushed element -/
def exFailedCall : Prog :=
  { nglobals := 1
    defs := [{ nparams := 1, nlocals := 1,
               body := E.seq [E.push (E.gvar 0) (E.var 0), E.throw (E.lit (Val.str (Str.lit 3)))] }]
    mainLocals := 2
    main := E.seq [E.assign 0 (E.lit (Val.int 1)),
      E.try_ (E.assign 0 (E.call 0 [E.lit (Val.int 5)])) [(none, 1, E.emit 2 (some (E.gvar 0)))] none,
      E.var 0] }

example : runProg guide exFailedCall 20 =
    (.ok (.int 1), { locals := [], heap := [[.int 5]], out := [⟨2, some (.toks (.list 0) [.str .lb, .int 5, .str .rb])⟩] }) := by decide

/-- **F-C04-12 on the guide level**: an error raised by a `@display` function — here of an object
two containers deep in the value being printed — is the error of the printing expression,
unchanged (the code used to replace it by the string `failed to get display value`); the marker
line is not printed, the `@display` calls made before it are visible. -/
def exDisplay : Prog :=
  { classes := [{ dispFn := some 0 }]
    defs := [{ nparams := 1, nlocals := 1, body := .seq [.emit 9 none, .throw (.lit (.int 42))] }]
    mainLocals := 2
    main := .seq [.assign 0 (.mkList [.lit (.int 7), .mkList [.mkObj 0]]),
      .try_ (.emit 1 (some (.var 0))) [(some .number, 1, .emit 2 (some (.var 1)))] none] }

example : (runProg guide exDisplay 40).2.out =
    [⟨9, none⟩, ⟨2, some (.toks (.int 42) [.int 42])⟩] := by decide

/-- **uncaught_result**: an error that reaches the top of the program ends the run with an error
result carrying the thrown value (the driver prints its message). -/
theorem uncaught_result (n : Nat) (σ1 : St) (v : Val)
    (h : run cfg P n (.ev P.main) (initSt P) = (.err v, σ1)) :
    runProg cfg P n = (.err v, { σ1 with locals := [] }) := by
  simp [runProg, h, callResult]

/-- with no try on the path from the program's top to the raise point, the run result is the error -/
theorem uncaught_result_deep (k n : Nat) (t' : Task) (σ' σ1 : St) (v : Val)
    (hp : Path guide P k n (.ev P.main, initSt P) (t', σ')) (h : run guide P n t' σ' = (.err v, σ1)) :
    ∃ σ2, runProg guide P (n + k) = (.err v, σ2) ∧ σ2.heap = σ1.heap ∧ σ2.out = σ1.out := by
  obtain ⟨σ2, h2, hh, ho⟩ := path_err_transparent P k n _ t' _ σ' σ1 v hp h
  exact ⟨{ σ2 with locals := [] }, by simp [runProg, h2, callResult], hh, ho⟩

example : runProg guide { main := .seq [.emit 1 none, .throw (.lit (.str (.lit 4))), .emit 2 none] } 9 =
    (.err (.str (.lit 4)), { out := [⟨1, none⟩] }) := by decide


open KotoVerif.Mech

/-! ## B. mechanism -/

/-- tags of the trace of the guide-level evaluator -/
def guideTags (P : Prog) (fuel : Nat) : List Nat := (runProg guide P fuel).2.out.map (·.tag)

/-- trace of the mechanism model on the same program -/
def mechTags (P : Prog) (fuel : Nat) : Option (List Nat) := (compileProg P).map (fun c => (exec c fuel).out)

/-- `unwind` resumes at the catch entry of the first frame from the top that has one — the
dynamically innermost open try — whatever frames (Koto calls, native-callback frames with a
barrier) lie above it; those frames are discarded. -/
theorem mech_handler_innermost (v : Val) (above : List Frame) (f : Frame) (below : List Frame)
    (reg ip d : Nat) (cs : List (Nat × Nat × Nat))
    (habove : ∀ g ∈ above, g.catchStack = []) (hf : f.catchStack = (reg, ip, d) :: cs) :
    unwind v (above ++ f :: below) =
      some ({ f with ip := ip, regs := (reg, v) :: f.regs,
                     loops := f.loops.drop (f.loops.length - d) } :: below) := by
  induction above with
  | nil => simp [unwind, hf]
  | cons g above ih =>
    have hg : g.catchStack = [] := habove g (by simp)
    have := ih (fun g hg => habove g (by simp [hg]))
    simp [unwind, hg, this]

/-- no frame has a catch entry: the error leaves the run (uncaught), with the thrown value -/
theorem mech_uncaught (v : Val) (fs : List Frame) (h : ∀ g ∈ fs, g.catchStack = []) (s : VM)
    (hs : s.frames = fs) : (raise v s).result = .uncaught v := by
  have : ∀ fs : List Frame, (∀ g ∈ fs, g.catchStack = []) → unwind v fs = none := by
    intro fs
    induction fs with
    | nil => intro _; rfl
    | cons g fs ih =>
      intro h
      have hg : g.catchStack = [] := h g (by simp)
      simp [unwind, hg, ih (fun g hg => h g (by simp [hg]))]
  simp [raise, hs, this fs h]

/-- **finally_once_mech_partial, normal exit.** For *any* code block `b` placed after a `TryStart`:
if `b` runs to the `TryEnd` that follows it (top frame `f1`, catch entry still on top, frames below
untouched), the next two instructions (`TryEnd`, `Jump`) take the machine to the `finally` entry
with the catch entry removed and the trace as `b` left it — the `finally` code that follows is
entered, once, by this fall-through. -/
theorem finally_once_mech_partial_normal (code : Code) (f f1 : Frame) (rest : List Frame)
    (out out1 : List Nat) (reg off off2 k : Nat)
    (h0 : fetchAt code f.fn f.ip = some (.tryStart reg off))
    (hB : steps code k
        { frames := { f with ip := f.ip + 1,
                             catchStack := (reg, f.ip + 1 + off, f.loops.length) :: f.catchStack } :: rest,
          out := out } = { frames := f1 :: rest, out := out1 })
    (hcs : f1.catchStack = (reg, f.ip + 1 + off, f.loops.length) :: f.catchStack)
    (h1 : fetchAt code f1.fn f1.ip = some .tryEnd)
    (h2 : fetchAt code f1.fn (f1.ip + 1) = some (.jumpFwd off2)) :
    steps code (1 + k + 2) { frames := f :: rest, out := out } =
      { frames := { f1 with ip := f1.ip + 1 + 1 + off2, catchStack := f.catchStack } :: rest, out := out1 } := by
  rw [steps_add, steps_add]
  have e1 : steps code 1 { frames := f :: rest, out := out } =
      { frames := { f with ip := f.ip + 1,
                           catchStack := (reg, f.ip + 1 + off, f.loops.length) :: f.catchStack } :: rest,
        out := out } := by
    simp [steps, step, h0, setTop]
  rw [e1, hB]
  simp [steps, step, h1, h2, setTop, hcs]

/-- **finally_once_mech_partial, caught exit.** An error raised while this try's entry is the
innermost one (in the frame itself or in any frames above it that have no entry of their own)
resumes at the catch address; the `TryEnd` there de-registers the entry, so the catch blocks run
with the handler removed (an error inside them goes to the next outer handler), the frames above
are gone, the trace is untouched. The catch code is laid out directly before the `finally` code, so
a catch block that falls through (or takes its end jump) enters `finally` — once. -/
theorem finally_once_mech_partial_caught (code : Code) (v : Val) (above : List Frame) (f : Frame)
    (below : List Frame) (out : List Nat) (reg cip d : Nat) (cs : List (Nat × Nat × Nat))
    (habove : ∀ g ∈ above, g.catchStack = []) (hf : f.catchStack = (reg, cip, d) :: cs)
    (h1 : fetchAt code f.fn cip = some .tryEnd) :
    step code (raise v { frames := above ++ f :: below, out := out }) =
      { frames := { f with ip := cip + 1, catchStack := cs, regs := (reg, v) :: f.regs,
                           loops := f.loops.drop (f.loops.length - d) } :: below, out := out } := by
  simp [raise, mech_handler_innermost v above f below reg cip d cs habove hf, step, h1, setTop, hf]


def s0 : E := .lit (.str (.lit 0))
def s1 : E := .lit (.str (.lit 1))
def two : E := .mkList [.lit (.int 0), .lit (.int 1)]

/-- `f0 = || try (emit 1; return 1) catch e (emit 2) finally (emit 3)`; main: `f0(); emit 4` -/
def wReturn : Prog :=
  { defs := [{ nlocals := 1, body := .seq [.try_ (.seq [.emit 1 none, .ret (.lit (.int 1))])
      [(none, 0, .emit 2 none)] (some (.emit 3 none)), .lit (.int 2)] }]
    main := .seq [.call 0 [], .emit 4 none] }

/-- `for x in [0, 1]: try (emit 1; break) catch e (emit 2) finally (emit 3)`; `emit 4` -/
def wBreak : Prog :=
  { mainLocals := 2
    main := .seq [.forList 0 two (.try_ (.seq [.emit 1 none, .brk]) [(none, 1, .emit 2 none)] (some (.emit 3 none))),
      .emit 4 none] }

def wContinue : Prog :=
  { mainLocals := 2
    main := .seq [.forList 0 two (.try_ (.seq [.emit 1 none, .cont]) [(none, 1, .emit 2 none)] (some (.emit 3 none))),
      .emit 4 none] }

/-- second throw from the catch block: the inner `finally` (marker 2) must still run -/
def wRethrow : Prog :=
  { mainLocals := 2
    main := .try_ (.try_ (.throw s0) [(none, 0, .seq [.emit 1 none, .throw s1])] (some (.emit 2 none)))
      [(none, 1, .emit 3 none)] (some (.emit 4 none)) }

/-- `break` out of a try block, then an error after the loop with no enclosing try (the former
F-C04-5 witness) -/
def wStale : Prog :=
  { mainLocals := 2
    main := .seq [.forList 0 two (.try_ (.seq [.emit 1 none, .brk]) [(none, 1, .emit 2 none)] none),
      .emit 3 none, .throw s0, .emit 4 none] }

/-- normal and caught exits, typed catch chain, error raised two calls deep inside a native callback -/
def wGood : Prog :=
  { defs := [{ body := .seq [.emit 7 none, .throw (.lit (.int 5))] }, { nparams := 1, nlocals := 1, body := .call 0 [] }]
    mainLocals := 2
    main := .seq [
      .try_ (.emit 1 none) [(none, 0, .emit 2 none)] (some (.emit 3 none)),
      .try_ (.seq [.emit 4 none, .native .each 1 two, .emit 9 none])
        [(some .string, 0, .emit 5 none), (some .number, 0, .emit 6 none), (none, 1, .emit 8 none)]
        (some (.emit 10 none))] }

/-- **F-C04-1 on the mechanism model** (negation of `finally_once` for the code's layout): on each
of the four abrupt exit paths the guide-level trace contains the `finally` marker `3` (resp. `2`)
and the mechanism's trace of the same program does not. -/
theorem finally_skipped_on_return :
    guideTags wReturn 40 = [1, 3, 4] ∧ mechTags wReturn 60 = some [1, 4] := by decide

theorem finally_skipped_on_break :
    guideTags wBreak 40 = [1, 3, 4] ∧ mechTags wBreak 60 = some [1, 4] := by decide

theorem finally_skipped_on_continue :
    guideTags wContinue 40 = [1, 3, 1, 3, 4] ∧ mechTags wContinue 60 = some [1, 1, 4] := by decide

theorem finally_skipped_on_rethrow :
    guideTags wRethrow 40 = [1, 2, 3, 4] ∧ mechTags wRethrow 60 = some [1, 3, 4] := by decide

/-- so `finally_once` is false of the mechanism: there is a program and an exit path on which the
`finally` marker does not occur in the mechanism's trace -/
theorem finally_once_mech_fails :
    ∃ P m, (guideTags P 40).count m = 1 ∧ ∃ t, mechTags P 60 = some t ∧ t.count m = 0 :=
  ⟨wReturn, 3, by decide, [1, 4], by decide, by decide⟩

/-- result of the mechanism model on a program -/
def mechResult (P : Prog) (fuel : Nat) : Option Result := (compileProg P).map (fun c => (exec c fuel).result)

/-- **F-C04-5 is repaired in the layout** (/repo 0e9e81b, mirrored by `Mech.compile`): `break`
inside a try block first clears the block's catch entry, so the later error — which no try
encloses — ends the run uncaught, exactly as the guide says. (Before the repair the mechanism's
trace was `[1, 3, 2, …]`: the finished loop's catch block ran.) -/
theorem no_stale_handler_after_break :
    guideTags wStale 40 = [1, 3] ∧ (runProg guide wStale 40).1 = .err (.str (.lit 0)) ∧
    mechTags wStale 60 = some [1, 3] ∧ mechResult wStale 60 = some (.uncaught (.str (.lit 0))) := by
  decide

/-- `break <value>` inside a try block in a loop, the value expression raises (a call two frames
deep): the error is still caught by that try — the `TryEnd`s that `break` emits come *after* the
value's code. Guide and mechanism agree; the catch marker `2` is in both traces. -/
def wBreakValue : Prog :=
  { defs := [{ nparams := 1, nlocals := 1, body := .seq [.emit 7 none, .throw s0] }]
    mainLocals := 2
    main := .seq [.forList 0 two (.try_ (.seq [.emit 1 none, .brkV (.call 0 [.lit (.int 0)]), .emit 8 none])
        [(none, 1, .emit 2 none)] none),
      .emit 3 none] }

set_option maxRecDepth 8192 in
theorem break_value_error_is_caught :
    guideTags wBreakValue 40 = [1, 7, 2, 1, 7, 2, 3] ∧ mechTags wBreakValue 80 = some [1, 7, 2, 1, 7, 2, 3] := by
  decide

/-- The code emitted for `break` inside `k` open try blocks of the loop body — `k` × `TryEnd`, then
the jump — leaves the loop with the frame's catch stack exactly as it was when the loop body's
first try block was entered: the `k` entries pushed since are gone, nothing else is touched. -/
theorem break_clears_catch_entries (code : Code) (k : Nat) : ∀ (f : Frame) (rest : List Frame)
    (o : List Nat) (entries K : List (Nat × Nat × Nat)) (l : LoopRec) (ls : List LoopRec),
    entries.length = k → f.catchStack = entries ++ K → f.loops = l :: ls →
    CodeAt code f.fn f.ip (List.replicate k Ins.tryEnd ++ [Ins.brk]) →
    steps code (k + 1) (mk f rest o) =
      mk { fn := f.fn, ip := l.exit, catchStack := K, barrier := f.barrier, loops := ls, regs := f.regs } rest o := by
  induction k with
  | zero =>
    intro f rest o entries K l ls hlen hcs hloops hcode
    have he : entries = [] := List.eq_nil_of_length_eq_zero hlen
    subst he
    have hb : fetchAt code f.fn f.ip = some .brk := codeAt_head (by simpa using hcode)
    simp only [List.nil_append] at hcs
    rw [steps_one]
    simp [step, mk, hb, hloops, setTop, ← hcs]
  | succ k ih =>
    intro f rest o entries K l ls hlen hcs hloops hcode
    obtain ⟨e, es, rfl⟩ : ∃ e es, entries = e :: es := by
      cases entries with
      | nil => simp at hlen
      | cons e es => exact ⟨e, es, rfl⟩
    have hcode' : CodeAt code f.fn f.ip (Ins.tryEnd :: (List.replicate k Ins.tryEnd ++ [Ins.brk])) := by
      simpa [List.replicate_succ] using hcode
    have ht := codeAt_head hcode'
    let f1 : Frame := { f with ip := f.ip + 1, catchStack := f.catchStack.drop 1 }
    have h1 : steps code 1 (mk f rest o) = mk f1 rest o := by rw [steps_one, step_tryEnd ht]
    have h2 := ih f1 rest o es K l ls (by simpa using hlen) (by simp [f1, hcs]) hloops (codeAt_tail hcode')
    rw [show k + 1 + 1 = 1 + (k + 1) by omega, steps_add, h1, h2]

/-- the same for `continue`: the jump goes to the loop's next-iteration point, the loop record stays -/
theorem continue_clears_catch_entries (code : Code) (k : Nat) : ∀ (f : Frame) (rest : List Frame)
    (o : List Nat) (entries K : List (Nat × Nat × Nat)) (l : LoopRec) (ls : List LoopRec),
    entries.length = k → f.catchStack = entries ++ K → f.loops = l :: ls →
    CodeAt code f.fn f.ip (List.replicate k Ins.tryEnd ++ [Ins.cont]) →
    steps code (k + 1) (mk f rest o) =
      mk { fn := f.fn, ip := l.next, catchStack := K, barrier := f.barrier, loops := l :: ls, regs := f.regs } rest o := by
  induction k with
  | zero =>
    intro f rest o entries K l ls hlen hcs hloops hcode
    have he : entries = [] := List.eq_nil_of_length_eq_zero hlen
    subst he
    have hb : fetchAt code f.fn f.ip = some .cont := codeAt_head (by simpa using hcode)
    simp only [List.nil_append] at hcs
    rw [steps_one]
    simp [step, mk, hb, hloops, setTop, ← hcs]
  | succ k ih =>
    intro f rest o entries K l ls hlen hcs hloops hcode
    obtain ⟨e, es, rfl⟩ : ∃ e es, entries = e :: es := by
      cases entries with
      | nil => simp at hlen
      | cons e es => exact ⟨e, es, rfl⟩
    have hcode' : CodeAt code f.fn f.ip (Ins.tryEnd :: (List.replicate k Ins.tryEnd ++ [Ins.cont])) := by
      simpa [List.replicate_succ] using hcode
    have ht := codeAt_head hcode'
    let f1 : Frame := { f with ip := f.ip + 1, catchStack := f.catchStack.drop 1 }
    have h1 : steps code 1 (mk f rest o) = mk f1 rest o := by rw [steps_one, step_tryEnd ht]
    have h2 := ih f1 rest o es K l ls (by simpa using hlen) (by simp [f1, hcs]) hloops (codeAt_tail hcode')
    rw [show k + 1 + 1 = 1 + (k + 1) by omega, steps_add, h1, h2]

set_option maxRecDepth 4096 in
/-- non-vacuity of the partial theorem: on normal and caught exits (typed chain, error raised two
frames deep inside a native callback, `finally` present) mechanism and guide agree -/
theorem mech_agrees_on_normal_and_caught :
    guideTags wGood 40 = [1, 3, 4, 7, 6, 10] ∧ mechTags wGood 60 = some [1, 3, 4, 7, 6, 10] := by decide


/-- **The layout refines the guide on the fragment without abrupt exits from try** (`Mech.Frag`:
markers, `throw`, sequences, arbitrarily nested try / typed catch* / catch / finally; no
`return`/`break`/`continue`; no error leaving a catch block of a try that has `finally`; errors may
leave catch blocks of a try without `finally` and may be raised inside `finally`). For every such
program and every fuel on which the guide-level evaluator finishes, the mechanism — the compiled
`TryStart/TryEnd/Jump/CheckType` layout on the catch-stack machine — produces exactly the guide's
marker trace and ends the same way (normally, or with the same uncaught value), for every
sufficient step budget. Together with the negation witnesses above this delimits F-C04-1 exactly:
the layout deviates from the guide only where an abrupt exit skips the `finally` code. -/
theorem mech_trace_eq_guide_trace (P : Prog) (hdefs : P.defs = []) (hm : Frag P.main) (code : Code)
    (hc : compileProg P = some code) (n : Nat) (hn : (runProg guide P n).1 ≠ .oof) :
    ∃ k, ∀ fuel ≥ k, (exec code fuel).out = guideTags P n ∧
      ((∃ v, (runProg guide P n).1 = .ok v ∧ (exec code fuel).result = .done) ∨
       (∃ v, (runProg guide P n).1 = .err v ∧ (exec code fuel).result = .uncaught v)) := by
  obtain ⟨c, hcm, rfl⟩ : ∃ c, compile 64 0 0 P.main = some c ∧ code = [c] := by
    simp only [compileProg, hdefs, List.map_nil, compileProg.go, Option.bind_eq_bind,
      Option.bind_eq_some_iff, Option.pure_def, Option.some.injEq] at hc
    obtain ⟨c, h1, r, h2, h3⟩ := hc
    subst h2
    exact ⟨c, h1, h3.symm⟩
  cases h : run guide P n (.ev P.main) (initSt P) with
  | mk sig σ' =>
    have hr := mech_refines_guide P hm 64 c hcm n sig σ' h
    have htags : guideTags P n = tags σ'.out := by
      simp [guideTags, runProg, h, callResult_out, tags]
    cases sig with
    | ok v =>
      obtain ⟨k, hk⟩ := hr
      refine ⟨k, fun fuel hf => ?_⟩
      rw [hk fuel hf, htags]
      exact ⟨rfl, .inl ⟨v, by simp [runProg, h, callResult], rfl⟩⟩
    | err v =>
      obtain ⟨k, hk⟩ := hr
      refine ⟨k, fun fuel hf => ?_⟩
      rw [hk fuel hf, htags]
      exact ⟨rfl, .inr ⟨v, by simp [runProg, h, callResult], rfl⟩⟩
    | oof => exact absurd (by simp [runProg, h, callResult]) hn
    | vals _ => exact absurd hr (by simp)
    | ret _ => exact absurd hr (by simp)
    | brk => exact absurd hr (by simp)
    | cont => exact absurd hr (by simp)

/-- non-vacuity: a program of the fragment with a typed chain, a nested try whose catch block
raises again (no finally there), an error raised inside `finally`, all under an outer try with
`finally` — and it is evaluated by both sides -/
def wFrag : Prog :=
  { mainLocals := 2
    main := .try_
      (.seq [.emit 1 none,
        .try_ (.throw (.lit (.int 5))) [(some .string, 0, .emit 2 none), (none, 0, .seq [.emit 3 none, .throw s0])] none,
        .emit 4 none])
      [(some .number, 1, .emit 5 none), (none, 1, .emit 6 none)]
      (some (.seq [.emit 7 none, .throw s1])) }

theorem wFrag_in_fragment : Frag wFrag.main := by
  refine .tryFin _ _ _ (.seq _ ?_) ?_ ?_ (.seq _ ?_)
  · intro e he
    simp at he
    rcases he with rfl | rfl | rfl
    · exact .emit 1
    · refine .tryNoFin _ _ (.throw _) ?_ (by simp [LastUntyped])
      intro c hc
      simp at hc
      rcases hc with rfl | rfl
      · exact .emit 2
      · refine .seq _ ?_
        intro e he
        simp at he
        rcases he with rfl | rfl
        · exact .emit 3
        · exact .throw _
    · exact .emit 4
  · intro c hc
    simp at hc
    rcases hc with rfl | rfl
    · exact .emit 5
    · exact .emit 6
  · simp [LastUntyped]
  · intro e he
    simp at he
    rcases he with rfl | rfl
    · exact .emit 7
    · exact .throw _

example : guideTags wFrag 40 = [1, 3, 6, 7] ∧ (runProg guide wFrag 40).1 = .err (.str (.lit 1)) ∧
    mechTags wFrag 60 = some [1, 3, 6, 7] := by decide

/-- **Unwinding leaves every other register alone.** Under the hypotheses of
`mech_handler_innermost`, in the frame that resumes only the catch entry's own register changes
(it receives the error value); every other register of that frame, and every frame below it with
all its registers, is exactly as it was at the raise point. (The value-stack *length* side of this —
what finding F-C04-3 broke — is C07's `Unwind` model.) -/
theorem unwind_registers_untouched (v : Val) (above : List Frame) (f : Frame) (below : List Frame)
    (reg ip d : Nat) (cs : List (Nat × Nat × Nat))
    (habove : ∀ g ∈ above, g.catchStack = []) (hf : f.catchStack = (reg, ip, d) :: cs) :
    ∃ f', unwind v (above ++ f :: below) = some (f' :: below) ∧
      regGet f'.regs reg = v ∧ (∀ r, r ≠ reg → regGet f'.regs r = regGet f.regs r) ∧
      f'.catchStack = f.catchStack ∧ f'.fn = f.fn := by
  refine ⟨_, mech_handler_innermost v above f below reg ip d cs habove hf, ?_, ?_, rfl, rfl⟩
  · simp [regGet]
  · intro r hr
    have : (reg == r) = false := by simp [Ne.symm hr]
    simp [regGet, List.find?, this]


/-! ## C. builder stacks (mechanism since /repo 97373d1; before: finding F-C04-4) -/

namespace Bld

/-- **A caught error restores the builder stacks to their depth at `TryStart`.** The handler is in
frame `f` (catch entry recorded `d`), the frames `above` it have no entry. If nothing recorded
since is shallower than `d` — depths only grow while the try block is open: every frame entered
later and the current stacks are at least `d` deep — then after unwinding both stacks are exactly
`d` deep: the builders abandoned by the error, in this frame and in all frames above, are gone. -/
theorem catch_restores_builders (above : List Builders.Frame) (f : Builders.Frame) (below : List Builders.Frame) (vm : Builders.VM)
    (d : Nat × Nat) (cs : List (Nat × Nat))
    (habove : ∀ g ∈ above, g.catches = [] ∧ d.1 ≤ g.entry.1 ∧ d.2 ≤ g.entry.2)
    (hf : f.catches = d :: cs) (hseq : d.1 ≤ vm.seq) (hstr : d.2 ≤ vm.str) :
    (Builders.unwind (above ++ f :: below) vm).seq = d.1 ∧ (Builders.unwind (above ++ f :: below) vm).str = d.2 ∧
    (Builders.unwind (above ++ f :: below) vm).frames = f :: below ∧
    (Builders.unwind (above ++ f :: below) vm).uncaught = vm.uncaught := by
  induction above generalizing vm with
  | nil =>
    simp only [List.nil_append, Builders.unwind, hf, Builders.truncTo]
    exact ⟨Nat.min_eq_right hseq, Nat.min_eq_right hstr, trivial, trivial⟩
  | cons g above ih =>
    obtain ⟨hg, h1, h2⟩ := habove g (by simp)
    simp only [List.cons_append, Builders.unwind, hg]
    have := ih (Builders.truncTo g.entry vm) (fun g hg => habove g (by simp [hg]))
      (by simp only [Builders.truncTo]; exact Nat.le_min.mpr ⟨hseq, h1⟩)
      (by simp only [Builders.truncTo]; exact Nat.le_min.mpr ⟨hstr, h2⟩)
    simpa [Builders.truncTo] using this

/-- **Leaving a frame restores the builder stacks to their depth at frame entry** (normal return or
popped by the unwinder), provided they are at least that deep (they only grow inside the frame). -/
theorem frame_exit_restores_builders (f : Builders.Frame) (rest : List Builders.Frame) (vm : Builders.VM)
    (hframes : vm.frames = f :: rest) (hseq : f.entry.1 ≤ vm.seq) (hstr : f.entry.2 ≤ vm.str) :
    (Builders.step vm .ret).seq = f.entry.1 ∧ (Builders.step vm .ret).str = f.entry.2 ∧ (Builders.step vm .ret).frames = rest := by
  simp only [Builders.step, hframes, Builders.truncTo]
  exact ⟨Nat.min_eq_right hseq, Nat.min_eq_right hstr, trivial⟩

/-- `TryStart` records the current depths, `call` records them in the new frame -/
theorem tryStart_records_depths (f : Builders.Frame) (rest : List Builders.Frame) (vm : Builders.VM) (h : vm.frames = f :: rest) :
    (Builders.step vm .tryStart).frames = { f with catches := (vm.seq, vm.str) :: f.catches } :: rest := by
  simp [Builders.step, h]

/-- the former F-C04-4 scenario: the caller's interpolation is open (depth 1), the callee opens its
own inside a try and the hole raises two frames up; after the catch the callee sees depth 1 again,
after its return the caller finishes its own string: depth 0. Without the truncation the caller
would have appended to the callee's abandoned builder. -/
example :
    let evs := [Builders.Ev.strStart, .call, .tryStart, .strStart, .seqStart, .call, .raise]
    ((Builders.run evs {}).str, (Builders.run evs {}).seq, (Builders.run evs {}).frames.length,
     (Builders.run (evs ++ [.tryEnd, .ret, .strEnd]) {}).str) = (1, 0, 2, 0) := by decide

end Bld

end KotoVerif.C04
