/-
C05 — accepted programs compile to well-formed code; limits are reported as errors.

Property theorems only. The whole compiler is not modelled: the per-program guarantee is the
executable verifier `wfChunk` (Model/WF.lean) run by the check on the chunks the real compiler
produced; what is proved here, for all inputs, is
  * the instruction codec (`varu32_roundtrip`, `instr_roundtrip`, `decode_progress`),
  * the soundness of the verifier w.r.t. the abstract VM of Model/AbsVM.lean
    (`wf_sound_jumps`, `wf_sound_regs`, `wf_sound_balance`),
  * the offset checks (`offset_checked`, `jump_back_checked`),
  * the register allocator invariant and limits (`frame_inv`, `frame_limits`,
    `frame_new_wrap_witness`, `frame_new_guarded`).
  * `compile_wf`: the C01 compiler core (`Model/Compile.lean`) emits code that `wfChunk` accepts.
Helper lemmas: Lemmas/C05Codec.lean, C05Frame.lean, C05WF.lean, C05Sweep.lean, C05CompileWF.lean, C05CWBytes1-5.lean, C05CWFits.lean, C05CWLoop1-7.lean, C05CWCert1-4.lean.
-/
import KotoVerif.Lemmas.C05Codec
import KotoVerif.Lemmas.C05Frame
import KotoVerif.Lemmas.C05WF
import KotoVerif.Lemmas.C05Sweep
import KotoVerif.Lemmas.C05CompileWF
import KotoVerif.Lemmas.C05CWBytes5
import KotoVerif.Lemmas.C05CWFits
import KotoVerif.Lemmas.C05CWLoop7
import KotoVerif.Lemmas.C05CWCert4

namespace KotoVerif.C05
open KotoVerif.Gen KotoVerif.Bytecode KotoVerif.Frame

/-! ## Codec -/

/-- `push_var_u32` followed by `get_var_u32!` is the identity on `u32`, whatever follows. -/
theorem varu32_roundtrip (n : Nat) (r : List Nat) (h : n < 2 ^ 32) :
    decodeVar (encodeVar n ++ r) = some (n, r) := by
  have := decodeVarN_encodeVar n r (by simpa using h)
  simp [decodeVar, this]

example : decodeVar (encodeVar 300 ++ [7]) = some (300, [7]) := by decide
example : encodeVar 4294967295 = [255, 255, 255, 255, 15] := by decide

/-- Every instruction of every opcode — operands matching the opcode's layout, values in the range
of their fields — decodes from its encoding to itself, consuming exactly its own bytes. -/
theorem instr_roundtrip (i : Instr) (r : List Nat) (h : i.valid = true) :
    decode (encode i ++ r) = .ok i (encode i).length r :=
  decode_encode i r h

/-- the hypothesis is satisfiable for every opcode: each opcode has a valid instruction -/
theorem instr_roundtrip_covers_all_opcodes :
    ∀ op ∈ Op.all, ∃ args, (Instr.mk op args).valid = true := by
  intro op _
  exact ⟨(layout op).map (fun _ => 0), by cases op <;> decide⟩

theorem op_all_complete (op : Op) : op ∈ Op.all := by cases op <;> decide

example : (Instr.mk .StringPush [3, 36, 12, 2]).valid = true := by decide
example : decode (encode ⟨.StringPush, [3, 36, 12, 2]⟩ ++ [9]) = .ok ⟨.StringPush, [3, 36, 12, 2]⟩ 5 [9] := by
  decide
example : decode (encode ⟨.TryAccess, [1, 2, 300, 515]⟩) = .ok ⟨.TryAccess, [1, 2, 300, 515]⟩ 7 [] := by
  decide

/-- The reader always makes progress: a decoded instruction consumes `size ≥ 2` bytes and exactly
those (termination of `InstructionReader` as an iterator; positions tile the chunk). -/
theorem decode_progress (bs : List Nat) (i : Instr) (size : Nat) (rest : List Nat)
    (h : decode bs = .ok i size rest) : 2 ≤ size ∧ bs.length = size + rest.length :=
  decode_len bs i size rest h

/-- unknown opcodes and truncated operands are `Instruction::Error`, one trailing byte ends the stream -/
example : decode [200, 0] = .bad ∧ decode [1, 5] = .bad ∧ decode [1] = .stop := by decide

/-! ## Offsets -/

/-- `update_offset_placeholder` reports exactly the offsets that do not fit a `u16`. -/
theorem offset_checked (off : Nat) : updateOffset off = none ↔ off > 65535 := by
  unfold updateOffset
  split <;> simp <;> omega

/-- accepted offsets are written faithfully -/
theorem offset_faithful (off : Nat) (bs : List Nat) (h : updateOffset off = some bs) :
    ∃ a b, bs = [a, b] ∧ decodeU16 a b = off := by
  unfold updateOffset at h
  split at h
  · simp at h; subst h
    exact ⟨_, _, rfl, by simp [decodeU16]; omega⟩
  · simp at h

/-- **jump_back_checked** (since fix f85bfca, finding F-C05-1): `push_jump_back_op` reports exactly
the backward distances that do not fit a `u16` — the same law as `offset_checked`. -/
theorem jump_back_checked (off : Nat) : jumpBackOffset off = none ↔ off > 65535 := by
  unfold jumpBackOffset
  split <;> simp <;> omega

/-- accepted backward distances are written faithfully -/
theorem jump_back_faithful (off : Nat) (bs : List Nat) (h : jumpBackOffset off = some bs) :
    ∃ a b, bs = [a, b] ∧ decodeU16 a b = off := by
  unfold jumpBackOffset at h
  split at h
  · simp at h; subst h
    exact ⟨_, _, rfl, by simp [decodeU16]; omega⟩
  · simp at h

example : jumpBackOffset 65577 = none ∧ jumpBackOffset 41 = some [41, 0] := by decide

/-! ## Soundness of the verifier

`chunkUnits bytes` lists the units (top level and every nested function body) of a chunk with the
listing the verifier checked. For a chunk accepted by `wfChunk`, in every unit: -/

/-- **jumps**: after any instruction of the unit, every instruction pointer the VM can take (fall
through, forward/backward offsets, catch offset, `Function` skip) is an instruction boundary of the
same unit; and every configuration reachable from the unit's entry — by executing instructions or
by unwinding to a handler — sits on an instruction of the unit. -/
theorem wf_sound_jumps (bytes : List Nat) (consts : List CKind) (h : wfChunk bytes consts = true)
    (base need : Nat) (l : List Ann) (hu : (base, need, l) ∈ chunkUnits bytes) :
    (∀ a ∈ l, ∃ ps, succPcs a = some ps ∧ ∀ p ∈ ps, ∃ b ∈ l, b.pc = p)
    ∧ (∀ c, Reach l ⟨base, 0, 0, []⟩ c → ∃ a ∈ l, a.pc = c.pc) := by
  have hf := wfChunk_units bytes consts h _ hu
  obtain ⟨a0, _, _, _, _, hall⟩ := hf.entry
  refine ⟨?_, ?_⟩
  · intro a ha
    obtain ⟨ps, hs, hp⟩ := (hall a ha).succs
    refine ⟨ps, hs, fun p hpp => ?_⟩
    obtain ⟨b, hb⟩ := hp p hpp
    exact ⟨b, (findPc_some _ _ _ hb).1, (findPc_some _ _ _ hb).2⟩
  · intro c hr
    obtain ⟨⟨a, ha, _⟩, _⟩ := good_reach consts base need l hf c hr
    exact ⟨a, (findPc_some _ _ _ ha).1, (findPc_some _ _ _ ha).2⟩

/-- **registers**: the unit starts with its only `NewFrame`; every register any instruction of the
unit addresses (operands and call / tuple / sequence windows) is below its `register_count`, hence
inside the register vector whenever `registers.len ≥ register_base + register_count` — which
`NewFrame`, `pop_frame` and `call_native_function` (re-)establish by `registers.resize`. -/
theorem wf_sound_regs (bytes : List Nat) (consts : List CKind) (h : wfChunk bytes consts = true)
    (base need : Nat) (l : List Ann) (hu : (base, need, l) ∈ chunkUnits bytes) :
    ∃ a0 ∈ l, a0.pc = base ∧ a0.ins.op = .NewFrame ∧ need ≤ argAt a0.ins 0
      ∧ (∀ a ∈ l, a.ins.op = .NewFrame → a.pc = base)
      ∧ ∀ a ∈ l, ∀ r ∈ regAccesses a.ins, ∀ regBase len, regBase + argAt a0.ins 0 ≤ len → regBase + r < len := by
  have hf := wfChunk_units bytes consts h _ hu
  obtain ⟨a0, h0, hop, _, hneed, hall⟩ := hf.entry
  refine ⟨a0, (findPc_some _ _ _ h0).1, (findPc_some _ _ _ h0).2, hop, hneed, hf.oneFrame, ?_⟩
  intro a ha r hr rb len hlen
  have := (hall a ha).regs r hr
  omega

/-- **constants**: every constant operand is in range and of the kind the VM reads it as. -/
theorem wf_sound_consts (bytes : List Nat) (consts : List CKind) (h : wfChunk bytes consts = true)
    (base need : Nat) (l : List Ann) (hu : (base, need, l) ∈ chunkUnits bytes) :
    ∀ a ∈ l, ∀ kc ∈ constOperands a.ins.fields a.ins.args, consts[kc.2]? = some kc.1 := by
  have hf := wfChunk_units bytes consts h _ hu
  obtain ⟨a0, _, _, _, _, hall⟩ := hf.entry
  exact fun a ha => (hall a ha).consts

/-- **balance**: no configuration reachable from the unit's entry is faulty — the instruction
pointer is on an instruction of the unit (so control never runs past the unit's end), a builder
instruction never finds its builder stack empty (`MissingSequenceBuilder`, `MissingStringBuilder`),
a backward jump stays inside the chunk. Builder and try depths agree along every edge
(`wf_jump_depth_exact`); a `Return` may leave builders open — `pop_frame` discards them (fix 97373d1),
as unwinding to a handler discards those opened since its `TryStart` (Model/AbsVM.lean). -/
theorem wf_sound_balance (bytes : List Nat) (consts : List CKind) (h : wfChunk bytes consts = true)
    (base need : Nat) (l : List Ann) (hu : (base, need, l) ∈ chunkUnits bytes)
    (c : Cfg) (hr : Reach l ⟨base, 0, 0, []⟩ c) : ¬ Fault l c := by
  have hf := wfChunk_units bytes consts h _ hu
  exact good_no_fault consts base need l hf c (good_reach consts base need l hf c hr)

/-- **the listing is the decoding**: every entry of a unit's listing (the instructions the
soundness theorems speak about) is what `InstructionReader::next` (`decode`) reads at that position
of the unit's bytes; for the top-level unit these are the chunk's bytes at `pc`. -/
theorem listing_decodes (base : Nat) (bs : List Nat) (anns : List Ann) (subs : List Sub)
    (h : unitListing base bs = some (anns, subs)) :
    ∀ a ∈ anns, base ≤ a.pc ∧ ∃ rest, decode (bs.drop (a.pc - base)) = .ok a.ins a.size rest :=
  unitListing_decodes base bs anns subs h

theorem listing_decodes_top (bytes : List Nat) (anns : List Ann) (subs : List Sub)
    (h : unitListing 0 bytes = some (anns, subs)) :
    ∀ a ∈ anns, ∃ rest, decode (bytes.drop a.pc) = .ok a.ins a.size rest := by
  intro a ha
  obtain ⟨_, rest, hd⟩ := unitListing_decodes 0 bytes anns subs h a ha
  exact ⟨rest, by simpa using hd⟩

/-- **unit separation**: in a chunk accepted by `wfChunk`, no execution of a unit — by fall-through,
by any jump, or by unwinding to a handler — ever reaches a `NewFrame` other than the unit's own first
instruction, nor any position inside a nested unit (a `Function` body, or the jumped-over body of an
unused function literal, fix 30b24e7): those positions are not instructions of the unit's listing,
and every reachable configuration sits on one. A regression of that fix (the body inlined without the
`Jump`) is rejected, see `wf_rejects_witnesses`. -/
theorem wf_unit_separation (bytes : List Nat) (consts : List CKind) (h : wfChunk bytes consts = true)
    (base need : Nat) (l : List Ann) (hu : (base, need, l) ∈ chunkUnits bytes)
    (c : Cfg) (hr : Reach l ⟨base, 0, 0, []⟩ c) :
    ∃ a ∈ l, a.pc = c.pc ∧ (a.ins.op = .NewFrame → c.pc = base) := by
  have hf := wfChunk_units bytes consts h _ hu
  obtain ⟨⟨a, ha, _⟩, _⟩ := good_reach consts base need l hf c hr
  have hm := findPc_some _ _ _ ha
  exact ⟨a, hm.1, hm.2, fun hop => by rw [← hm.2]; exact hf.oneFrame a hm.1 hop⟩

/-- the real chunk of `|| 42` / `print "hello"` after fix 30b24e7 — `Jump` over the unused literal's
body — is accepted, and the body is a unit of its own with its own frame -/
theorem wf_accepts_skipped_unit :
    wfChunk [0, 5, 55, 7, 0, 0, 2, 7, 1, 42, 62, 1, 12, 2, 0, 11, 4, 1, 60, 1, 2, 3, 1, 0, 62, 1] [.str, .str] = true
    ∧ (chunkUnits [0, 5, 55, 7, 0, 0, 2, 7, 1, 42, 62, 1, 12, 2, 0, 11, 4, 1, 60, 1, 2, 3, 1, 0, 62, 1]).map
        (fun u => (u.1, u.2.2.map (·.pc))) = [(0, [0, 2, 12, 15, 18, 24]), (5, [5, 7, 10])] := by decide

/-- … and rejected when the jump does not cover exactly one complete frame unit (too short, too
long), when the enclosing unit jumps to the skipped `NewFrame`, when the skipped body uses a register
beyond its own `NewFrame`, or when the skipped body itself falls off its end -/
theorem wf_rejects_bad_skipped_units :
    wfChunk [0, 5, 55, 5, 0, 0, 2, 7, 1, 42, 62, 1, 12, 2, 0, 11, 4, 1, 60, 1, 2, 3, 1, 0, 62, 1] [.str, .str] = false
    ∧ wfChunk [0, 5, 55, 10, 0, 0, 2, 7, 1, 42, 62, 1, 12, 2, 0, 11, 4, 1, 60, 1, 2, 3, 1, 0, 62, 1] [.str, .str] = false
    ∧ wfChunk [0, 5, 57, 1, 3, 0, 55, 7, 0, 0, 2, 7, 1, 42, 62, 1, 62, 1] [] = false
    ∧ wfChunk [0, 5, 55, 7, 0, 0, 2, 7, 4, 42, 62, 1, 62, 1] [] = false
    ∧ wfChunk [0, 5, 55, 5, 0, 0, 2, 7, 1, 42, 62, 1] [] = false := by decide

/-- **builders are bracket-structured, and dynamic depth = static depth**: in an accepted chunk the
builder instructions of every unit are properly nested `Start … Finish` brackets in listing order, all
closed by the end of the unit (`linOk`), and in every configuration reachable from the unit's entry the
numbers of open sequence and string builders are the static nesting depths of the current instruction
in that bracket structure (`bracketAt`). Hence
* a `Start` without its `Finish` is rejected, also in straight-line code that ends in `Return`;
* at the unit's entry, at every jump target and at every instruction outside all brackets the builder
  stacks are as at frame entry; inside a bracket they hold exactly the enclosing brackets' builders;
* a `Return` (or an error leaving the frame) finds open builders only when it sits inside a literal's
  bracket — those are what `pop_frame` / the catch path truncate away (fix 97373d1): the VM's contract
  is "a frame may be left from inside a literal; inside the frame every builder instruction works on
  the builder of its own bracket", and this is what is accepted, no more;
* since compiler fix 2f5d1ea (`break` / `continue` finish the loop body's open builders before jumping)
  the bracket structure is the one `linLex` computes: an exit sequence — `Finish` instructions directly
  followed by an unconditional `Jump` / `JumpBack` — closes its brackets on the leaving path only, the
  code after the jump continues inside them. The statement is unchanged; `linOk` / `bracketAt` now read
  the static depths off `linLex` (previously every `Finish` closed its bracket for all following code,
  which rejects these chunks). The balance rule is untouched: the jump's target still sees exactly the
  depth at the jump. -/
theorem wf_builders_bracketed (bytes : List Nat) (consts : List CKind) (h : wfChunk bytes consts = true)
    (base need : Nat) (l : List Ann) (hu : (base, need, l) ∈ chunkUnits bytes) :
    linOk 0 0 l = true
    ∧ ∀ c, Reach l ⟨base, 0, 0, []⟩ c → bracketAt 0 0 l c.pc = some (c.seq, c.str) := by
  have hf := wfChunk_units bytes consts h _ hu
  refine ⟨hf.brackets, fun c hr => ?_⟩
  obtain ⟨⟨a, ha, had⟩, _⟩ := good_reach consts base need l hf c hr
  have hm := findPc_some _ _ _ ha
  have := bracketAt_of_linOk base l 0 0 hf.sorted hf.brackets a hm.1 _ had
  rw [hm.2] at this
  exact this

/-- exit sequences (finding F-C05-5, fixed by 2f5d1ea) on concrete chunks. Accepted: a conditional
`break` inside a list literal that finishes the list before jumping while the other branch continues
the literal (`Start; JumpIfFalse L; ToList tmp; Jump END; L: ToList r; END: Return` — the instruction at
`L` has static depth 1 again, the jump and the exit are at depth 0); the same with a string nested in
the list (two finishing instructions); an unconditional `break` (the rest of the literal is dead code);
a literal assigned at the end of a loop body (`ToList x; JumpBack`, nothing is restored); the real chunk
of `for x in (1, 2)` / `y = [1, (if x == 1 then continue), 3]` / `print y`. Rejected: the jump without
the finishing instruction (the chunk before the fix: the exit is reached with and without the builder);
an exit sequence whose other branch never finishes the literal; one finishing instruction too many; a
jump to the next instruction between two finishing instructions (nothing left to finish); and — by
the bracket rule alone — an other branch that returns inside the literal although no `Finish` follows. -/
theorem wf_exit_sequences :
    wfChunk [0, 3, 19, 2, 57, 1, 5, 0, 22, 2, 55, 2, 0, 22, 1, 62, 1] [] = true
    ∧ (match unitListing 0 [0, 3, 19, 2, 57, 1, 5, 0, 22, 2, 55, 2, 0, 22, 1, 62, 1] with
       | some (l, _) => (bracketAt 0 0 l 8, bracketAt 0 0 l 10, bracketAt 0 0 l 13, bracketAt 0 0 l 15)
       | none => (none, none, none, none)) = (some (1, 0), some (0, 0), some (1, 0), some (0, 0))
    ∧ wfChunk [0, 3, 19, 2, 24, 2, 57, 1, 7, 0, 26, 2, 22, 2, 55, 4, 0, 26, 2, 22, 1, 62, 1] [] = true
    ∧ wfChunk [0, 3, 19, 2, 22, 2, 55, 2, 0, 22, 1, 62, 1] [] = true
    ∧ wfChunk [0, 3, 19, 2, 22, 2, 56, 7, 0, 62, 1] [] = true
    ∧ wfChunk [0, 9, 2, 3, 19, 2, 6, 6, 7, 7, 2, 21, 6, 2, 23, 5, 18, 4, 5, 65, 1, 4, 49, 0, 19, 3, 6, 5, 6, 8, 53,
        7, 1, 8, 57, 7, 10, 0, 2, 3, 22, 7, 56, 26, 0, 55, 2, 0, 2, 6, 7, 7, 3, 21, 5, 3, 22, 2, 12, 5, 2, 1, 7, 2,
        60, 3, 5, 6, 1, 0, 56, 54, 0, 62, 3] [.str, .str, .str] = true
    ∧ wfChunk [0, 3, 19, 2, 57, 1, 3, 0, 55, 2, 0, 22, 1, 62, 1] [] = false
    ∧ wfChunk [0, 3, 19, 2, 57, 1, 5, 0, 22, 2, 55, 0, 0, 62, 1] [] = false
    ∧ wfChunk [0, 3, 19, 2, 57, 1, 7, 0, 22, 2, 22, 2, 55, 2, 0, 22, 1, 62, 1] [] = false
    ∧ wfChunk [0, 3, 19, 2, 22, 2, 55, 0, 0, 22, 1, 62, 1] [] = false
    ∧ wfChunk [0, 3, 19, 2, 57, 1, 5, 0, 22, 2, 55, 2, 0, 62, 1, 62, 1] [] = false := by decide

/-- **try balance at jumps is exact** (finding F-C05-6, fixed by 0e9e81b): in an accepted chunk the
depth triple — open try blocks included — at the target of every reachable `Jump` / `JumpBack` is the
depth at the jump itself: a `break` / `continue` that leaves try blocks must have closed them
(`TryEnd`) before jumping, or the loop exit / loop head, which is also reached with the loop's own
depth, would be a join with two depths. -/
theorem wf_jump_depth_exact (bytes : List Nat) (consts : List CKind) (h : wfChunk bytes consts = true)
    (base need : Nat) (l : List Ann) (hu : (base, need, l) ∈ chunkUnits bytes)
    (a : Ann) (ha : a ∈ l) (d : Depth) (hd : a.d = some d) (hop : a.ins.op = .Jump ∨ a.ins.op = .JumpBack) :
    ∃ ps, succPcs a = some ps ∧ ∀ p ∈ ps, ∃ b ∈ l, b.pc = p ∧ b.d = some d := by
  have hf := wfChunk_units bytes consts h _ hu
  obtain ⟨a0, _, _, _, _, hall⟩ := hf.entry
  obtain ⟨d', ps, he, hs, hflow⟩ := (hall a ha).flow d hd
  have hdd : d' = d := by
    rcases hop with hop | hop <;> simp [applyEff, hop] at he <;> exact he.symm
  subst hdd
  refine ⟨ps, hs, fun p hp => ?_⟩
  obtain ⟨b, hb, hbd⟩ := hflow p hp
  exact ⟨b, (findPc_some _ _ _ hb).1, (findPc_some _ _ _ hb).2, hbd⟩

/-- a `while`-shaped loop whose body is `try break catch …`: accepted with the `TryEnd` that
0e9e81b emits before the `break` jump, rejected without it (the loop exit would be reached with try
depth 0 from the loop head and 1 from the `break`) -/
theorem wf_break_out_of_try :
    wfChunk [0, 3, 57, 1, 19, 0, 84, 1, 10, 0, 85, 0, 55, 10, 0, 85, 0, 55, 2, 0, 85, 0, 56, 23, 0, 62, 1] [] = true
    ∧ wfChunk [0, 3, 57, 1, 19, 0, 84, 1, 10, 0, 2, 2, 55, 10, 0, 85, 0, 55, 2, 0, 85, 0, 56, 23, 0, 62, 1] [] = false := by
  decide

/-- non-vacuity: the real chunk of `f = |a, b| a + (b or 42)` (a nested unit with a forward jump)
is accepted, and has two units -/
example : wfChunk [0, 2, 27, 1, 2, 0, 0, 0, 18, 0, 0, 5, 1, 4, 2, 58, 4, 3, 0, 7, 4, 42, 37, 3, 1, 4, 62, 3, 62, 1]
    [.str, .str, .str] = true := by decide
example : (chunkUnits [0, 2, 27, 1, 2, 0, 0, 0, 18, 0, 0, 5, 1, 4, 2, 58, 4, 3, 0, 7, 4, 42, 37, 3, 1, 4, 62, 3, 62,
    1]).map (fun u => (u.1, u.2.1, u.2.2.length)) = [(0, 0, 3), (10, 3, 6)] := by decide

/-- the verifier rejects: the real chunk of `|| 42` / `print 'hello'` (finding F-C05-4: a frame that
no `Function` instruction delimits), a jump into the middle of an instruction, a register beyond the
frame, a constant of the wrong kind, a join reached with and without an open sequence (the shape of
`break` inside a list literal, finding F-C05-5) — while a `Return` inside a sequence's
`Start … ToList` bracket is accepted (`[1, (return 2)]`: the VM discards the builder, fix 97373d1) and
a `SequenceStart` / `StringStart` that no finish instruction closes is rejected although the
straight-line code has no join (the shape of an interpolated string in statement position compiled
with `StringStart` but without `StringFinish`) -/
theorem wf_rejects_witnesses :
    wfChunk [0, 5, 0, 2, 7, 1, 42, 62, 1, 12, 2, 0, 11, 4, 1, 60, 1, 2, 3, 1, 0, 62, 1] [.str, .str] = false
    ∧ wfChunk [0, 2, 55, 1, 0, 7, 1, 42, 62, 1] [] = false
    ∧ wfChunk [0, 2, 2, 2, 62, 1] [] = false
    ∧ wfChunk [0, 2, 10, 1, 0, 62, 1] [.str] = false
    ∧ wfChunk [0, 2, 57, 1, 2, 0, 19, 1, 62, 1] [] = false
    ∧ wfChunk [0, 2, 19, 1, 62, 1, 22, 1, 62, 1] [] = true
    ∧ wfChunk [0, 2, 19, 1, 62, 1] [] = false
    ∧ wfChunk [0, 2, 24, 3, 7, 1, 9, 62, 1] [] = false := by decide

/-- **wf_flags_sound** (function flags): in a chunk that passes `flagsOk`, the body of a `Function`
instruction whose `NON_LOCAL_ACCESS` flag is clear contains no `LoadNonLocal` and creates no function
whose flag is set — so a frame that `run_make_function` creates without non-locals never reads them and
never reaches `UnexpectedError` (`non_locals.is_none()`) when creating a nested function; and the
same holds for every nested unit, with the flags of the instruction that creates it. -/
theorem wf_flags_sound (fuel base f : Nat) (bs : List Nat) (items : List Ann) (subs : List Sub)
    (h : flagsUnit (fuel + 1) base (some f) bs = true)
    (hs : sweep (bs.length + 1) base bs = some (items, subs)) (hf : nonLocalFlag f = false) :
    (∀ a ∈ items, a.ins.op ≠ .LoadNonLocal)
    ∧ (∀ a ∈ items, a.ins.op = .Function → nonLocalFlag (argAt a.ins 4) = false)
    ∧ (∀ s ∈ subs, flagsUnit fuel s.base (ownerFlags items s) s.bytes = true) := by
  simp only [flagsUnit, hs, Bool.and_eq_true, List.all_eq_true] at h
  obtain ⟨h1, h2⟩ := h
  have hn : needsNonLocals items = false := by
    cases hx : needsNonLocals items
    · rfl
    · simp [hx, hf] at h1
  simp only [needsNonLocals, List.any_eq_false] at hn
  refine ⟨?_, ?_, h2⟩
  · intro a ha hop
    have := hn a ha
    simp [hop] at this
  · intro a ha hop
    have := hn a ha
    cases hfl : nonLocalFlag (argAt a.ins 4)
    · rfl
    · simp [hop, hfl] at this

/-- the flag rule on concrete chunks (`f = |n = 1| offset` and a function nested in a function): a body
that loads a non-local under a clear flag is rejected, under a set flag accepted; an inner function with
the flag inside an outer one without it is rejected (the shape the VM answers with `UnexpectedError`);
`wfChunk` accepts all of them — the flag rule is a separate condition. -/
theorem wf_flags_witnesses :
    flagsOk [0, 2, 27, 1, 1, 1, 0, 0, 7, 0, 0, 3, 12, 2, 0, 62, 2, 62, 1] = false
    ∧ flagsOk [0, 2, 27, 1, 1, 1, 0, 8, 7, 0, 0, 3, 12, 2, 0, 62, 2, 62, 1] = true
    ∧ flagsOk [0, 2, 27, 1, 0, 0, 0, 0, 19, 0, 0, 3, 27, 2, 0, 0, 0, 8, 7, 0, 0, 3, 12, 2, 0, 62, 2, 62, 2, 62, 1] = false
    ∧ flagsOk [0, 2, 27, 1, 0, 0, 0, 8, 19, 0, 0, 3, 27, 2, 0, 0, 0, 8, 7, 0, 0, 3, 12, 2, 0, 62, 2, 62, 2, 62, 1] = true
    ∧ wfChunk [0, 2, 27, 1, 1, 1, 0, 0, 7, 0, 0, 3, 12, 2, 0, 62, 2, 62, 1] [.str] = true := by decide

/-! ## Register allocator (`frame.rs`) -/

/-- **frame_inv**: for every history of allocator operations, run as the compiler runs them (the
first error aborts), from any state satisfying the invariant (`Inv`: the live temporaries are exactly
`tb … tb+tc-1` on the stack in LIFO order, `tb + tc ≤ 255`, locals below `tb`):
* `temporary_base` never changes, the high-water mark only grows and `registers_used()` fits a `u8`;
* every register handed out or returned by any operation is below the final `registers_used()` —
  the `register_count` written into `NewFrame`;
* if no operation failed the invariant holds again. -/
theorem frame_inv (s : Frame.Frame) (h : Inv s) (ops : List FOp) :
    (s.run ops).1.tb = s.tb
    ∧ (s.run ops).1.registersUsed = some ((s.run ops).1.tb + (s.run ops).1.used)
    ∧ (∀ r, Obs.reg r ∈ (s.run ops).2 → ∀ n, (s.run ops).1.registersUsed = some n → r + 1 ≤ n)
    ∧ ((∀ o ∈ (s.run ops).2, o.isFailure = false) → Inv (s.run ops).1) := by
  obtain ⟨hw, hr, hi⟩ := run_spec s h ops
  have hu : (s.run ops).1.registersUsed = some ((s.run ops).1.tb + (s.run ops).1.used) := by
    have hfit := hw.fits
    have hn : ¬ ((s.run ops).1.tb + (s.run ops).1.used > 255) := by omega
    simp [Frame.registersUsed, u8Max, hn]
  refine ⟨hw.tb, hu, ?_, hi⟩
  intro r hr' n hn
  rw [hu] at hn
  cases hn
  have := hr r hr'
  omega

/-- temporaries are handed out as `tb + tc` and returned in LIFO order -/
theorem frame_lifo (s : Frame.Frame) (h : Inv s) (hlt : s.tb + s.tc < 255) :
    ∃ s1 s2, s.pushRegister = .ok s1 (s.tb + s.tc) ∧ s1.popRegister = .ok s2 (s.tb + s.tc)
      ∧ s2.stack = s.stack ∧ s2.tc = s.tc ∧ s2.locals = s.locals := by
  rcases push_spec s h with ⟨he, _⟩ | ⟨_, s1, hp, hi1, hw1, htc1, hl1⟩
  · omega
  · rcases pop_spec s1 hi1 with ⟨h0, _⟩ | ⟨_, s2, hp2, hi2, hw2, htc2, _, hl2⟩
    · omega
    · refine ⟨s1, s2, hp, ?_, ?_, by omega, hl2.trans hl1⟩
      · rw [hp2, hw1.tb, htc1]; congr 1
      · rw [hi2.stack, h.stack, hw2.tb, hw1.tb, htc2, htc1]; congr 1

/-- **frame_limits**: exceeding the register space is an error, never a wrapped register:
`push_register` at `tb + tc = 255` is `StackOverflow`; a new local at index `≥ tb` is
`LocalRegisterOverflow`; neither panics nor returns a register in a state satisfying the invariant. -/
theorem frame_limits (s : Frame.Frame) (h : Inv s) :
    (s.tb + s.tc = 255 → s.pushRegister = .err s .stackOverflow)
    ∧ (∀ id, s.getAssignedOrReserved id = .unassigned → s.tb ≤ s.locals.length →
        (∃ s', s.assignLocal id = .err s' .localRegisterOverflow)
        ∧ (∃ s', s.reserveLocal id = .err s' .localRegisterOverflow))
    ∧ (∀ s' r, s.pushRegister = .ok s' r → r < 255)
    ∧ (∀ id s' r, s.assignLocal id = .ok s' r → r < s.tb)
    ∧ (∀ id s' r, s.reserveLocal id = .ok s' r → r < s.tb) := by
  refine ⟨?_, ?_, ?_, ?_, ?_⟩
  · intro he
    rcases push_spec s h with ⟨_, hp⟩ | ⟨hlt, _⟩
    · exact hp
    · omega
  · intro id hun hge
    rcases pushLocal_spec s h (.assigned id) with ⟨hlt, _⟩ | ⟨_, s1, he1, _⟩
    · omega
    · rcases pushLocal_spec s h (.reserved id []) with ⟨hlt, _⟩ | ⟨_, s2, he2, _⟩
      · omega
      · exact ⟨⟨s1, by simp [Frame.assignLocal, hun, he1]⟩, ⟨s2, by simp [Frame.reserveLocal, hun, he2]⟩⟩
  · intro s' r hp
    rcases push_spec s h with ⟨_, he⟩ | ⟨hlt, s1, he, _⟩
    · rw [he] at hp; cases hp
    · rw [he] at hp; cases hp; exact hlt
  · intro id s' r ha
    rcases assign_spec s h id with ⟨s1, r1, he, _, hw, hr⟩ | ⟨s1, e, he, _⟩
    · rw [he] at ha; cases ha; rw [← hw.tb]; exact hr
    · rw [he] at ha; cases ha
  · intro id s' r ha
    rcases reserve_spec s h id with ⟨s1, r1, he, _, hw, hr⟩ | ⟨s1, he, _, _⟩
    · rw [he] at ha; cases ha; rw [← hw.tb]; exact hr
    · rw [he] at ha; cases ha

/-- `Frame::new` establishes the invariant (named arguments are counted in `local_count`). -/
theorem frame_new_inv (lc : Nat) (args : List Arg) (caps : List Nat) (s : Frame.Frame)
    (h : Frame.new lc args caps = .ok s ())
    (hargs : args.length ≤ lc + placeholders args) (hc : caps.length < 256) (ha : args.length < 256) :
    Inv s ∧ s.tb = baseSum lc args caps :=
  ⟨(new_inv lc args caps s h hargs hc ha).1, (new_inv lc args caps s h hargs hc ha).2.1⟩

/-- non-vacuity: a frame with two named arguments, a placeholder and a capture -/
example : ∃ s, Frame.new 3 [.local_ 1, .placeholder, .local_ 2] [7] = .ok s () ∧ s.tb = 6 :=
  ⟨_, rfl, rfl⟩

/-- **frame_new_wrap_witness** (finding F-C05-3, about `Frame::new` itself — the compiler no longer
reaches it, see `frame_new_guarded`): `1 + locals + captures + placeholders` is summed in
`u8` without a check. With 248 locals and 12 captures the sum is 261: a build with overflow checks
panics, a build without wraps to `temporary_base = 5`, below the frame's own locals — so the
allocator invariant (`locals.length ≤ tb`) fails and temporaries would overlap locals. 255 locals
alone already overflow (`1 + 255`). This is the negation of "limits are reported as errors". -/
theorem frame_new_wrap_witness :
    Frame.new 248 [] (List.range 12) = .panic
    ∧ (Frame.newWrapping 248 [] (List.range 12)).tb = 5
    ∧ ¬ Inv (Frame.newWrapping 248 [] (List.range 12))
    ∧ Frame.new 255 [] [] = .panic := by
  refine ⟨by decide, by decide, ?_, by decide⟩
  intro h
  have := h.locals
  revert this
  decide

/-- what does hold: whenever the exact sum fits a `u8`, `Frame::new` succeeds with that base -/
theorem frame_new_partial (lc : Nat) (args : List Arg) (caps : List Nat)
    (h : baseSum lc args caps ≤ 255) :
    ∃ s, Frame.new lc args caps = .ok s () ∧ s.tb = baseSum lc args caps := by
  unfold baseSum at h
  have hc : asU8 caps.length = caps.length := by simp only [asU8]; omega
  have hp : asU8 (placeholders args) = placeholders args := by simp only [asU8]; omega
  refine ⟨{ locals := initialLocals args caps, tb := 1 + lc + caps.length + placeholders args }, ?_, ?_⟩
  · have h1 : ¬ (1 + lc > 255) := by omega
    have h2 : ¬ (1 + lc + caps.length > 255) := by omega
    have h3 : ¬ (1 + lc + caps.length + placeholders args > 255) := by omega
    simp [Frame.new, hc, hp, u8Max, h1, h2, h3]
  · simp [baseSum]

/-- **frame_new_guarded** (since fix 4f80b78, finding F-C05-3): through the compiler's guard
`Frame::new` is only reached with a sum that fits — it then never panics or wraps, and the base is the
exact sum; above the limit the guard reports the compile error. So `frame_new_wrap_witness` remains a
statement about `Frame::new` called directly, not about anything the compiler does. -/
theorem frame_new_guarded (lc : Nat) (args : List Arg) (caps : List Nat) :
    (baseSum lc args caps > 255 → Frame.newGuarded lc args caps = none)
    ∧ (baseSum lc args caps ≤ 255 →
        ∃ s, Frame.newGuarded lc args caps = some (.ok s ()) ∧ s.tb = baseSum lc args caps) := by
  refine ⟨?_, ?_⟩
  · intro h
    simp [Frame.newGuarded, u8Max, h]
  · intro h
    obtain ⟨s, hs, htb⟩ := frame_new_partial lc args caps h
    refine ⟨s, ?_, htb⟩
    have : ¬ (baseSum lc args caps > 255) := by omega
    simp [Frame.newGuarded, u8Max, this, hs]

/-- the former witness inputs are now compile errors -/
example : Frame.newGuarded 248 [] (List.range 12) = none ∧ Frame.newGuarded 255 [] [] = none := by decide

/-! ## The compiler core emits well-formed code (`compile_wf`)

`Model/Compile.lean` (C01) models the compiler's result-register protocol for the scalar /
conditional core and is tied to the real compiler instruction for instruction (harness `c01k2`).
`Lemmas/C05CompileWF.lean` encodes its flat instruction stream with `Model/Encode.lean`
(`encodeMain`: `NewFrame registers_used`, the body with instruction skips turned into byte offsets,
`Return result`). -/

open KotoVerif.Compile in
/-- **compile_wf** (DESIGN §6 C05): for *every* expression of the compiler core, compiled as a main
block with `Any`, the emitted code — `NewFrame registers_used`, the flattened stream with its
instruction skips turned into byte offsets, `Return result`, encoded with `Model/Encode.lean` — is
accepted by the verifier `wfChunk`: the sweep of the bytes is exactly the listing of the emitted
instructions (codec round trip), every jump offset hits the listed pc of its target (encoded sizes are
additive over the structured code), every instruction is reachable and every successor is an
instruction of the unit (by induction over `Code`), all registers are below `registers_used`, the
integer constants are in the pool, and there is nothing to balance. The side conditions are the
limits the real compiler reports as errors: at most 254 locals (`FunctionPropertyLimit` otherwise; that
`registers_used ≤ 255` then holds for whatever was compiled is proved, `compile_fits`: `push_register`
refuses register 255) and code that fits the u16 jump offsets (`JumpOffsetIsTooLarge` otherwise); `cidx` is any assignment of pool indices to the integer literals.
With `wf_sound_jumps/regs/balance` this gives: no execution of such a chunk meets an internal fault. -/
theorem compile_wf (e : Compile.Expr) (lc : Nat) (code : Compile.Code) (out : Compile.Out)
    (F' : Compile.Frame) (cidx : Int → Nat) (consts : List CKind)
    (h : Compile.compile e .any { tb := 1 + lc } = some (code, out, F'))
    (hlc : lc ≤ 254) (hsz : sizeOf cidx (flatten code) ≤ 65535)
    (hc : ∀ n, cidx n < 4294967296 ∧ consts[cidx n]? = some .int) :
    ∃ r, out.reg = some r ∧ wfChunk (encodeMain cidx F'.registersUsed (flatten code) r) consts = true := by
  obtain ⟨hregs, ⟨r, hr, hrlt⟩, _, _⟩ := compile_wf_flat e lc code out F' h
  have hru : F'.registersUsed ≤ 255 :=
    compile_fits e .any _ code out F' h (by simp only [U]; omega)
  exact ⟨r, hr, wfChunk_encodeMain cidx consts _ r code hru hrlt hregs hsz hc⟩

open KotoVerif.Compile in
/-- the same for the packaged pipeline `compileMain = compile → flatten → encodeMain` -/
theorem compile_wf_main (e : Compile.Expr) (lc : Nat) (cidx : Int → Nat) (consts : List CKind) (bytes : List Nat)
    (h : compileMain cidx e lc = some bytes)
    (hlc : lc ≤ 254)
    (hlim : ∀ code out F', Compile.compile e .any { tb := 1 + lc } = some (code, out, F') →
      sizeOf cidx (flatten code) ≤ 65535)
    (hc : ∀ n, cidx n < 4294967296 ∧ consts[cidx n]? = some .int) :
    wfChunk bytes consts = true := by
  unfold compileMain at h
  cases hcmp : Compile.compile e .any { tb := 1 + lc } with
  | none => simp [hcmp] at h
  | some res =>
    obtain ⟨code, out, F'⟩ := res
    have hsz := hlim code out F' hcmp
    obtain ⟨r, hr, hwf⟩ := compile_wf e lc code out F' cidx consts hcmp hlc hsz hc
    simp only [hcmp, hr] at h
    cases h
    exact hwf

open KotoVerif.Compile in
/-- **compile_wf_loops** (statement layer, `Model/CompileLoop.lean`): a main block of statements —
expression statements, blocks, `if` / `if-else` with statement branches, `while` and `until` loops,
arbitrarily nested — followed by a final expression, compiled by `compileProg` and encoded with
`encodeProg` (forward skips and `JumpBack` distances turned into byte offsets), is accepted by
`wfChunk`: the backward jump of every loop lands on the first instruction of its condition, the
conditional exit jump on the instruction after the `JumpBack`. Not covered by this theorem (only by
the translation validation of real chunks): `break` / `continue` and `loop` without a condition, which
leave unreachable instructions behind (the `Jump` over an else branch after a then branch that ends in
`break`, the code after an endless `loop`) — the proof technique here shows that `annotate` reaches
every instruction. -/
theorem compile_wf_loops (s : Compile.Stmt) (e : Compile.Expr) (lc : Nat) (flat : List Compile.LFlat)
    (o : Compile.Out) (F2 : Compile.Frame) (cidx : Int → Nat) (consts : List CKind)
    (h : compileProg s e lc = some (flat, o, F2)) (hs : SimpleS s) (hlc : lc ≤ 254)
    (hsz : sizeOfL cidx flat ≤ 65535)
    (hc : ∀ n, cidx n < 4294967296 ∧ consts[cidx n]? = some .int) :
    ∃ r, o.reg = some r ∧ wfChunk (encodeProg cidx F2.registersUsed flat r) consts = true :=
  wfChunk_compileProg s e lc flat o F2 cidx consts h hs hlc hsz hc

open KotoVerif.Compile in
/-- non-vacuity, evaluated in the kernel: `x0 = 0; while x0 < 300 { x0 += 1; if x0 == 7 { x1 = x0 }
else { until x1 { x1 = true } } }; x0` compiles, is in the fragment, and its bytes are accepted -/
theorem compile_wf_loops_instance :
    (match compileProg
        (.seq (.expr (.assign 0 (.int 0)))
          (.loop (some (.cmp .lt (.var 0) (.int 300), false))
            (.seq (.expr (.compound .add 0 (.int 1)))
              (.ite (.cmp .eq (.var 0) (.int 7)) (.expr (.assign 1 (.var 0)))
                (.loop (some (.var 1, true)) (.expr (.assign 1 (.bool true))))))))
        (.var 0) 2 with
      | some (flat, o, F2) => o.reg.any (fun r => wfChunk (encodeProg (fun _ => 0) F2.registersUsed flat r) [.int])
      | none => false) = true := by decide

open KotoVerif.Compile in
/-- **compile_wf_cert** (the whole statement layer — `break`, `continue` and endless `loop` included):
for *every* main block `s ; e` that `compileProg` compiles, the sweep of the encoded bytes is the
listing of the emitted instructions and that listing passes the verifier's check `checkAnns` (with the
depth `(0,0,0)` everywhere — an annotation may also cover instructions no execution reaches, such as
the `Jump` over an else branch after a then branch that ends in `break`). The jumps of `break` and
`continue` are in range whatever the nesting (`flatAux_range`), and in a stream whose jumps are in range
every byte offset lands on the pc of its target instruction (`tgt_rest`). `checkAnns` is everything the
soundness theorems use; what this does not give for `break` / `continue` / endless `loop` is that the
verifier's own inference `annotate` arrives at an accepted annotation — `wfChunk … = true` is the
theorem `compile_wf_loops` for the fragment without them, and is observed by translation validation
on the real chunks. -/
theorem compile_wf_cert (s : Compile.Stmt) (e : Compile.Expr) (lc : Nat) (flat : List Compile.LFlat)
    (o : Compile.Out) (F2 : Compile.Frame) (cidx : Int → Nat) (consts : List CKind)
    (h : compileProg s e lc = some (flat, o, F2)) (hlc : lc ≤ 254) (hsz : sizeOfL cidx flat ≤ 65535)
    (hc : ∀ n, cidx n < 4294967296 ∧ consts[cidx n]? = some .int) :
    ∃ r, o.reg = some r
      ∧ sweep ((encodeProg cidx F2.registersUsed flat r).length + 1) 0 (encodeProg cidx F2.registersUsed flat r)
          = some (lay none 0 (progInstrs cidx F2.registersUsed flat r), [])
      ∧ checkAnns consts 0 0 (lay (some Z) 0 (progInstrs cidx F2.registersUsed flat r)) = true :=
  cert_compileProg s e lc flat o F2 cidx consts h hlc hsz hc

open KotoVerif.Compile in
/-- **compile_no_internal_fault**: consequently, for every main block of the statement layer, every
configuration the abstract VM can reach from the entry of the compiled code is fault-free: the
instruction pointer is on an emitted instruction, every jump — forward, backward, `break`, `continue`
— has landed on one, and control never runs past the end of the unit. -/
theorem compile_no_internal_fault (s : Compile.Stmt) (e : Compile.Expr) (lc : Nat) (flat : List Compile.LFlat)
    (o : Compile.Out) (F2 : Compile.Frame) (cidx : Int → Nat) (consts : List CKind)
    (h : compileProg s e lc = some (flat, o, F2)) (hlc : lc ≤ 254) (hsz : sizeOfL cidx flat ≤ 65535)
    (hc : ∀ n, cidx n < 4294967296 ∧ consts[cidx n]? = some .int) :
    ∃ r, o.reg = some r ∧ ∀ c, Reach (lay (some Z) 0 (progInstrs cidx F2.registersUsed flat r)) ⟨0, 0, 0, []⟩ c →
      ¬ Fault (lay (some Z) 0 (progInstrs cidx F2.registersUsed flat r)) c :=
  compileProg_no_fault s e lc flat o F2 cidx consts h hlc hsz hc

open KotoVerif.Compile in
/-- non-vacuity, evaluated in the kernel, with `break`, `continue`, an endless `loop` and dead code:
`x0 = 0; loop { x0 += 1; if x0 == 3 { continue } else { if x0 > 9 { break } }; while true { break } };
x0` compiles and the executable `wfChunk` accepts its bytes -/
theorem compile_wf_break_continue_instance :
    (match compileProg
        (.seq (.expr (.assign 0 (.int 0)))
          (.loop none
            (.seq (.expr (.compound .add 0 (.int 1)))
              (.seq (.ite (.cmp .eq (.var 0) (.int 3)) .cont (.ifThen (.cmp .gt (.var 0) (.int 9)) .brk))
                (.loop (some (.bool true, false)) .brk)))))
        (.var 0) 1 with
      | some (flat, o, F2) => o.reg.any (fun r => wfChunk (encodeProg (fun _ => 0) F2.registersUsed flat r) [.int])
      | none => false) = true := by decide

open KotoVerif.Compile in
/-- the flat-level facts behind it (registers, jump targets, frame size), for every expression -/
theorem compile_wf_flat_level (e : Compile.Expr) (lc : Nat) (code : Compile.Code) (out : Compile.Out)
    (F' : Compile.Frame) (h : Compile.compile e .any { tb := 1 + lc } = some (code, out, F')) :
    (∀ f ∈ flatten code, ∀ r ∈ flatRegs f, r < F'.registersUsed)
    ∧ (∃ r, out.reg = some r ∧ r < F'.registersUsed)
    ∧ jumpsOk (flatten code) = true
    ∧ 1 + lc ≤ F'.registersUsed :=
  compile_wf_flat e lc code out F' h

open KotoVerif.Compile in
/-- the general register bound behind it: any expression, any result mode, any well-formed frame -/
theorem compile_regs_bound (e : Compile.Expr) (m : Compile.Mode) (F : Compile.Frame) (code : Compile.Code)
    (out : Compile.Out) (F' : Compile.Frame) (h : Compile.compile e m F = some (code, out, F'))
    (hw : Compile.WF F) (ht : F.tc ≤ F.tmax) (hfix : ∀ r, m = .fixed r → r < F.tb + F.tmax) :
    F'.tb = F.tb ∧ F.tmax ≤ F'.tmax ∧ F'.tc ≤ F'.tmax
    ∧ ∀ f ∈ flatten code, ∀ r ∈ flatRegs f, r < F'.tb + F'.tmax := by
  obtain ⟨hm, ht', hcb⟩ := compile_regs e m F code out F' h hw ht hfix
  exact ⟨hm.tb, hm.tmax, ht', flatten_regs code _ hcb⟩

open KotoVerif.Compile in
/-- **compile_wf_instances** (non-vacuity of `compile_wf`, evaluated in the kernel): on concrete programs of the core (assignment of a pooled integer,
`if`/`else` with a comparison, `and`, negation; compound assignment, a chained comparison, `or`,
`if` without `else`) the whole pipeline `compile → flatten → encodeMain → wfChunk` evaluates to
`true` in the kernel. `x0 = 300; if x0 < 5 then x0 and true else -x0` encodes to the bytes the real
compiler emits for it (checked against `koto -i`), up to the index of the constant 300. -/
theorem compile_wf_instances :
    (compileMain (fun _ => 0)
      (.seq (.assign 0 (.int 300))
        (.ite (.cmp .lt (.var 0) (.int 5)) (.and (.var 0) (.bool true)) (.un .neg (.var 0)))) 1).any
      (fun bs => wfChunk bs [.int]) = true
    ∧ (compileMain (fun _ => 0)
      (.seq (.assign 0 (.int (-7)))
        (.seq (.compound .add 0 (.bin .mul (.var 0) (.int 2)))
          (.or (.chain3 .lt .le (.int 1) (.var 0) (.int 9)) (.ifThen (.var 0) (.assign 1 .null))))) 2).any
      (fun bs => wfChunk bs [.int]) = true := by decide

end KotoVerif.C05
