/-
C19 — second extension module: end-to-end statements that connect the concurrent model (Part 2 of
`Model/Cell.lean`) with the single-threaded cell scripts of both builds (Part 1).
-/
import KotoVerif.Model.Cell
import KotoVerif.Props.C19
import KotoVerif.Props.C19Ext

namespace KotoVerif.C19Ext2
open KotoVerif.Cell KotoVerif.C19 KotoVerif.C19Ext

variable {σ ρ : Type}

/-! ### 1. every concurrent (arc) execution is a single-threaded script run of EITHER build -/

/-- **Concurrent arc execution ≡ some single-threaded rc (or arc) run.** For every schedule of N
threads on one shared cell, take the operations in the order of their effect steps and run them as
one bracketed single-threaded script under `RefCell` (rc) or `RwLock` (arc): the script ends with
the lock free and exactly the concurrent final data, and every thread's results are the values of
that script attributed to the issuing threads. -/
theorem concurrent_refines_script (m : Mode) (d0 : σ) (progs : List (List (Op σ ρ)))
    (sched : List Nat) :
    let g := exec (init d0 progs) sched
    let r := run m { data := d0 } ((g.lin.map (·.2)).flatMap bracket)
    r.2 = { data := g.data } ∧
    ∀ (t : Nat) (th : Thread σ ρ), g.threads[t]? = some th →
      th.results = resOf t ((g.lin.map (·.1)).zip (vals r.1)) := by
  intro g r
  have hl := C19.linearizable d0 progs sched
  simp only at hl
  have hb := C19.rc_arc_equiv_brackets m d0 (g.lin.map (·.2))
  have hs : seqAll d0 g.lin =
      ((seqOps d0 (g.lin.map (·.2))).2, (g.lin.map (·.1)).zip (seqOps d0 (g.lin.map (·.2))).1) := by
    unfold seqAll
    rw [seqAll_fold_eq_seqOps]
    simp
  refine ⟨?_, ?_⟩
  · show r.2 = _
    rw [hb.2, hl.1, hs]
  · intro t th ht
    rw [(hl.2.1 t th ht).1, hs]
    show _ = resOf t ((g.lin.map (·.1)).zip (vals r.1))
    rw [hb.1]

/-- the two builds cannot be told apart on the linearization of any concurrent execution -/
theorem concurrent_script_mode_indep (d0 : σ) (progs : List (List (Op σ ρ))) (sched : List Nat) :
    let g := exec (init d0 progs) sched
    let s : List (Act σ ρ) := (g.lin.map (·.2)).flatMap bracket
    vals (run .rc { data := d0 } s).1 = vals (run .arc { data := d0 } s).1 ∧
    (run .rc { data := d0 } s).2 = (run .arc { data := d0 } s).2 := by
  intro g s
  have h1 := C19.rc_arc_equiv_brackets .rc d0 (g.lin.map (·.2))
  have h2 := C19.rc_arc_equiv_brackets .arc d0 (g.lin.map (·.2))
  exact ⟨h1.1.trans h2.1.symm, h1.2.trans h2.2.symm⟩

/-! ### 2. invariants: only WRITE operations have to preserve them -/

theorem seqAll_fold_invariant_effD (P : σ → Prop) (lin : List (Nat × Op σ ρ))
    (hops : ∀ e ∈ lin, ∀ d, P d → P (effD e.2 d)) (acc : σ × List (Nat × ρ)) (h : P acc.1) :
    P (lin.foldl seqStep acc).1 := by
  induction lin generalizing acc with
  | nil => simpa using h
  | cons e rest ih =>
    rw [List.foldl_cons]
    apply ih (fun e' he' => hops e' (List.mem_cons_of_mem _ he'))
    exact hops e List.mem_cons_self _ h

/-- Stronger form of `C19Ext.concurrent_invariant`: a read operation's `f` may return any data
component (it is never stored), so only the operations that take the exclusive guard have to
preserve `P`. -/
theorem concurrent_invariant_writes (P : σ → Prop) (d0 : σ) (progs : List (List (Op σ ρ)))
    (h0 : P d0)
    (hops : ∀ p ∈ progs, ∀ o ∈ p, o.write = true → ∀ d, P d → P (o.f d).1) (sched : List Nat) :
    P (exec (init d0 progs) sched).data := by
  have hl := C19.linearizable d0 progs sched
  simp only at hl
  rw [hl.1]
  unfold seqAll
  apply seqAll_fold_invariant_effD P _ _ (d0, []) h0
  intro e he d hd
  obtain ⟨p, hp, hep⟩ := hl.2.2 e he
  have hpm : p ∈ progs := List.mem_of_getElem? hp
  unfold effD
  cases hw : e.2.write with
  | false => simpa using hd
  | true => simpa using hops p hpm e.2 hep hw d hd

/-- **Readers never change a shared container**, whatever their `f` computes, under every
interleaving of any number of threads. -/
theorem concurrent_reads_keep_data (d0 : σ) (progs : List (List (Op σ ρ)))
    (hr : ∀ p ∈ progs, ∀ o ∈ p, o.write = false) (sched : List Nat) :
    (exec (init d0 progs) sched).data = d0 := by
  apply concurrent_invariant_writes (fun d => d = d0) d0 progs rfl _ sched
  intro p hp o ho hw
  rw [hr p hp o ho] at hw
  cases hw

example : ∀ p ∈ [[LOp.size.toOp, (LOp.get 0).toOp], [LOp.snapshot.toOp]], ∀ o ∈ p,
    o.write = false := by decide

/-- list instance: threads that only issue read operations of the harness table (size, get, first,
last, contains, snapshot, isEmpty, ==, slices) leave the shared list as it was -/
theorem concurrent_list_reads_keep_data (l0 : List Int) (progs : List (List LOp))
    (hr : ∀ p ∈ progs, ∀ o ∈ p, o.isWrite = false) (sched : List Nat) :
    (exec (init l0 (progs.map (·.map LOp.toOp))) sched).data = l0 := by
  apply concurrent_reads_keep_data
  intro p hp o ho
  obtain ⟨q, hq, rfl⟩ := List.mem_map.1 hp
  obtain ⟨lo, hlo, rfl⟩ := List.mem_map.1 ho
  exact hr q hq lo hlo

/-! ### 3. schedules: ids of threads that do not exist are harmless -/

theorem stepP_out_of_range (p : Policy) (g : Conc σ ρ) (t : Nat) (h : g.threads.length ≤ t) :
    stepP p g t = g := by
  have : g.threads[t]? = none := List.getElem?_eq_none h
  simp [stepP, this]

/-- a schedule that only names non-existent threads does nothing (any policy) -/
theorem execP_out_of_range (p : Policy) (g : Conc σ ρ) (sched : List Nat)
    (h : ∀ t ∈ sched, g.threads.length ≤ t) : execP p g sched = g := by
  induction sched with
  | nil => rfl
  | cons t rest ih =>
    have ht := stepP_out_of_range p g t (h t List.mem_cons_self)
    simp only [execP, List.foldl_cons, ht]
    exact ih (fun u hu => h u (List.mem_cons_of_mem _ hu))

example : ∀ t ∈ [2, 5, 7], (init (0 : Nat) [[], ([] : List (Op Nat Nat))]).threads.length ≤ t := by
  decide

/-- schedules compose -/
theorem execP_append (p : Policy) (g : Conc σ ρ) (s1 s2 : List Nat) :
    execP p g (s1 ++ s2) = execP p (execP p g s1) s2 := by
  simp [execP, List.foldl_append]

/-! ### 4. one thread: the concurrent model collapses to the sequential meaning -/

/-- With a single thread, a finished execution (any schedule) has exactly the sequential meaning
`seqOps` of its program: final data and results. -/
theorem single_thread_is_sequential (d0 : σ) (p : List (Op σ ρ)) (sched : List Nat)
    (th : Thread σ ρ) (h : (exec (init d0 [p]) sched).threads[0]? = some th) (hfin : th.prog = []) :
    (exec (init d0 [p]) sched).data = (seqOps d0 p).2 ∧ th.results = (seqOps d0 p).1 := by
  have hl := C19.linearizable d0 [p] sched
  simp only at hl
  generalize exec (init d0 [p]) sched = g at hl h
  have hall : ∀ e ∈ g.lin, e.1 = 0 := by
    intro e he
    obtain ⟨q, hq, _⟩ := hl.2.2 e he
    cases h1 : e.1 with
    | zero => rfl
    | succ n => rw [h1] at hq; simp at hq
  have hp : p = g.lin.map (·.2) := by
    have := (hl.2.1 0 th h).2
    rw [hfin] at this
    simp only [List.getElem?_cons_zero, List.append_nil, Option.some.injEq] at this
    rw [this, opsOf, List.filter_eq_self.2]
    intro e he; simp [hall e he]
  have hr := seqAll_refines_seqOps d0 g.lin
  rw [← hp] at hr
  refine ⟨hl.1.trans hr.1, ?_⟩
  rw [(hl.2.1 0 th h).1, ← hr.2.1, resOf, List.filter_eq_self.2]
  intro e he
  have : e.1 ∈ (seqAll d0 g.lin).2.map (·.1) := List.mem_map_of_mem he
  rw [hr.2.2] at this
  obtain ⟨e', he', h'⟩ := List.mem_map.1 this
  simp [← h', hall e' he']

/-- non-vacuity: one thread, one write operation, four micro-steps: finished -/
example : ((exec (init (0 : Nat) [[({ write := true, f := fun d => (d + 1, d) } : Op Nat Nat)]])
    [0, 0, 0, 0]).threads[0]?.map (fun th => th.prog.length)) = some 0 := by decide

end KotoVerif.C19Ext2
