/-
C01 (layer 5) — the compiler's result-register protocol is correct: property theorems about
`Model/Compile.lean` (tied to `koto_bytecode::Compiler` by the instruction-for-instruction
correspondence K2, `harness/src/bin/c01k2.rs`).

"The outcome of an expression does not depend on the code that surrounds it (top level or function
body, how many other locals or temporaries are live)": `compile_correct_any_context` quantifies
over *every* frame state (any committed / reserved locals, any number of live temporaries up to the
register limit), every result mode (`None`, `Any`, `Fixed r`) and every operator semantics.
-/
import KotoVerif.Lemmas.C01Chain
import KotoVerif.Lemmas.C01Flatten

namespace KotoVerif.C01
open KotoVerif.Compile

variable {S : Sem}

/-- **compile_correct, in any context.** Let `e` be compiled in an arbitrary well-formed frame `F`
with result mode `m`, and let the static side conditions `safe` hold (no late read of a bare local
operand, no read of the assignment target after a partial result has been written to its register —
the two conditions that F-C01-1 / F-C01-2 violate). If the register file agrees with the
environment on all locals outside `E` and the reference semantics evaluates `e` to `v`, then the
emitted code runs without fault, leaves `v` in the output register, keeps every other live
temporary, and the register file agrees with the new environment. -/
theorem compile_correct_any_context (e : Expr) (m : Mode) (F : Frame) (code : Code) (out : Out) (F' : Frame)
    (E : List Nat) (fx : Option Nat)
    (hc : compile e m F = some (code, out, F')) (hw : WF F) (hm : ModeFx m fx F) (hs : safe E fx e = true)
    (σ : Regs S) (ρ ρ' : Env S) (v : S.V) (hrel : RelEx E F σ ρ) (hev : eval S e ρ = some (v, ρ')) :
    ∃ σ', exec S code σ = some σ' ∧ RelEx (addOpt fx E) F' σ' ρ' ∧
      (∀ r, out.reg = some r → σ' r = v) ∧ TempsKept m F σ σ' :=
  compile_sem e m F code out F' E fx hc hw hm hs σ ρ ρ' v hrel hev

/-- the frame of a main block with `lc` locals -/
def mainFrame (lc : Nat) : Frame := { tb := 1 + lc }

theorem mainFrame_wf (lc : Nat) : WF (mainFrame lc) := by
  refine ⟨by simp [mainFrame], ?_⟩
  intro i j x hi _
  simp only [Named, mainFrame] at hi
  cases i with
  | zero => simp [Slot.id?] at hi
  | succ i => simp at hi

/-- **compile_correct, whole program, on the flat instruction stream.** A main block compiled with
`Any`: running the *flattened* instruction stream (relative forward jumps, as the real compiler
emits them) from any register file yields the value of the reference semantics in the returned
register, and every assigned local's register holds its final value. -/
theorem compile_correct_main (e : Expr) (lc : Nat) (code : Code) (out : Out) (F' : Frame)
    (hc : compile e .any (mainFrame lc) = some (code, out, F')) (hs : safe [] none e = true)
    (σ : Regs S) (ρ' : Env S) (v : S.V) (hev : eval S e (fun _ => none) = some (v, ρ')) :
    ∃ σ' r, execFlat S (flatten code) σ = some σ' ∧ out.reg = some r ∧ σ' r = v ∧
      (∀ x w, ρ' x = some w → ∃ q, Has F' q x ∧ σ' q = w) := by
  obtain ⟨σ', h1, h2, h3, _⟩ := compile_sem e .any (mainFrame lc) code out F' [] none hc (mainFrame_wf lc)
    trivial hs σ (fun _ => none) ρ' v (by intro x w hx; simp at hx) hev
  have ff := compile_frame _ _ _ _ _ _ hc (mainFrame_wf lc)
  have hreg : ∃ r, out.reg = some r := by
    rcases ff.shape with h | ⟨_, _, r, _, hr, _⟩
    · exact ⟨_, by rw [h]⟩
    · exact ⟨r, hr⟩
  obtain ⟨r, hr⟩ := hreg
  refine ⟨σ', r, by rw [flatten_correct']; exact h1, hr, h3 r hr, ?_⟩
  intro x w hx
  exact h2 x w hx (by simp [addOpt])

/-- **frame discipline** (`frame_inv` for the compiler core): temporaries are handed out and
returned LIFO (`F'.tc = F.tc` + 1 iff the output is a temporary, which is then the next free
register), the output has the shape the mode prescribes, committed locals keep their registers and
the frame stays well-formed — for every expression, mode and frame. -/
theorem compile_frame_discipline (e : Expr) (m : Mode) (F : Frame) (code : Code) (out : Out) (F' : Frame)
    (hc : compile e m F = some (code, out, F')) (hw : WF F) : FF m e F out F' :=
  compile_frame e m F code out F' hc hw

/-- flat execution = structured execution (`flatten_correct`) -/
theorem flatten_exec (c : Code) (σ : Regs S) : execFlat S (flatten c) σ = exec S c σ :=
  flatten_correct' S c σ

/-! ## the side conditions are necessary: F-C01-1 and F-C01-2 in the model -/

/-- a concrete operator semantics: integers, `null` = -1, false = 0, only 0 and -1 falsy -/
def intSem : Sem where
  V := Int
  null := -1
  ofBool b := if b then 1 else 0
  ofInt n := n
  truthy v := v != 0 && v != -1
  unop op v := match op with | .neg => some (-v) | .not => some (if v != 0 && v != -1 then 0 else 1)
  binop op a b := match op with
    | .add => some (a + b) | .sub => some (a - b) | .mul => some (a * b)
    | .lt => some (if a < b then 1 else 0) | .eq => some (if a = b then 1 else 0)
    | _ => none
  compoundop op a b := match op with
    | .add => some (a + b) | .sub => some (a - b) | .mul => some (a * b)
    | _ => none

/-- `x = 5; y = 1; x = y and x` (x = local 0, y = local 1) -/
def progF25 : Expr :=
  .seq (.assign 0 (.int 5)) (.seq (.assign 1 (.int 1)) (.assign 0 (.and (.var 1) (.var 0))))

/-- `y = 1; y + (y = 7)` -/
def progLateRead : Expr :=
  .seq (.assign 0 (.int 1)) (.bin .add (.var 0) (.assign 0 (.int 7)))

def runMain (e : Expr) (lc : Nat) : Option (Int × Int) :=
  match compile e .any (mainFrame lc), eval intSem e (fun _ => none) with
  | some (code, out, _), some (v, _) =>
    match exec intSem code (fun _ => (-1 : Int)), out.reg with
    | some σ', some r => some (σ' r, v)
    | _, _ => none
  | _, _ => none

/-- **F-C01-1 in the model** (`fixed_unsafe_witness`): the program is not `safe`, and the compiled
code returns 1 where the reference semantics gives 5 — the same wrong answer the real runtime gives. -/
theorem fixed_unsafe_witness : safe [] none progF25 = false ∧ runMain progF25 2 = some (1, 5) := by
  constructor
  · decide
  · rfl

/-- **F-C01-2 in the model** (`late_read_witness`): not `safe`, compiled code gives 14, the
reference semantics 8. -/
theorem late_read_witness : safe [] none progLateRead = false ∧ runMain progLateRead 1 = some (14, 8) := by
  constructor
  · decide
  · rfl

/-! ## non-vacuity -/

/-- `x = 3; y = if x < 4 then x + 1 else 0; x = x + y; y and (x = x * 2)` — safe, compiles, runs -/
def progOk : Expr :=
  .seq (.assign 0 (.int 3))
    (.seq (.assign 1 (.ite (.cmp .lt (.var 0) (.int 4)) (.bin .add (.var 0) (.int 1)) (.int 0)))
      (.seq (.assign 0 (.bin .add (.var 0) (.var 1))) (.and (.var 1) (.assign 0 (.bin .mul (.var 0) (.int 2))))))

example : safe [] none progOk = true ∧ runMain progOk 2 = some (14, 14) := by
  constructor
  · decide
  · rfl

end KotoVerif.C01
