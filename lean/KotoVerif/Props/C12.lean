/-
C12 — errors point at the right place: property theorems about `Model/SrcMap.lean` (source map
and span stack), `Model/Trace.lean` (trace collection while unwinding) and `Model/Excerpt.lean`
(the arithmetic of `format_source_excerpt`).

Every theorem quantifies over all inputs (all push sequences, all step trees, all call chains of any
depth, all spans and line counts). The helper lemmas are in `Lemmas/C12.lean`; the fixtures used by
the non-vacuity examples (`spA`, `spB`, `spR`, `exPushes`, `exTree`, `exCalls`) are defined there too.
-/
import KotoVerif.Model.SrcMap
import KotoVerif.Model.Excerpt
import KotoVerif.Model.Trace
import KotoVerif.Lemmas.C12

namespace KotoVerif.C12
open KotoVerif.SrcMap KotoVerif.Excerpt KotoVerif.Trace
open KotoVerif.C12L (spA spB spR exPushes exTree exCalls)

/-- ips pushed in non-decreasing order -/
def Sorted (es : List Entry) : Prop := es.Pairwise (fun a b => a.1 ≤ b.1)

/-- ips strictly increasing -/
def StrictSorted (es : List Entry) : Prop := es.Pairwise (fun a b => a.1 < b.1)

/-! ## 1. the source map -/

/-- The code-shaped fold of `DebugInfo::push` equals the recursion-friendly description. -/
theorem pushAll_eq_compress (es : List Entry) : pushAll es = compress es := by
  unfold pushAll compress
  rw [C12L.foldl_push]
  rfl

example : pushAll exPushes = [(0, spA), (5, spB), (9, spA)] := by decide

/-- Merging equal neighbouring spans loses nothing: every lookup gives the same answer as on the
uncompressed list of pushes. -/
theorem srcmap_lossless (es : List Entry) (h : Sorted es) (q : Nat) :
    lookup (pushAll es) q = lookup es q :=
  C12L.lookup_pushAll es h q

example : Sorted exPushes ∧ (pushAll exPushes).length < exPushes.length ∧
    ∀ q < 12, lookup (pushAll exPushes) q = lookup exPushes q := by
  unfold Sorted; decide

/-- `get_source_span` = span of the last entry with `ip ≤ query`. -/
theorem lookup_spec (m : List Entry) (h : Sorted m) (q : Nat) :
    lookup m q = ((m.filter (fun e => decide (e.1 ≤ q))).getLast?).map (·.2) := by
  unfold lookup
  rw [C12L.lookupGo_spec m q none h]
  simp

example : Sorted exPushes ∧ lookup exPushes 6 = some spB ∧ lookup exPushes 100 = some spA := by
  unfold Sorted; decide

theorem lookup_none_before_first (i : Nat) (s : Span) (rest : List Entry) (q : Nat) (h : q < i) :
    lookup ((i, s) :: rest) q = none := by
  have hn : ¬ i ≤ q := by omega
  simp [lookup, lookupGo, hn]

example : lookup [(3, spA), (5, spB)] 2 = none := by decide

/-- An ip that has an entry of its own gets exactly that entry's span. -/
theorem lookup_hit (m : List Entry) (h : StrictSorted m) (q : Nat) (sp : Span)
    (hm : (q, sp) ∈ m) : lookup m q = some sp :=
  C12L.lookupGo_hit m q sp none h hm

example : StrictSorted exPushes ∧ (5, spB) ∈ exPushes ∧ lookup exPushes 5 = some spB := by
  unfold StrictSorted; decide

/-- An instruction emitted with `push_op_without_span` is reported with the span of the nearest
preceding spanned instruction: if no entry has its ip in `(p, q]`, looking up `q` is looking up `p`. -/
theorem nospan_inherits (m : List Entry) (_h : Sorted m) (p q : Nat) (hpq : p ≤ q)
    (hnone : ∀ e ∈ m, ¬ (p < e.1 ∧ e.1 ≤ q)) : lookup m q = lookup m p :=
  C12L.lookupGo_nospan m p q none hpq hnone

example : Sorted exPushes ∧ (5 ≤ 6) ∧ (∀ e ∈ exPushes, ¬ (5 < e.1 ∧ e.1 ≤ 6)) ∧
    lookup exPushes 6 = lookup exPushes 5 := by
  unfold Sorted; decide

/-! ## 2. the span stack -/

/-- `push_span`/`pop_span` bracketing: every compile step leaves the span stack as found. -/
theorem span_stack_balanced (t : Steps) (s : CState) : (compile t s).stack = s.stack :=
  C12L.compile_stack t s

example : (compile exTree { stack := [spR] }).stack = [spR] := by decide

/-- The stack-based compile records exactly the lexically scoped annotation (the span of the
innermost enclosing node). -/
theorem compile_entries (t : Steps) (cur : Span) (stk : List Span) (ip : Nat) (es : List Entry)
    (ins : List (Nat × Option Span)) :
    let r := compile t { ip := ip, stack := cur :: stk, entries := es, instrs := ins }
    r.entries = es ++ (annot t cur ip).1 ∧ r.ip = (annot t cur ip).2 := by
  intro r
  exact C12L.compile_annot t cur stk ip es ins

example : (compile exTree { stack := [spR] }).entries
    = [(0, spA), (2, spA), (5, spB), (9, spA), (13, spR)] := by decide

/-- Each instruction emitted with `push_op`, looked up in the finished (compressed) debug info at
its own ip, carries the span of the innermost enclosing node. -/
theorem instr_span (root : Span) (t : Steps) (h : t.sizesPos = true) :
    ∀ e ∈ (annot t root 0).1, lookup (debugInfoOf root t) e.1 = some e.2 :=
  C12L.instr_span root t h

/-- nested nodes, equal neighbours merged, an op after a child node (ip 9: outer span again), an
instruction without a span (ip 6: inherits the child's span) -/
example : exTree.sizesPos = true ∧
    (annot exTree spR 0).1 = [(0, spA), (2, spA), (5, spB), (9, spA), (13, spR)] ∧
    debugInfoOf spR exTree = [(0, spA), (5, spB), (9, spA), (13, spR)] ∧
    (∀ e ∈ (annot exTree spR 0).1, lookup (debugInfoOf spR exTree) e.1 = some e.2) ∧
    lookup (debugInfoOf spR exTree) 9 = some spA ∧
    lookup (debugInfoOf spR exTree) 6 = some spB := by decide

/-! ## 3. the trace -/

/-- General form for any stack: frames without barrier and without an (allowed) catch entry are
popped, each remaining frame contributes its call site, the first barrier frame ends it. -/
theorem unwind_frames (allow : Bool) (fs : List Frame) (b : Frame) (below : List Frame)
    (tr : List IFrame)
    (hfs : ∀ f ∈ fs, f.barrier = false ∧ (f.hasCatch && allow) = false)
    (hb : b.barrier = true ∧ (b.hasCatch && allow) = false) :
    unwindGo allow (fs ++ b :: below) tr
      = .uncaught (tr ++ ((fs ++ [b]).drop 1).map (fun g => ⟨g.chunk, g.retIp⟩)) :=
  C12L.unwind_frames allow fs b below tr hfs hb

/-- with `allow_catch = false` catch entries are ignored; frames below the barrier are not reported -/
example :
    let fs : List Frame := [⟨3, 0, false, false⟩, ⟨2, 4, true, false⟩]
    let b : Frame := ⟨1, 7, true, true⟩
    (∀ f ∈ fs, f.barrier = false ∧ (f.hasCatch && false) = false) ∧
    (b.barrier = true ∧ (b.hasCatch && false) = false) ∧
    unwindGo false (fs ++ b :: [⟨0, 3, false, true⟩]) [⟨3, 11⟩]
      = .uncaught [⟨3, 11⟩, ⟨2, 4⟩, ⟨1, 7⟩] := by decide

/-- The trace is the failing instruction's frame first, then each enclosing call site, innermost
first — for call chains of any depth. -/
theorem trace_order (calls : List Call) (fault : Nat) (h : ∀ c ∈ calls, c.inTry = false) :
    predict calls fault false
      = .uncaught (⟨lastChunk 0 calls, fault⟩ :: (callSites 0 calls).reverse) :=
  C12L.trace_order calls fault h

example : (∀ c ∈ exCalls, c.inTry = false) ∧
    predict exCalls 11 false = .uncaught [⟨3, 11⟩, ⟨2, 4⟩, ⟨1, 7⟩, ⟨0, 3⟩] := by decide

/-- The error is caught exactly when the failing instruction or one of the calls of the chain lies
inside a `try` block. -/
theorem trace_caught_iff (calls : List Call) (fault : Nat) (ft : Bool) :
    predict calls fault ft = .caught ↔ (ft = true ∨ ∃ c ∈ calls, c.inTry = true) :=
  C12L.trace_caught_iff calls fault ft

example : predict [⟨3, 1, false⟩, ⟨7, 2, true⟩, ⟨4, 3, false⟩] 11 false = .caught ∧
    predict exCalls 11 true = .caught ∧
    predict exCalls 11 false ≠ .caught := by decide

/-! ### errors that cross native re-entries (callbacks run by core-library functions) -/

/-- No `try` anywhere: the trace across native re-entries is, entry by entry from the innermost,
[adaptor creation frame]? ++ failing / native-call instruction ++ that entry's call sites,
innermost first — for any number of entries and any depth inside each. -/
theorem trace_order_native (segs : List Seg) (tr : List IFrame)
    (h : ∀ s ∈ segs, s.failInTry = false ∧ ∀ c ∈ s.calls, c.inTry = false) :
    predictSegs segs tr = .uncaught (tr ++ (segs.map segFrames).flatten) :=
  C12L.trace_order_native segs tr h

/-- eager callback (e.g. `fold`): the callback called at ip 4 of the function passed, fails at 0;
the outer entry's native call is at ip 3 of a function called at ip 6 -/
example :
    let segs : List Seg := [{ calls := [⟨4, 0, false⟩], failIp := 0 },
                            { calls := [⟨6, 0, false⟩], failIp := 3 }]
    (∀ s ∈ segs, s.failInTry = false ∧ ∀ c ∈ s.calls, c.inTry = false) ∧
    predictSegs segs [] = .uncaught [⟨0, 0⟩, ⟨0, 4⟩, ⟨0, 3⟩, ⟨0, 6⟩] := by decide

/-- lazy adaptor (e.g. `each`) created at ip 2: its creation frame comes before the native call that
consumed the iterator; distinct chunks, three entries -/
example :
    predictSegs [{ calls := [⟨4, 0, false⟩], failIp := 0 },
                 { calls := [⟨6, 0, false⟩], failIp := 3, adaptorIp := some 2 }] []
      = .uncaught [⟨0, 0⟩, ⟨0, 4⟩, ⟨0, 2⟩, ⟨0, 3⟩, ⟨0, 6⟩] ∧
    predictSegs [{ calls := [⟨4, 5, false⟩, ⟨1, 6, false⟩], failIp := 9 },
                 { calls := [⟨6, 2, false⟩], failIp := 3, adaptorIp := some 2 },
                 { calls := [], failIp := 8 }] []
      = .uncaught [⟨6, 9⟩, ⟨5, 1⟩, ⟨0, 4⟩, ⟨2, 2⟩, ⟨2, 3⟩, ⟨0, 6⟩, ⟨0, 8⟩] := by decide

/-- One entry alone is `predict` (consistency with the single-entry model). -/
theorem predictSegs_single (calls : List Call) (fault : Nat) (ft : Bool) :
    predictSegs [{ calls := calls, failIp := fault, failInTry := ft }] [] = predict calls fault ft :=
  C12L.predictSegs_single calls fault ft

example : predictSegs [{ calls := exCalls, failIp := 11 }] []
    = .uncaught [⟨3, 11⟩, ⟨2, 4⟩, ⟨1, 7⟩, ⟨0, 3⟩] := by decide

/-- The staged mechanism on ONE shared stack (eager callbacks run on the same VM): the callback
frame `b` has a barrier, the frames `gs ++ [root]` of the outer entry lie below it. The first
unwinding stops at `b` with `t1` = `tr` ++ the call sites of `fs`/`b`; then (`call_and_run_function`
pops `b`, the outer loop's `pop_call_stack_on_error` pushes the new top's instruction frame — its
`retIp` — and continues) the second stage yields `tr` ++ the call sites of every frame below the top
one down to and including `root`: the same as if `b` had been an ordinary call frame (last
conjunct). -/
theorem native_reentry_same_stack (allow : Bool) (fs gs : List Frame) (b root : Frame)
    (below : List Frame) (tr : List IFrame)
    (hfs : ∀ f ∈ fs, f.barrier = false ∧ (f.hasCatch && allow) = false)
    (hb : b.barrier = true ∧ (b.hasCatch && allow) = false)
    (hgs : ∀ f ∈ gs, f.barrier = false ∧ (f.hasCatch && allow) = false)
    (hr : root.barrier = true ∧ (root.hasCatch && allow) = false) :
    ∃ t1, unwindGo allow (fs ++ b :: (gs ++ root :: below)) tr = .uncaught t1 ∧
      t1 = tr ++ ((fs ++ [b]).drop 1).map (fun g => (⟨g.chunk, g.retIp⟩ : IFrame)) ∧
      (match gs ++ [root] with
        | [] => True
        | g :: rest =>
          unwindGo allow (g :: (rest ++ below)) (t1 ++ [⟨g.chunk, g.retIp⟩])
            = .uncaught (tr ++ ((fs ++ b :: (gs ++ [root])).drop 1).map
                (fun g => (⟨g.chunk, g.retIp⟩ : IFrame)))) ∧
      unwindGo allow (fs ++ { b with barrier := false } :: (gs ++ root :: below)) tr
        = .uncaught (tr ++ ((fs ++ b :: (gs ++ [root])).drop 1).map
            (fun g => (⟨g.chunk, g.retIp⟩ : IFrame))) :=
  C12L.native_reentry_same_stack allow fs gs b root below tr hfs hb hgs hr

/-- callback chunk 3 called from chunk 2 (the callback frame, barrier) at ip 4; below it the outer
entry: chunk 1 (native call at ip 7) called from the root chunk 0 at ip 3 -/
example :
    let fs : List Frame := [⟨3, 0, false, false⟩]
    let b : Frame := ⟨2, 4, false, true⟩
    let gs : List Frame := [⟨1, 7, false, false⟩]
    let root : Frame := ⟨0, 3, false, true⟩
    (∀ f ∈ fs, f.barrier = false ∧ (f.hasCatch && true) = false) ∧
    (b.barrier = true ∧ (b.hasCatch && true) = false) ∧
    (∀ f ∈ gs, f.barrier = false ∧ (f.hasCatch && true) = false) ∧
    (root.barrier = true ∧ (root.hasCatch && true) = false) ∧
    unwindGo true (fs ++ b :: (gs ++ [root])) [⟨3, 11⟩] = .uncaught [⟨3, 11⟩, ⟨2, 4⟩] ∧
    unwindGo true (gs ++ [root]) [⟨3, 11⟩, ⟨2, 4⟩, ⟨1, 7⟩]
      = .uncaught [⟨3, 11⟩, ⟨2, 4⟩, ⟨1, 7⟩, ⟨0, 3⟩] := by decide

/-! ## 4. excerpt arithmetic -/

theorem excerpt_total (n : Nat) (sp : Span) (h : Guard n sp) : ∃ o, excerpt n sp = .ok o :=
  C12L.excerpt_total n sp h

example : Guard 3 ⟨⟨1, 2⟩, ⟨1, 5⟩⟩ ∧
    excerpt 3 ⟨⟨1, 2⟩, ⟨1, 5⟩⟩ = .ok ⟨(2, 3), 1, [(2, 1)], some (3, 3)⟩ := by decide

/-- A span inside the text: exactly the lines `start.line ..= end.line` are quoted, numbered from
one; single-line spans are underlined from the start column over the span's width. -/
theorem excerpt_exact (n : Nat) (sp : Span) (h : Guard n sp) (he : sp.stop.line < n) :
    ∃ o, excerpt n sp = .ok o ∧
      o.quoted.map (·.2) = List.range' sp.start.line (sp.stop.line - sp.start.line + 1) ∧
      (∀ p ∈ o.quoted, p.1 = p.2 + 1) ∧
      o.header = (sp.start.line + 1, sp.start.col + 1) ∧
      (sp.start.line = sp.stop.line →
        o.underline = some (sp.start.col + 1, sp.stop.col - sp.start.col)) :=
  C12L.excerpt_exact n sp h he

example : Guard 12 ⟨⟨8, 2⟩, ⟨10, 0⟩⟩ ∧ 10 < 12 ∧
    excerpt 12 ⟨⟨8, 2⟩, ⟨10, 0⟩⟩ = .ok ⟨(9, 3), 2, [(9, 8), (10, 9), (11, 10)], none⟩ := by decide

/-- A multi-line span that runs past the last line (a `NewLine` token at the end of the input ends on
line `n`): the lines that exist are quoted. -/
theorem excerpt_truncates (n : Nat) (sp : Span) (h : Guard n sp)
    (hm : sp.start.line < sp.stop.line) (he : n ≤ sp.stop.line) :
    ∃ o, excerpt n sp = .ok o ∧
      o.quoted.map (·.2) = List.range' sp.start.line (n - sp.start.line) :=
  C12L.excerpt_truncates n sp h hm he

example : Guard 2 ⟨⟨1, 4⟩, ⟨2, 0⟩⟩ ∧ 1 < 2 ∧ 2 ≤ 2 ∧
    excerpt 2 ⟨⟨1, 4⟩, ⟨2, 0⟩⟩ = .ok ⟨(2, 5), 1, [(2, 1)], none⟩ := by decide

/-- Exactly when it fails. -/
theorem excerpt_panic_iff (n : Nat) (sp : Span) :
    (∃ p, excerpt n sp = .panic p) ↔
      (sp.stop.line < sp.start.line ∨
        (sp.start.line = sp.stop.line ∧ (n ≤ sp.start.line ∨ sp.stop.col < sp.start.col))) :=
  C12L.excerpt_panic_iff n sp

example : excerpt 5 ⟨⟨3, 0⟩, ⟨2, 0⟩⟩ = .panic .lineUnderflow := by decide

/-- The guard is necessary: a zero-width span on the line after the final line break (the
end-of-input position of a text ending in "\n") fails. -/
theorem excerpt_panic_outside_guard : excerpt 1 ⟨⟨1, 0⟩, ⟨1, 0⟩⟩ = .panic .noSuchLine := by decide

theorem excerpt_panic_outside_guard_col : excerpt 1 ⟨⟨0, 3⟩, ⟨0, 1⟩⟩ = .panic .colUnderflow := by
  decide

example : ¬ Guard 1 ⟨⟨1, 0⟩, ⟨1, 0⟩⟩ ∧ ¬ Guard 1 ⟨⟨0, 3⟩, ⟨0, 1⟩⟩ := by decide

end KotoVerif.C12
