/-
C10 extension: coherence laws between the primitives of the token-cursor model
(`Model/Cursor.lean`) — peek/consume agreement, context independence, idempotence, progress, and
closure of the "reachable cursor" shape (`Cur.atPos`, the cursor the driver replays from) under every
consuming primitive.
-/
import KotoVerif.Lemmas.C10

namespace KotoVerif.C10Ext
open KotoVerif.Lexer KotoVerif.Cursor KotoVerif.C10

def wt (k : Token) (l l2 ind : Nat) : Lexed :=
  { tok := k, startByte := 0, endByte := 0, span := ⟨⟨l, 0⟩, ⟨l2, 0⟩⟩, indent := ind }

/-! ### the `*_on_same_line` family is one loop seen three ways -/

/-- `consume_next_token_on_same_line` = `consume_until_next_token_on_same_line` then `consume_token`
(the two calls the driver makes for this primitive agree). -/
theorem consumeSameLineLoop_eq (cur : Lexed) (l : List Lexed) :
    consumeSameLineLoop cur l = consumeToken (consumeUntilSameLineLoop cur l) := by
  induction l generalizing cur with
  | nil => rfl
  | cons t r ih =>
    by_cases h : isWhitespace t.tok = true
    · simp [consumeSameLineLoop, consumeUntilSameLineLoop, h, ih]
    · simp [consumeSameLineLoop, consumeUntilSameLineLoop, h, consumeToken]

theorem consume_next_same_line_factors (c : Cur) :
    consumeNextTokenOnSameLine c = consumeToken (consumeUntilNextTokenOnSameLine c) :=
  consumeSameLineLoop_eq c.cur c.rest

/-- what `peek_next_token_on_same_line` reports (token and peek count `n`) is exactly what
`consume_until_next_token_on_same_line` stops in front of, after dropping `n` tokens -/
theorem sameLineLoop_until (cur : Lexed) (l : List Lexed) (k : Nat) :
    (sameLineLoop l k).map (·.1) = (consumeUntilSameLineLoop cur l).rest.head? ∧
    (∀ x n, sameLineLoop l k = some (x, n) →
      k ≤ n ∧ (consumeUntilSameLineLoop cur l).rest = l.drop (n - k)) ∧
    (sameLineLoop l k = none → (consumeUntilSameLineLoop cur l).rest = []) := by
  induction l generalizing cur k with
  | nil => simp [sameLineLoop, consumeUntilSameLineLoop]
  | cons t r ih =>
    by_cases h : isWhitespace t.tok = true
    · simp only [sameLineLoop, consumeUntilSameLineLoop, h, if_true]
      obtain ⟨h1, h2, h3⟩ := ih t (k + 1)
      refine ⟨h1, ?_, h3⟩
      intro x n e
      obtain ⟨hk, hr⟩ := h2 x n e
      refine ⟨by omega, ?_⟩
      have : n - k = (n - (k + 1)) + 1 := by omega
      rw [hr, this, List.drop_succ_cons]
    · simp only [sameLineLoop, consumeUntilSameLineLoop, h]
      simp

theorem peek_same_line_eq_peek_after_until (c : Cur) :
    peekNextTokenOnSameLine c = peekToken (consumeUntilNextTokenOnSameLine c) := by
  have h := (sameLineLoop_until c.cur c.rest 0).1
  unfold peekNextTokenOnSameLine peekToken peekTokenN consumeUntilNextTokenOnSameLine
  rw [← List.head?_eq_getElem?, ← h]
  cases sameLineLoop c.rest 0 <;> simp

/-- `consume_until_next_token_on_same_line` is idempotent -/
theorem consumeUntilSameLineLoop_idem (cur : Lexed) (l : List Lexed) :
    consumeUntilSameLineLoop (consumeUntilSameLineLoop cur l).cur (consumeUntilSameLineLoop cur l).rest =
      consumeUntilSameLineLoop cur l := by
  induction l generalizing cur with
  | nil => rfl
  | cons t r ih =>
    by_cases h : isWhitespace t.tok = true
    · simp only [consumeUntilSameLineLoop, h, if_true]
      exact ih t
    · simp [consumeUntilSameLineLoop, h]

theorem consume_until_same_line_idem (c : Cur) :
    consumeUntilNextTokenOnSameLine (consumeUntilNextTokenOnSameLine c) = consumeUntilNextTokenOnSameLine c :=
  consumeUntilSameLineLoop_idem c.cur c.rest

/-! ### peek / consume agreement for the `*_with_context` family -/

/-- Whatever `peek_token_with_context` answers, `consume_token_with_context` consumes exactly
`peek_count + 1` tokens and lands on the peeked token; `consume_until_token_with_context` consumes
exactly `peek_count` tokens and stops in front of it. -/
theorem peek_then_consume (ctx ctx' : Ctx) (c : Cur) (i : PeekInfo)
    (h : peekTokenWithContext ctx c = some i) :
    (consumeTokenWithContext ctx' c).1.map (·.1) = some i.tok ∧
    (consumeTokenWithContext ctx' c).2 = ⟨i.info, c.rest.drop (i.peekCount + 1)⟩ ∧
    (consumeUntilTokenWithContext ctx' c).2.rest = c.rest.drop i.peekCount ∧
    peekToken (consumeUntilTokenWithContext ctx' c).2 = some i.tok := by
  obtain ⟨cur, rest⟩ := c
  rcases split_gap rest with hl | ⟨g, t, r, e, hg, ht⟩
  · simp [peekTokenWithContext, peekLoop_trivia _ _ _ hl] at h
  · subst e
    simp only [peekTokenWithContext, peekLoop_gap _ _ _ _ _ hg ht, peekDecide] at h
    have hi : i = ⟨t.tok, 0 + g.length, t⟩ := by
      split at h
      · exact (Option.some.inj h).symm
      · split at h
        · split at h
          · exact (Option.some.inj h).symm
          · cases h
        · cases h
    subst hi
    simp [consumeTokenWithContext, consumeUntilTokenWithContext, consumeCtxLoop_gap _ _ _ _ _ _ hg ht,
      consumeUntilCtxLoop_gap _ _ _ _ _ _ hg ht, peekToken, peekTokenN]

example : peekTokenWithContext Ctx.permissive ⟨wt .id 0 0 0, [wt .newLine 0 1 0, wt .whitespace 1 1 2, wt .id 1 1 2]⟩ =
    some ⟨.id, 2, wt .id 1 1 2⟩ := by decide

/-! ### `consume_token_with_context` = `consume_until_token_with_context` ; `consume_token` -/

/-- cursor and token of `consume_token_with_context` are those of `consume_token` after
`consume_until_token_with_context` — under *any* two contexts / start lines / start indents: the
context influences only the returned context, never where the cursor goes -/
theorem consumeCtxLoop_factor (ctx ctx' : Ctx) (sl si sl' si' : Nat) (cur : Lexed) (l : List Lexed) :
    (consumeCtxLoop ctx sl si cur l).2 = (consumeToken (consumeUntilCtxLoop ctx' sl' si' cur l).2).2 ∧
    (consumeCtxLoop ctx sl si cur l).1.map (·.1) = (consumeToken (consumeUntilCtxLoop ctx' sl' si' cur l).2).1 := by
  induction l generalizing cur with
  | nil => simp [consumeCtxLoop, consumeUntilCtxLoop, consumeToken]
  | cons t r ih =>
    by_cases h : isTrivia t.tok = true
    · simp only [consumeCtxLoop, consumeUntilCtxLoop, h, if_true]
      exact ih t
    · simp [consumeCtxLoop, consumeUntilCtxLoop, h, consumeToken]

theorem consume_with_context_factors (ctx ctx' : Ctx) (c : Cur) :
    (consumeTokenWithContext ctx c).2 = (consumeToken (consumeUntilTokenWithContext ctx' c).2).2 ∧
    (consumeTokenWithContext ctx c).1.map (·.1) = (consumeToken (consumeUntilTokenWithContext ctx' c).2).1 :=
  consumeCtxLoop_factor ctx ctx' _ _ _ _ c.cur c.rest

theorem consumeUntilCtxLoop_cursor_indep (ctx ctx' : Ctx) (sl si sl' si' : Nat) (cur : Lexed) (l : List Lexed) :
    (consumeUntilCtxLoop ctx sl si cur l).2 = (consumeUntilCtxLoop ctx' sl' si' cur l).2 := by
  induction l generalizing cur with
  | nil => rfl
  | cons t r ih =>
    by_cases h : isTrivia t.tok = true
    · simp only [consumeUntilCtxLoop, h, if_true]
      exact ih t
    · simp [consumeUntilCtxLoop, h]

/-- independence of irrelevant state: the expression context never changes which token is consumed
nor where the cursor ends up -/
theorem consume_cursor_ctx_independent (ctx ctx' : Ctx) (c : Cur) :
    (consumeTokenWithContext ctx c).2 = (consumeTokenWithContext ctx' c).2 ∧
    (consumeTokenWithContext ctx c).1.map (·.1) = (consumeTokenWithContext ctx' c).1.map (·.1) ∧
    (consumeUntilTokenWithContext ctx c).2 = (consumeUntilTokenWithContext ctx' c).2 := by
  obtain ⟨a1, a2⟩ := consume_with_context_factors ctx ctx c
  obtain ⟨b1, b2⟩ := consume_with_context_factors ctx' ctx c
  exact ⟨a1.trans b1.symm, a2.trans b2.symm, consumeUntilCtxLoop_cursor_indep ctx ctx' _ _ _ _ c.cur c.rest⟩

/-- the two returned contexts differ only in reading the *end* line (consume) vs the *start* line
(consume-until) of the token: they agree whenever significant tokens are single-line -/
theorem consume_ctx_eq_until_ctx (ctx : Ctx) (sl si : Nat) (cur : Lexed) (l : List Lexed)
    (h1 : ∀ t ∈ l, isTrivia t.tok = false → t.span.start.line = t.span.stop.line) :
    (consumeCtxLoop ctx sl si cur l).1.map (·.2) = (consumeUntilCtxLoop ctx sl si cur l).1 := by
  induction l generalizing cur with
  | nil => rfl
  | cons t r ih =>
    by_cases h : isTrivia t.tok = true
    · simp only [consumeCtxLoop, consumeUntilCtxLoop, h, if_true]
      exact ih t (fun x hx => h1 x (List.mem_cons_of_mem _ hx))
    · have e := h1 t (List.mem_cons_self ..) (by simpa using h)
      simp [consumeCtxLoop, consumeUntilCtxLoop, h, e]

example : ∀ t ∈ [wt .newLine 0 1 0, wt .id 1 1 2], isTrivia t.tok = false → t.span.start.line = t.span.stop.line := by
  decide

/-- the hypothesis is needed: for a significant token spanning two lines the two contexts differ -/
example : (consumeCtxLoop Ctx.permissive 0 0 (wt .id 0 0 0) [wt .id 0 1 2]).1.map (·.2) ≠
    (consumeUntilCtxLoop Ctx.permissive 0 0 (wt .id 0 0 0) [wt .id 0 1 2]).1 := by decide

/-- `consume_until_token_with_context` is idempotent on the cursor: a second call (any context)
consumes nothing -/
theorem consume_until_ctx_idem (ctx ctx' : Ctx) (c : Cur) :
    (consumeUntilTokenWithContext ctx' (consumeUntilTokenWithContext ctx c).2).2 =
      (consumeUntilTokenWithContext ctx c).2 := by
  obtain ⟨cur, rest⟩ := c
  simp only [consumeUntilTokenWithContext]
  generalize currentLine ⟨cur, rest⟩ = sl
  generalize currentIndent ⟨cur, rest⟩ = si
  induction rest generalizing cur with
  | nil => rfl
  | cons t r ih =>
    by_cases h : isTrivia t.tok = true
    · simp only [consumeUntilCtxLoop, h, if_true]
      exact ih t
    · simp [consumeUntilCtxLoop, h]

/-! ### context monotonicity of `peek_token_with_context` -/

/-- a token found with line breaks forbidden is on the cursor's line, and then every context finds
the same token with the same peek count -/
theorem peek_same_line_ctx_independent (ctx ctx' : Ctx) (c : Cur) (i : PeekInfo)
    (hl : ctx.allowLinebreaks = false) (h : peekTokenWithContext ctx c = some i) :
    peekTokenWithContext ctx' c = some i := by
  obtain ⟨cur, rest⟩ := c
  rcases split_gap rest with ht | ⟨g, t, r, e, hg, ht⟩
  · simp [peekTokenWithContext, peekLoop_trivia _ _ _ ht] at h
  · subst e
    simp only [peekTokenWithContext, peekLoop_gap _ _ _ _ _ hg ht, peekDecide, hl] at h ⊢
    cases hn : hasNL g <;> simp [hn] at h ⊢
    exact h

example : peekTokenWithContext Ctx.inline ⟨wt .id 0 0 0, [wt .whitespace 0 0 0, wt .id 0 0 0]⟩ =
    some ⟨.id, 1, wt .id 0 0 0⟩ := by decide

/-- `Flexible` with line breaks allowed is the most permissive context: whatever any context finds,
it finds too (same token, same peek count); and any two contexts that both answer agree -/
theorem peek_flexible_most_permissive (ctx ctx' : Ctx) (c : Cur) (i : PeekInfo)
    (h : peekTokenWithContext ctx c = some i) :
    peekTokenWithContext { ctx' with allowLinebreaks := true, expected := .flexible } c = some i ∧
    (∀ j, peekTokenWithContext ctx' c = some j → j = i) := by
  obtain ⟨cur, rest⟩ := c
  rcases split_gap rest with ht | ⟨g, t, r, e, hg, ht⟩
  · simp [peekTokenWithContext, peekLoop_trivia _ _ _ ht] at h
  · subst e
    simp only [peekTokenWithContext, peekLoop_gap _ _ _ _ _ hg ht, peekDecide] at h ⊢
    have hi : i = ⟨t.tok, 0 + g.length, t⟩ := by
      split at h
      · exact (Option.some.inj h).symm
      · split at h
        · split at h
          · exact (Option.some.inj h).symm
          · cases h
        · cases h
    subst hi
    refine ⟨by simp [indentAccepts], ?_⟩
    intro j hj
    split at hj
    · exact (Option.some.inj hj).symm
    · split at hj
      · split at hj
        · exact (Option.some.inj hj).symm
        · cases hj
      · cases hj

example : peekTokenWithContext Ctx.permissive ⟨wt .id 0 0 0, [wt .newLine 0 1 0, wt .id 1 1 2]⟩ =
    some ⟨.id, 1, wt .id 1 1 2⟩ := by decide

/-! ### the returned context -/

/-- `newContext` either returns the context unchanged or pins `Equal(indent)` and enables map
blocks; it fires only from `Greater` with line breaks allowed on a deeper, later line; all other
flags are never touched; and once it has fired it never fires again (the result is a fixpoint). -/
theorem newContext_spec (ctx : Ctx) (la : Bool) (i s : Nat) :
    (newContext ctx la i s = ctx ∨
      (la = true ∧ i > s ∧ ctx.allowLinebreaks = true ∧ ctx.expected = .greater ∧
        newContext ctx la i s = { ctx with expected := .equal i, allowMapBlock := true })) ∧
    (newContext ctx la i s).allowLinebreaks = ctx.allowLinebreaks ∧
    (newContext ctx la i s).allowSpaceSeparatedCall = ctx.allowSpaceSeparatedCall ∧
    (newContext ctx la i s).insideBraces = ctx.insideBraces ∧
    (newContext ctx la i s).exportMapEntries = ctx.exportMapEntries ∧
    (newContext ctx la i s ≠ ctx → ∀ lb j s', newContext (newContext ctx la i s) lb j s' = newContext ctx la i s) := by
  unfold newContext
  split
  · rename_i h
    refine ⟨Or.inr ⟨h.1, h.2.1, h.2.2.1, h.2.2.2, rfl⟩, rfl, rfl, rfl, rfl, ?_⟩
    intro _ lb j s'
    simp
  · exact ⟨Or.inl rfl, rfl, rfl, rfl, rfl, fun h => (h rfl).elim⟩

/-- `chain_start` is idempotent, never leaves `Flexible`/`Equal` in place, and after it the
context is one from which `newContext` can only move to `Equal` — never back -/
theorem chainStart_idem (c : Ctx) :
    c.chainStart.chainStart = c.chainStart ∧
    c.chainStart.expected ≠ .flexible ∧ (∀ n, c.chainStart.expected ≠ .equal n) ∧
    c.chainStart.allowMapBlock = false := by
  obtain ⟨a, b, m, d, e, x⟩ := c
  cases e <;> simp [Ctx.chainStart]

/-! ### reachable cursors: `Cur.atPos` is closed under every consuming primitive -/

/-- `consume_token` moves the replay cursor `atPos ts p` to `atPos ts (p+1)` and returns `ts[p]` -/
theorem atPos_step (ts : List Lexed) (p : Nat) (h : p < ts.length) :
    consumeToken (Cur.atPos ts p) = (some ts[p].tok, Cur.atPos ts (p + 1)) := by
  unfold Cur.atPos consumeToken
  simp only []
  rw [List.drop_eq_getElem_cons h]
  simp [List.getD_eq_getElem?_getD, h]

/-- at the end of input `consume_token` answers `None` and leaves the cursor alone -/
theorem atPos_end (ts : List Lexed) (p : Nat) (h : ts.length ≤ p) :
    consumeToken (Cur.atPos ts p) = (none, Cur.atPos ts p) := by
  simp [Cur.atPos, consumeToken, List.drop_of_length_le h]

/-- a cursor of the shape the driver replays from: `p` tokens of `ts` consumed -/
def Reach (ts : List Lexed) (c : Cur) : Prop := ∃ p, p ≤ ts.length ∧ c = Cur.atPos ts p

theorem untilCtx_reach (ctx : Ctx) (sl si : Nat) (ts : List Lexed) (n : Nat) :
    ∀ p, ts.length - p = n → p ≤ ts.length →
      ∃ q, p ≤ q ∧ q ≤ ts.length ∧
        (consumeUntilCtxLoop ctx sl si (Cur.atPos ts p).cur (ts.drop p)).2 = Cur.atPos ts q := by
  induction n with
  | zero =>
    intro p hn hp
    refine ⟨p, Nat.le_refl _, hp, ?_⟩
    have e : ts.drop p = [] := List.drop_of_length_le (by omega)
    rw [e]
    simp [consumeUntilCtxLoop, Cur.atPos, e]
  | succ n ih =>
    intro p hn hp
    have h : p < ts.length := by omega
    rw [List.drop_eq_getElem_cons h]
    by_cases ht : isTrivia ts[p].tok = true
    · simp only [consumeUntilCtxLoop, ht, if_true]
      obtain ⟨q, h1, h2, h3⟩ := ih (p + 1) (by omega) (by omega)
      have hc : (Cur.atPos ts (p + 1)).cur = ts[p] := by simp [Cur.atPos, List.getD_eq_getElem?_getD, h]
      rw [hc] at h3
      exact ⟨q, by omega, h2, h3⟩
    · refine ⟨p, Nat.le_refl _, hp, ?_⟩
      simp only [consumeUntilCtxLoop, ht]
      show _ = Cur.atPos ts p
      unfold Cur.atPos
      rw [List.drop_eq_getElem_cons h]
      rfl

theorem untilSameLine_reach (ts : List Lexed) (n : Nat) :
    ∀ p, ts.length - p = n → p ≤ ts.length →
      ∃ q, p ≤ q ∧ q ≤ ts.length ∧
        consumeUntilSameLineLoop (Cur.atPos ts p).cur (ts.drop p) = Cur.atPos ts q := by
  induction n with
  | zero =>
    intro p hn hp
    refine ⟨p, Nat.le_refl _, hp, ?_⟩
    have e : ts.drop p = [] := List.drop_of_length_le (by omega)
    rw [e]
    simp [consumeUntilSameLineLoop, Cur.atPos, e]
  | succ n ih =>
    intro p hn hp
    have h : p < ts.length := by omega
    rw [List.drop_eq_getElem_cons h]
    by_cases ht : isWhitespace ts[p].tok = true
    · simp only [consumeUntilSameLineLoop, ht, if_true]
      obtain ⟨q, h1, h2, h3⟩ := ih (p + 1) (by omega) (by omega)
      have hc : (Cur.atPos ts (p + 1)).cur = ts[p] := by simp [Cur.atPos, List.getD_eq_getElem?_getD, h]
      rw [hc] at h3
      exact ⟨q, by omega, h2, h3⟩
    · refine ⟨p, Nat.le_refl _, hp, ?_⟩
      simp only [consumeUntilSameLineLoop, ht]
      show _ = Cur.atPos ts p
      unfold Cur.atPos
      rw [List.drop_eq_getElem_cons h]
      rfl

theorem consumeToken_reach (ts : List Lexed) (c : Cur) (h : Reach ts c) : Reach ts (consumeToken c).2 := by
  obtain ⟨p, hp, rfl⟩ := h
  by_cases hlt : p < ts.length
  · rw [atPos_step ts p hlt]
    exact ⟨p + 1, hlt, rfl⟩
  · rw [atPos_end ts p (by omega)]
    exact ⟨p, hp, rfl⟩

/-- every consuming primitive maps a replay cursor `atPos ts p` to a replay cursor `atPos ts q`
(so the positions at which the driver replays primitive calls cover every parser state) -/
theorem reach_closed (ctx : Ctx) (ts : List Lexed) (c : Cur) (h : Reach ts c) :
    Reach ts (consumeToken c).2 ∧ Reach ts (consumeTokenWithContext ctx c).2 ∧
    Reach ts (consumeUntilTokenWithContext ctx c).2 ∧ Reach ts (consumeUntilNextTokenOnSameLine c) ∧
    Reach ts (consumeNextTokenOnSameLine c).2 := by
  have hu : Reach ts (consumeUntilTokenWithContext ctx c).2 := by
    obtain ⟨p, hp, rfl⟩ := h
    obtain ⟨q, _, hq, e⟩ := untilCtx_reach ctx (currentLine (Cur.atPos ts p)) (currentIndent (Cur.atPos ts p))
      ts _ p rfl hp
    exact ⟨q, hq, e⟩
  have hs : Reach ts (consumeUntilNextTokenOnSameLine c) := by
    obtain ⟨p, hp, rfl⟩ := h
    obtain ⟨q, _, hq, e⟩ := untilSameLine_reach ts _ p rfl hp
    exact ⟨q, hq, e⟩
  refine ⟨consumeToken_reach ts c h, ?_, hu, hs, ?_⟩
  · rw [(consume_with_context_factors ctx ctx c).1]
    exact consumeToken_reach ts _ hu
  · rw [consume_next_same_line_factors]
    exact consumeToken_reach ts _ hs

example : Reach [wt .id 0 0 0, wt .newLine 0 1 0] (Cur.init [wt .id 0 0 0, wt .newLine 0 1 0]) :=
  ⟨0, by decide, rfl⟩

example : (1 : Nat) < [wt .id 0 0 0, wt .newLine 0 1 0].length := by decide

/-- the consuming primitives as operations -/
inductive Op where
  | tok | ctxTok (ctx : Ctx) | untilCtx (ctx : Ctx) | untilSameLine | nextSameLine

def Op.run : Op → Cur → Cur
  | .tok, c => (consumeToken c).2
  | .ctxTok ctx, c => (consumeTokenWithContext ctx c).2
  | .untilCtx ctx, c => (consumeUntilTokenWithContext ctx c).2
  | .untilSameLine, c => consumeUntilNextTokenOnSameLine c
  | .nextSameLine, c => (consumeNextTokenOnSameLine c).2

/-- lifted to every history: after any sequence of consuming primitives from the initial cursor the
parser's cursor is `atPos ts p` for some `p ≤ |ts|` -/
theorem reach_all_histories (ts : List Lexed) (ops : List Op) :
    Reach ts (ops.foldl (fun c o => o.run c) (Cur.init ts)) := by
  have gen : ∀ c, Reach ts c → Reach ts (ops.foldl (fun c o => o.run c) c) := by
    induction ops with
    | nil => intro c h; exact h
    | cons o r ih =>
      intro c h
      apply ih
      have := reach_closed (match o with | .ctxTok x => x | .untilCtx x => x | _ => Ctx.restricted) ts c h
      cases o <;> simp only [Op.run] <;> simp_all
  exact gen _ ⟨0, Nat.zero_le _, rfl⟩

/-! ### end of input and progress -/

/-- the context-aware consumers answer `None` exactly when only trivia is left (never because of the
context — unlike `peek_token_with_context`), and a successful consume strictly shrinks the input
(the parse loops built on it make progress) -/
theorem consume_none_iff_all_trivia (ctx : Ctx) (c : Cur) :
    ((consumeTokenWithContext ctx c).1 = none ↔ AllTrivia c.rest) ∧
    ((consumeUntilTokenWithContext ctx c).1 = none ↔ AllTrivia c.rest) ∧
    ((consumeTokenWithContext ctx c).1.isSome = true →
      (consumeTokenWithContext ctx c).2.rest.length < c.rest.length) ∧
    (consumeUntilTokenWithContext ctx c).2.rest.length ≤ c.rest.length := by
  obtain ⟨cur, rest⟩ := c
  rcases split_gap rest with hl | ⟨g, t, r, e, hg, ht⟩
  · simp [consumeTokenWithContext, consumeUntilTokenWithContext, consumeCtxLoop_trivia _ _ _ _ hl,
      consumeUntilCtxLoop_trivia _ _ _ _ hl, hl]
  · subst e
    have hn : ¬ AllTrivia (g ++ t :: r) := fun h => not_allTrivia_split h ht
    simp [consumeTokenWithContext, consumeUntilTokenWithContext, consumeCtxLoop_gap _ _ _ _ _ _ hg ht,
      consumeUntilCtxLoop_gap _ _ _ _ _ _ hg ht, hn]
    omega

end KotoVerif.C10Ext
