/-
C10 second extension: statements that connect several cursor primitives of `Model/Cursor.lean`:
monotonicity of `peek_token_with_context` in the expression context, the no-linebreak peek is the
`*_on_same_line` peek, `peek_count` indexes `peek_token_n`, the block-entry context produced by
`consume_token_with_context`, and the `KotoLexer` queue invariant.
-/
import KotoVerif.Props.C10
import KotoVerif.Props.C10Ext

namespace KotoVerif.C10Ext2
open KotoVerif.Lexer KotoVerif.Cursor KotoVerif.C10 KotoVerif.C10Ext

/-! ### `peek_token_with_context` is monotone in the context -/

/-- `ctx'` accepts at least what `ctx` accepts. -/
def CtxLe (ctx ctx' : Ctx) : Prop :=
  (ctx.allowLinebreaks = true → ctx'.allowLinebreaks = true) ∧
  ∀ i s, indentAccepts ctx.expected i s = true → indentAccepts ctx'.expected i s = true

theorem peekLoop_mono (ctx ctx' : Ctx) (h : CtxLe ctx ctx') (si : Nat) (l : List Lexed) (n : Nat) (sl : Bool)
    (i : PeekInfo) (hp : peekLoop ctx si l n sl = some i) : peekLoop ctx' si l n sl = some i := by
  induction l generalizing n sl with
  | nil => simp [peekLoop] at hp
  | cons t r ih =>
    unfold peekLoop at hp ⊢
    by_cases h1 : t.tok = .newLine
    · simp only [h1, if_true] at hp ⊢; exact ih _ _ hp
    · by_cases h2 : isWhitespace t.tok = true
      · simp only [h1, h2, if_false, if_true] at hp ⊢; exact ih _ _ hp
      · simp only [h1, h2, if_false] at hp ⊢
        unfold peekDecide at hp ⊢
        cases sl with
        | true => simpa using hp
        | false =>
          by_cases hl : ctx.allowLinebreaks = true
          · by_cases ha : indentAccepts ctx.expected t.indent si = true
            · simp [hl, ha] at hp
              simp [h.1 hl, h.2 _ _ ha, hp]
            · simp [hl, ha] at hp
          · simp [hl] at hp

/-- Widening the context (more line breaks allowed, weaker indentation requirement) never loses or
changes a peeked token. -/
theorem peek_ctx_monotone (ctx ctx' : Ctx) (h : CtxLe ctx ctx') (c : Cur) (i : PeekInfo)
    (hp : peekTokenWithContext ctx c = some i) : peekTokenWithContext ctx' c = some i :=
  peekLoop_mono ctx ctx' h _ _ _ _ i hp

/-- `GreaterThan(e)` and `Equal(e+1)`… : the documented order of the indentation requirements. -/
theorem ctxLe_greaterThan_greaterOrEqual (ctx : Ctx) (e : Nat) (he : ctx.expected = .greaterThan e) :
    CtxLe ctx { ctx with expected := .greaterOrEqual e } := by
  refine ⟨fun h => h, fun i s ha => ?_⟩
  simp only [he, indentAccepts, decide_eq_true_eq] at ha ⊢
  omega

theorem ctxLe_equal_greaterOrEqual (ctx : Ctx) (e : Nat) (he : ctx.expected = .equal e) :
    CtxLe ctx { ctx with expected := .greaterOrEqual e } := by
  refine ⟨fun h => h, fun i s ha => ?_⟩
  simp only [he, indentAccepts, decide_eq_true_eq] at ha ⊢
  omega

example : peekTokenWithContext { Ctx.permissive with expected := .greaterThan 0 }
    ⟨defaultTok, [wt .newLine 0 1 0, wt .id 1 1 2]⟩ = some ⟨.id, 1, wt .id 1 1 2⟩ := by decide

/-! ### without line breaks, the context peek is the same-line peek -/

theorem peekLoop_no_linebreaks_false (ctx : Ctx) (hl : ctx.allowLinebreaks = false) (si : Nat) (l : List Lexed)
    (n : Nat) : peekLoop ctx si l n false = none := by
  induction l generalizing n with
  | nil => rfl
  | cons t r ih =>
    unfold peekLoop
    by_cases h1 : t.tok = .newLine
    · simp [h1, ih]
    · by_cases h2 : isWhitespace t.tok = true
      · simp [h1, h2, ih]
      · simp [h1, h2, peekDecide, hl]

theorem peekLoop_sameLineLoop (ctx : Ctx) (hl : ctx.allowLinebreaks = false) (si : Nat) (l : List Lexed)
    (n : Nat) (i : PeekInfo) (hp : peekLoop ctx si l n true = some i) :
    sameLineLoop l n = some (i.info, i.peekCount) ∧ i.tok = i.info.tok ∧ i.info.tok ≠ .newLine := by
  induction l generalizing n with
  | nil => simp [peekLoop] at hp
  | cons t r ih =>
    unfold peekLoop at hp
    unfold sameLineLoop
    by_cases h1 : t.tok = .newLine
    · simp [h1, peekLoop_no_linebreaks_false ctx hl] at hp
    · by_cases h2 : isWhitespace t.tok = true
      · simp only [h1, h2, if_false, if_true] at hp ⊢; exact ih _ hp
      · simp only [h1, h2, if_false, peekDecide, if_true] at hp ⊢
        cases hp
        exact ⟨by simp, rfl, h1⟩

/-- In a context that does not allow line breaks `peek_token_with_context` finds exactly what
`peek_next_token_on_same_line` finds (same token, same position), and it is not a `NewLine`. -/
theorem peek_no_linebreaks_is_same_line (ctx : Ctx) (hl : ctx.allowLinebreaks = false) (c : Cur) (i : PeekInfo)
    (hp : peekTokenWithContext ctx c = some i) :
    peekNextTokenOnSameLine c = some i.tok ∧ peekNextTokenOnSameLineWithSpan c = some (i.tok, i.info.span) ∧
    i.tok ≠ .newLine := by
  obtain ⟨h1, h2, h3⟩ := peekLoop_sameLineLoop ctx hl _ _ _ i hp
  simp [peekNextTokenOnSameLine, peekNextTokenOnSameLineWithSpan, h1, h2, h3]

/-- Converse, for every context: a non-`NewLine` token found by the same-line peek is what
`peek_token_with_context` returns. -/
theorem sameLineLoop_peekLoop (ctx : Ctx) (si : Nat) (l : List Lexed) (n k : Nat) (t : Lexed)
    (hs : sameLineLoop l n = some (t, k)) (hn : t.tok ≠ .newLine) :
    peekLoop ctx si l n true = some ⟨t.tok, k, t⟩ := by
  induction l generalizing n with
  | nil => simp [sameLineLoop] at hs
  | cons x r ih =>
    unfold sameLineLoop at hs
    unfold peekLoop
    by_cases h2 : isWhitespace x.tok = true
    · have h1 : x.tok ≠ .newLine := ws_ne_nl h2
      simp only [h1, h2, if_false, if_true] at hs ⊢; exact ih _ hs
    · simp only [h2] at hs
      obtain ⟨rfl, rfl⟩ := hs
      simp [hn, h2, peekDecide]

theorem same_line_peek_is_ctx_peek (ctx : Ctx) (c : Cur) (k : Nat) (t : Lexed)
    (hs : sameLineLoop c.rest 0 = some (t, k)) (hn : t.tok ≠ .newLine) :
    peekTokenWithContext ctx c = some ⟨t.tok, k, t⟩ :=
  sameLineLoop_peekLoop ctx _ _ _ _ t hs hn

example : peekTokenWithContext Ctx.inline ⟨defaultTok, [wt .whitespace 0 0 0, wt .id 0 0 0]⟩
    = some ⟨.id, 1, wt .id 0 0 0⟩ := by decide

/-! ### `peek_count` is an index for `peek_token_n`; raw peeks commute with `consume_token` -/

/-- The `peek_count` of a `PeekInfo` addresses the peeked token through `peek_token_n`, and every
smaller index addresses trivia. -/
theorem peekCount_indexes_peekTokenN (ctx : Ctx) (c : Cur) (i : PeekInfo)
    (h : peekTokenWithContext ctx c = some i) :
    peekTokenN i.peekCount c = some i.tok ∧
    ∀ m, m < i.peekCount → ∃ t, peekTokenN m c = some t ∧ isTrivia t = true := by
  obtain ⟨g, r, e, hg, _, hc, ht⟩ := peek_skips_only_trivia ctx c i h
  refine ⟨?_, fun m hm => ?_⟩
  · simp [peekTokenN, e, hc, ht]
  · have hm' : m < g.length := hc ▸ hm
    refine ⟨g[m].tok, ?_, hg _ (List.getElem_mem hm')⟩
    simp [peekTokenN, e, List.getElem?_append_left hm', List.getElem?_eq_getElem hm']

theorem peekTokenN_after_consume (c : Cur) (n : Nat) (h : c.rest ≠ []) :
    peekTokenN n (consumeToken c).2 = peekTokenN (n + 1) c ∧ (consumeToken c).1 = peekToken c ∧
    peekSpan c = some (currentSpan (consumeToken c).2) := by
  obtain ⟨cur, rest⟩ := c
  cases rest with
  | nil => exact absurd rfl h
  | cons t r => simp [consumeToken, peekTokenN, peekToken, peekSpan, currentSpan]

example : (⟨defaultTok, [wt .id 0 0 0]⟩ : Cur).rest ≠ [] := by decide

/-! ### the context returned by `consume_token_with_context` -/

/-- The returned context is the given one, unless a block is entered: then (and only for
`Indentation::Greater` with line breaks allowed) it pins the indentation of the consumed token, which
is further indented and ends on a later line than the starting token. -/
theorem consumeCtxLoop_ctx (ctx : Ctx) (sl si : Nat) (cur : Lexed) (l : List Lexed) (tk : Token) (ctx' : Ctx)
    (h : (consumeCtxLoop ctx sl si cur l).1 = some (tk, ctx')) :
    ctx' = ctx ∨
    (ctx.expected = .greater ∧ ctx.allowLinebreaks = true ∧
      ctx' = { ctx with expected := .equal (consumeCtxLoop ctx sl si cur l).2.cur.indent, allowMapBlock := true } ∧
      (consumeCtxLoop ctx sl si cur l).2.cur.indent > si ∧
      (consumeCtxLoop ctx sl si cur l).2.cur.span.stop.line > sl) := by
  induction l generalizing cur with
  | nil => simp [consumeCtxLoop] at h
  | cons t r ih =>
    unfold consumeCtxLoop at h ⊢
    by_cases ht : isTrivia t.tok = true
    · simp only [ht, if_true] at h ⊢; exact ih _ h
    · simp only [ht] at h ⊢
      obtain ⟨_, rfl⟩ := h
      unfold newContext
      split
      · next hc =>
        right
        simp only [decide_eq_true_eq] at hc
        exact ⟨hc.2.2.2, hc.2.2.1, rfl, hc.2.1, hc.1⟩
      · left; rfl

theorem consume_context_spec (ctx : Ctx) (c : Cur) (tk : Token) (ctx' : Ctx)
    (h : (consumeTokenWithContext ctx c).1 = some (tk, ctx')) :
    ctx' = ctx ∨
    (ctx.expected = .greater ∧ ctx.allowLinebreaks = true ∧
      ctx' = { ctx with expected := .equal (currentIndent (consumeTokenWithContext ctx c).2),
                        allowMapBlock := true } ∧
      currentIndent (consumeTokenWithContext ctx c).2 > currentIndent c ∧
      currentLine (consumeTokenWithContext ctx c).2 > currentLine c) :=
  consumeCtxLoop_ctx ctx _ _ _ _ tk ctx' h

/-- Once a block context was entered (`Equal(n)`), further consumes never change the context again. -/
theorem consume_context_fixed_after_block (ctx : Ctx) (c : Cur) (tk : Token) (ctx' : Ctx)
    (hne : ctx.expected ≠ .greater) (h : (consumeTokenWithContext ctx c).1 = some (tk, ctx')) : ctx' = ctx := by
  rcases consume_context_spec ctx c tk ctx' h with h' | ⟨h', _⟩
  · exact h'
  · exact absurd h' hne

example : (consumeTokenWithContext Ctx.permissive ⟨defaultTok, [wt .newLine 0 1 0, wt .id 1 1 2]⟩).1
    = some (.id, { Ctx.permissive with expected := .equal 2, allowMapBlock := true }) := by decide

/-! ### the `KotoLexer` queue: invariant and idempotence -/

/-- `token_queue.len() ≤` number of remaining tokens is preserved by `peek` and `next`; `peek` never
shrinks the queue; `next` removes one token. -/
theorem queue_invariant (rest : List Lexed) (queued n : Nat) (h : queued ≤ rest.length) :
    (queuePeek rest queued n).2 ≤ rest.length ∧ queued ≤ (queuePeek rest queued n).2 ∧
    (queueNext rest queued).2.2 ≤ (queueNext rest queued).2.1.length ∧
    (queueNext rest queued).2.1 = rest.drop 1 := by
  refine ⟨?_, ?_, ?_, ?_⟩
  · simp only [queuePeek]; omega
  · simp only [queuePeek]; omega
  · cases rest with
    | nil => simp [queueNext]
    | cons t r => simp only [queueNext, List.length_cons] at h ⊢; omega
  · cases rest <;> simp [queueNext]

/-- Peeking the same position twice is the same as peeking once (token and queue length). -/
theorem queuePeek_idem (rest : List Lexed) (queued n : Nat) :
    queuePeek rest (queuePeek rest queued n).2 n = queuePeek rest queued n := by
  simp only [queuePeek]
  refine Prod.ext ?_ ?_
  · simp only
    congr 1
    simp only [eq_iff_iff]
    omega
  · simp only; omega

example : (2 : Nat) ≤ [wt .id 0 0 0, wt .id 0 0 0, wt .id 0 0 0].length := by decide

end KotoVerif.C10Ext2
