/-
C16 — second extension module: statements that connect the *assert* form of a hint (`let`, `for`,
function arguments: `assertHint`, `bindOne`, `bindArg`) with its *check* form (`match` patterns,
typed `catch`: `patM`, `selectCatch`), and the on/off switch with `check`.
-/
import KotoVerif.Lemmas.C16
import KotoVerif.Lemmas.C16Types

namespace KotoVerif.C16Ext2
open KotoVerif.Types KotoVerif.HintEval KotoVerif.Gen.TypeNames KotoVerif.C16

/-- **Disabling the checks changes an assertion exactly when the check would have failed**: the two
compilations of one hinted position agree (result and whole state) iff `compare_value_type` accepts. -/
theorem assert_on_off_agree_iff (h : Hint) (v : V) (s : St) :
    assertHint true (some h) v s = assertHint false (some h) v s ↔ check h.name h.opt v = true := by
  cases hc : check h.name h.opt v <;> simp [assertHint, hc]

/-- the same for a bound target (`for` / function argument / multi-assignment target) -/
theorem bindOne_on_off_agree_iff (x : Option Var) (h : Hint) (v : V) (s : St) :
    bindOne true (x, some h) v s = bindOne false (x, some h) v s ↔ check h.name h.opt v = true := by
  simp only [bindOne]
  exact assert_on_off_agree_iff h v _

/-- **One hint, two emission modes.** At a function argument `x: T` (assert mode) the value is
accepted exactly when the match pattern `x: T` (check mode) selects; and when it is accepted both
leave the same state. -/
theorem assert_mode_iff_check_mode (k j : Nat) (x : Option Var) (h : Hint) (v : V) (s : St) :
    ((bindArg true (k + 1) (.b x (some h)) v s).1 = .ok .null ↔ (patM (j + 1) (.b x (some h)) v s).1 = .yes) ∧
    ((patM (j + 1) (.b x (some h)) v s).1 = .yes →
      (bindArg true (k + 1) (.b x (some h)) v s).2 = (patM (j + 1) (.b x (some h)) v s).2) := by
  cases hc : check h.name h.opt v <;> simp [bindArg, bindOne, assertHint, patM, hc]

/-- and on a mismatch the assert mode raises `unexpected_type` with the found type name while the
check mode says `no` and leaves the state untouched (not even the variable is written) -/
theorem mismatch_raises_vs_falls_through (k j : Nat) (x : Option Var) (h : Hint) (v : V) (s : St)
    (hc : check h.name h.opt v = false) :
    (bindArg true (k + 1) (.b x (some h)) v s).1 = .err (.type h (typeName v)) ∧
    patM (j + 1) (.b x (some h)) v s = (.no, s) := by
  simp [bindArg, bindOne, assertHint, patM, hc]

example : check [70] false (.int 1) = false := by decide

/-- **Assert mode refines check mode, nested to any depth.** Whenever a (possibly nested) argument
pattern accepts a value with the checks enabled, the same pattern used in a `match` arm selects
that value, with exactly the same bindings. -/
theorem bindArg_ok_imp_patM : ∀ k,
    (∀ p v s s1 w, bindArg true k p v s = (.ok w, s1) → patM k p v s = (.yes, s1)) ∧
    (∀ ps vs s s1 w, bindArgs true k ps vs s = (.ok w, s1) → patsM k ps vs s = (.yes, s1)) := by
  intro k
  induction k with
  | zero => exact ⟨fun p v s s1 w h => by simp [bindArg] at h, fun ps vs s s1 w h => by simp [bindArgs] at h⟩
  | succ k ih =>
    constructor
    · intro p v s s1 w hb
      cases p with
      | b x h =>
        cases h with
        | none =>
          simp only [bindArg, bindOne, assertHint] at hb
          simp only [patM]
          simp at hb; simp [hb.2]
        | some h =>
          cases hc : check h.name h.opt v
          · simp [bindArg, bindOne, assertHint, hc] at hb
          · simp only [bindArg, bindOne, assertHint, hc] at hb
            simp only [patM, hc]
            simp at hb; simp [hb.2]
      | lit n => simp [bindArg] at hb
      | tup ps =>
        simp only [bindArg] at hb
        cases v <;> simp only [elems] at hb <;> try (simp at hb; done)
        all_goals
          simp only [patM, sized]
          split at hb
          · next hl => rw [if_pos hl]; exact ih.2 _ _ _ _ _ hb
          · simp at hb
    · intro ps vs s s1 w hb
      cases ps with
      | nil =>
        simp only [bindArgs] at hb
        simp only [patsM]
        simp at hb; simp [hb.2]
      | cons p ps =>
        simp only [bindArgs, andThen] at hb
        simp only [patsM]
        generalize hr : bindArg true k p (vs.headD .null) s = r at hb
        obtain ⟨r1, s2⟩ := r
        cases r1 with
        | ok w' =>
          simp only at hb
          rw [ih.1 _ _ _ _ _ hr]
          exact ih.2 _ _ _ _ _ hb
        | ret w => simp at hb
        | err e => simp at hb
        | stuck c => simp at hb

/-- non-vacuity: a nested hinted argument pattern accepts a tuple in assert mode -/
example : (match (bindArg true 6 (.tup [.b (some 0) (some ⟨kindName .tuple, false⟩), .b none none])
    (.tuple [.tuple [], .int 1]) {}).1 with | .ok _ => true | _ => false) = true := by decide

/-- lifted to a whole arm: argument patterns that accept the call's values in assert mode make the
single-alternative `match` arm with the same patterns select them, with the same bindings -/
theorem bindArgs_ok_imp_arm_selected (k : Nat) (ps : List P) (vs : List V) (s s1 : St) (w : V)
    (hb : bindArgs true k ps vs s = (.ok w, s1)) : armM k [ps] vs s = (.yes, s1) := by
  simp [armM, altsM, (bindArg_ok_imp_patM k).2 ps vs s s1 w hb]

/-- **Typed `catch` and `match` use the same check.** A typed catch block `catch y: T` is entered
exactly when the match pattern `y: T` selects the caught value, and then binds it identically;
otherwise the state reaches the next block unchanged, as a failed pattern leaves it. -/
theorem catch_agrees_with_match (j : Nat) (cv : V) (y : Option Var) (h : Hint) (body : Expr)
    (rest : List CatchArm) (x : Option Var) (final : Expr) (s : St) :
    selectCatch cv (.mk y h body :: rest) x final s =
      match patM (j + 1) (.b y (some h)) cv s with
      | (.yes, s1) => (body, s1)
      | (_, s1) => selectCatch cv rest x final s1 := by
  cases hc : check h.name h.opt cv <;> simp [selectCatch, patM, hc]

end KotoVerif.C16Ext2
