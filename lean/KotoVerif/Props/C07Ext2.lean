/-
# Props/C07Ext2.lean — second extension module for C07: whole-session statements about the REPL's
line-continuation machine (`Model/Repl.lean`, mirrored from `Repl::on_line`, compared with the real
`koto` binary line by line through the driver request `repl`).

The property's clause for the REPL: a failing evaluation leaves the REPL (and the shared runtime's
view of it) exactly where a succeeding one would. `Props/C07` states this for one line; here it is
lifted to every session, together with the end-to-end shape of entries.
-/
import KotoVerif.Model.Repl

namespace KotoVerif.C07Ext2

open KotoVerif.Repl

/-- two typed lines that differ at most in *whether the run of a compiling input failed* -/
def SameUpToOutcome (a b : Line) : Prop :=
  a.blank = b.blank ∧ a.indent = b.indent ∧ a.pushIndents = b.pushIndents ∧
  (a.verdict = b.verdict ∨
    ((a.verdict = .runOk ∨ a.verdict = .runErr) ∧ (b.verdict = .runOk ∨ b.verdict = .runErr)))

/-- one line: the outcome of the run (ok / error) is invisible in the REPL's state afterwards -/
theorem onLine_outcome_blind (s : State) (a b : Line) (h : SameUpToOutcome a b) :
    onLine s a = onLine s b := by
  obtain ⟨ab, ai, av, ap⟩ := a
  obtain ⟨bb, bi, bv, bp⟩ := b
  obtain ⟨h1, h2, h3, h4⟩ := h
  simp only at h1 h2 h3 h4
  subst h1 h2 h3
  rcases h4 with h4 | ⟨h4 | h4, h5 | h5⟩ <;> subst_vars <;>
    simp [onLine, nextLines, runsInput]

/-- **a session with failing runs is indistinguishable from the same session with succeeding
runs**: for every history of typed lines and every start state, replacing any subset of the run
outcomes (error ↔ ok) changes nothing in the REPL's state — buffer, indent and the number of inputs
handed to the shared runtime. -/
theorem repl_session_outcome_blind (ls : List Line) : ∀ (ls' : List Line) (s : State),
    ls.length = ls'.length → (∀ p ∈ ls.zip ls', SameUpToOutcome p.1 p.2) →
    session ls s = session ls' s := by
  induction ls with
  | nil =>
    intro ls' s hl _
    cases ls' with
    | nil => rfl
    | cons _ _ => simp at hl
  | cons x xs ih =>
    intro ls' s hl hp
    cases ls' with
    | nil => simp at hl
    | cons y ys =>
      have hxy : SameUpToOutcome x y := hp (x, y) (by simp)
      have h := ih ys (onLine s y) (by simpa using hl)
        (fun p hp' => hp p (by simp [List.zip_cons_cons, hp']))
      simp only [session, List.foldl_cons] at h ⊢
      rw [onLine_outcome_blind s _ _ hxy]
      exact h

example : session [{ blank := false, verdict := .runErr }, { blank := false, indent := 0, verdict := .indentErr }]
      {} =
    session [{ blank := false, verdict := .runOk }, { blank := false, indent := 0, verdict := .indentErr }]
      {} := by decide

/-- **any series of failing (or succeeding) single-line entries never leaves the main prompt**:
from the main prompt, a session in which every input compiles stays at the main prompt with
indent 0, and every line was one execution on the shared runtime. -/
theorem repl_compiling_lines_stay_main (ls : List Line) : ∀ s : State, s.lines = [] →
    s.indent = 0 → (∀ l ∈ ls, l.verdict = .runOk ∨ l.verdict = .runErr) →
    (session ls s).lines = [] ∧ (session ls s).indent = 0 ∧
    (session ls s).runs = s.runs + ls.length := by
  induction ls with
  | nil => intro s h hi _; simp [session, h, hi]
  | cons x xs ih =>
    intro s hs _ hv
    have hx := hv x (by simp)
    have h0 : (onLine s x).indent = 0 := by
      rcases hx with hx | hx <;> simp [onLine, nextLines, indentOf, hs, hx]
    have h1 : (onLine s x).lines = [] := by
      rcases hx with hx | hx <;> simp [onLine, nextLines, hs, hx]
    have h2 : (onLine s x).runs = s.runs + 1 := by
      rcases hx with hx | hx <;> simp [onLine, runsInput, hs, hx]
    have h := ih (onLine s x) h1 h0 (fun l hl => hv l (by simp [hl]))
    simp only [session, List.foldl_cons, List.length_cons] at h ⊢
    refine ⟨h.1, h.2.1, ?_⟩
    rw [h.2.2, h2]; omega

example : (session [{ blank := false, verdict := .runErr }, { blank := false, verdict := .runErr }]
    {}).runs = 2 := by decide

/-- lines typed into a non-empty buffer are only buffered: nothing runs, the buffer grows -/
theorem repl_continuation_lines_buffer (mid : List Line) : ∀ s : State, s.lines ≠ [] →
    (∀ l ∈ mid, l.blank = false) →
    (session mid s).lines = s.lines ++ mid.map (·.indent) ∧ (session mid s).runs = s.runs := by
  induction mid with
  | nil => intro s _ _; simp [session]
  | cons x xs ih =>
    intro s hs hb
    have hx : x.blank = false := hb x (by simp)
    have hne : s.lines.isEmpty = false := by
      cases h : s.lines with
      | nil => exact absurd h hs
      | cons _ _ => rfl
    have h1 : (onLine s x).lines = s.lines ++ [x.indent] := by
      simp [onLine, nextLines, hne, hx]
    have h2 : (onLine s x).runs = s.runs := by
      simp [onLine, runsInput, hne, hx]
    have h := ih (onLine s x) (by rw [h1]; simp) (fun l hl => hb l (by simp [hl]))
    simp only [session, List.foldl_cons, List.map_cons] at h ⊢
    rw [h.1, h.2, h1, h2]
    simp

/-- **a multi-line entry is exactly one execution, and it ends at the main prompt whatever the
outcome**: with an entry open, any number of non-blank lines followed by a blank line hands at most
one input to the runtime (exactly one iff the input compiles) and leaves buffer and indent reset —
for a failing run, a compile error and an indentation error alike. -/
theorem repl_entry_end_to_end (mid : List Line) (b : Line) (s : State) (hs : s.lines ≠ [])
    (hmid : ∀ l ∈ mid, l.blank = false) (hb : b.blank = true) :
    (session (mid ++ [b]) s).lines = [] ∧ (session (mid ++ [b]) s).indent = 0 ∧
    (session (mid ++ [b]) s).runs =
      s.runs + (if b.verdict = .runOk ∨ b.verdict = .runErr then 1 else 0) := by
  have h := repl_continuation_lines_buffer mid s hs hmid
  have hne : (session mid s).lines.isEmpty = false := by
    rw [h.1]
    cases h' : s.lines with
    | nil => exact absurd h' hs
    | cons _ _ => rfl
  have hsplit : session (mid ++ [b]) s = onLine (session mid s) b := by
    simp [session, List.foldl_append]
  rw [hsplit]
  obtain ⟨bb, bi, bv, bp⟩ := b
  simp only at hb
  subst hb
  cases bv <;> simp [onLine, nextLines, runsInput, indentOf, hne, h.2]

example : (session ([{ blank := false, indent := 2 }] ++ [{ blank := true, verdict := .runErr }])
    { lines := [0], indent := 2, runs := 5 }) = { lines := [], indent := 0, runs := 6 } := by decide

/-- **the continuation state after any session depends only on the buffer at its start**: two REPL
states with the same buffered lines show the same buffer after every session, and the run counters
advance by the same amount (independence of the irrelevant state `indent` / `runs`). -/
theorem repl_session_buffer_determined (ls : List Line) : ∀ a b : State, a.lines = b.lines →
    (session ls a).lines = (session ls b).lines ∧
    (session ls a).runs + b.runs = (session ls b).runs + a.runs := by
  induction ls with
  | nil => intro a b h; exact ⟨h, by simp [session]; omega⟩
  | cons x xs ih =>
    intro a b h
    have h1 : (onLine a x).lines = (onLine b x).lines := by simp [onLine, h]
    have h2 : (onLine a x).runs + b.runs = (onLine b x).runs + a.runs := by
      simp only [onLine, h]; omega
    have := ih (onLine a x) (onLine b x) h1
    simp only [session, List.foldl_cons] at this ⊢
    exact ⟨this.1, by omega⟩

example : (session [{ blank := true }] { lines := [0], indent := 7, runs := 3 }).lines =
    (session [{ blank := true }] { lines := [0], indent := 0, runs := 0 }).lines := by decide

end KotoVerif.C07Ext2
