/-
C15 — Strings stay valid text; indexing, splitting and formatting are exact.

Property theorems about the models `Model/Str.lean` and `Model/FmtSpec.lean`, for ALL byte strings and
ALL Unicode facts (`UFacts` / the segmentation oracle `gFirst` are universally quantified; hypotheses on
them are stated explicitly: `Progress`, `CutsAtBoundaries`, additivity of the cluster count).
Where the model (= the code) violates the property, the negation is proved with a concrete witness and
the positive theorem states exactly what is excluded:
  * `slice_full_witness`   — the `Full` storage form accepts a cut through a character (F-C15-1);
  * `center_f32_witness`   — centre alignment loses a fill character above 2^24 (F-C15-2);
  * `escape_u_overflow_witness` — `\u{…}` with nine hex digits overflows (F-C15-3);
  * `width_merge_witness`  — clusters merge across the joints of a padded field (F-C15-4).
Helper lemmas live in `Lemmas/C15*.lean`.
-/
import KotoVerif.Model.Str
import KotoVerif.Model.FmtSpec
import KotoVerif.Lemmas.C15Utf8
import KotoVerif.Lemmas.C15Slice
import KotoVerif.Lemmas.C15Ops
import KotoVerif.Lemmas.C15Closed
import KotoVerif.Lemmas.C15Refine
import KotoVerif.Lemmas.C15Split
import KotoVerif.Lemmas.C15Enc
import KotoVerif.Lemmas.C15Esc
import KotoVerif.Lemmas.C15Num
import KotoVerif.Lemmas.C15Fmt

namespace KotoVerif.C15
open KotoVerif.Utf8 KotoVerif.Str KotoVerif.FmtSpec

def strBytes : Res → Option Bytes
  | .str b => some b
  | _ => none

def errKind : Res → Option String
  | .err k => some k
  | _ => none

/-- "h" ++ "é" as a literal-like slice and as a run-time (`Full`) string -/
def hé : Bytes := [0x68, 0xC3, 0xA9]
def héSlice : KStr := KStr.ofSlice hé 0 3
def héFull : KStr := KStr.ofString hé

theorem héSlice_wf : héSlice.WF :=
  ⟨by decide, by decide, by decide, by decide, by decide, by decide, by decide, by decide⟩

/-! ## Slicing -/

/-- **slice_valid**: on the checked storage forms a successful re-slice inside the string has both ends
on character boundaries, returns exactly `bytes[a, b)`, and that is well-formed UTF-8 -/
theorem slice_valid {s t : KStr} (hw : s.WF) (hf : s.form ≠ .full) {a b : Nat} (hb : b ≤ s.len)
    (h : s.withBounds a b = some t) :
    a ≤ b ∧ isBoundary s.bytes a = true ∧ isBoundary s.bytes b = true ∧
      t.bytes = (s.bytes.drop a).take (b - a) ∧ validUtf8 t.bytes = true := by
  have e := KStr.withBounds_eq_strGet hw hf (a := a) hb
  rw [h] at e
  simp only [Option.map_some, strGet] at e
  split at e
  · rename_i hc
    have hb' : t.bytes = (s.bytes.drop a).take (b - a) := Option.some.inj e
    refine ⟨hc.1, hc.2.1, hc.2.2, hb', ?_⟩
    rw [hb']
    exact valid_slice hw.bytes_valid hc.1 hc.2.1 hc.2.2
  · cases e

example : ∃ t, héSlice.withBounds 1 3 = some t ∧ t.bytes = [0xC3, 0xA9] := by decide

/-- **slice_err**: a request that would cut through a character (or is reversed) is refused -/
theorem slice_err {s : KStr} (hw : s.WF) (hf : s.form ≠ .full) {a b : Nat} (hb : b ≤ s.len)
    (h : ¬(a ≤ b ∧ isBoundary s.bytes a = true ∧ isBoundary s.bytes b = true)) :
    s.withBounds a b = none := by
  have e := KStr.withBounds_eq_strGet hw hf (a := a) hb
  simp only [strGet, if_neg h] at e
  cases hr : s.withBounds a b with
  | none => rfl
  | some t => rw [hr] at e; cases e

example : héSlice.withBounds 1 2 = none := by decide

/-- **slice_total**: a request on character boundaries always succeeds on the checked forms -/
theorem slice_total {s : KStr} (hw : s.WF) (hf : s.form ≠ .full) {a b : Nat} (hb : b ≤ s.len)
    (h : a ≤ b ∧ isBoundary s.bytes a = true ∧ isBoundary s.bytes b = true) :
    ∃ t, s.withBounds a b = some t := by
  have e := KStr.withBounds_eq_strGet hw hf (a := a) hb
  simp only [strGet, if_pos h] at e
  cases hr : s.withBounds a b with
  | none => rw [hr] at e; cases e
  | some t => exact ⟨t, rfl⟩

example : (héSlice.withBounds 0 1).isSome = true := by decide

/-- the content of the shared buffer outside the slice is irrelevant to checked re-slicing -/
theorem withBounds_buffer_irrelevant {s s' : KStr} (hw : s.WF) (hw' : s'.WF) (hf : s.form ≠ .full)
    (hf' : s'.form ≠ .full) (hbytes : s.bytes = s'.bytes) {a b : Nat} (hb : b ≤ s.len) :
    (s.withBounds a b).map KStr.bytes = (s'.withBounds a b).map KStr.bytes := by
  have hl : s.len = s'.len := by
    rw [← KStr.bytes_length hw, ← KStr.bytes_length hw', hbytes]
  rw [KStr.withBounds_eq_strGet hw hf hb, KStr.withBounds_eq_strGet hw' hf' (hl ▸ hb), hbytes]

example : héSlice.bytes = (KStr.ofSlice (0x78 :: hé ++ [0x79]) 1 4).bytes := by decide

/-- `s[i]` on the checked forms: the one-byte character at `i`, or one of the three errors -/
theorem index_spec {s : KStr} (hw : s.WF) (hf : s.form ≠ .full) (i : Int) :
    index s i =
      if i < 0 then .err "neg"
      else if i.toNat ≥ s.len then .err "index"
      else match strGet s.bytes i.toNat (i.toNat + 1) with
        | some b => .str b
        | none => .err "utf8" := by
  simp only [index]
  split
  · rfl
  · split
    · rfl
    · rename_i h1 h2
      have hb : i.toNat + 1 ≤ s.len := by omega
      have e := KStr.withBounds_eq_strGet hw hf (a := i.toNat) hb
      cases hr : s.withBounds i.toNat (i.toNat + 1) with
      | none => rw [hr] at e; simp only [Option.map_none] at e; rw [← e]
      | some t => rw [hr] at e; simp only [Option.map_some] at e; rw [← e]

example : errKind (index héSlice 1) = some "utf8" ∧ strBytes (index héSlice 0) = some [0x68] := by decide

/-- `KRange::indices` never leaves the string: every range index request is in bounds -/
theorem range_indices_in_bounds (st : Option Int) (en : Option (Int × Bool)) (len : Nat) :
    (rangeIndices st en len).1 ≤ (rangeIndices st en len).2 ∧ (rangeIndices st en len).2 ≤ len := by
  simp only [rangeIndices, clampI]
  constructor <;> (repeat' split) <;> omega

example : rangeIndices (some (-1)) (some (99, true)) 3 = (0, 3) := by decide

/-- **slice_full_witness** (negation, F-C15-1): on the `Full` storage form the model — as the code —
accepts a cut through a character and returns malformed UTF-8 -/
theorem slice_full_witness :
    strBytes (index héFull 1) = some [0xC3] ∧ validUtf8 [0xC3] = false ∧
    errKind (index héSlice 1) = some "utf8" := by decide

/-- with requests/C15-fix-1.diff applied (storage form `fullV`) the witness is refused, and `slice_valid`,
`slice_err`, `slice_total`, `index_spec` above apply to run-time strings too (their hypothesis is
`form ≠ .full`) -/
theorem slice_full_fixed : errKind (index (KStr.ofStringV hé) 1) = some "utf8" ∧ (KStr.ofStringV hé).form ≠ .full := by
  decide

/-- what does hold for the `Full` form: `with_bounds` never fails and returns the raw bytes; the result is
well-formed exactly when the cut happens to be on character boundaries (missing in the code: the check
`string.get(bounds).is_some()` in `StringSlice::new`) -/
theorem slice_full_partial {s : KStr} (hw : s.WF) (hf : s.form = .full) {a b : Nat} (hab : a ≤ b)
    (ha : isBoundary s.bytes a = true) (hb : isBoundary s.bytes b = true) :
    ∃ t, s.withBounds a b = some t ∧ t.bytes = (s.bytes.drop a).take (b - a) ∧ validUtf8 t.bytes = true := by
  have e := KStr.withBounds_full hw hf a b
  cases hr : s.withBounds a b with
  | none => rw [hr] at e; cases e
  | some t =>
    rw [hr] at e
    have hb' : t.bytes = (s.bytes.drop a).take (b - a) := Option.some.inj e
    exact ⟨t, rfl, hb', hb' ▸ valid_slice hw.bytes_valid hab ha hb⟩

example : ∃ t, héFull.withBounds 1 3 = some t ∧ t.bytes = [0xC3, 0xA9] := by decide

/-- **with_bounds_own_end_witness** (F-C15-10, Rust API level): on a slice, `with_bounds` is validated against
the shared buffer only — a request beyond the slice's own end succeeds and returns bytes that are not part
of the string (`KString::from("abcdef").with_bounds(0..2).unwrap().with_bounds(0..4)` is `"abcd"`); with
requests/C15-fix-8.diff applied it is refused. The VM never asks beyond the end (`range_indices_in_bounds`,
`validate_index`, the size checks of the unpacking instructions), so scripts cannot observe it. -/
theorem with_bounds_own_end_witness :
    ((KStr.ofSlice [97, 98, 99, 100, 101, 102] 0 2).withBoundsApi 0 4).map KStr.bytes = some [97, 98, 99, 100] ∧
    ((KStr.ofSlice [97, 98, 99, 100, 101, 102] 0 2).withBoundsApi 0 4 true).map KStr.bytes = none := by decide

/-- with the own-end check every successful API-level re-slice is inside the string, so `slice_valid`
applies without a side condition -/
theorem with_bounds_api_fixed {s t : KStr} {a b : Nat} (h : s.withBoundsApi a b true = some t) :
    b ≤ s.len ∧ s.withBounds a b = some t := by
  simp only [KStr.withBoundsApi] at h
  split at h
  · cases h
  · rename_i hc
    exact ⟨by simp at hc; omega, h⟩

def nullCount : Res → Nat
  | .tuple xs => (xs.filter fun r => match r with | .null => true | _ => false).length
  | _ => 0

/-- **unpack_null_witness** (F-C15-9): the unpacking instructions (`TempIndex`, `SliceFrom`, `SliceTo`) turn a
cut through a character into `null` — `match 'aé'` with `(rest..., last)` binds both to null — where `s[i]`
raises an error; with requests/C15-fix-7.diff applied (`strict`) it is the same error -/
theorem unpack_null_witness :
    nullCount (unpackTail (KStr.ofSlice [0x61, 0xC3, 0xA9] 0 3) 1) = 2 ∧
    errKind (unpackTail (KStr.ofSlice [0x61, 0xC3, 0xA9] 0 3) 1 true) = some "utf8" ∧
    nullCount (unpackHead (KStr.ofSlice [0x61, 0xC3, 0xA9] 0 3) 1) = 0 := by decide

def isPanic : Res → Bool
  | .panic _ => true
  | _ => false

/-- **repeat_overflow_witness** (F-C15-11): a result above `isize::MAX` bytes panics inside `str::repeat`
(`capacity overflow`); with requests/C15-fix-9.diff applied it is a runtime error; the empty string can be
repeated any number of times -/
theorem repeat_overflow_witness :
    isPanic (repeatOp (KStr.ofSlice [97, 98] 0 2) 9223372036854775807) = true ∧
    errKind (repeatOp (KStr.ofSlice [97, 98] 0 2) 9223372036854775807 true) = some "toolarge" ∧
    strBytes (repeatOp (KStr.ofSlice [] 0 0) 9223372036854775807) = some [] := by decide

/-- `repeat` below the limit: exactly `n` copies, in every variant of the code -/
theorem repeat_spec {s : KStr} (hw : s.WF) {n : Int} (hn : 0 ≤ n) (hsz : s.len * n.toNat ≤ isizeMax) (c : Bool) :
    repeatOp s n c = .str (repeatB n.toNat s.bytes) := by
  simp only [repeatOp]
  rw [if_neg (by omega)]
  split
  · rename_i h0
    have hb : s.bytes = [] := List.length_eq_zero_iff.mp (by rw [KStr.bytes_length hw]; exact h0)
    simp [hb, repeatB, flat]
  · rw [if_neg (by omega)]

/-- **split_api_own_end_witness** (F-C15-12, Rust API level): `StringSlice::split` beyond the slice's own end
succeeds and the first half reads the neighbouring text; with requests/C15-fix-10.diff applied it is refused -/
theorem split_api_own_end_witness :
    ((({ KStr.ofSlice [97, 98, 99, 100, 101, 102] 0 2 with form := .large } : KStr).splitAtApi 4).map
      (fun pr => pr.1.bytes)) = some [97, 98, 99, 100] ∧
    (({ KStr.ofSlice [97, 98, 99, 100, 101, 102] 0 2 with form := .large } : KStr).splitAtApi 4 true).isNone = true ∧
    (({ KStr.ofSlice [97, 98, 99, 100, 101, 102] 0 2 with form := .large } : KStr).splitAtApi 1 true).isSome = true := by
  decide

/-! ## Well-formedness is preserved (`utf8_closed`) -/

/-- cutting at character boundaries -/
theorem utf8_closed_cut {s : Bytes} {a b : Nat} (hv : validUtf8 s = true) (hab : a ≤ b)
    (ha : isBoundary s a = true) (hb : isBoundary s b = true) :
    validUtf8 ((s.drop a).take (b - a)) = true := valid_slice hv hab ha hb

example : validUtf8 ((hé.drop 1).take 2) = true := by decide

/-- concatenation (`+`, string building) and `repeat` -/
theorem utf8_closed_concat {a b : Bytes} (ha : validUtf8 a = true) (hb : validUtf8 b = true) :
    validUtf8 (a ++ b) = true := valid_append ha hb

theorem utf8_closed_repeat {s : Bytes} (n : Nat) (h : validUtf8 s = true) : validUtf8 (repeatB n s) = true :=
  valid_replicate n h

example : validUtf8 (repeatB 3 hé) = true := by decide

/-- every element of `chars()` -/
theorem utf8_closed_chars {U : UFacts} (hp : Progress U.gFirst) (hb : CutsAtBoundaries U.gFirst) {s : Bytes}
    (hv : validUtf8 s = true) : ∀ p ∈ charsB U s, validUtf8 p = true :=
  segs_valid hp hb s.length s hv

/-- every piece of `split(pattern)` — any pattern, the empty one included -/
theorem utf8_closed_split {pat s : Bytes} (hpv : validUtf8 pat = true) (hv : validUtf8 s = true) :
    ∀ p ∈ splitB pat (s.length + 2) s, validUtf8 p = true := by
  cases pat with
  | cons c r =>
    simp only [splitB, List.isEmpty_cons, Bool.false_eq_true, if_false]
    exact splitNE_valid hpv (by simp) _ s hv
  | nil =>
    rw [splitB_empty _ s (by omega)]
    intro p hp
    simp only [List.mem_cons, List.mem_append, List.mem_singleton, List.not_mem_nil, or_false] at hp
    rcases hp with rfl | hp | rfl
    · exact valid_nil
    · exact segs_valid progress_gFirstChar cuts_gFirstChar s.length s hv p hp
    · exact valid_nil

/-- every line -/
theorem utf8_closed_lines {s : Bytes} (hv : validUtf8 s = true) : ∀ l ∈ linesB s [], validUtf8 l = true :=
  linesB_valid s.length s (Nat.le_refl _) hv

/-- `trim`, `trim_start`, `trim_end` -/
theorem utf8_closed_trim (U : UFacts) {s : Bytes} (hv : validUtf8 s = true) :
    validUtf8 (trimB U s) = true ∧ validUtf8 (trimStartB U s) = true ∧ validUtf8 (trimEndB U s) = true :=
  ⟨trimB_valid U hv, trimStartB_valid U hv, trimEndB_valid U hv⟩

/-- `strip_prefix` / `strip_suffix` with a well-formed pattern -/
theorem utf8_closed_strip {p r : Bytes} (hp : validUtf8 p = true) :
    (validUtf8 (p ++ r) = true → validUtf8 r = true) ∧ (validUtf8 (r ++ p) = true → validUtf8 r = true) :=
  ⟨fun h => valid_of_append_left h hp, fun h => valid_of_append_right h hp⟩

/-- `replace` (non-empty pattern: leftmost non-overlapping occurrences; empty pattern: the replacement is
inserted around every character) -/
theorem utf8_closed_replace {pat to s : Bytes} (hpv : validUtf8 pat = true) (htv : validUtf8 to = true)
    (hv : validUtf8 s = true) : validUtf8 (replaceB pat to s) = true := by
  cases pat with
  | nil => exact replaceB_empty_valid htv hv
  | cons c r =>
    simp only [replaceB, List.isEmpty_cons]
    exact replaceNE_valid hpv (by simp) htv _ s hv

/-- every character of a well-formed string is well-formed -/
theorem utf8_closed_chars_of {s : Bytes} (hv : validUtf8 s = true) : ∀ c ∈ charsOf s, validUtf8 c = true :=
  charsOf_valid hv

/-- escape processing of a well-formed literal gives a well-formed string (when it succeeds), for the
current code and for the code with requests/C15-fix-3.diff applied -/
theorem utf8_closed_escape (U : UFacts) (checked : EscCfg) {lit out : Bytes} (hv : validUtf8 lit = true)
    (h : unescape U lit checked = .ok out) : validUtf8 out = true := unescape_valid U checked hv h

example : validUtf8 (replaceB [0xC3, 0xA9] [0x2C] hé) = true := by decide

/-- `to_lowercase` / `to_uppercase`, for every table of case images that are well-formed -/
theorem utf8_closed_case (U : UFacts) (hl : ∀ c, validUtf8 (U.lower c) = true) (hu : ∀ c, validUtf8 (U.upper c) = true)
    (s : Bytes) : validUtf8 (lowerB U s) = true ∧ validUtf8 (upperB U s) = true := by
  constructor
  · exact valid_flatten (fun x hx => by obtain ⟨c, _, rfl⟩ := List.mem_map.mp hx; exact hl c)
  · exact valid_flatten (fun x hx => by obtain ⟨c, _, rfl⟩ := List.mem_map.mp hx; exact hu c)

/-- a padded field (fill, rendered value, fill) -/
theorem utf8_closed_pad (g : Bytes → Nat) (isNum : Bool) {rendered : Bytes} (o : Opts)
    (hr : validUtf8 rendered = true) (hf : validUtf8 (o.fill.getD [32]) = true) :
    validUtf8 (pad g isNum rendered (some o)) = true := by
  simp only [pad]
  split
  · exact valid_append (valid_append (valid_replicate _ hf) hr) (valid_replicate _ hf)
  · exact hr

/-- **formatting**: what `run_string_push` appends is well-formed UTF-8 — every value kind, every
representation, precision (truncation by grapheme clusters), every alignment — for every segmentation
oracle that makes progress and cuts at character boundaries, given a well-formed value and fill -/
theorem utf8_closed_format (g : Bytes → Nat) (hp : Progress g) (hb : CutsAtBoundaries g) (v : FVal) (o : Opts)
    (exact : Bool) (hv : ∀ s, v = .str s → validUtf8 s = true) (hf : validUtf8 (o.fill.getD [32]) = true) :
    validUtf8 (applyFmt g v (some o) exact) = true := applyFmt_valid g hp hb v o exact hv hf

example : validUtf8 (applyFmt gFirstChar (.int (-1200)) (some { minWidth := some 9, rep := some .expLower, fill := some [0xC3, 0xA9] })) = true := by
  decide

/-- the bytes of a well-formed string are bytes (never above 0xF4) -/
theorem bytes_spec {s : Bytes} (hv : validUtf8 s = true) : ∀ b ∈ s, b ≤ 0xF4 := by
  have step : ∀ (st st' : U8) (b : Nat), u8step st b = some st' → b ≤ 0xF4 := by
    intro st st' b h
    cases st with
    | start =>
      simp only [u8step] at h
      repeat' split at h
      all_goals first | omega | cases h
    | need k lo hi =>
      have := need_accepts_only_cont h
      simp only [isCont, Bool.and_eq_true, decide_eq_true_eq] at this
      omega
  have run : ∀ (bs : Bytes) (st st' : U8), u8run st bs = some st' → ∀ b ∈ bs, b ≤ 0xF4 := by
    intro bs
    induction bs with
    | nil => intro _ _ _ b hb; cases hb
    | cons x xs ih =>
      intro st st' h b hb
      simp only [u8run] at h
      cases hs : u8step st x with
      | none => rw [hs] at h; cases h
      | some s2 =>
        rw [hs] at h
        rcases List.mem_cons.mp hb with rfl | hb
        · exact step st s2 _ hs
        · exact ih s2 st' h b hb
  exact run s .start .start ((validUtf8_iff s).mp hv)

example : ∃ s : Bytes, validUtf8 s = true ∧ s = hé := ⟨hé, by decide, rfl⟩

/-! ## chars, char_indices, split, lines, trim -/

/-- **chars_join**: concatenating `chars()` reproduces the string — for every segmentation oracle that
makes progress -/
theorem chars_join {U : UFacts} (hp : Progress U.gFirst) (s : Bytes) : (charsB U s).flatten = s :=
  segs_flatten hp s.length s (Nat.le_refl _)

/-- no element of `chars()` is empty -/
theorem chars_nonempty {U : UFacts} (hp : Progress U.gFirst) (s : Bytes) : ∀ p ∈ charsB U s, p ≠ [] :=
  segs_nonempty hp s.length s

example : charsB UFacts.trivial hé = [[0x68], [0xC3, 0xA9]] := by decide

/-- **char_indices_cover**: the ranges are non-empty, consecutive, start at 0 and end at the length -/
theorem char_indices_cover {U : UFacts} (hp : Progress U.gFirst) (bs : Bytes) :
    Tiles (charIndicesLoop U bs (bs.length + 1) 0) 0 bs.length :=
  charIndices_tiles hp bs (bs.length + 1) 0 (Nat.zero_le _) (by omega)

example : charIndicesLoop UFacts.trivial hé 4 0 = [(0, 1), (1, 3)] := by decide

/-- **split_join**: the pieces re-joined with the pattern are the string — for EVERY pattern (for the
empty pattern this says that the concatenation of the pieces is the string) -/
theorem split_join (pat s : Bytes) : joinWith pat (splitB pat (s.length + 2) s) = s := by
  cases pat with
  | cons c r =>
    simp only [splitB, List.isEmpty_cons, Bool.false_eq_true, if_false]
    exact splitNE_join (by simp) (s.length + 2) s (by omega)
  | nil =>
    rw [splitB_empty _ s (by omega)]
    have hj : ∀ xs : List Bytes, joinWith [] xs = xs.flatten := by
      intro xs
      induction xs with
      | nil => rfl
      | cons x r ih =>
        cases r with
        | nil => simp [joinWith]
        | cons y r2 => simp only [joinWith, List.append_nil, List.flatten_cons]; rw [ih]; simp
    rw [hj]
    simp only [List.flatten_cons, List.flatten_append, List.nil_append, List.flatten_nil, List.append_nil]
    exact segs_flatten progress_gFirstChar s.length s (Nat.le_refl _)

example : splitB [0x2C] 6 [0x61, 0x2C, 0x62, 0x2C] = [[0x61], [0x62], []] := by decide

/-- **split terminates for every pattern**: more fuel than `len + 2` changes nothing (the iteration ends by
itself: the repaired `Split` sets `start = len + 1` after the last piece) -/
theorem split_terminates (pat s : Bytes) (fuel : Nat) (h : s.length + 2 ≤ fuel) :
    splitB pat fuel s = splitB pat (s.length + 2) s := by
  cases pat with
  | cons c r =>
    simp only [splitB, List.isEmpty_cons, Bool.false_eq_true, if_false]
    exact splitNE_fuel_irrelevant (by simp) _ _ s (by omega) (by omega)
  | nil => rw [splitB_empty _ s (by omega), splitB_empty _ s (by omega)]

/-- the empty pattern splits into `''`, the characters, `''`: exactly `chars + 2` pieces -/
theorem split_empty_pattern (s : Bytes) :
    splitB [] (s.length + 2) s = [] :: (charsOf s ++ [[]]) ∧
    (splitB [] (s.length + 2) s).length = (charsOf s).length + 2 := by
  have h : splitB [] (s.length + 2) s = [] :: (charsOf s ++ [[]]) := by
    rw [splitB_empty _ s (by omega)]
    simp only [Utf8.graphemes, segs_gFirstChar_eq s.length s (Nat.le_refl _)]
  exact ⟨h, by rw [h]; simp⟩

example : splitB [] 5 [0x61, 0xC3, 0xA9, 0x62] = [[], [0x61], [0xC3, 0xA9], [0x62], []] ∧ splitB [] 2 [] = [[], []] := by
  decide

/-- piece count: at most one piece per byte plus one for a non-empty pattern, `chars + 2` for the empty one;
in every case at most `bytes + 2` -/
theorem split_count_le (pat s : Bytes) : (splitB pat (s.length + 2) s).length ≤ s.length + 2 := by
  cases pat with
  | cons c r =>
    simp only [splitB, List.isEmpty_cons, Bool.false_eq_true, if_false]
    have := splitNE_length_le (pat := c :: r) (by simp) (s.length + 2) s
    omega
  | nil =>
    rw [splitB_empty _ s (by omega)]
    have := segs_length_le progress_gFirstChar s.length s (Nat.le_refl _)
    simp only [List.length_cons, List.length_append, List.length_nil, Utf8.graphemes]
    omega

/-- there is always at least one piece -/
theorem split_nonempty (pat s : Bytes) : splitB pat (s.length + 2) s ≠ [] := by
  cases pat with
  | cons c r => simp only [splitB, List.isEmpty_cons, Bool.false_eq_true, if_false]; exact splitNE_ne_nil _ _ s
  | nil => simp [splitB]

/-- for a non-empty pattern the first piece is empty exactly when the input is empty or starts with the
pattern — so (with the recursion `splitNE`) an empty piece arises only at the start, at the end, or between
two adjacent matches -/
theorem split_empty_piece {pat : Bytes} (hp : pat ≠ []) (fuel : Nat) (rest : Bytes) :
    (splitNE pat (fuel + 1) rest).head? = some [] ↔ (rest = [] ∨ pat.isPrefixOf rest = true) :=
  splitNE_head_empty hp fuel rest

/-- **lines_spec**: `lines` is characterised by two equations — a string without a line feed is one line
(no line if it is empty); otherwise the first line is the text before the first line feed with one
trailing carriage return removed, followed by the lines of the rest — and no line contains a line feed -/
theorem lines_spec :
    (∀ pre : Bytes, (∀ b ∈ pre, b ≠ 10) → linesB pre [] = if pre.isEmpty then [] else [pre]) ∧
    (∀ pre post : Bytes, (∀ b ∈ pre, b ≠ 10) → linesB (pre ++ 10 :: post) [] = stripCR pre :: linesB post []) ∧
    (∀ s : Bytes, ∀ l ∈ linesB s [], ∀ b ∈ l, b ≠ 10) := by
  refine ⟨?_, ?_, ?_⟩
  · intro pre h; simpa using linesB_no_lf pre [] h
  · intro pre post h; simpa using linesB_unfold pre post [] h
  · intro s; exact linesB_lines_no_lf s.length s (Nat.le_refl _)

example : linesB [0x61, 13, 10, 0x62, 10, 10, 0x63, 13] [] = [[0x61], [0x62], [], [0x63, 13]] := by decide

/-- the carriage return is dropped only directly before the line feed -/
theorem lines_crlf (pre post : Bytes) (h : ∀ b ∈ pre, b ≠ 10) :
    linesB (pre ++ 13 :: 10 :: post) [] = pre :: linesB post [] := by
  have h' : ∀ b ∈ pre ++ [13], b ≠ 10 := by
    intro b hb
    rcases List.mem_append.mp hb with hb | hb
    · exact h b hb
    · simp at hb; omega
  have := linesB_unfold (pre ++ [13]) post [] h'
  simp only [List.append_assoc, List.singleton_append, List.nil_append] at this
  rw [this]
  simp [stripCR]

/-- **trim_spec**: `trim_start` removes a front of white-space characters, at a character boundary, and
what remains does not start with one; `trim_end` is the mirror image; nothing else changes -/
theorem trim_spec (U : UFacts) (s : Bytes) :
    (∃ ws : List Bytes, (∀ c ∈ ws, U.isWhite c = true) ∧ s = flat ws ++ trimStartB U s ∧
      (∀ c, ((charsOf s).dropWhile U.isWhite).head? = some c → U.isWhite c = false) ∧
      isBoundary s (flat ws).length = true) ∧
    (∃ ws : List Bytes, (∀ c ∈ ws, U.isWhite c = true) ∧ s = trimEndB U s ++ flat ws ∧
      isBoundary s (trimEndB U s).length = true) :=
  ⟨trimStartB_spec U s, trimEndB_spec U s⟩

example : trimB UFacts.trivial [32, 0x61, 0xC3, 0xA9, 32, 10] = [0x61, 0xC3, 0xA9] := by decide

/-- **trim(pattern) order witness**: the model trims the front first and then the end *of the remainder*.
On `'aaa'.trim 'aa'`, `'ababa'.trim 'aba'` and `'ééé'.trim 'éé'` this differs from trimming both ends
independently on the input (which would give the empty string) — at the byte level and at the code level -/
theorem trim_pattern_order_witness :
    trimMatchesB [97, 97] [97, 97, 97] = [97] ∧ trimMatchesIndependentB [97, 97] [97, 97, 97] = [] ∧
    trimMatchesB [97, 98, 97] [97, 98, 97, 98, 97] = [98, 97] ∧
    trimMatchesIndependentB [97, 98, 97] [97, 98, 97, 98, 97] = [] ∧
    trimMatchesB [0xC3, 0xA9, 0xC3, 0xA9] [0xC3, 0xA9, 0xC3, 0xA9, 0xC3, 0xA9] = [0xC3, 0xA9] ∧
    strBytes (trimOp UFacts.trivial (KStr.ofString [97, 97, 97]) (some [97, 97])) = some [97] ∧
    strBytes (trimOp UFacts.trivial (KStr.ofSlice [97, 98, 97, 98, 97] 0 5) (some [97, 98, 97])) = some [98, 97] := by
  decide

/-- `trim_start(pattern)`: the input is some copies of the pattern followed by the result, and the result
does not start with the pattern (non-empty pattern) -/
theorem trim_start_pattern_spec {pat : Bytes} (hp : pat ≠ []) (s : Bytes) :
    ∃ k, s = repPat k pat ++ trimStartMatchesB pat s.length s ∧
      pat.isPrefixOf (trimStartMatchesB pat s.length s) = false :=
  trimStartMatchesB_spec hp s.length s (Nat.le_refl _)

example : trimStartMatchesB [97, 97] 5 [97, 97, 97, 97, 97] = [97] := by decide

/-! ## The code-level operations compute the byte-level definitions

The driver runs the `KStr`-level functions (offsets into the shared buffer, `with_bounds(..).unwrap()`);
the laws above are about the byte-level functions. These theorems connect the two for every well-formed
string in every storage form — in particular no `unwrap()` of these call sites can fail. -/

/-- `chars()`: repeated `pop_front` yields the grapheme segmentation -/
theorem chars_refines (U : UFacts) (hp : Progress U.gFirst) (hb : CutsAtBoundaries U.gFirst) {s : KStr}
    (hw : s.WF) : ∃ ts : List KStr, charsLoop U (s.len + 1) s = some ts ∧
      ts.map KStr.bytes = segs U.gFirst (s.len + 1) s.bytes := by
  have h := charsLoop_refines U hp hb (s.len + 1) s hw
  cases hr : charsLoop U (s.len + 1) s with
  | none => rw [hr] at h; cases h
  | some ts => rw [hr] at h; exact ⟨ts, rfl, by simpa using h⟩

/-- `chars().reversed()`: repeated `pop_back` yields the segmentation from the back, and re-reversed it
concatenates to the string -/
theorem rchars_refines (U : UFacts) (hp : Progress U.gLast)
    (hb : ∀ s : Bytes, s ≠ [] → isBoundary s (s.length - U.gLast s) = true) {s : KStr} (hw : s.WF) :
    ∃ ts : List KStr, rcharsLoop U (s.len + 1) s = some ts ∧
      ts.map KStr.bytes = rsegs U.gLast (s.len + 1) s.bytes := by
  have h := rcharsLoop_refines U hp hb (s.len + 1) s hw
  cases hr : rcharsLoop U (s.len + 1) s with
  | none => rw [hr] at h; cases h
  | some ts => rw [hr] at h; exact ⟨ts, rfl, by simpa using h⟩

theorem rchars_join {U : UFacts} (hp : Progress U.gLast) (s : Bytes) :
    (rcharsB U s).reverse.flatten = s := rsegs_flatten hp (s.length + 1) s (by omega)

example : rcharsB UFacts.trivial hé = [[0xC3, 0xA9], [0x68]] := by decide

/-- `split(pattern)`: the iterator yields `splitB` — for every (well-formed) pattern, the empty one
included; the loop ends by itself with fuel to spare -/
theorem split_refines {s : KStr} (hw : s.WF) {pat : Bytes} (hpv : validUtf8 pat = true) :
    ∃ ts : List KStr, splitLoop s pat (s.len + 3) 0 false = some ts ∧
      ts.map KStr.bytes = splitB pat (s.len + 2) s.bytes := by
  have h := splitLoop_refines_all hw hpv
  cases hr : splitLoop s pat (s.len + 3) 0 false with
  | none => rw [hr] at h; cases h
  | some ts => rw [hr] at h; exact ⟨ts, rfl, by simpa using h⟩

/-- split by predicate: the current code drops the piece after a separator at the very end
(F-C15-6; `split(',')` keeps it); with requests/C15-fix-4.diff applied (`keepTrailing`) both forms agree -/
theorem split_with_trailing_witness :
    (match splitWithOp UFacts.trivial (fun g => g == [0x2C]) (KStr.ofString [0x61, 0x2C, 0x62, 0x2C]) with
      | .tuple xs => xs.length | _ => 0) = 2 ∧
    (match splitWithOp UFacts.trivial (fun g => g == [0x2C]) (KStr.ofString [0x61, 0x2C, 0x62, 0x2C]) true with
      | .tuple xs => xs.length | _ => 0) = 3 ∧
    (splitB [0x2C] 6 [0x61, 0x2C, 0x62, 0x2C]).length = 3 := by decide

/-- `lines()`: the iterator yields `linesB` -/
theorem lines_refines {s : KStr} (hw : s.WF) :
    ∃ ts : List KStr, linesLoop s (s.len + 1) 0 = some ts ∧ ts.map KStr.bytes = linesB s.bytes [] := by
  have h := linesLoop_refines hw (s.len + 1) 0 (Nat.zero_le _) (by omega) (isBoundary_zero _)
  cases hr : linesLoop s (s.len + 1) 0 with
  | none => rw [hr] at h; cases h
  | some ts => rw [hr] at h; exact ⟨ts, rfl, by simpa using h⟩

/-- `trim()`, `trim_start()`, `trim_end()` -/
theorem trim_refines (U : UFacts) {s : KStr} (hw : s.WF) :
    trimOp U s none = .str (trimB U s.bytes) ∧ trimStartOp U s none = .str (trimStartB U s.bytes) ∧
    trimEndOp U s none = .str (trimEndB U s.bytes) :=
  ⟨trimOp_refines U hw, trimStartOp_refines U hw, trimEndOp_refines U hw⟩

/-- `strip_prefix(p)` -/
theorem strip_prefix_refines {s : KStr} (hw : s.WF) {pat : Bytes} (hp : validUtf8 pat = true) :
    stripPrefixOp s pat = if pat.isPrefixOf s.bytes then .str (s.bytes.drop pat.length) else .null :=
  stripPrefixOp_refines hw hp

example : strBytes (trimOp UFacts.trivial (KStr.ofSlice [120, 32, 0x61, 32, 121] 1 4) none) = some [0x61] := by decide

/-! ## Formatting -/

/-- **align_spec**: the fill counts of the four alignments (numbers are right-aligned by default,
everything else left-aligned; centre puts the smaller half on the left) -/
theorem align_spec (n : Nat) :
    fillCounts .left true n = (0, n) ∧ fillCounts .left false n = (0, n) ∧
    fillCounts .right true n = (n, 0) ∧ fillCounts .right false n = (n, 0) ∧
    fillCounts .default true n = (n, 0) ∧ fillCounts .default false n = (0, n) ∧
    (n < 16777216 → ∀ b, fillCounts .center b n = (n / 2, (n + 1) / 2)) :=
  ⟨rfl, rfl, rfl, rfl, rfl, rfl, fun h b => center_floor_ceil b h⟩

example : fillCounts .center false 3 = (1, 2) := by decide

/-- **center_f32_witness** (negation, F-C15-2): with 2^24+1 missing characters the centred halves add up
to 2^24 only — the field is one character too narrow -/
theorem center_f32_witness :
    (fillCounts .center false 16777217).1 + (fillCounts .center false 16777217).2 = 16777216 := by decide

/-- with requests/C15-fix-2.diff applied (`exactCenter = true`) the halves always add up -/
theorem center_exact_sum (a : Align) (b : Bool) (n : Nat) :
    (fillCounts a b n true).1 + (fillCounts a b n true).2 = n := by
  cases a with
  | default => cases b <;> simp [fillCounts]
  | left => simp [fillCounts]
  | right => simp [fillCounts]
  | center => simp only [fillCounts, if_true]; omega

/-- **width_at_least**: a formatted field has at least the requested number of grapheme clusters —
under the stated hypotheses: the cluster count is additive over the concatenated pieces (excluded:
F-C15-4), the fill is at least one cluster, and a centred field misses fewer than 2^24 (excluded: F-C15-2) -/
theorem width_at_least (g : Bytes → Nat) (v : FVal) (o : Opts) (w : Nat) (hw : o.minWidth = some w)
    (hc : o.align ≠ .center ∨ w - cnt g (render g v (some o)) < 16777216)
    (hfill : 1 ≤ cnt g (o.fill.getD [32]))
    (hadd : ∀ l r, cnt g (rep_ l (o.fill.getD [32]) ++ render g v (some o) ++ rep_ r (o.fill.getD [32]))
                    = l * cnt g (o.fill.getD [32]) + cnt g (render g v (some o)) + r * cnt g (o.fill.getD [32])) :
    w ≤ cnt g (applyFmt g v (some o)) :=
  pad_width g (isNumber v) (render g v (some o)) o w hw hc hfill hadd

example : applyFmt gFirstChar (.str [0xC3, 0xA9]) (some { align := .center, minWidth := some 4, fill := some [42] })
    = [42, 0xC3, 0xA9, 42, 42] := by decide

/-- a toy segmentation in which U+0301 (CC 81) joins the preceding character -/
def gToy : Bytes → Nat
  | 0xCC :: 0x81 :: _ => 2
  | _ :: 0xCC :: 0x81 :: _ => 3
  | [] => 0
  | _ :: _ => 1

/-- **width_merge_witness** (negation, F-C15-4): a value that starts with a combining mark, right-aligned
to width 3 with `*`, has only 2 clusters: the last fill character and the mark merge -/
theorem width_merge_witness :
    cnt gToy (applyFmt gToy (.str [0xCC, 0x81]) (some { align := .right, minWidth := some 3, fill := some [42] })) = 2 := by
  decide

/-- a field that is already wide enough is left alone -/
theorem width_no_padding (g : Bytes → Nat) (v : FVal) (o : Opts)
    (h : o.minWidth.getD 0 ≤ cnt g (render g v (some o))) : applyFmt g v (some o) = render g v (some o) :=
  pad_wide g (isNumber v) _ o h

/-- **fmtspec_roundtrip** on a grid of 660 option values (all alignments × fills none/`*`/`0`/`é` ×
widths none/0/5/12 × precisions none/0/2 × representations none/`?`/`x`/`E`, minus the values that have
no text form): the canonical text re-parses to the same options.
PARTIAL: proved by evaluation on the grid, not for all option values (the general statement needs
"parsing the decimal digits of n gives n" for all n). -/
theorem fmtspec_roundtrip_grid_partial :
    ∀ o ∈ gridOpts, okOpts (parse gFirstChar (renderOpts o)) = some o := by decide +kernel

example : gridOpts.length = 660 := by decide +kernel

/-- parse facts: the empty string is the default; fill + alignment + width + precision + representation;
the `0` flag; a representation character in front of an alignment character is a fill -/
theorem fmtspec_parse_facts :
    okOpts (parse gFirstChar []) = some {} ∧
    okOpts (parse gFirstChar [42, 94, 56, 46, 50, 63]) =
      some { align := .center, minWidth := some 8, precision := some 2, fill := some [42], rep := some .debug } ∧
    okOpts (parse gFirstChar [48, 56]) = some { minWidth := some 8, fill := some [48] } ∧
    okOpts (parse gFirstChar [101, 60, 51]) = some { align := .left, minWidth := some 3, fill := some [101] } ∧
    errOf (parse gFirstChar [42, 53]) = some (.unexpectedToken [53]) ∧
    errOf (parse gFirstChar [46, 120]) = some (.expectedNumber [120]) ∧
    errOf (parse gFirstChar [52, 50, 57, 52, 57, 54, 55, 50, 57, 54]) = some .tooLarge := by decide

/-- a quirk of the parser the model mirrors: a fill *cluster* whose first character is a representation
character (here `e` + U+0301, a decomposed "é") is not recognised as a fill -/
theorem fmtspec_cluster_fill_quirk :
    errOf (parse gToy [101, 0xCC, 0x81, 60, 53]) = some (.unexpectedToken [0xCC, 0x81]) ∧
    okOpts (parse gToy [97, 0xCC, 0x81, 60, 53]) =
      some { align := .left, minWidth := some 5, fill := some [97, 0xCC, 0x81] } := by decide

/-- with requests/C15-fix-6.diff applied (`clusterFirst`) a fill cluster followed by an alignment character
is a fill whatever its first character is (F-C15-8) -/
theorem fmtspec_cluster_fill_fixed :
    okOpts (parse gToy [101, 0xCC, 0x81, 60, 53] true) =
      some { align := .left, minWidth := some 5, fill := some [101, 0xCC, 0x81] } ∧
    okOpts (parse gToy [53, 0xCC, 0x81, 94, 55] true) =
      some { align := .center, minWidth := some 7, fill := some [53, 0xCC, 0x81] } ∧
    okOpts (parse gToy [42, 94, 56, 46, 50, 63] true) = okOpts (parse gToy [42, 94, 56, 46, 50, 63]) := by decide

/-! ## Every value kind × every representation (`renderX`) -/

def okX : Except PErr Bytes → Option Bytes
  | .ok b => some b
  | .error _ => none

def errX : Except PErr Bytes → Option PErr
  | .ok _ => none
  | .error e => some e

/-- 1234.5, 1.23456, 2.75, 255.0, 0.125, 2.5 with their shortest decimals -/
def f1234_5 : XVal := .float 0x40934A0000000000 { digits := [49, 50, 51, 52, 53], exp := 3 }
def f1_23456 : XVal := .float 0x3FF3C0C1FC8F3238 { digits := [49, 50, 51, 52, 53, 54], exp := 0 }
def f2_75 : XVal := .float 0x4006000000000000 { digits := [50, 55, 53], exp := 0 }
def f255 : XVal := .float 0x406FE00000000000 { digits := [50, 53, 53], exp := 2 }
def f0_125 : XVal := .float 0x3FC0000000000000 { digits := [49, 50, 53], exp := -1 }
def f2_5 : XVal := .float 0x4004000000000000 { digits := [50, 53], exp := 0 }

/-- without the precision repair, the old value kinds render exactly as `render` says (the theorems about
`render` / `applyFmt` above speak about `renderX` too) -/
theorem renderX_base (g : Bytes → Nat) (v : FVal) (o : Option Opts) (cfg : FmtCfg) (h : cfg.precRepr = false) :
    renderX g (.base v) o cfg = .ok (render g v o) := by
  cases v <;> simp [renderX, h]

/-- floats: plain display, `e` and `E` (they differ in the exponent letter — seeded change C15-mut12), fixed
precision with ties to even on the exact binary value, integral floats through the radix representations -/
theorem format_float_facts :
    okX (renderX gFirstChar f1234_5 (some {})) = some [49, 50, 51, 52, 46, 53] ∧                          -- 1234.5
    okX (renderX gFirstChar f1234_5 (some { rep := some .expLower })) = some [49, 46, 50, 51, 52, 53, 101, 51] ∧  -- 1.2345e3
    okX (renderX gFirstChar f1234_5 (some { rep := some .expUpper })) = some [49, 46, 50, 51, 52, 53, 69, 51] ∧   -- 1.2345E3
    okX (renderX gFirstChar f255 (some {})) = some [50, 53, 53, 46, 48] ∧                                 -- 255.0
    okX (renderX gFirstChar f0_125 (some { precision := some 2 })) = some [48, 46, 49, 50] ∧              -- 0.12
    okX (renderX gFirstChar f2_5 (some { precision := some 0 })) = some [50] ∧                            -- 2
    okX (renderX gFirstChar f255 (some { rep := some .hexLower })) = some [102, 102] ∧                    -- ff
    okX (renderX gFirstChar f1234_5 (some { rep := some .debug })) = some [49, 50, 51, 52, 46, 53] := by decide

/-- **precision_repr_witness** (F-C15-15): a precision given with `e` / `?` is dropped; with
requests/C15-fix-13.diff applied it is honoured (exact value, ties to even, exponent bumped when the
mantissa rounds up to 10) -/
theorem precision_repr_witness :
    okX (renderX gFirstChar f1_23456 (some { precision := some 2, rep := some .expLower }))
      = some [49, 46, 50, 51, 52, 53, 54, 101, 48] ∧                                                       -- 1.23456e0
    okX (renderX gFirstChar f1_23456 (some { precision := some 2, rep := some .expLower }) { precRepr := true })
      = some [49, 46, 50, 51, 101, 48] ∧                                                                   -- 1.23e0
    okX (renderX gFirstChar f1_23456 (some { precision := some 2, rep := some .debug }) { precRepr := true })
      = some [49, 46, 50, 51] ∧                                                                            -- 1.23
    okX (renderX gFirstChar (.base (.int 1250)) (some { precision := some 1, rep := some .expLower }))
      = some [49, 46, 50, 53, 101, 51] ∧                                                                   -- 1.25e3
    okX (renderX gFirstChar (.base (.int 1250)) (some { precision := some 1, rep := some .expLower }) { precRepr := true })
      = some [49, 46, 50, 101, 51] ∧                                                                       -- 1.2e3
    okX (renderX gFirstChar (.base (.int 995)) (some { precision := some 1, rep := some .expUpper }) { precRepr := true })
      = some [49, 46, 48, 69, 51] := by decide                                                             -- 1.0E3

/-- **radix_float_witness** (F-C15-16): `x` on 2.75 prints `2`; with requests/C15-fix-14.diff applied it is a
runtime error, while a float that is an integer value keeps working -/
theorem radix_float_witness :
    okX (renderX gFirstChar f2_75 (some { rep := some .hexLower })) = some [50] ∧
    errX (renderX gFirstChar f2_75 (some { rep := some .hexLower }) { radixStrict := true }) = some .reprNotInteger ∧
    okX (renderX gFirstChar f255 (some { rep := some .hexUpper }) { radixStrict := true }) = some [70, 70] := by decide

/-- containers and objects: strings are quoted inside containers, `?` reaches the elements (`@debug`), the
integer-only representations leave other kinds alone, precision cuts by grapheme clusters -/
theorem format_container_facts :
    okX (renderX gFirstChar (.tuple [.int 1, .str [97], .null]) (some {}))
      = some [40, 49, 44, 32, 39, 97, 39, 44, 32, 110, 117, 108, 108, 41] ∧                                -- (1, 'a', null)
    okX (renderX gFirstChar (.map [([97], .int 1)]) (some { rep := some .hexLower })) = some [123, 97, 58, 32, 49, 125] ∧  -- {a: 1}
    okX (renderX gFirstChar (.tuple [.obj [79] [68], .int 5]) (some { rep := some .debug })) = some [40, 68, 44, 32, 53, 41] ∧  -- (D, 5)
    okX (renderX gFirstChar (.obj [79, 66, 74] [68]) (some { precision := some 2 })) = some [79, 66] ∧     -- OB
    okX (renderX gFirstChar (.list []) (some {})) = some [91, 93] := by decide

/-! ## to_number -/

/-- **to_number is exact on rendered integers**: the decimal text of every `i64` (what `'{n}'` produces)
parses back to the same integer -/
theorem to_number_exact {n : Int} (hlo : i64min ≤ n) (hhi : n ≤ i64max) :
    toNumberB (FmtSpec.showInt n) = .int n := toNumberB_showInt hlo hhi

/-- tag of a numeric result: `(1, n)` integer, `(2, 0)` null, `(3, 0)` float, `(4, 0)` error -/
def numTag : Res → Nat × Int
  | .int n => (1, n)
  | .null => (2, 0)
  | .float => (3, 0)
  | .err _ => (4, 0)
  | _ => (0, 0)

/-- prefixes, signs, overflow and the float fall-back, as the code does them -/
theorem to_number_facts :
    numTag (toNumberB [48, 120, 45, 102, 102]) = (1, -255) ∧                     -- "0x-ff"
    numTag (toNumberB [43, 53]) = (1, 5) ∧                                       -- "+5"
    numTag (toNumberB [48, 120]) = (2, 0) ∧                                      -- "0x"
    numTag (toNumberB [105, 110, 102]) = (3, 0) ∧                                -- "inf"
    numTag (toNumberB [49, 101, 53]) = (3, 0) ∧                                  -- "1e5"
    numTag (toNumberB [32, 53]) = (2, 0) ∧                                       -- " 5"
    numTag (toNumberB (FmtSpec.showDec 9223372036854775808)) = (3, 0) ∧          -- i64::MAX + 1
    numTag (toNumberBaseB [122, 122] 36) = (1, 1295) ∧                           -- "zz" base 36
    numTag (toNumberBaseB [49] 37) = (4, 0) := by decide

/-- **zero_flag_sign_witness** (F-C15-14): the `0` flag puts the zeroes in front of the sign — `'{-5:03}'` is
`0-5`, which is not a number any more; with requests/C15-fix-12.diff applied it is `-05`; an explicit `0>` fill
is not the flag -/
theorem zero_flag_sign_witness :
    applyFmt gFirstChar (.int (-5)) (some { minWidth := some 3, fill := some [48] }) = [48, 45, 53] ∧
    numTag (toNumberB [48, 45, 53]) = (2, 0) ∧
    applyFmtSign gFirstChar (.int (-5)) (some { minWidth := some 3, fill := some [48] }) = [45, 48, 53] ∧
    numTag (toNumberB [45, 48, 53]) = (1, -5) ∧
    applyFmtSign gFirstChar (.int (-5)) (some { align := .right, minWidth := some 4, fill := some [48] })
      = [48, 48, 45, 53] := by decide

/-- **zero_flag_exact**: with the sign-aware `0` flag, `'{n:0w}'.to_number() = n` for every `i64`, every width
and every segmentation oracle -/
theorem zero_flag_exact (g : Bytes → Nat) {n : Int} (hlo : i64min ≤ n) (hhi : n ≤ i64max) (w : Nat) (c : Bool) :
    toNumberB (applyFmtSign g (.int n) (some { minWidth := some w, fill := some [48] }) c) = .int n :=
  toNumberB_zero_flag g hlo hhi w c

/-! ## Escape codes -/

def okBytes : Except String Bytes → Option Bytes
  | .ok b => some b
  | .error _ => none

def errName : Except String Bytes → Option String
  | .ok _ => none
  | .error e => some e

/-- **escape (simple arms)**: for every row of the table generated from `escape_string_character`, the
escape produces exactly the tabulated character and consumes exactly one character -/
theorem escape_simple (U : UFacts) (checked : EscCfg) (cs : List Bytes) :
    ∀ r ∈ KotoVerif.Gen.simpleEscapeTable, escapeOne U checked ([r.1] :: cs) = .ok ([r.2], cs) := by
  intro r hr
  have h : KotoVerif.Gen.simpleEscape r.1 = some r.2 := by
    revert r; decide
  simp [escapeOne, ascii?, h]

/-- the generated table is exactly the table of the language guide ("String Escape Codes"):
`\\n` newline, `\\r` carriage return, `\\t` tab, `\\'`, `\\"`, `\\\\`, `\\{` — and nothing else -/
theorem escape_table_documented :
    KotoVerif.Gen.simpleEscape 110 = some 10 ∧ KotoVerif.Gen.simpleEscape 114 = some 13 ∧
    KotoVerif.Gen.simpleEscape 116 = some 9 ∧ KotoVerif.Gen.simpleEscape 39 = some 39 ∧
    KotoVerif.Gen.simpleEscape 34 = some 34 ∧ KotoVerif.Gen.simpleEscape 92 = some 92 ∧
    KotoVerif.Gen.simpleEscape 123 = some 123 ∧ KotoVerif.Gen.simpleEscapeTable.length = 7 := by decide

/-- the table is a function both ways: no two escapes produce the same character -/
theorem escape_table_injective :
    ∀ r ∈ KotoVerif.Gen.simpleEscapeTable, ∀ r' ∈ KotoVerif.Gen.simpleEscapeTable,
      (r.1 = r'.1 ∨ r.2 = r'.2) → r = r' := by decide

/-- numeric escapes: ranges and errors -/
theorem escape_numeric_facts :
    okBytes (unescape UFacts.trivial [92, 117, 123, 52, 49, 125]) = some [0x41] ∧                     -- \u{41}
    okBytes (unescape UFacts.trivial [92, 117, 123, 49, 48, 102, 102, 102, 102, 125]) = some [0xF4, 0x8F, 0xBF, 0xBF] ∧  -- \u{10ffff}
    errName (unescape UFacts.trivial [92, 117, 123, 100, 56, 48, 48, 125]) = some "UnicodeEscapeCodeOutOfRange" ∧     -- \u{d800}
    errName (unescape UFacts.trivial [92, 117, 123, 49, 49, 48, 48, 48, 48, 125]) = some "UnicodeEscapeCodeOutOfRange" ∧ -- \u{110000}
    okBytes (unescape UFacts.trivial [92, 120, 55, 102]) = some [0x7F] ∧                                 -- \x7f
    errName (unescape UFacts.trivial [92, 120, 56, 48]) = some "AsciiEscapeCodeOutOfRange" ∧             -- \x80
    okBytes (unescape UFacts.trivial [0x61, 92, 10, 32, 32, 0x62]) = some [0x61, 0x62] := by decide     -- line continuation

/-- **escape_u_overflow_witness** (F-C15-3): nine hex digits overflow the `u32` accumulator — the model
reports the overflow (a panic with overflow checks; without them the code wraps to U+0041) -/
theorem escape_u_overflow_witness :
    errName (unescape UFacts.trivial [92, 117, 123, 49, 48, 48, 48, 48, 48, 48, 52, 49, 125]) = some "PANIC:overflow" := by
  decide

/-- with requests/C15-fix-3.diff applied (`checked = true`) the overflow is the out-of-range error -/
theorem escape_u_overflow_fixed :
    errName (unescape UFacts.trivial [92, 117, 123, 49, 48, 48, 48, 48, 48, 48, 52, 49, 125] { overflow := true })
      = some "UnicodeEscapeCodeOutOfRange" := by decide

/-- **escape_digit_count_witness** (F-C15-13): `\\u{}` is accepted as U+0000 and seven digits are accepted;
with requests/C15-fix-11.diff applied one to six digits are required -/
theorem escape_digit_count_witness :
    okBytes (unescape UFacts.trivial [92, 117, 123, 125]) = some [0] ∧
    errName (unescape UFacts.trivial [92, 117, 123, 125] { digits := true }) = some "UnexpectedCharInNumericEscapeCode" ∧
    okBytes (unescape UFacts.trivial [92, 117, 123, 48, 48, 48, 48, 48, 52, 49, 125]) = some [0x41] ∧
    errName (unescape UFacts.trivial [92, 117, 123, 48, 48, 48, 48, 48, 52, 49, 125] { digits := true })
      = some "UnicodeEscapeCodeOutOfRange" ∧
    okBytes (unescape UFacts.trivial [92, 117, 123, 48, 48, 48, 48, 52, 49, 125] { digits := true }) = some [0x41] := by
  decide

/-- `\\u{…}`: the encoding of every scalar value is well-formed UTF-8 -/
theorem escape_encode_valid {cp : Nat} (h : isScalar cp = true) : validUtf8 (utf8Enc cp) = true :=
  utf8Enc_valid h

example : isScalar 0x1F44B = true ∧ utf8Enc 0x1F44B = [0xF0, 0x9F, 0x91, 0x8B] := by decide

end KotoVerif.C15
