/-
C15 second extension: end-to-end laws that connect several string operations of the executable model
(`Model/Str.lean`): `replace` is `split` followed by `join`, the length law of `replace`, `split` of a
string without the pattern, and `strip_prefix` against `starts_with` / concatenation.
-/
import KotoVerif.Model.Str
import KotoVerif.Lemmas.C15Utf8
import KotoVerif.Lemmas.C15Slice
import KotoVerif.Lemmas.C15Ops
import KotoVerif.Lemmas.C15Split
import KotoVerif.Lemmas.C15Closed
import KotoVerif.Lemmas.C15Refine
import KotoVerif.Props.C15Ext

namespace KotoVerif.C15Ext2
open KotoVerif.Utf8 KotoVerif.Str

/-! ## replace = join ∘ split -/

/-- the loop of `replace` yields the pieces of the loop of `split`, joined with the replacement -/
theorem replaceNE_eq_join_splitNE {pat : Bytes} (hp : pat ≠ []) (to : Bytes) :
    ∀ (fuel : Nat) (rest : Bytes), rest.length < fuel →
      replaceNE pat to fuel rest = joinWith to (splitNE pat fuel rest)
  | 0, _, h => by omega
  | fuel + 1, rest, h => by
    simp only [replaceNE, splitNE]
    cases hf : findAt pat rest with
    | none => simp [joinWith]
    | some e =>
      have hle := findAt_some_le hf
      have hpl : 0 < pat.length := List.length_pos_iff.mpr hp
      have hlt : (rest.drop (e + pat.length)).length < fuel := by
        simp only [List.length_drop]; omega
      have ih := replaceNE_eq_join_splitNE hp to fuel (rest.drop (e + pat.length)) hlt
      obtain ⟨k, rfl⟩ : ∃ k, fuel = k + 1 := ⟨fuel - 1, by omega⟩
      simp only [ih]
      cases hs : splitNE pat (k + 1) (rest.drop (e + pat.length)) with
      | nil => exact absurd hs (splitNE_ne_nil _ _ _)
      | cons y r => simp [joinWith]

/-- **replace_eq_join_split**: for a non-empty pattern, `s.replace(pat, to)` is exactly
`to.join(s.split(pat))` -/
theorem replace_eq_join_split {pat : Bytes} (hp : pat ≠ []) (to bs : Bytes) :
    replaceB pat to bs = joinWith to (splitB pat (bs.length + 2) bs) := by
  simp only [replaceB, splitB]
  rw [if_neg (by simpa using hp), if_neg (by simpa using hp)]
  rw [replaceNE_eq_join_splitNE hp to (bs.length + 1) bs (by omega)]
  rw [splitNE_fuel_irrelevant hp (bs.length + 1) (bs.length + 2) bs (by omega) (by omega)]

example : replaceB [44] [45, 45] [1, 44, 2, 44] = [1, 45, 45, 2, 45, 45] ∧
    splitB [44] 6 [1, 44, 2, 44] = [[1], [2], []] := by decide

/-- **replace_length**: with `k` pieces of `split`, `replace` changes the length by exactly
`(k - 1)` times the difference of the replacement and the pattern -/
theorem replace_length {pat : Bytes} (hp : pat ≠ []) (to bs : Bytes) :
    (replaceB pat to bs).length + ((splitB pat (bs.length + 2) bs).length - 1) * pat.length =
      bs.length + ((splitB pat (bs.length + 2) bs).length - 1) * to.length := by
  have h1 := replace_eq_join_split hp to bs
  have h2 : joinWith pat (splitB pat (bs.length + 2) bs) = bs := by
    simp only [splitB]
    rw [if_neg (by simpa using hp)]
    exact splitNE_join hp (bs.length + 2) bs (by omega)
  have l1 := KotoVerif.C15Ext.join_length to (splitB pat (bs.length + 2) bs)
  have l2 := KotoVerif.C15Ext.join_length pat (splitB pat (bs.length + 2) bs)
  rw [← h1] at l1
  rw [h2] at l2
  omega

/-! ## split without an occurrence -/

/-- **split_absent**: if the (non-empty) pattern does not occur, `split` yields the string as its only
piece -/
theorem split_absent {pat : Bytes} (hp : pat ≠ []) (bs : Bytes) (fuel : Nat)
    (h : containsB pat bs = false) : splitB pat (fuel + 1) bs = [bs] := by
  simp only [splitB]
  rw [if_neg (by simpa using hp)]
  simp only [containsB] at h
  cases hf : findAt pat bs with
  | none => simp [splitNE, hf]
  | some e => simp [hf] at h

example : containsB [9] [1, 2, 3] = false ∧ splitB [9] 5 [1, 2, 3] = [[1, 2, 3]] := by decide

/-- **split_present**: if the (non-empty) pattern occurs, `split` yields at least two pieces -/
theorem split_present {pat : Bytes} (hp : pat ≠ []) (bs : Bytes) (fuel : Nat)
    (h : containsB pat bs = true) : 2 ≤ (splitB pat (fuel + 2) bs).length := by
  simp only [splitB]
  rw [if_neg (by simpa using hp)]
  simp only [containsB] at h
  cases hf : findAt pat bs with
  | none => simp [hf] at h
  | some e =>
    have key : splitNE pat (fuel + 2) bs =
        bs.take e :: splitNE pat (fuel + 1) (bs.drop (e + pat.length)) := by
      simp only [splitNE, hf]
    rw [key, List.length_cons]
    have := splitNE_length_pos pat fuel (bs.drop (e + pat.length))
    omega

example : containsB [2] [1, 2, 3] = true ∧ (splitB [2] 5 [1, 2, 3]).length = 2 := by decide

/-! ## strip_prefix against starts_with and concatenation -/

/-- **strip_prefix_null_iff**: on well-formed operands `strip_prefix` is `null` exactly when
`starts_with` is false -/
theorem strip_prefix_null_iff {s : KStr} (hw : s.WF) {pat : Bytes} (hp : validUtf8 pat = true) :
    stripPrefixOp s pat = .null ↔ startsWithB pat s.bytes = false := by
  rw [stripPrefixOp_refines hw hp]
  simp only [startsWithB]
  cases pat.isPrefixOf s.bytes <;> simp

/-- **strip_prefix_concat**: whatever `strip_prefix` returns, the pattern followed by it is the string -/
theorem strip_prefix_concat {s : KStr} (hw : s.WF) {pat : Bytes} (hp : validUtf8 pat = true) {r : Bytes}
    (h : stripPrefixOp s pat = .str r) : pat ++ r = s.bytes := by
  rw [stripPrefixOp_refines hw hp] at h
  split at h
  · rename_i hpre
    injection h with h
    rw [← h]
    exact (prefix_split hpre).symm
  · cases h

end KotoVerif.C15Ext2
