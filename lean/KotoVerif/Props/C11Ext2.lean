/-
Second extension module for C11 (formatter): end-to-end facts about `source_slice`
(Model/SrcSlice.lean) that the existing theorems state only for tokens lying inside one line.
Comments (`#- … -#`) and `#[fmt:skip]` regions span several lines; here the statement is made on
the whole (flattened) source.
-/
import KotoVerif.Model.SrcSlice
import KotoVerif.Lemmas.C11
import KotoVerif.Props.C11Ext

namespace KotoVerif.C11Ext2
open KotoVerif.SrcSlice

/-- A position that occurs in the table with exactly one byte offset is found by `lookup`. -/
theorem lookup_of_unique (tbl : Table) (p : Pos) (b : Nat) (hm : (p, b) ∈ tbl)
    (hu : ∀ b', (p, b') ∈ tbl → b' = b) : lookup tbl p = some b := by
  cases h : lookup tbl p with
  | none => exact absurd hm ((C11Ext.lookup_none_iff tbl p).1 h b)
  | some b' => rw [hu b' (C11Ext.lookup_sound tbl p b' h)]

/-- `srcslice_boundary` without the one-line restriction: for a token `tok` anywhere in the source
(possibly spanning several lines — multi-line comments, `#[fmt:skip]` regions), if the table maps
the reported end positions to the token's true byte offsets (and to nothing else), `source_slice`
returns exactly the token's text, whatever the line structure and the display widths are. -/
theorem srcslice_boundary_multiline (ls : List Line) (tbl : Table) (pre tok post : List Ch) (sp ep : Pos)
    (hsrc : ls.flatten = pre ++ (tok ++ post))
    (hpre : ∀ c ∈ pre, 1 ≤ c.bytes) (htok : ∀ c ∈ tok, 1 ≤ c.bytes)
    (hs : (sp, byteLen pre) ∈ tbl) (he : (ep, byteLen pre + byteLen tok) ∈ tbl)
    (hfs : ∀ b, (sp, b) ∈ tbl → b = byteLen pre)
    (hfe : ∀ b, (ep, b) ∈ tbl → b = byteLen pre + byteLen tok) :
    sourceSliceText ls tbl { start := sp, stop := ep } = some tok := by
  have h1 := lookup_of_unique tbl sp _ hs hfs
  have h2 := lookup_of_unique tbl ep _ he hfe
  simp only [sourceSliceText, sourceSlice, byteOf, h1, h2, hsrc]
  exact C11.Lemmas.sliceText_mid pre tok post hpre htok

/-- non-vacuity: a two-line block comment `#-\n-#` after `é\n` (bytes 3..8, lines 1..2). -/
example :
    let a (c : Nat) : Ch := { cp := c, bytes := 1, width := 1 }
    let e : Ch := { cp := 233, bytes := 2, width := 1 }
    sourceSliceText [[e, a 10], [a 35, a 45, a 10], [a 45, a 35, a 10]]
        [(⟨1, 0⟩, 3), (⟨2, 2⟩, 8)] { start := ⟨1, 0⟩, stop := ⟨2, 2⟩ }
      = some [a 35, a 45, a 10, a 45, a 35] := by decide

/-- When both ends of a span are token boundaries, the copied text depends on the source text
only: re-breaking the same characters into different lines (e.g. CRLF handling, a different
`line_offsets` table) cannot change what `source_slice` copies. -/
theorem srcslice_relayout_indep (ls ls' : List Line) (tbl : Table) (sp : Span) (b₁ b₂ : Nat)
    (hflat : ls.flatten = ls'.flatten)
    (h₁ : lookup tbl sp.start = some b₁) (h₂ : lookup tbl sp.stop = some b₂) :
    sourceSliceText ls tbl sp = sourceSliceText ls' tbl sp := by
  simp only [sourceSliceText, sourceSlice, byteOf, h₁, h₂, hflat]

example :
    let a (c : Nat) : Ch := { cp := c, bytes := 1, width := 1 }
    sourceSliceText [[a 1, a 2], [a 3]] [(⟨0, 1⟩, 1), (⟨1, 1⟩, 3)] ⟨⟨0, 1⟩, ⟨1, 1⟩⟩
      = sourceSliceText [[a 1], [a 2, a 3]] [(⟨0, 1⟩, 1), (⟨1, 1⟩, 3)] ⟨⟨0, 1⟩, ⟨1, 1⟩⟩ := by decide

/-- With characters of positive byte length, a prefix of the source is determined by its byte
length. -/
theorem prefix_unique : ∀ (x x' y y' : List Ch), x ++ y = x' ++ y' →
    (∀ c ∈ x, 1 ≤ c.bytes) → (∀ c ∈ x', 1 ≤ c.bytes) → byteLen x = byteLen x' → x = x' ∧ y = y' := by
  intro x
  induction x with
  | nil =>
    intro x' y y' h _ hx' hb
    cases x' with
    | nil => exact ⟨rfl, by simpa using h⟩
    | cons c cs =>
      have := hx' c (by simp)
      simp [byteLen] at hb
      omega
  | cons c cs ih =>
    intro x' y y' h hx hx' hb
    cases x' with
    | nil =>
      have := hx c (by simp)
      simp [byteLen] at hb
      omega
    | cons c' cs' =>
      simp only [List.cons_append, List.cons.injEq] at h
      obtain ⟨hc, ht⟩ := h
      subst hc
      simp only [byteLen] at hb
      have := ih cs' y y' ht (fun d hd => hx d (by simp [hd])) (fun d hd => hx' d (by simp [hd])) (by omega)
      exact ⟨by rw [this.1], this.2⟩

/-- Adjacent spans concatenate: if `source_slice` copies `a` for `sp..mp` and `b` for `mp..ep`,
it copies `a ++ b` for `sp..ep` (a statement followed by its trailing comment, a skipped region
made of several tokens). No token text is lost or duplicated at the seam. -/
theorem srcslice_adjacent_concat (ls : List Line) (tbl : Table) (sp mp ep : Pos) (a b : List Ch)
    (hbytes : ∀ c ∈ ls.flatten, 1 ≤ c.bytes)
    (h₁ : sourceSliceText ls tbl ⟨sp, mp⟩ = some a) (h₂ : sourceSliceText ls tbl ⟨mp, ep⟩ = some b) :
    sourceSliceText ls tbl ⟨sp, ep⟩ = some (a ++ b) := by
  obtain ⟨hle₁, hla, pre, post, hsrc, hpre⟩ := C11Ext.sourceSliceText_sound ls tbl _ a h₁
  obtain ⟨hle₂, hlb, pre', post', hsrc', hpre'⟩ := C11Ext.sourceSliceText_sound ls tbl _ b h₂
  simp only at hle₁ hla hpre hle₂ hlb hpre'
  have hall : ∀ c ∈ pre ++ a ++ post, 1 ≤ c.bytes := by rw [← hsrc]; exact hbytes
  have hall' : ∀ c ∈ pre' ++ b ++ post', 1 ≤ c.bytes := by rw [← hsrc']; exact hbytes
  have hu := prefix_unique (pre ++ a) pre' post (b ++ post')
    (by rw [← hsrc, hsrc']; simp)
    (fun c hc => hall c (by simp at hc ⊢; rcases hc with h | h <;> simp [h]))
    (fun c hc => hall' c (by simp [hc]))
    (by rw [C11Ext.byteLen_app]; omega)
  have hpost : post = b ++ post' := hu.2
  have hm := C11.Lemmas.sliceText_mid pre (a ++ b) post'
    (fun c hc => hall c (by simp [hc]))
    (fun c hc => by
      simp at hc
      rcases hc with h | h
      · exact hall c (by simp [h])
      · exact hall' c (by simp [h]))
  rw [C11Ext.byteLen_app] at hm
  have e1 : pre ++ a ++ (b ++ post') = pre ++ (a ++ b ++ post') := by simp
  have hS : byteOf ls tbl sp = byteLen pre := hpre.symm
  have hE : byteOf ls tbl ep = byteLen pre + (byteLen a + byteLen b) := by omega
  simp only [sourceSliceText, sourceSlice]
  rw [hS, hE, hsrc, hpost, e1]
  exact hm

example :
    let a (c : Nat) : Ch := { cp := c, bytes := 1, width := 1 }
    let tbl : Table := [(⟨0, 0⟩, 0), (⟨0, 1⟩, 1), (⟨0, 3⟩, 3)]
    sourceSliceText [[a 1, a 2, a 3]] tbl ⟨⟨0, 0⟩, ⟨0, 1⟩⟩ = some [a 1]
      ∧ sourceSliceText [[a 1, a 2, a 3]] tbl ⟨⟨0, 1⟩, ⟨0, 3⟩⟩ = some [a 2, a 3] := by decide

end KotoVerif.C11Ext2
