/-
C05, second extension module: end-to-end laws of the instruction codec (Model/Encode, Model/Decode),
all tied to InstructionReader by the decoder correspondence of Drivers/C05.

* the code of an instruction is a prefix code: unique parse of one instruction and of whole streams
* a stream of valid instructions decodes instruction by instruction, at the right offsets
* jump-offset encoders are injective (two distinct distances never share an encoding)
-/
import KotoVerif.Lemmas.C05Codec

namespace KotoVerif.C05Ext2
open KotoVerif.Gen KotoVerif.Bytecode

/-- the byte stream of an instruction sequence (what the compiler appends to a chunk) -/
def encodeAll : List Instr → List Nat
  | [] => []
  | i :: is => encode i ++ encodeAll is

/-- decode exactly `n` instructions from the front of a byte stream -/
def decodeN : Nat → List Nat → Option (List Instr × List Nat)
  | 0, bs => some ([], bs)
  | n + 1, bs =>
    match decode bs with
    | .ok i _ rest => (decodeN n rest).map fun (is, r) => (i :: is, r)
    | _ => none

/-- prefix-code property: two valid instructions whose encodings are followed by anything and
give the same bytes are the same instruction, followed by the same bytes -/
theorem encode_prefix_free (i j : Instr) (r s : List Nat) (hi : i.valid = true) (hj : j.valid = true)
    (h : encode i ++ r = encode j ++ s) : i = j ∧ r = s := by
  have h1 := decode_encode i r hi
  have h2 := decode_encode j s hj
  rw [h] at h1
  rw [h1] at h2
  injection h2 with a b c
  exact ⟨a, c⟩

/-- the instruction encoder is injective on valid instructions -/
theorem encode_injective (i j : Instr) (hi : i.valid = true) (hj : j.valid = true)
    (h : encode i = encode j) : i = j :=
  (encode_prefix_free i j [] [] hi hj (by simp [h])).1

example : (Instr.mk .Jump [300]).valid = true ∧ (Instr.mk .Jump [301]).valid = true := by decide

/-- decoding a stream of valid instructions yields the head instruction, its exact size and the
stream of the remaining instructions -/
theorem decode_stream_head (i : Instr) (is : List Instr) (r : List Nat) (hi : i.valid = true) :
    decode (encodeAll (i :: is) ++ r) = .ok i (encode i).length (encodeAll is ++ r) := by
  simp only [encodeAll, List.append_assoc]
  exact decode_encode i _ hi

/-- whole-stream round trip: any sequence of valid instructions, followed by arbitrary bytes,
decodes back to exactly that sequence and leaves exactly those bytes -/
theorem decodeN_encodeAll (is : List Instr) (r : List Nat) (hv : ∀ i ∈ is, i.valid = true) :
    decodeN is.length (encodeAll is ++ r) = some (is, r) := by
  induction is with
  | nil => simp [decodeN, encodeAll]
  | cons i is ih =>
    have hi : i.valid = true := hv i (by simp)
    have ht : ∀ j ∈ is, j.valid = true := fun j hj => hv j (by simp [hj])
    simp only [List.length_cons, decodeN, decode_stream_head i is r hi, ih ht, Option.map_some]

example : decodeN 2 (encodeAll [⟨.Jump, [300]⟩, ⟨.JumpBack, [5]⟩] ++ [9]) =
    some ([⟨.Jump, [300]⟩, ⟨.JumpBack, [5]⟩], [9]) := by decide

/-- unique parse of streams: two sequences of valid instructions with the same bytes are equal
(compiling to the same bytes means compiling to the same instructions) -/
theorem encodeAll_injective (is js : List Instr) (hi : ∀ i ∈ is, i.valid = true)
    (hj : ∀ j ∈ js, j.valid = true) (h : encodeAll is = encodeAll js) : is = js := by
  induction is generalizing js with
  | nil =>
    cases js with
    | nil => rfl
    | cons j js =>
      have : encodeAll (j :: js) ≠ [] := by simp [encodeAll, encode]
      exact absurd h.symm this
  | cons i is ih =>
    cases js with
    | nil =>
      have : encodeAll (i :: is) ≠ [] := by simp [encodeAll, encode]
      exact absurd h this
    | cons j js =>
      simp only [encodeAll] at h
      obtain ⟨e1, e2⟩ := encode_prefix_free i j _ _ (hi i (by simp)) (hj j (by simp)) h
      subst e1
      rw [ih js (fun x hx => hi x (by simp [hx])) (fun x hx => hj x (by simp [hx])) e2]

/-- the length of a stream is the sum of the instruction sizes, so instruction `k` starts at the
offset the sizes of its predecessors add up to (instruction boundaries are determined) -/
theorem encodeAll_append (a b : List Instr) : encodeAll (a ++ b) = encodeAll a ++ encodeAll b := by
  induction a with
  | nil => rfl
  | cons i a ih => simp [encodeAll, ih]

/-- decoding after a prefix of valid instructions lands on the next instruction: every
instruction boundary of an emitted stream is a decodable position -/
theorem decode_at_boundary (a : List Instr) (i : Instr) (b : List Instr) (r : List Nat)
    (hi : i.valid = true) :
    decode ((encodeAll (a ++ i :: b) ++ r).drop (encodeAll a).length) =
      .ok i (encode i).length (encodeAll b ++ r) := by
  rw [encodeAll_append, List.append_assoc, List.drop_left]
  exact decode_stream_head i b r hi

/-- forward jump distances are encoded injectively -/
theorem updateOffset_injective (a b : Nat) (bs : List Nat)
    (ha : updateOffset a = some bs) (hb : updateOffset b = some bs) : a = b := by
  unfold updateOffset at ha hb
  split at ha
  · split at hb
    · have e : encodeU16 a = encodeU16 b := by
        rw [Option.some.inj ha, Option.some.inj hb]
      simp only [encodeU16, List.cons.injEq, and_true] at e
      omega
    · cases hb
  · cases ha

/-- backward jump distances are encoded injectively -/
theorem jumpBackOffset_injective (a b : Nat) (bs : List Nat)
    (ha : jumpBackOffset a = some bs) (hb : jumpBackOffset b = some bs) : a = b := by
  unfold jumpBackOffset at ha hb
  exact updateOffset_injective a b bs ha hb

example : updateOffset 513 = some [1, 2] ∧ jumpBackOffset 513 = some [1, 2] := by decide

/-- limit clause, end to end: a forward distance accepted by the offset check gives a valid `Jump`
whose encoding decodes back to that very distance; a rejected one is a compile error (`none`) -/
theorem jump_offset_end_to_end (off : Nat) (r : List Nat) :
    (∃ bs, updateOffset off = some bs ∧
        decode (encode ⟨.Jump, [off]⟩ ++ r) = .ok ⟨.Jump, [off]⟩ 3 r) ∨
      (updateOffset off = none ∧ 65535 < off) := by
  by_cases h : off ≤ 65535
  · left
    refine ⟨encodeU16 off, by simp [updateOffset, h], ?_⟩
    have hv : (Instr.mk .Jump [off]).valid = true := by
      simp [Instr.valid, Instr.fields, layout, tailLayout, fieldsOk, fieldOk]; omega
    have := decode_encode ⟨.Jump, [off]⟩ r hv
    rw [this]
    simp [encode, Instr.fields, layout, tailLayout, encodeFields, encodeField, encodeU16]
  · right
    exact ⟨by simp [updateOffset, h], by omega⟩


end KotoVerif.C05Ext2
