/-
C16 — type hints check exactly as documented; disabling them changes nothing else.

Property theorems about `Model/Types.lean` (= `compare_value_type`, `type_as_string`, …) and
`Model/HintEval.lean` (the evaluator with hints at every position and the switch `checks`).
Helper lemmas: `Lemmas/C16.lean` (erasure invariant), `Lemmas/C16Types.lean`.
-/
import KotoVerif.Lemmas.C16
import KotoVerif.Lemmas.C16Types
import KotoVerif.Lemmas.C16TryFree
import KotoVerif.Lemmas.C16Graph

namespace KotoVerif.C16
open KotoVerif.Types KotoVerif.HintEval KotoVerif.Gen.TypeNames

/-! ## The names are the documented ones (generated tables, re-checked against the source) -/

/-- The special hint names of `compare_value_type` are exactly the four of the language guide, each
selecting the documented predicate: `Any`, `Callable`, `Indexable`, `Iterable`. -/
theorem special_names_documented :
    specialTable =
      [([65, 110, 121], .always),                                   -- "Any"
       ([67, 97, 108, 108, 97, 98, 108, 101], .callable),           -- "Callable"
       ([73, 110, 100, 101, 120, 97, 98, 108, 101], .indexable),    -- "Indexable"
       ([73, 116, 101, 114, 97, 98, 108, 101], .iterable)] := by    -- "Iterable"
  decide

/-- Built-in type names of `type_as_string`, as documented (`koto.type`). -/
theorem builtin_names_documented :
    kindName .null = [78, 117, 108, 108] ∧ kindName .bool = [66, 111, 111, 108] ∧
    kindName .number = [78, 117, 109, 98, 101, 114] ∧ kindName .list = [76, 105, 115, 116] ∧
    kindName .range = [82, 97, 110, 103, 101] ∧ kindName .map = [77, 97, 112] ∧
    kindName .str = [83, 116, 114, 105, 110, 103] ∧ kindName .tuple = [84, 117, 112, 108, 101] ∧
    kindName .generator = [71, 101, 110, 101, 114, 97, 116, 111, 114] ∧
    kindName .function = [70, 117, 110, 99, 116, 105, 111, 110] ∧ kindName .native = kindName .function ∧
    kindName .iterator = [73, 116, 101, 114, 97, 116, 111, 114] ∧ objectName = [79, 98, 106, 101, 99, 116] := by
  decide

/-! ## `check` is exactly the documented comparison -/

/-- **check_spec.** `compare_value_type` accepts `v` for hint `h` (with `?` = `n`) exactly when
`?` is present and `v` is null, or `h` is `Any`, or `h` is `Callable`/`Indexable`/`Iterable` and `v`
has that capability, or `h` is an ordinary name and some value on `v`'s `@base` chain (at any depth
`k ≥ 0`, `v` itself included) has type name `h`. -/
theorem check_spec (h : TyName) (n : Bool) (v : V) :
    check h n v = true ↔
      (n = true ∧ v = V.null) ∨ h = name_always ∨ (h = name_callable ∧ callableHint v = true) ∨
      (h = name_indexable ∧ indexable v = true) ∨ (h = name_iterable ∧ iterableHint v = true) ∨
      (¬ isSpecial h ∧ ∃ k w, V.baseIter k v = some w ∧ typeName w = h) := by
  have chain : (typeName v == h || baseChain h v) = true ↔ ∃ k w, V.baseIter k v = some w ∧ typeName w = h := by
    simp only [Bool.or_eq_true, beq_iff_eq, baseChain_iff]
    constructor
    · rintro (h0 | ⟨k, w, hk, hw⟩)
      · exact ⟨0, v, rfl, h0⟩
      · exact ⟨k + 1, w, hk, hw⟩
    · rintro ⟨k, w, hk, hw⟩
      cases k with
      | zero => left; simp [V.baseIter] at hk; rw [hk]; exact hw
      | succ k => exact Or.inr ⟨k, w, hk, hw⟩
  unfold check
  by_cases hn : (n && v.isNull) = true
  · simp only [hn, if_true, true_iff]
    simp only [Bool.and_eq_true, isNull_iff] at hn
    exact Or.inl hn
  · simp only [hn]
    have hn' : ¬ (n = true ∧ v = V.null) := by
      simpa only [Bool.and_eq_true, isNull_iff] using hn
    have d12 : name_always ≠ name_callable := by decide
    have d13 : name_always ≠ name_indexable := by decide
    have d14 : name_always ≠ name_iterable := by decide
    have d23 : name_callable ≠ name_indexable := by decide
    have d24 : name_callable ≠ name_iterable := by decide
    have d34 : name_indexable ≠ name_iterable := by decide
    rcases special_cases h with ⟨hl, he⟩ | ⟨hl, he⟩ | ⟨hl, he⟩ | ⟨hl, he⟩ | ⟨hl, hs⟩
    · rw [hl]; simp [holds, he]
    · rw [hl]; subst he
      simp [holds, hn', isSpecial, d12.symm, d23, d24]
    · rw [hl]; subst he
      simp [holds, hn', isSpecial, d13.symm, d23.symm, d34]
    · rw [hl]; subst he
      simp [holds, hn', isSpecial, d14.symm, d24.symm, d34.symm]
    · rw [hl]
      have n1 : h ≠ name_always := fun e => hs (Or.inl e)
      have n2 : h ≠ name_callable := fun e => hs (Or.inr (Or.inl e))
      have n3 : h ≠ name_indexable := fun e => hs (Or.inr (Or.inr (Or.inl e)))
      have n4 : h ≠ name_iterable := fun e => hs (Or.inr (Or.inr (Or.inr e)))
      show (typeName v == h || baseChain h v) = true ↔ _
      rw [chain]
      simp [hn', n1, n2, n3, n4, hs]


/-- hypotheses of `check_spec` are satisfiable at depth 3 of a `@base` chain (and the check sees it) -/
example :
    check [70, 111, 111] false
      (.obj (.str [66]) {} [] (some (.obj .absent {} [] (some (.obj (.str [67]) {} [] (some (.obj (.str [70, 111, 111]) {} [] none))))))) = true := by
  decide

/-- `?` admits null for every name, and only adds null -/
theorem optional_admits_null (h : TyName) : check h true .null = true := by
  simp [check, V.isNull]

theorem optional_only_adds_null (h : TyName) (v : V) (hv : v ≠ .null) : check h true v = check h false v := by
  have : v.isNull = false := by
    cases v <;> simp_all [V.isNull]
  simp [check, this]

/-- the `@base` chain is followed to any depth: a value whose `k`-th base has type name `h` passes -/
theorem base_chain_any_depth (h : TyName) (v w : V) (k : Nat) (hs : ¬ isSpecial h)
    (hk : V.baseIter k v = some w) (hw : typeName w = h) : check h false v = true :=
  (check_spec h false v).mpr (Or.inr (Or.inr (Or.inr (Or.inr (Or.inr ⟨hs, k, w, hk, hw⟩)))))

/-- What a loop over a map hands to its arguments — one argument or several, named or wildcard — is
a `Tuple` per entry: the internal temporary tuple of the runtime is not a value of the language and
no hint can observe it. -/
theorem map_iteration_yields_tuples (es : List (Nat × V)) :
    ∀ e ∈ HintEval.entryPairs es, typeName e = kindName .tuple ∧ indexable e = indexableKind .tuple ∧
      iterable e = iterableKind .tuple := by
  intro e he
  simp only [HintEval.entryPairs, List.mem_map] at he
  obtain ⟨p, _, rfl⟩ := he
  exact ⟨rfl, rfl, rfl⟩

/-- no built-in value of the model has the internal type name, for any state of the generated tables
in which that name is not shared with another kind -/
theorem temporary_tuple_not_a_value (v : V) (k : Kind) (hk : plainKind v = some k) : k ≠ .temporaryTuple := by
  cases v <;> simp [plainKind] at hk <;> subst hk <;> decide

/-! ## Possibly cyclic `@base` chains (graph model; /repo fix 76738c2 for F-C16-1, F-C16-2) -/

/-- **base_walk_total.** On *every* graph of maps — cyclic or not — the loop of `compare_value_type`
(with its visited list) answers within `g.length + 1` steps, from every node and for every hint. -/
theorem base_walk_total (g : Graph) (h : TyName) (n : Nat) :
    ∃ r, walkG g h (g.length + 1) [] n = some r :=
  walkG_total g h (g.length + 1) [] n (by rw [unvisited_nil]; exact Nat.lt_succ_self _)

/-- the same for `KMap::meta_type`, hence for `type_as_string` -/
theorem meta_type_walk_total (g : Graph) (n : Nat) :
    ∃ r, metaTypeG g (g.length + 1) [] n = some r :=
  metaTypeG_total g (g.length + 1) [] n rfl (by rw [unvisited_nil]; exact Nat.lt_succ_self _)

/-- a positive answer of the walk is backed by a map that is really on the chain -/
theorem base_walk_sound (g : Graph) (h : TyName) (n : Nat) (hw : walkG g h (g.length + 1) [] n = some true) :
    ∃ k b, reachesG g (k + 1) n b ∧ typeNameG g b = h :=
  walkG_sound g h _ _ n hw

/-- the former witnesses of F-C16-1 / F-C16-2 and a two-cycle: the walks now answer -/
example :
    -- a map whose `@base` is itself, no `@type`: type name `Object`, hint `Foo` does not match
    typeNameG [⟨.absent, some 0⟩] 0 = objectName ∧ checkG [⟨.absent, some 0⟩] [70, 111, 111] false 0 = false ∧
    -- the same with `@type: 'Bar'`
    typeNameG [⟨.str [66, 97, 114], some 0⟩] 0 = [66, 97, 114] ∧
    checkG [⟨.str [66, 97, 114], some 0⟩] [70, 111, 111] false 0 = false ∧
    -- two maps that are each other's base, the second one is a `Foo`
    checkG [⟨.str [66, 97, 114], some 1⟩, ⟨.str [70, 111, 111], some 0⟩] [70, 111, 111] false 0 = true ∧
    checkG [⟨.str [66, 97, 114], some 1⟩, ⟨.str [70, 111, 111], some 0⟩] [66, 97, 122] false 0 = false := by
  decide

/-! ## Assertions: the single helper, and every position that uses it -/

theorem assertHint_some (c : Bool) (h : Hint) (v : V) (s : St) :
    assertHint c (some h) v s =
      if c && !(check h.name h.opt v) then (.err (.type h (typeName v)), { s with fails := s.fails + 1 })
      else (.ok .null, s) := rfl

theorem andThen_ok (v : V) (s : St) (k : V → St → Res × St) : andThen (.ok v, s) k = k v s := rfl

theorem andThen_err (e : Err) (s : St) (k : V → St → Res × St) : andThen (.err e, s) k = (.err e, s) := rfl

theorem assertHint_off (h : Option Hint) (v : V) (s : St) : assertHint false h v s = (.ok .null, s) := by
  cases h <;> simp [assertHint]

theorem assertHint_raises_iff (h : Hint) (v : V) (s : St) :
    (assertHint true (some h) v s).1 = .err (.type h (typeName v)) ↔ check h.name h.opt v = false := by
  rw [assertHint_some]
  cases hc : check h.name h.opt v <;> simp

theorem assertHint_eq (c : Bool) (h : Hint) (v : V) (s : St) (k : V → St → Res × St) :
    andThen (assertHint c (some h) v s) k =
      if c && !(check h.name h.opt v) then (.err (.type h (typeName v)), { s with fails := s.fails + 1 })
      else k .null s := by
  rw [assertHint_some]
  cases c <;> cases hc : check h.name h.opt v <;> simp [andThen]

theorem assert_let (c : Bool) (F : Funs) (n : Nat) (x : Option Var) (h : Hint) (e : Expr) (s s1 : St) (v : V)
    (he : eval c F n e s = (.ok v, s1)) :
    eval c F (n + 1) (.letH x (some h) e) s =
      if c && !(check h.name h.opt v) then
        (.err (.type h (typeName v)), { (s1.setOpt x v) with fails := (s1.setOpt x v).fails + 1 })
      else (.ok v, s1.setOpt x v) := by
  simp only [eval, he, andThen_ok, assertHint_eq]

theorem assert_for (c : Bool) (F : Funs) (n : Nat) (x : Option Var) (h : Hint) (v : V) (rest : List V)
    (body : Expr) (last : V) (s : St) :
    forItems c F (n + 1) [(x, some h)] (v :: rest) body last s =
      if c && !(check h.name h.opt v) then
        (.err (.type h (typeName v)), { (s.setOpt x v) with fails := (s.setOpt x v).fails + 1 })
      else
        andThen (eval c F n body (s.setOpt x v)) fun w s2 => forItems c F n [(x, some h)] rest body w s2 := by
  simp only [forItems, bindLoop, bindOne, assertHint_eq]

theorem assert_return (c : Bool) (F : Funs) (n : Nat) (h : Hint) (e : Expr) (s s1 : St) (v : V)
    (he : eval c F n e s = (.ok v, s1)) (ho : s1.out = some h) :
    eval c F (n + 1) (.ret e) s =
      if c && !(check h.name h.opt v) then (.err (.type h (typeName v)), { s1 with fails := s1.fails + 1 })
      else (.ret v, s1) := by
  simp only [eval, he, andThen_ok, ho, assertHint_eq]

/-- position: function argument — named (`x = some _`) or wildcard (`x = none`: `_: T`, `_x: T`) —
and what follows (the body, then the implicit return value against `-> R`) -/
theorem assert_arg_and_result (c : Bool) (F : Funs) (n i : Nat) (f a : Expr) (x : Option Var) (ha : Hint) (out : Option Hint)
    (body : Expr) (s s1 s2 : St) (v : V)
    (hF : F[i]? = some ⟨[.b x (some ha)], out, .plain body⟩)
    (hf : eval c F n f s = (.ok (.fn i), s1))
    (hargs : evalArgs c F n [a] s1 = (.ok (.tuple [v]), s2)) :
    eval c F (n + 1) (.call f [a]) s =
      if c && !(check ha.name ha.opt v) then
        (.err (.type ha (typeName v)), { s2 with fails := s2.fails + 1 })
      else
        restore s2 <|
          bindR (eval c F n body (St.setOpt { s2 with env := [], out := out } x v)) (finishCall c out) := by
  simp only [eval, hf, andThen_ok, hargs, hF, bindArgs, bindArg, bindOne, List.length, List.headD, assertHint_eq]
  cases c <;> cases hc : check ha.name ha.opt v <;> cases x <;>
    simp [restore, andThen_ok, andThen_err, St.setOpt, St.set]

/-- position: an argument inside a nested `(p, q)` argument is asserted like a top-level one -/
theorem assert_nested_arg (c : Bool) (k : Nat) (x : Option Var) (h : Hint) (v : V) (s : St) :
    bindArg c (k + 3) (.tup [.b x (some h)]) (.tuple [v]) s =
      if c && !(check h.name h.opt v) then
        (.err (.type h (typeName v)), { (s.setOpt x v) with fails := (s.setOpt x v).fails + 1 })
      else (.ok .null, s.setOpt x v) := by
  simp only [bindArg, elems, List.length, if_true, bindArgs, List.headD, bindOne, assertHint_eq]

/-- position `yield e` in a generator with output hint `T` (statement `pc` of generator `i`) -/
theorem assert_yield (c : Bool) (F : Funs) (n i pc : Nat) (params : List P) (h : Hint)
    (ss : List GStmt) (e : Expr) (s s1 : St) (v : V)
    (hF : F[i]? = some ⟨params, some h, .gen ss⟩) (hpc : ss[pc]? = some (.yld e))
    (he : eval c F n e s = (.ok v, s1)) :
    genNext c F (n + 1) i true pc s =
      if c && !(check h.name h.opt v) then (.err (.type h (typeName v)), { s1 with fails := s1.fails + 1 })
      else (.ok (.tuple [v, .gen i s1.env true (pc + 1)]), s1) := by
  simp only [genNext, hF, hpc, if_true, andThen_ok, he, assertHint_eq]

/-- position: a target of a multi-assignment (`let a: T, … = …`, either right-hand-side form) and of
a `for` with several arguments: bound, then asserted, then the remaining targets get the remaining
values -/
theorem assert_multi_target (c : Bool) (x : Option Var) (h : Hint) (bs : List Binder) (v : V) (vs : List V) (s : St) :
    bindMany c ((x, some h) :: bs) (v :: vs) s =
      if c && !(check h.name h.opt v) then
        (.err (.type h (typeName v)), { (s.setOpt x v) with fails := (s.setOpt x v).fails + 1 })
      else bindMany c bs vs (s.setOpt x v) := by
  simp only [bindMany, List.headD, bindOne, assertHint_eq, List.tail]

/-- **A wildcard target still consumes its value**, hinted or not, in both modes: the targets after
`_` / `_: T` / `_x: T` receive the values after the one the wildcard stands for. (With checks
disabled `_: T` is just `_`.) -/
theorem wildcard_still_consumes (h : Option Hint) (bs : List Binder) (v : V) (vs : List V) (s : St) :
    bindMany false ((none, h) :: bs) (v :: vs) s = bindMany false bs vs s ∧
    (∀ c, bindMany c ((none, none) :: bs) (v :: vs) s = bindMany c bs vs s) := by
  constructor
  · simp only [bindMany, List.headD, bindOne, assertHint_off, andThen_ok, St.setOpt, List.tail]
  · intro c
    simp only [bindMany, List.headD, bindOne, assertHint, andThen_ok, St.setOpt, List.tail]

/-- `let … = iterable` (list, tuple, range, string, iterator): the targets take the elements in
order, the expression's value is the iterable -/
theorem multi_let_unpacks_in_order (c : Bool) (F : Funs) (n : Nat) (bs : List Binder) (e : Expr) (s s1 : St)
    (v : V) (xs : List V) (he : eval c F n e s = (.ok v, s1)) (hv : items v = some xs)
    (hg : ∀ i g st pc, v ≠ .gen i g st pc) :
    eval c F (n + 1) (.letUnpack bs e) s = andThen (bindMany c bs xs s1) fun _ s2 => (.ok v, s2) := by
  simp only [eval, he, andThen_ok]
  cases v <;> simp_all

theorem assert_positions (h : Hint) (v : V) (s : St) :
    ((assertHint true (some h) v s).1 = .err (.type h (typeName v)) ↔ check h.name h.opt v = false) ∧
    ((assertHint true (some h) v s).1 = .ok .null ↔ check h.name h.opt v = true) ∧
    assertHint false (some h) v s = (.ok .null, s) := by
  refine ⟨assertHint_raises_iff h v s, ?_, ?_⟩
  · rw [assertHint_some]
    cases hc : check h.name h.opt v <;> simp
  · rw [assertHint_some]; simp


/-! ## `match` arms and typed `catch`: a mismatch selects the next alternative -/

/-- **match_hint_falls_through.** A typed pattern — named `x: T` or wildcard `_: T` (`x = none`) —
whose check fails answers "no" instead of raising, and leaves the variable untouched. -/
theorem match_hint_falls_through (k : Nat) (v : V) (x : Option Var) (h : Hint) (s : St)
    (hc : check h.name h.opt v = false) :
    patM (k + 1) (.b x (some h)) v s = (.no, s) := by
  simp [patM, hc]

theorem match_hint_selects (k : Nat) (v : V) (x : Option Var) (h : Hint) (s : St)
    (hc : check h.name h.opt v = true) :
    patM (k + 1) (.b x (some h)) v s = (.yes, s.setOpt x v) := by
  simp [patM, hc]

/-- a mismatch anywhere inside an alternative (several subjects, nested patterns) fails that
alternative only: **the next `or` alternative is tried** … -/
theorem or_alternative_falls_to_next (k : Nat) (alt : List P) (alts : List (List P)) (vs : List V) (s s1 : St)
    (h : patsM k alt vs s = (.no, s1)) :
    altsM k (alt :: alts) vs s = altsM k alts vs s1 := by
  simp [altsM, h]

/-- … and an alternative that matches selects the arm, whatever its position. -/
theorem or_alternative_selects (k : Nat) (alt : List P) (alts : List (List P)) (vs : List V) (s s1 : St)
    (h : patsM k alt vs s = (.yes, s1)) :
    altsM k (alt :: alts) vs s = (.yes, s1) := by
  simp [altsM, h]

/-- patterns of one alternative are tried left to right; the first "no" ends the alternative -/
theorem patterns_left_to_right (k : Nat) (p : P) (ps : List P) (v : V) (vs : List V) (s s1 : St) :
    (patM k p v s = (.yes, s1) → patsM (k + 1) (p :: ps) (v :: vs) s = patsM k ps vs s1) ∧
    (patM k p v s = (.no, s1) → patsM (k + 1) (p :: ps) (v :: vs) s = (.no, s1)) := by
  constructor <;> intro h <;> simp [patsM, h]

/-- the arm whose patterns all fail passes on to the next arm; no arm at all: null -/
theorem arm_falls_to_next_arm (c : Bool) (F : Funs) (n : Nat) (vs : List V) (alts : List (List P))
    (g : Option Expr) (body : Expr) (rest : List Arm) (s s1 : St) (h : armM n alts vs s = (.no, s1)) :
    matchArms c F (n + 1) vs (.mk alts g body :: rest) s = matchArms c F n vs rest s1 := by
  simp [matchArms, bindR, h]

theorem match_without_selection (c : Bool) (F : Funs) (n : Nat) (vs : List V) (s : St) :
    matchArms c F (n + 1) vs [] s = (.ok .null, s) := by
  simp [matchArms]

/-- a selected arm without guard runs its body; with a guard, a false guard passes on to the next
*arm* (not to the next alternative) -/
theorem arm_selected (c : Bool) (F : Funs) (n : Nat) (vs : List V) (alts : List (List P))
    (body : Expr) (rest : List Arm) (s s1 : St) (h : armM n alts vs s = (.yes, s1)) :
    matchArms c F (n + 1) vs (.mk alts none body :: rest) s = eval c F n body s1 := by
  simp [matchArms, bindR, h]

theorem arm_guard (c : Bool) (F : Funs) (n : Nat) (vs : List V) (alts : List (List P))
    (g body : Expr) (rest : List Arm) (s s1 s2 : St) (gv : V) (h : armM n alts vs s = (.yes, s1))
    (hg : eval c F n g s1 = (.ok gv, s2)) :
    matchArms c F (n + 1) vs (.mk alts (some g) body :: rest) s =
      if truthy gv then eval c F n body s2 else matchArms c F n vs rest s2 := by
  simp [matchArms, bindR, h, hg, andThen_ok]

/-- **catch_hint_falls_through.** A typed `catch x: T` whose check fails passes the error on to the
next catch block (and does not bind `x`). -/
theorem catch_hint_falls_through (cv : V) (y : Option Var) (h : Hint) (body : Expr) (rest : List CatchArm)
    (x : Option Var) (final : Expr) (s : St) (hc : check h.name h.opt cv = false) :
    selectCatch cv (.mk y h body :: rest) x final s = selectCatch cv rest x final s := by
  simp [selectCatch, hc]

theorem catch_hint_selects (cv : V) (y : Option Var) (h : Hint) (body : Expr) (rest : List CatchArm)
    (x : Option Var) (final : Expr) (s : St) (hc : check h.name h.opt cv = true) :
    selectCatch cv (.mk y h body :: rest) x final s = (body, s.setOpt y cv) := by
  simp [selectCatch, hc]

/-- the final untyped `catch` takes whatever the typed ones did not -/
theorem catch_final (cv : V) (x : Option Var) (final : Expr) (s : St) :
    selectCatch cv [] x final s = (final, s.setOpt x cv) := rfl

/-! ## Disabling type checks -/

/-- **patterns_keep_selecting.** In *both* modes (`c` arbitrary) a `match` arm is taken or passed by
according to `armM` (patterns: `patM`/`patsM`/`altsM`) and `try` runs the catch block chosen by
`selectCatch`; none of these has a `checks` parameter, so type patterns keep selecting when type
checks are disabled. -/
theorem patterns_keep_selecting (c : Bool) (F : Funs) (n : Nat) (s s1 : St) :
    (∀ vs alts g body rest, armM n alts vs s = (.no, s1) →
      matchArms c F (n + 1) vs (.mk alts g body :: rest) s = matchArms c F n vs rest s1) ∧
    (∀ vs alts body rest, armM n alts vs s = (.yes, s1) →
      matchArms c F (n + 1) vs (.mk alts none body :: rest) s = eval c F n body s1) ∧
    (∀ body typed x final e, eval c F n body s = (.err e, s1) →
      eval c F (n + 1) (.tryC body typed x final) s =
        eval c F n (selectCatch (catchVal e) typed x final s1).1 (selectCatch (catchVal e) typed x final s1).2) ∧
    (∀ body typed x final r, eval c F n body s = (r, s1) → (∀ e, r ≠ .err e) →
      eval c F (n + 1) (.tryC body typed x final) s = (r, s1)) := by
  refine ⟨?_, ?_, ?_, ?_⟩
  · intro vs alts g body rest h
    exact arm_falls_to_next_arm c F n vs alts g body rest s s1 h
  · intro vs alts body rest h
    exact arm_selected c F n vs alts body rest s s1 h
  · intro body typed x final e hb
    simp [eval, hb, bindR]
  · intro body typed x final r hb hr
    cases r with
    | err e => exact absurd rfl (hr e)
    | _ => simp [eval, hb, bindR]

/-- **erasure.** For every function table, fuel, expression and start state: if the run with type
checks enabled ends in `(r, s')` and no assertion failed on the way (`fails` did not move), then the
run with type checks disabled ends in exactly the same `(r, s')` — same result (value, `return`,
thrown error, …), same variables, same output trace. -/
theorem erasure (F : Funs) (fuel : Nat) (e : Expr) (s s' : St) (r : Res)
    (h : eval true F fuel e s = (r, s')) (hf : s'.fails = s.fails) :
    eval false F fuel e s = (r, s') := by
  have g := (goodAt F fuel).eval e s
  simp only [h] at g
  exact g.2 hf

/-- the counter of failed assertions never decreases -/
theorem fails_monotone (F : Funs) (fuel : Nat) (e : Expr) (s : St) :
    s.fails ≤ (eval true F fuel e s).2.fails :=
  ((goodAt F fuel).eval e s).1

/-- **erasure**, for whole programs: every program all of whose checks pass (no assertion failed,
`fails = 0` at the end) behaves identically when compiled with type checks disabled. -/
theorem erasure_run (p : Prog) (fuel : Nat) (r : Res) (s' : St)
    (h : run true p fuel = (r, s')) (hf : s'.fails = 0) : run false p fuel = (r, s') := by
  unfold run at *
  simp only [bindR] at h ⊢
  have g := (goodAt p.funs fuel).eval p.main {}
  simp only at g
  have hs : (eval true p.funs fuel p.main {}).2 = s' := by
    generalize eval true p.funs fuel p.main {} = x at h
    obtain ⟨r0, s0⟩ := x
    cases r0 <;> simp_all
  have e0 : (eval true p.funs fuel p.main {}).2.fails = ({} : St).fails := by rw [hs, hf]
  rw [g.2 e0]
  exact h

/-- The side condition of `erasure` cannot be dropped when the program can catch: a failed
assertion that is caught inside the program makes the two modes differ. -/
theorem erasure_needs_no_caught_failure :
    ∃ p : Prog, (run true p 10).1 = .ok (.int 2) ∧ (run false p 10).1 = .ok (.int 1) ∧ (run true p 10).2.fails = 1 :=
  ⟨{ funs := [],
     main := .tryC (.letH (some 0) (some ⟨kindName .str, false⟩) (.lit (.int 1))) [] none (.lit (.int 2)) },
   rfl, rfl, rfl⟩

/-- In code without `try` (neither in the expression nor in any function of the table) a failed
assertion cannot be swallowed: either none failed or the result is the failure itself. -/
theorem failure_surfaces (F : Funs) (hF : noTryF F = true) (fuel : Nat) (e : Expr) (he : noTryE e = true) (s : St) :
    (eval true F fuel e s).2.fails = s.fails ∨ isFailRes (eval true F fuel e s).1 :=
  (surfAt F hF fuel).eval e he s

/-- **erasure, unconditional form** for `try`-free code: *every* successful run with type checks
enabled (value `v`, final state `s'`) is reproduced exactly with type checks disabled. -/
theorem erasure_ok (F : Funs) (hF : noTryF F = true) (fuel : Nat) (e : Expr) (he : noTryE e = true)
    (s s' : St) (v : V) (h : eval true F fuel e s = (.ok v, s')) :
    eval false F fuel e s = (.ok v, s') := by
  have hs := failure_surfaces F hF fuel e he s
  rw [h] at hs
  rcases hs with hs | hs
  · exact erasure F fuel e s s' (.ok v) h hs
  · exact (not_fail_ok v hs).elim

/-- the same for any outcome that is not itself a failed assertion (`return`, a thrown value, …) -/
theorem erasure_tryfree (F : Funs) (hF : noTryF F = true) (fuel : Nat) (e : Expr) (he : noTryE e = true)
    (s s' : St) (r : Res) (h : eval true F fuel e s = (r, s')) (hr : ¬ isFailRes r) :
    eval false F fuel e s = (r, s') := by
  have hs := failure_surfaces F hF fuel e he s
  rw [h] at hs
  rcases hs with hs | hs
  · exact erasure F fuel e s s' r h hs
  · exact (hr hs).elim

/-- whole `try`-free programs: `run true p fuel = ok v` implies `run false p fuel = ok v`, same state -/
theorem erasure_run_ok (p : Prog) (hF : noTryF p.funs = true) (he : noTryE p.main = true) (fuel : Nat)
    (v : V) (s' : St) (h : run true p fuel = (.ok v, s')) : run false p fuel = (.ok v, s') := by
  unfold run at *
  simp only [bindR] at h ⊢
  cases hr : eval true p.funs fuel p.main {} with
  | mk r s1 =>
    rw [hr] at h
    have hnf : ¬ isFailRes r := by
      rintro ⟨hh, t, e⟩; subst e; simp at h
    rw [erasure_tryfree p.funs hF fuel p.main he {} s1 r hr hnf]
    exact h

/-! ## Non-vacuity: a program with hints at several positions whose checks all pass -/

/-- `f0 = |v0: Number, (_: Any, v1: String)| -> String (koto.type v0)`;
`let v0: Number, _: String, v3: Number = [3, 'x', 4]`; a typed `for`; a `match` on `f0(v0, (1, 'a'))`
whose first arm falls through and whose second arm is selected by its *second* `or` alternative, a
hinted wildcard, and passes its guard. -/
def demo : Prog :=
  { funs := [⟨[.b (some 0) (some ⟨kindName .number, false⟩),
               .tup [.b none (some ⟨name_always, false⟩), .b (some 1) (some ⟨kindName .str, false⟩)]],
              some ⟨kindName .str, false⟩, .plain (.typeOf (.var 0))⟩],
    main :=
      .seq (.letUnpack [(some 0, some ⟨kindName .number, false⟩), (none, some ⟨kindName .str, false⟩),
                        (some 3, some ⟨kindName .number, false⟩)]
              (.lit (.list [.int 3, .str [120], .int 4])))
        (.seq (.forIn [(some 2, some ⟨name_always, true⟩)] (.lit (.list [.int 1, .null])) (.emit (.var 2)))
          (.matchE [.call (.lit (.fn 0)) [.var 0, .lit (.tuple [.int 1, .str [97]])]]
            [.mk [[.b (some 1) (some ⟨kindName .number, false⟩)]] none (.lit (.int 0)),
             .mk [[.b none (some ⟨kindName .bool, false⟩)], [.b none (some ⟨kindName .str, false⟩)]]
                 (some (.lt (.var 0) (.var 3))) (.typeOf (.var 0))])) }

example : (run true demo 20).1 = .ok (.str (kindName .number)) ∧ (run true demo 20).2.fails = 0 ∧
    (run true demo 20).2.trace = [.null, .int 1] := ⟨rfl, rfl, rfl⟩

example : noTryF demo.funs = true ∧ noTryE demo.main = true := ⟨rfl, rfl⟩

/-- the hypotheses of `erasure_run` hold for `demo`, and so does its conclusion -/
example : run false demo 20 = run true demo 20 :=
  erasure_run demo 20 _ _ rfl rfl

/-- a program whose assertion fails with checks enabled and that runs through with checks disabled -/
example :
    let p : Prog := { funs := [], main := .letH (some 0) (some ⟨kindName .str, false⟩) (.lit (.int 1)) }
    (run true p 5).1 = .err (.type ⟨kindName .str, false⟩ (kindName .number)) ∧ (run false p 5).1 = .ok (.int 1) :=
  ⟨rfl, rfl⟩

/-- erasure for generator resumption and loops (the other entry points of the evaluator) -/
theorem erasure_forItems (F : Funs) (fuel : Nat) (bs : List Binder) (xs : List V) (body : Expr) (last : V)
    (s s' : St) (r : Res) (h : forItems true F fuel bs xs body last s = (r, s')) (hf : s'.fails = s.fails) :
    forItems false F fuel bs xs body last s = (r, s') := by
  have g := (goodAt F fuel).forItems bs xs body last s
  simp only [h] at g
  exact g.2 hf

theorem erasure_genNext (F : Funs) (fuel i pc : Nat) (st : Bool) (s s' : St) (r : Res)
    (h : genNext true F fuel i st pc s = (r, s')) (hf : s'.fails = s.fails) :
    genNext false F fuel i st pc s = (r, s') := by
  have g := (goodAt F fuel).genNext i st pc s
  simp only [h] at g
  exact g.2 hf

end KotoVerif.C16
