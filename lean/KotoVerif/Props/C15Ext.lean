/-
C15 extension: further theorems about the executable string model (`Model/Str.lean`) on definitions the
driver runs (`stripSuffixOp`, `containsB`, `startsWithB`, `endsWithB`, `replaceB`, `repeatB`,
`rangeIndices`, `signedIndex`, `joinWith`) that had no theorem so far.
-/
import KotoVerif.Model.Str
import KotoVerif.Lemmas.C15Utf8
import KotoVerif.Lemmas.C15Slice
import KotoVerif.Lemmas.C15Ops
import KotoVerif.Lemmas.C15Closed
import KotoVerif.Lemmas.C15Refine

namespace KotoVerif.C15Ext
open KotoVerif.Utf8 KotoVerif.Str

/-! ## strip_suffix -/

/-- **strip_suffix_refines**: on a well-formed string and a well-formed pattern `strip_suffix` is exact:
the bytes before the suffix, or `null` — never an error, never a cut through a character -/
theorem strip_suffix_refines {s : KStr} (hw : s.WF) {pat : Bytes} (hp : validUtf8 pat = true) :
    stripSuffixOp s pat =
      if pat.isSuffixOf s.bytes then .str (s.bytes.take (s.len - pat.length)) else .null := by
  simp only [stripSuffixOp]
  split
  · rename_i hsuf
    rw [List.isSuffixOf_iff_suffix] at hsuf
    obtain ⟨t, ht⟩ := hsuf
    have hlen := KStr.bytes_length hw
    have hl : t.length + pat.length = s.len := by
      rw [← hlen, ← ht]; simp
    have hk : s.len - pat.length = t.length := by omega
    rw [hk]
    apply Res.unwrap_of_map
    have hv := hw.bytes_valid
    have hbd : isBoundary s.bytes t.length = true := by
      rw [← ht] at hv ⊢
      exact boundary_after_valid_prefix hv (valid_of_append_right hv hp)
    rw [KStr.withBounds_ok hw (Nat.zero_le _) (by omega) (isBoundary_zero _) hbd]
    simp
  · rfl

example : (match stripSuffixOp (KStr.ofSlice [120, 0xC3, 0xA9, 121] 0 4) [121] with | .str b => some b | _ => none)
    = some [120, 0xC3, 0xA9] := by decide

/-! ## contains / starts_with / ends_with -/

/-- completeness of `find`: if the pattern occurs anywhere, `find` returns an offset -/
theorem findAt_complete (pat : Bytes) : ∀ (pre post : Bytes), (findAt pat (pre ++ pat ++ post)).isSome = true
  | [], post => by
    have : pat.isPrefixOf (pat ++ post) = true := by
      rw [List.isPrefixOf_iff_prefix]; exact List.prefix_append _ _
    simp [findAt_zero_of_prefix this]
  | b :: pre, post => by
    have ih := findAt_complete pat pre post
    simp only [List.cons_append, findAt]
    split
    · rfl
    · simpa using ih

/-- **contains_iff**: `contains` is true exactly when the pattern occurs as a contiguous byte run -/
theorem contains_iff (pat bs : Bytes) :
    containsB pat bs = true ↔ ∃ pre post, bs = pre ++ pat ++ post := by
  constructor
  · intro h
    simp only [containsB] at h
    cases hf : findAt pat bs with
    | none => simp [hf] at h
    | some e => exact ⟨bs.take e, bs.drop (e + pat.length), findAt_some hf⟩
  · rintro ⟨pre, post, rfl⟩
    exact findAt_complete pat pre post

/-- **starts_with_iff** -/
theorem starts_with_iff (pat bs : Bytes) : startsWithB pat bs = true ↔ ∃ post, bs = pat ++ post := by
  simp only [startsWithB, List.isPrefixOf_iff_prefix]
  constructor
  · rintro ⟨t, ht⟩; exact ⟨t, ht.symm⟩
  · rintro ⟨t, rfl⟩; exact List.prefix_append _ _

/-- **ends_with_iff** -/
theorem ends_with_iff (pat bs : Bytes) : endsWithB pat bs = true ↔ ∃ pre, bs = pre ++ pat := by
  simp only [endsWithB, List.isSuffixOf_iff_suffix]
  constructor
  · rintro ⟨t, ht⟩; exact ⟨t, ht.symm⟩
  · rintro ⟨t, rfl⟩; exact List.suffix_append _ _

/-- **starts_with_contains**: a prefix is contained -/
theorem starts_with_contains {pat bs : Bytes} (h : startsWithB pat bs = true) : containsB pat bs = true := by
  obtain ⟨post, rfl⟩ := (starts_with_iff pat bs).mp h
  exact (contains_iff _ _).mpr ⟨[], post, by simp⟩

/-- **ends_with_contains**: a suffix is contained -/
theorem ends_with_contains {pat bs : Bytes} (h : endsWithB pat bs = true) : containsB pat bs = true := by
  obtain ⟨pre, rfl⟩ := (ends_with_iff pat bs).mp h
  exact (contains_iff _ _).mpr ⟨pre, [], by simp⟩

example : startsWithB [0xC3, 0xA9] [0xC3, 0xA9, 120] = true ∧ endsWithB [120] [0xC3, 0xA9, 120] = true := by decide

/-- **contains_trans**: containment is transitive -/
theorem contains_trans {a b c : Bytes} (hab : containsB a b = true) (hbc : containsB b c = true) :
    containsB a c = true := by
  obtain ⟨p1, q1, rfl⟩ := (contains_iff _ _).mp hab
  obtain ⟨p2, q2, rfl⟩ := (contains_iff _ _).mp hbc
  exact (contains_iff _ _).mpr ⟨p2 ++ p1, q1 ++ q2, by simp⟩

example : containsB [2] [1, 2, 3] = true ∧ containsB [1, 2, 3] [0, 1, 2, 3, 4] = true := by decide

/-! ## replace -/

/-- replacing a pattern by itself changes nothing (any fuel) -/
theorem replaceNE_self (pat : Bytes) : ∀ (fuel : Nat) (rest : Bytes), replaceNE pat pat fuel rest = rest
  | 0, rest => by simp [replaceNE]
  | fuel + 1, rest => by
    simp only [replaceNE]
    cases hf : findAt pat rest with
    | none => rfl
    | some e =>
      simp only [replaceNE_self pat fuel]
      exact (findAt_some hf).symm

/-- **replace_self**: `s.replace(p, p) = s` for every non-empty pattern -/
theorem replace_self {pat : Bytes} (hp : pat ≠ []) (bs : Bytes) : replaceB pat pat bs = bs := by
  simp only [replaceB]
  rw [if_neg (by simpa using hp)]
  exact replaceNE_self pat _ bs

/-- **replace_absent**: if the (non-empty) pattern does not occur, `replace` is the identity -/
theorem replace_absent {pat : Bytes} (hp : pat ≠ []) (to bs : Bytes) (h : containsB pat bs = false) :
    replaceB pat to bs = bs := by
  simp only [replaceB]
  rw [if_neg (by simpa using hp)]
  simp only [containsB] at h
  cases hf : findAt pat bs with
  | none => simp [replaceNE, hf]
  | some e => simp [hf] at h

example : containsB [9] [1, 2, 3] = false ∧ replaceB [9] [7, 7] [1, 2, 3] = [1, 2, 3] := by decide

/-! ## repeat -/

/-- **repeat_length**: the byte length of `s.repeat(n)` is `n * len` -/
theorem repeat_length (n : Nat) (bs : Bytes) : (repeatB n bs).length = n * bs.length := by
  induction n with
  | zero => simp [repeatB, flat]
  | succ k ih =>
    simp only [repeatB, flat] at ih ⊢
    rw [List.replicate_succ, List.flatten_cons, List.length_append, ih]
    rw [Nat.succ_mul]; omega

/-- **repeat_add**: repeating `m + n` times is the concatenation of `m` and `n` repetitions -/
theorem repeat_add (m n : Nat) (bs : Bytes) : repeatB (m + n) bs = repeatB m bs ++ repeatB n bs := by
  simp only [repeatB, flat]
  rw [← List.replicate_append_replicate, List.flatten_append]

/-- **repeat_contains**: every positive repetition contains the string -/
theorem repeat_contains (n : Nat) (bs : Bytes) : containsB bs (repeatB (n + 1) bs) = true := by
  refine (contains_iff _ _).mpr ⟨[], repeatB n bs, ?_⟩
  simp [repeatB, flat, List.replicate_succ]

/-! ## range / signed index arithmetic -/

/-- **range_indices_exact**: an in-bounds exclusive range is taken literally -/
theorem range_indices_exact {a b len : Nat} (hab : a ≤ b) (hb : b ≤ len) :
    rangeIndices (some (a : Int)) (some ((b : Int), false)) len = (a, b) := by
  simp only [rangeIndices, clampI, Option.getD_some]
  ext <;> simp <;> (repeat' split) <;> omega

/-- **range_indices_inclusive**: `a..=b` is `a..b+1` for every argument -/
theorem range_indices_inclusive (st : Option Int) (b : Int) (len : Nat) :
    rangeIndices st (some (b, true)) len = rangeIndices st (some (b + 1, false)) len := by
  simp [rangeIndices]

/-- **range_indices_open**: the fully open range is the whole string (every real length is at most
`isize::MAX`; beyond `i64::MAX` the end would saturate) -/
theorem range_indices_open (len : Nat) (hl : len ≤ isizeMax) : rangeIndices none none len = (0, len) := by
  simp only [isizeMax] at hl
  simp only [rangeIndices, clampI, Option.getD_none, i64min, i64max]
  ext <;> simp <;> (repeat' split) <;> omega

example : (5 : Nat) ≤ isizeMax := by decide
example : rangeIndices (some ((1 : Nat) : Int)) (some (((3 : Nat) : Int), false)) 5 = (1, 3) := by decide

/-- **signed_index_neg**: a negative index counts from the end (saturating at 0) -/
theorem signed_index_neg (k size : Nat) (hk : 0 < k) : signedIndex (-(k : Int)) size = size - k := by
  simp only [signedIndex]
  rw [if_pos (by omega)]
  have : (-(k : Int)).natAbs = k := by omega
  rw [this]; omega

/-- **signed_index_le**: a signed index within `[-∞, size]` maps into `[0, size]` -/
theorem signed_index_le (i : Int) (size : Nat) (h : i ≤ size) : signedIndex i size ≤ size := by
  simp only [signedIndex]
  split <;> omega

example : signedIndex (-2) 5 = 3 ∧ signedIndex (-9) 5 = 0 ∧ signedIndex 5 5 = 5 := by decide

/-! ## run_slice (SliceFrom / SliceTo) -/

/-- **slice_from_exact**: `SliceFrom k` at a character boundary inside a well-formed string is exactly the
bytes from `k` on -/
theorem slice_from_exact {s : KStr} (hw : s.WF) {k : Nat} (hk : k ≤ s.len)
    (hb : isBoundary s.bytes k = true) : sliceFrom s (k : Int) = .str (s.bytes.drop k) := by
  have hlen := KStr.bytes_length hw
  have hsi : signedIndex (k : Int) s.len = k := by
    simp only [signedIndex]; split <;> omega
  simp only [sliceFrom, hsi]
  apply Res.ofOpt_of_map
  rw [KStr.withBounds_ok hw hk (Nat.le_refl _) hb (hlen ▸ isBoundary_length _)]
  congr 1
  rw [List.take_of_length_le (by simp only [List.length_drop]; omega)]

/-- **slice_to_exact**: `SliceTo -k` at a character boundary is exactly the bytes before the last `k` -/
theorem slice_to_exact {s : KStr} (hw : s.WF) {k : Nat} (hk0 : 0 < k) (hk : k ≤ s.len)
    (hb : isBoundary s.bytes (s.len - k) = true) :
    sliceTo s (-(k : Int)) = .str (s.bytes.take (s.len - k)) := by
  simp only [sliceTo, signed_index_neg k s.len hk0]
  apply Res.ofOpt_of_map
  rw [KStr.withBounds_ok hw (Nat.zero_le _) (by omega) (isBoundary_zero _) hb]
  simp

example : isBoundary (KStr.ofSlice [120, 0xC3, 0xA9, 121] 0 4).bytes 1 = true ∧
    isBoundary (KStr.ofSlice [120, 0xC3, 0xA9, 121] 0 4).bytes (4 - 1) = true := by decide

/-! ## join -/

/-- **join_length**: the length of `sep.join(xs)` -/
theorem join_length (sep : Bytes) : ∀ (xs : List Bytes),
    (joinWith sep xs).length = (xs.map List.length).sum + (xs.length - 1) * sep.length
  | [] => by simp [joinWith]
  | [x] => by simp [joinWith]
  | x :: y :: r => by
    have ih := join_length sep (y :: r)
    simp only [joinWith, List.length_append, ih, List.map_cons, List.sum_cons, List.length_cons]
    have : r.length + 1 + 1 - 1 = (r.length + 1 - 1) + 1 := by omega
    rw [this, Nat.succ_mul]; omega

/-- **join_empty_sep**: joining with the empty separator is concatenation -/
theorem join_empty_sep : ∀ (xs : List Bytes), joinWith [] xs = xs.flatten
  | [] => by simp [joinWith]
  | [x] => by simp [joinWith]
  | x :: y :: r => by
    have ih := join_empty_sep (y :: r)
    simp only [joinWith, ih]; simp

end KotoVerif.C15Ext
