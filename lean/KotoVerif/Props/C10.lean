/-
C10 — layout never changes a program's meaning: the part that is *proved*.

`Model/Cursor.lean` is the only interface through which `parser.rs` observes tokens. The theorems
below hold for ALL token lists (not only lexer outputs), all expression contexts and all cursor
positions:

* `TriviaEdit` — inserting a trailing-whitespace / end-of-line-comment run before a `NewLine`
  token, or a whole trivia line (`Whitespace? Comment? NewLine`, several of them) after a `NewLine`
  token, with the lexer's bookkeeping adjusted (later tokens keep kind and indent, their lines are
  relabelled by an order-preserving relation `ρ`; bytes and columns are free). Deletion is the
  converse edit (`Sim.symm`), sequences of edits compose (`Sim.trans`).
* `trivia_edit_sim` — an edit yields trivia-similar token lists (`Sim ρ`).
* `cursor_invariant_ctx` — at corresponding cursors *on significant tokens* every trivia-skipping
  primitive returns the same result for every `Indentation` variant and every flag combination
  (same token kind/indent, same accept/reject, same new context), and leaves corresponding cursors.
* `cursor_invariant_pre_partial` — after `consume_until_*` the cursor sits on the last skipped
  *trivia* token; peeks and consumes are still invariant there (given that the next token does not
  end on a later line than the cursor, true for lexer output), but `current_indent()` itself is
  NOT: `current_indent_pre_not_invariant`. This was defect F-C10-1 of the implementation: the
  parser's only reads of `current_indent()` on such a position (`consume_switch_expression`,
  `consume_match_expression`) were repaired in /repo 5f1b75a (they now peek the arm's own token).
  The theorem stays true of the primitive; that the parser no longer *uses* it there is re-checked
  on every run by the structural scan of parser.rs in the harness (`indent_read_scan`: no
  `current_indent()` between a `consume_until_*` call and the next consuming call; the functions
  that read it before consuming anything are a reviewed, pinned set).
* `line_edit_at_file_start_not_invariant` — why `TriviaEdit.line` demands a preceding `NewLine`
  token: inserting a trivia line before the first token of the file changes `same_line`
  (defect F-C10-2 of the implementation).
* `cursor_invariant_raw`, `peek_skips_only_trivia`, `indent_rule_table`, `queue_peek_spec`,
  `queue_transparent`.

Inspection (trusted, not proved; checked against parser.rs at 5f1b75a; the `self.lexer` /
`current_token` / `current_indent()` parts are re-scanned by the harness on every run): line numbers obtained from
`current_line()` / `LexedToken::line()` / `span.start.line` are used only in `<`/`>`/`==`
comparisons with each other (parser.rs lines 534, 641, 702, 1529, 2003, 2031, 4036, 4072) or to
build spans (418, 2473), so relating them by an order-preserving `ρ` is all a client can observe;
every `self.lexer` use is inside the modelled primitives.
-/
import KotoVerif.Lemmas.C10

namespace KotoVerif.C10
open KotoVerif.Lexer KotoVerif.Cursor

/-! ### the edit relation -/

/-- One trivia edit at the token level. `ρ` relates the line numbers before and after. -/
inductive TriviaEdit (ρ : Nat → Nat → Prop) : List Lexed → List Lexed → Prop
  /-- trailing whitespace and/or an end-of-line comment: `is_whitespace()` tokens `ins` inserted
  directly before the `NewLine` token `n` -/
  | eol (pre ins post post' : List Lexed) (n n' : Lexed) :
      n.tok = .newLine → AllWs ins → Fixed ρ pre → Moved ρ (n :: post) (n' :: post') →
      TriviaEdit ρ (pre ++ n :: post) (pre ++ (ins ++ n' :: post'))
  /-- whole trivia lines (blank, whitespace-only, comment-only, multi-line comments) `ins` inserted
  directly after the `NewLine` token `n` -/
  | line (pre ins post post' : List Lexed) (n : Lexed) :
      n.tok = .newLine → AllTrivia ins → Fixed ρ pre → Moved ρ post post' →
      TriviaEdit ρ (pre ++ n :: post) (pre ++ n :: (ins ++ post'))

theorem trivia_edit_sim {ρ ts ts'} (e : TriviaEdit ρ ts ts') : Sim ρ ts ts' := by
  cases e with
  | eol pre ins post post' n n' hn hi hf hm =>
    cases hm with
    | cons he _ m =>
      have hn' : n'.tok = .newLine := by rw [he]; exact hn
      have := Sim.regap (ρ := ρ) [] ins hn hn' AllTrivia.nil hi.trivia m.sim
      exact Sim.prefix hf (by simpa using this)
  | line pre ins post post' n hn hi hf hm =>
    exact Sim.prefix hf (Sim.after_nl ins hn hi hm.sim)


/-! ### what "equal results" means -/

/-- results of `peek_token_with_context` correspond: both reject, or both accept tokens that agree
in everything the parser can observe (the peek counts differ by the inserted trivia) -/
inductive PeekRel (ρ : Nat → Nat → Prop) : Option PeekInfo → Option PeekInfo → Prop
  | none : PeekRel ρ none none
  | some {i i' : PeekInfo} : i'.tok = i.tok → TokRel ρ i.info i'.info → PeekRel ρ (some i) (some i')

/-- cursors directly in front of corresponding significant tokens (or both at the end) -/
def PreRel (ρ : Nat → Nat → Prop) (l l' : List Lexed) : Prop :=
  (l = [] ∧ l' = []) ∨
  ∃ t t' r r', l = t :: r ∧ l' = t' :: r' ∧ isTrivia t.tok = false ∧ TokRel ρ t t' ∧ Sim ρ r r'

/-- Everything `cursor_invariant_ctx` asserts about one pair of corresponding cursors. -/
structure CtxInvariant (ρ : Nat → Nat → Prop) (ctx : Ctx) (c c' : Cur) : Prop where
  indent : currentIndent c' = currentIndent c
  line : ρ (currentLine c) (currentLine c')
  peek : PeekRel ρ (peekTokenWithContext ctx c) (peekTokenWithContext ctx c')
  /-- same token kind, same new context (`Equal(indent)` + `allow_map_block`, or unchanged) -/
  consume : (consumeTokenWithContext ctx c').1 = (consumeTokenWithContext ctx c).1
  consume_cur : (consumeTokenWithContext ctx c).1.isSome = true →
    CurRel ρ (consumeTokenWithContext ctx c).2.cur (consumeTokenWithContext ctx c').2.cur
  consume_rest : Sim ρ (consumeTokenWithContext ctx c).2.rest (consumeTokenWithContext ctx c').2.rest
  untilCtx : (consumeUntilTokenWithContext ctx c').1 = (consumeUntilTokenWithContext ctx c).1
  untilCtx_rest : PreRel ρ (consumeUntilTokenWithContext ctx c).2.rest (consumeUntilTokenWithContext ctx c').2.rest
  sameLine : peekNextTokenOnSameLine c' = peekNextTokenOnSameLine c
  sameLineSpan : (peekNextTokenOnSameLineWithSpan c').map (·.1) = (peekNextTokenOnSameLineWithSpan c).map (·.1)
  consumeSameLine : (consumeNextTokenOnSameLine c').1 = (consumeNextTokenOnSameLine c).1
  /-- unless the token consumed is the `NewLine` itself (the parser does that on error paths only) -/
  consumeSameLine_post : (consumeNextTokenOnSameLine c).1.isSome = true →
    (consumeNextTokenOnSameLine c).1 ≠ some .newLine →
    CurRel ρ (consumeNextTokenOnSameLine c).2.cur (consumeNextTokenOnSameLine c').2.cur ∧
    Sim ρ (consumeNextTokenOnSameLine c).2.rest (consumeNextTokenOnSameLine c').2.rest
  untilSameLine : peekToken (consumeUntilNextTokenOnSameLine c') = peekToken (consumeUntilNextTokenOnSameLine c)
  untilSameLine_rest : peekToken (consumeUntilNextTokenOnSameLine c) ≠ some .newLine →
    PreRel ρ (consumeUntilNextTokenOnSameLine c).rest (consumeUntilNextTokenOnSameLine c').rest

theorem peekDecide_rel {ρ} (ctx : Ctx) {si si' : Nat} {t t' : Lexed} (n n' : Nat) (sl : Bool)
    (hsi : si' = si) (tr : TokRel ρ t t') :
    PeekRel ρ (peekDecide ctx si t n sl) (peekDecide ctx si' t' n' sl) := by
  subst hsi
  unfold peekDecide
  rw [tr.indent]
  split
  · exact PeekRel.some tr.tok tr
  · split
    · split
      · exact PeekRel.some tr.tok tr
      · exact PeekRel.none
    · exact PeekRel.none

/-- **Main theorem.** For all token lists related by trivia edits (`Sim ρ`, see `trivia_edit_sim`),
all contexts, and all corresponding cursors on significant tokens (`CurRel`: same indent, end lines
related), every trivia-skipping primitive of the cursor layer gives corresponding results. -/
theorem cursor_invariant_ctx {ρ : Nat → Nat → Prop} (hρ : LineRel ρ) (ctx : Ctx) (c c' : Cur)
    (hc : CurRel ρ c.cur c'.cur) (hs : Sim ρ c.rest c'.rest) : CtxInvariant ρ ctx c c' := by
  obtain ⟨cur, rest⟩ := c
  obtain ⟨cur', rest'⟩ := c'
  simp only at hc hs
  have hi : cur'.indent = cur.indent := hc.indent
  cases hs with
  | done hl hl' r =>
    have same : ∀ k, (sameLineLoop rest' k).map (·.1.tok) = (sameLineLoop rest k).map (·.1.tok) := by
      intro k
      cases hn : hasNL rest with
      | false =>
        rw [sameLineLoop_allWs rest (allWs_of_noNL hl hn), sameLineLoop_allWs rest' (r.allWs hl' hn)]
      | true =>
        obtain ⟨x, j, e, hx⟩ := sameLineLoop_nl hl hn [] k
        obtain ⟨x', j', e', hx'⟩ := sameLineLoop_nl hl' (by rw [r.nl]; exact hn) [] k
        simp only [List.append_nil] at e e'
        simp [e, e', hx, hx']
    refine ⟨hi, hc.stopLine, ?_, ?_, ?_, ?_, ?_, ?_, ?_, ?_, ?_, ?_, ?_, ?_⟩
    · simp [peekTokenWithContext, peekLoop_trivia _ _ _ hl, peekLoop_trivia _ _ _ hl', PeekRel.none]
    · simp [consumeTokenWithContext, consumeCtxLoop_trivia _ _ _ _ hl, consumeCtxLoop_trivia _ _ _ _ hl']
    · simp [consumeTokenWithContext, consumeCtxLoop_trivia _ _ _ _ hl]
    · simp [consumeTokenWithContext, consumeCtxLoop_trivia _ _ _ _ hl, consumeCtxLoop_trivia _ _ _ _ hl', Sim.nil]
    · simp [consumeUntilTokenWithContext, consumeUntilCtxLoop_trivia _ _ _ _ hl, consumeUntilCtxLoop_trivia _ _ _ _ hl']
    · simp [consumeUntilTokenWithContext, consumeUntilCtxLoop_trivia _ _ _ _ hl, consumeUntilCtxLoop_trivia _ _ _ _ hl', PreRel]
    · simpa [peekNextTokenOnSameLine] using same 0
    · simpa [peekNextTokenOnSameLineWithSpan, Option.map_map, Function.comp_def] using same 0
    · cases hn : hasNL rest with
      | false =>
        simp [consumeNextTokenOnSameLine, consumeSameLineLoop_allWs rest (allWs_of_noNL hl hn),
          consumeSameLineLoop_allWs rest' (r.allWs hl' hn)]
      | true =>
        have h1 := consumeSameLine_nl hl hn [] cur
        have h2 := consumeSameLine_nl hl' (by rw [r.nl]; exact hn) [] cur'
        simp only [List.append_nil] at h1 h2
        simp [consumeNextTokenOnSameLine, h1, h2]
    · intro hsome hne
      cases hn : hasNL rest with
      | false =>
        simp [consumeNextTokenOnSameLine, consumeSameLineLoop_allWs rest (allWs_of_noNL hl hn)] at hsome
      | true =>
        have h1 := consumeSameLine_nl hl hn [] cur
        simp only [List.append_nil] at h1
        exact absurd h1 hne
    · cases hn : hasNL rest with
      | false =>
        simp [consumeUntilNextTokenOnSameLine, peekToken, peekTokenN,
          consumeUntilSameLineLoop_allWs rest (allWs_of_noNL hl hn) cur,
          consumeUntilSameLineLoop_allWs rest' (r.allWs hl' hn) cur']
      | true =>
        have h1 := consumeUntilSameLine_nl hl hn [] cur
        have h2 := consumeUntilSameLine_nl hl' (by rw [r.nl]; exact hn) [] cur'
        simp only [List.append_nil] at h1 h2
        simp only [consumeUntilNextTokenOnSameLine, peekToken, peekTokenN]
        rw [h1, h2]
    · intro hne
      cases hn : hasNL rest with
      | false =>
        left
        exact ⟨consumeUntilSameLineLoop_allWs rest (allWs_of_noNL hl hn) cur,
          consumeUntilSameLineLoop_allWs rest' (r.allWs hl' hn) cur'⟩
      | true =>
        have h1 := consumeUntilSameLine_nl hl hn [] cur
        simp only [List.append_nil] at h1
        simp only [consumeUntilNextTokenOnSameLine, peekToken, peekTokenN] at hne
        exact absurd h1 hne
  | @tok _ _ g g' t t' r r' e e' hg hg' gr ht tr s =>
    subst e; subst e'
    have ht' := tr.sig ht
    have hnl : hasNL g' = hasNL g := gr.nl
    have lt1 : (t'.span.stop.line > cur'.span.stop.line) ↔ (t.span.stop.line > cur.span.stop.line) :=
      (hρ _ _ _ _ hc.stopLine tr.stopLine).symm
    have lt2 : (t'.span.start.line > cur'.span.stop.line) ↔ (t.span.start.line > cur.span.stop.line) :=
      (hρ _ _ _ _ hc.stopLine tr.startLine).symm
    refine ⟨hi, hc.stopLine, ?_, ?_, ?_, ?_, ?_, ?_, ?_, ?_, ?_, ?_, ?_, ?_⟩
    · simp only [peekTokenWithContext, peekLoop_gap _ _ _ _ _ hg ht, peekLoop_gap _ _ _ _ _ hg' ht', hnl]
      exact peekDecide_rel ctx _ _ _ hi tr
    · simp [consumeTokenWithContext, currentLine, currentIndent, consumeCtxLoop_gap _ _ _ _ _ _ hg ht,
        consumeCtxLoop_gap _ _ _ _ _ _ hg' ht', tr.tok, tr.indent, hi, lt1]
    · intro _
      simpa [consumeTokenWithContext, consumeCtxLoop_gap _ _ _ _ _ _ hg ht, consumeCtxLoop_gap _ _ _ _ _ _ hg' ht'] using tr.cur
    · simpa [consumeTokenWithContext, consumeCtxLoop_gap _ _ _ _ _ _ hg ht, consumeCtxLoop_gap _ _ _ _ _ _ hg' ht'] using s
    · simp [consumeUntilTokenWithContext, currentLine, currentIndent, consumeUntilCtxLoop_gap _ _ _ _ _ _ hg ht,
        consumeUntilCtxLoop_gap _ _ _ _ _ _ hg' ht', tr.indent, hi, lt2]
    · right
      refine ⟨t, t', r, r', ?_, ?_, ht, tr, s⟩
      · simp [consumeUntilTokenWithContext, consumeUntilCtxLoop_gap _ _ _ _ _ _ hg ht]
      · simp [consumeUntilTokenWithContext, consumeUntilCtxLoop_gap _ _ _ _ _ _ hg' ht']
    · cases hn : hasNL g with
      | false =>
        simp [peekNextTokenOnSameLine, sameLine_peek_ws hg hn t r ht,
          sameLine_peek_ws hg' (by rw [hnl]; exact hn) t' r' ht', tr.tok]
      | true =>
        simp only [peekNextTokenOnSameLine]
        rw [sameLine_peek_nl hg hn, sameLine_peek_nl hg' (by rw [hnl]; exact hn)]
    · cases hn : hasNL g with
      | false =>
        simp [peekNextTokenOnSameLineWithSpan, sameLine_peek_ws hg hn t r ht,
          sameLine_peek_ws hg' (by rw [hnl]; exact hn) t' r' ht', tr.tok]
      | true =>
        have h1 := sameLine_peek_nl hg hn (t :: r)
        have h2 := sameLine_peek_nl hg' (by rw [hnl]; exact hn) (t' :: r')
        simp only [peekNextTokenOnSameLineWithSpan, Option.map_map, Function.comp_def]
        simpa using h2.trans h1.symm
    · cases hn : hasNL g with
      | false =>
        simp [consumeNextTokenOnSameLine, consumeSameLineLoop_ws g t r (allWs_of_noNL hg hn) (not_ws_of_sig ht),
          consumeSameLineLoop_ws g' t' r' (gr.allWs hg' hn) (not_ws_of_sig ht'), tr.tok]
      | true =>
        simp only [consumeNextTokenOnSameLine]
        rw [consumeSameLine_nl hg hn, consumeSameLine_nl hg' (by rw [hnl]; exact hn)]
    · intro _ hne
      cases hn : hasNL g with
      | false =>
        simp only [consumeNextTokenOnSameLine, consumeSameLineLoop_ws g t r (allWs_of_noNL hg hn) (not_ws_of_sig ht),
          consumeSameLineLoop_ws g' t' r' (gr.allWs hg' hn) (not_ws_of_sig ht')]
        exact ⟨tr.cur, s⟩
      | true =>
        simp only [consumeNextTokenOnSameLine] at hne
        exact absurd (consumeSameLine_nl hg hn (t :: r) cur) hne
    · cases hn : hasNL g with
      | false =>
        simp [consumeUntilNextTokenOnSameLine, peekToken, peekTokenN,
          consumeUntilSameLineLoop_ws g t r (allWs_of_noNL hg hn) (not_ws_of_sig ht),
          consumeUntilSameLineLoop_ws g' t' r' (gr.allWs hg' hn) (not_ws_of_sig ht'), tr.tok]
      | true =>
        simp only [consumeUntilNextTokenOnSameLine, peekToken, peekTokenN]
        rw [consumeUntilSameLine_nl hg hn, consumeUntilSameLine_nl hg' (by rw [hnl]; exact hn)]
    · intro hne
      cases hn : hasNL g with
      | false =>
        right
        refine ⟨t, t', r, r', ?_, ?_, ht, tr, s⟩
        · simp [consumeUntilNextTokenOnSameLine, consumeUntilSameLineLoop_ws g t r (allWs_of_noNL hg hn) (not_ws_of_sig ht)]
        · simp [consumeUntilNextTokenOnSameLine, consumeUntilSameLineLoop_ws g' t' r' (gr.allWs hg' hn) (not_ws_of_sig ht')]
      | true =>
        simp only [consumeUntilNextTokenOnSameLine, peekToken, peekTokenN] at hne
        exact absurd (consumeUntilSameLine_nl hg hn (t :: r) cur) hne


/-! ### cursors on the last skipped trivia token (after `consume_until_*`) -/

/-- **Partial** (excluded: `current_indent()` itself, see `current_indent_pre_not_invariant`).
After `consume_until_token_with_context` / `consume_until_next_token_on_same_line` the current
token is whatever trivia token was skipped last — unrelated on the two sides. Directly in front of
corresponding significant tokens the peeks are invariant unconditionally, the consumed token and the
cursors afterwards correspond, and the returned context is the same provided the token does not end
on a later line than the cursor (lexer output: the cursor ends where the single-line token starts;
`span_chain` of C09). -/
theorem cursor_invariant_pre_partial {ρ : Nat → Nat → Prop} (ctx : Ctx) (cur cur' t t' : Lexed) (r r' : List Lexed)
    (ht : isTrivia t.tok = false) (tr : TokRel ρ t t') (s : Sim ρ r r') :
    PeekRel ρ (peekTokenWithContext ctx ⟨cur, t :: r⟩) (peekTokenWithContext ctx ⟨cur', t' :: r'⟩) ∧
    peekNextTokenOnSameLine ⟨cur', t' :: r'⟩ = peekNextTokenOnSameLine ⟨cur, t :: r⟩ ∧
    ((consumeTokenWithContext ctx ⟨cur', t' :: r'⟩).1.map (·.1) = (consumeTokenWithContext ctx ⟨cur, t :: r⟩).1.map (·.1)) ∧
    CurRel ρ (consumeTokenWithContext ctx ⟨cur, t :: r⟩).2.cur (consumeTokenWithContext ctx ⟨cur', t' :: r'⟩).2.cur ∧
    Sim ρ (consumeTokenWithContext ctx ⟨cur, t :: r⟩).2.rest (consumeTokenWithContext ctx ⟨cur', t' :: r'⟩).2.rest ∧
    (t.span.stop.line ≤ cur.span.stop.line → t'.span.stop.line ≤ cur'.span.stop.line →
      (consumeTokenWithContext ctx ⟨cur', t' :: r'⟩).1 = (consumeTokenWithContext ctx ⟨cur, t :: r⟩).1) := by
  have ht' := tr.sig ht
  have p := peekLoop_gap ctx cur.indent [] t r AllTrivia.nil ht 0 true
  have p' := peekLoop_gap ctx cur'.indent [] t' r' AllTrivia.nil ht' 0 true
  have c := consumeCtxLoop_gap ctx cur.span.stop.line cur.indent [] t r AllTrivia.nil ht cur
  have c' := consumeCtxLoop_gap ctx cur'.span.stop.line cur'.indent [] t' r' AllTrivia.nil ht' cur'
  simp only [List.nil_append] at p p' c c'
  refine ⟨?_, ?_, ?_, ?_, ?_, ?_⟩
  · simp only [peekTokenWithContext, p, p']
    simp only [peekDecide, hasNL, Bool.not_false, Bool.and_self, if_true]
    exact PeekRel.some tr.tok tr
  · simp [peekNextTokenOnSameLine, sameLineLoop, not_ws_of_sig ht, tr.tok]
  · simp [consumeTokenWithContext, currentLine, currentIndent, c, c', tr.tok]
  · simpa [consumeTokenWithContext, currentLine, currentIndent, c, c'] using tr.cur
  · simpa [consumeTokenWithContext, currentLine, currentIndent, c, c'] using s
  · intro h h'
    have d : ¬ (t.span.stop.line > cur.span.stop.line) := by omega
    have d' : ¬ (t'.span.stop.line > cur'.span.stop.line) := by omega
    simp [consumeTokenWithContext, currentLine, currentIndent, c, c', tr.tok, newContext, d, d']

/-! ### witnesses -/

/-- a token for the witnesses: kind, start line, end line, indent -/
def wtok (k : Token) (l l2 ind : Nat) : Lexed :=
  { tok := k, startByte := 0, endByte := 0, span := ⟨⟨l, 0⟩, ⟨l2, 0⟩⟩, indent := ind }

/-- lines from `L` on move down by `k` -/
def shift (L k : Nat) : Nat → Nat → Prop := fun a a' => a' = if a ≥ L then a + k else a

theorem shift_lineRel (L k : Nat) : LineRel (shift L k) := by
  intro a a' b b' ha hb
  unfold shift at ha hb
  subst ha; subst hb
  split <;> split <;> omega

/-- `s⏎x`  -/
def witA : List Lexed :=
  [wtok .id 0 0 0, wtok .newLine 0 1 0, wtok .id 1 1 0]
/-- `s⏎␠#⏎x` — the same program with an indented comment-only line inserted -/
def witB : List Lexed :=
  [wtok .id 0 0 0, wtok .newLine 0 1 0, wtok .whitespace 1 1 1, wtok .commentSingle 1 1 1, wtok .newLine 1 2 1,
   wtok .id 2 2 0]

theorem witAB_edit : TriviaEdit (shift 1 1) witA witB := by
  refine TriviaEdit.line [wtok .id 0 0 0] [wtok .whitespace 1 1 1, wtok .commentSingle 1 1 1, wtok .newLine 1 2 1]
    [wtok .id 1 1 0] [wtok .id 2 2 0] (wtok .newLine 0 1 0) rfl ?_ ?_ ?_
  · intro t ht
    simp at ht
    rcases ht with rfl | rfl | rfl <;> decide
  · intro t ht _
    simp at ht
    subst ht
    exact ⟨by simp [shift, wtok], by simp [shift, wtok]⟩
  · exact Moved.cons rfl (fun _ => ⟨rfl, rfl, by simp [shift, wtok], by simp [shift, wtok]⟩) Moved.nil

/-- **Negation (defect F-C10-1, fixed in /repo 5f1b75a).** `current_indent()` read directly after
`consume_until_token_with_context` is not invariant under inserting a comment-only line: the
current token is then the `NewLine` that ends the inserted line and carries *its* indent.
This remains a fact about the primitive. `consume_switch_expression` / `consume_match_expression`
were the parser's only callers that read it exactly there; since 5f1b75a they read the indentation
of the first arm through `peek_token_with_context` instead, which on that position is invariant
without any side condition (`cursor_invariant_pre_partial`, first conjunct). The harness re-scans
parser.rs on every run and reports any `current_indent()` that directly follows `consume_until_*`
(`K:C10:current_indent-after-consume_until`). The one remaining read on a skipped-trivia position,
`parse_term`'s `start_indent`, is only compared as `peeked.info.indent > start_indent` for a `@`
key, where the peeked token is on the cursor's line: its indent is 0 (cursor on a `NewLine`) or the
cursor's own (cursor on whitespace / a comment), so the comparison is false on both sides of any
trivia edit. -/
theorem current_indent_pre_not_invariant :
    ∃ (ρ : Nat → Nat → Prop) (ts ts' : List Lexed) (ctx : Ctx), LineRel ρ ∧ TriviaEdit ρ ts ts' ∧
      currentIndent (consumeUntilTokenWithContext ctx (consumeToken (Cur.init ts)).2).2 ≠
      currentIndent (consumeUntilTokenWithContext ctx (consumeToken (Cur.init ts')).2).2 :=
  ⟨shift 1 1, witA, witB, Ctx.permissive, shift_lineRel 1 1, witAB_edit, by decide⟩

/-- … while everything `cursor_invariant_ctx` promises does hold for the same witness
(non-vacuity of its hypotheses on a non-trivial edit). -/
example : CtxInvariant (shift 1 1) Ctx.permissive (consumeToken (Cur.init witA)).2 (consumeToken (Cur.init witB)).2 :=
  cursor_invariant_ctx (shift_lineRel 1 1) _ _ _
    ⟨rfl, by simp [shift, consumeToken, Cur.init, witA, witB, wtok]⟩
    (by
      have m : Moved (shift 1 1) [wtok .id 1 1 0] [wtok .id 2 2 0] :=
        Moved.cons rfl (fun _ => ⟨rfl, rfl, by simp [shift, wtok], by simp [shift, wtok]⟩) Moved.nil
      have ht : AllTrivia [wtok .whitespace 1 1 1, wtok .commentSingle 1 1 1, wtok .newLine 1 2 1] := by
        intro t ht
        simp at ht
        rcases ht with rfl | rfl | rfl <;> decide
      exact Sim.after_nl (n := wtok .newLine 0 1 0) _ rfl ht m.sim)

/-- ` ␠x` and `⏎␠x` (a blank line inserted *before the first token of the file*) -/
def witC : List Lexed := [wtok .whitespace 0 0 2, wtok .id 0 0 2]
def witD : List Lexed := [wtok .newLine 0 1 0, wtok .whitespace 1 1 2, wtok .id 1 1 2]

/-- **Negation (defect F-C10-2).** Inserting a trivia line before the first token of the file is not
invariant: `same_line` is true for the first token only while no `NewLine` token precedes it, and
the `Equal(0)` rule of the main block is skipped when `same_line`. This is why `TriviaEdit.line`
demands a preceding `NewLine` token. -/
theorem line_edit_at_file_start_not_invariant :
    (peekTokenWithContext { Ctx.permissive with expected := .equal 0 } (Cur.init witC)).isSome = true ∧
    peekTokenWithContext { Ctx.permissive with expected := .equal 0 } (Cur.init witD) = none := by
  decide

/-- `peek_token_with_context` clears `same_line` only on a `NewLine` *token*: a multi-line comment
that contains a line break leaves the next token "on the same line" although its line is later —
even where line breaks are not allowed. (Not an edit of the class above: there the comment is
followed by a `NewLine` token.) -/
theorem multiline_comment_keeps_same_line :
    (peekTokenWithContext Ctx.inline
      ⟨wtok .id 0 0 0, [wtok .whitespace 0 0 0, wtok .commentMulti 0 1 0, wtok .whitespace 1 1 0, wtok .id 1 1 0]⟩).isSome = true ∧
    (peekTokenWithContext Ctx.inline
      ⟨wtok .id 0 0 0, [wtok .newLine 0 1 0, wtok .whitespace 1 1 2, wtok .id 1 1 2]⟩) = none := by
  decide

/-! ### the indentation rule, peeking, raw access, the token queue -/

/-- Which continuation lines `peek_token_with_context` accepts, per `Indentation` variant. -/
theorem indent_rule_table (i s e : Nat) :
    indentAccepts .flexible i s = true ∧
    (indentAccepts (.equal e) i s = true ↔ i = e) ∧
    (indentAccepts .greater i s = true ↔ i > s) ∧
    (indentAccepts (.greaterThan e) i s = true ↔ i > e) ∧
    (indentAccepts (.greaterOrEqual e) i s = true ↔ i ≥ e) := by
  simp [indentAccepts]

/-- `else` / `catch` / `finally` at the indentation of their `if` / `try` (rule `GreaterOrEqual` /
`Equal`) are accepted; the same token under `Greater` is not — the decision the DESIGN §11 mutant
"GreaterOrEqual treated as Greater" flips. -/
theorem indent_rule_else_at_equal_indent :
    indentAccepts (.greaterOrEqual 2) 2 2 = true ∧ indentAccepts (.equal 2) 2 2 = true ∧
    indentAccepts .greater 2 2 = false ∧ indentAccepts (.greaterThan 2) 2 2 = false := by
  decide

/-- The token returned by `peek_token_with_context` is the first non-trivia token after the cursor:
only trivia is skipped, and the peek count is the number of skipped tokens. -/
theorem peek_skips_only_trivia (ctx : Ctx) (c : Cur) (i : PeekInfo)
    (h : peekTokenWithContext ctx c = some i) :
    ∃ g r, c.rest = g ++ i.info :: r ∧ AllTrivia g ∧ isTrivia i.info.tok = false ∧
      i.peekCount = g.length ∧ i.tok = i.info.tok := by
  rcases split_gap c.rest with hl | ⟨g, t, r, e, hg, ht⟩
  · simp [peekTokenWithContext, peekLoop_trivia _ _ _ hl] at h
  · refine ⟨g, r, ?_⟩
    simp only [peekTokenWithContext, e, peekLoop_gap _ _ _ _ _ hg ht, peekDecide] at h
    have : i = ⟨t.tok, 0 + g.length, t⟩ := by
      split at h
      · exact (Option.some.inj h).symm
      · split at h
        · split at h
          · exact (Option.some.inj h).symm
          · cases h
        · cases h
    subst this
    exact ⟨e, hg, ht, by simp, rfl⟩

/-- and conversely nothing significant is ever skipped: when it answers `none` although a
significant token follows, that token is on a later line and the context rejects it -/
theorem peek_none_iff (ctx : Ctx) (cur : Lexed) (g : List Lexed) (t : Lexed) (r : List Lexed)
    (hg : AllTrivia g) (ht : isTrivia t.tok = false) :
    peekTokenWithContext ctx ⟨cur, g ++ t :: r⟩ = none ↔
      hasNL g = true ∧ (ctx.allowLinebreaks = false ∨ indentAccepts ctx.expected t.indent cur.indent = false) := by
  simp only [peekTokenWithContext, peekLoop_gap _ _ _ _ _ hg ht, peekDecide]
  cases hasNL g <;> cases ctx.allowLinebreaks <;> cases indentAccepts ctx.expected t.indent cur.indent <;> simp

/-- Raw access (`peek_token_n`, `consume_token`) at corresponding cursors: the next raw token is
trivia on both sides or the same significant kind; and when the next significant token is on the
cursor's line (no `NewLine` in the gap) the raw tokens up to and including it are identical in kind.
(The one place that tells `Whitespace` from other trivia, `parse_call_args`, does so only then.) -/
theorem cursor_invariant_raw {ρ : Nat → Nat → Prop} (c c' : Cur) (hs : Sim ρ c.rest c'.rest) :
    ((∃ k, peekToken c = some k ∧ peekToken c' = some k ∧ isTrivia k = false) ∨
     (∃ k k', peekToken c = some k ∧ peekToken c' = some k' ∧ isTrivia k = true ∧ isTrivia k' = true) ∨
     (peekToken c = none ∧ peekToken c' = none)) ∧
    (∀ g t r, c.rest = g ++ t :: r → AllTrivia g → isTrivia t.tok = false → hasNL g = false →
      ∀ n, n ≤ g.length → peekTokenN n c' = peekTokenN n c) := by
  obtain ⟨cur, rest⟩ := c
  obtain ⟨cur', rest'⟩ := c'
  simp only at hs
  constructor
  · cases hs with
    | done hl hl' r =>
      cases rest with
      | nil =>
        have := r.eq_nil
        subst this
        right; right; simp [peekToken, peekTokenN]
      | cons x xs =>
        cases rest' with
        | nil =>
          have h := r.symm.eq_nil
          cases h
        | cons y ys =>
          right; left
          exact ⟨x.tok, y.tok, by simp [peekToken, peekTokenN], by simp [peekToken, peekTokenN], hl.head, hl'.head⟩
    | @tok _ _ g g' t t' r r' e e' hg hg' gr ht tr s =>
      subst e; subst e'
      cases g with
      | nil =>
        have := gr.eq_nil
        subst this
        left
        exact ⟨t.tok, by simp [peekToken, peekTokenN], by simp [peekToken, peekTokenN, tr.tok], ht⟩
      | cons x xs =>
        cases g' with
        | nil =>
          have h := gr.symm.eq_nil
          cases h
        | cons y ys =>
          right; left
          exact ⟨x.tok, y.tok, by simp [peekToken, peekTokenN], by simp [peekToken, peekTokenN], hg.head, hg'.head⟩
  · intro g t r e hg ht hn n hle
    simp only at e
    cases hs with
    | done hl _ _ =>
      rw [e] at hl
      exact (not_allTrivia_split hl ht).elim
    | @tok _ _ g2 g2' t2 t2' r2 r2' e2 e2' hg2 hg2' gr ht2 tr s =>
      rw [e] at e2
      obtain ⟨e1, e3, e4⟩ := split_unique e2 hg hg2 ht ht2
      subst e1; subst e3; subst e4
      have kinds : (g2' ++ [t2']).map (·.tok) = (g ++ [t]).map (·.tok) := by
        simp [gr.same hn, tr.tok]
      have hlen : g2'.length = g.length := by
        have := congrArg List.length (gr.same hn)
        simpa using this
      have h1 : ∀ (a : List Lexed) (x : Lexed) (b : List Lexed), n ≤ a.length →
          ((a ++ x :: b)[n]?).map (·.tok) = ((a ++ [x]).map (·.tok))[n]? := by
        intro a x b hl
        have : a ++ x :: b = (a ++ [x]) ++ b := by simp
        rw [this, List.getElem?_append_left (by simp; omega), List.getElem?_map]
      simp only [peekTokenN, e, e2']
      rw [h1 g2' t2' r2' (by omega), h1 g t r hle, kinds]

/-- `KotoLexer::peek(n)` is the `n`-th unconsumed token, for EVERY `n` and every queue state, and it
reads no further than needed: afterwards the queue holds `max(queued, n + 1)` tokens (or all that
are left) — never more than one token past the furthest peek. (Positive restatement of the former
`queue_peek_quirks`: before /repo b5b4493 `peek(len + 2)` underflowed, `peek(len + 1)` answered
`None`, and `peek(n)` with `n < len` read one token too many.) -/
theorem queue_peek_spec (rest : List Lexed) (queued n : Nat) :
    (queuePeek rest queued n).1 = rest[n]? ∧
    (queuePeek rest queued n).2 = min (max queued (n + 1)) rest.length ∧
    (queuePeek rest queued n).2 ≤ max queued (n + 1) := by
  unfold queuePeek
  have e : queued + (n + 1 - queued) = max queued (n + 1) := by omega
  simp only [e]
  refine ⟨?_, trivial, Nat.min_le_left _ _⟩
  by_cases hn : n < min (max queued (n + 1)) rest.length
  · simp [hn]
  · have : rest.length ≤ n := by omega
    simp [hn, List.getElem?_eq_none this]

/-- the way `parser.rs` calls it (`n ≤ token_queue.len()`: sequential peeks, `peek_count + 1` after
a peek): the `n`-th unconsumed token, and at most one token is lexed -/
theorem queue_transparent (rest : List Lexed) (queued n : Nat) (h : n ≤ queued) :
    queuePeek rest queued n = (rest[n]?, min (max queued (n + 1)) rest.length) ∧
    (queuePeek rest queued n).2 ≤ queued + 1 := by
  obtain ⟨h1, h2, h3⟩ := queue_peek_spec rest queued n
  refine ⟨Prod.ext h1 h2, ?_⟩
  omega

/-- `next` after `peek` hands out exactly the peeked token -/
theorem queue_next_after_peek (rest : List Lexed) (queued : Nat) :
    (queueNext rest (queuePeek rest queued 0).2).1 = (queuePeek rest queued 0).1 := by
  have h := (queue_peek_spec rest queued 0).1
  cases rest with
  | nil => simp [queueNext, h]
  | cons t r => simp [queueNext, h]

/-! ### deletions and sequences of edits -/

/-- deleting trivia is the converse edit -/
theorem trivia_delete_sim {ρ ts ts'} (e : TriviaEdit ρ ts ts') : Sim (conv ρ) ts' ts ∧ (LineRel ρ → LineRel (conv ρ)) :=
  ⟨(trivia_edit_sim e).symm, LineRel.conv⟩

/-- any sequence of insertions and deletions: similarity composes, and so does the order-preserving
line relabelling — `cursor_invariant_ctx` therefore applies to the end points -/
theorem trivia_edits_compose {ρ σ a b c} (s : Sim ρ a b) (s' : Sim σ b c) :
    Sim (comp ρ σ) a c ∧ (LineRel ρ → LineRel σ → LineRel (comp ρ σ)) :=
  ⟨s.trans s', LineRel.comp⟩

/-- `current_line()` values are only ever compared: order and equality are preserved -/
theorem current_line_comparisons {ρ} (hρ : LineRel ρ) {a a' b b' : Nat} (ha : ρ a a') (hb : ρ b b') :
    (a < b ↔ a' < b') ∧ (a = b ↔ a' = b') ∧ (a > b ↔ a' > b') :=
  ⟨hρ a a' b b' ha hb, hρ.eq_iff ha hb, hρ b b' a a' hb ha⟩


/-! ### further non-vacuity examples -/

/-- `a⏎b` → `a␠#c⏎b`: an end-of-line comment preceded by whitespace is a `TriviaEdit.eol`
(lines unchanged: `shift 0 0` is the identity) -/
example : TriviaEdit (shift 0 0)
    [wtok .id 0 0 0, wtok .newLine 0 1 0, wtok .id 1 1 0]
    [wtok .id 0 0 0, wtok .whitespace 0 0 0, wtok .commentSingle 0 0 0, wtok .newLine 0 1 0, wtok .id 1 1 0] := by
  refine TriviaEdit.eol [wtok .id 0 0 0] [wtok .whitespace 0 0 0, wtok .commentSingle 0 0 0] [wtok .id 1 1 0]
    [wtok .id 1 1 0] (wtok .newLine 0 1 0) (wtok .newLine 0 1 0) rfl ?_ ?_ ?_
  · intro t ht
    simp at ht
    rcases ht with rfl | rfl <;> decide
  · intro t ht _
    simp at ht
    subst ht
    exact ⟨by simp [shift, wtok], by simp [shift, wtok]⟩
  · exact Moved.cons rfl (fun h => absurd h (by decide))
      (Moved.cons rfl (fun _ => ⟨rfl, rfl, by simp [shift, wtok], by simp [shift, wtok]⟩) Moved.nil)

/-- `peek_skips_only_trivia` on a concrete accepted continuation line (indented `.` after a line
break and a comment line, `Greater` rule) -/
example : ∃ i, peekTokenWithContext Ctx.permissive
      ⟨wtok .id 0 0 0, [wtok .newLine 0 1 0, wtok .commentSingle 1 1 0, wtok .newLine 1 2 0,
        wtok .whitespace 2 2 2, wtok (.sym .Dot) 2 2 2]⟩ = some i ∧ i.peekCount = 4 ∧ i.tok = .sym .Dot :=
  ⟨_, rfl, rfl, rfl⟩

/-- the same token is rejected when the context does not allow line breaks, or under `Equal(0)` -/
example : peekTokenWithContext Ctx.inline
      ⟨wtok .id 0 0 0, [wtok .newLine 0 1 0, wtok .whitespace 1 1 2, wtok (.sym .Dot) 1 1 2]⟩ = none ∧
    peekTokenWithContext { Ctx.permissive with expected := .equal 0 }
      ⟨wtok .id 0 0 0, [wtok .newLine 0 1 0, wtok .whitespace 1 1 2, wtok (.sym .Dot) 1 1 2]⟩ = none := by
  decide

/-- `consume_token_with_context` on an indented continuation returns `Equal(indent)` +
`allow_map_block` (the DESIGN §11 mutant "allow_map_block not set" changes this value) -/
example : (consumeTokenWithContext Ctx.permissive
      ⟨wtok (.sym .Assign) 0 0 0, [wtok .newLine 0 1 0, wtok .whitespace 1 1 2, wtok .id 1 1 2]⟩).1 =
    some (.id, { Ctx.permissive with expected := .equal 2, allowMapBlock := true }) := by
  decide

/-- peeking two past an empty queue now simply reads three tokens -/
example : queuePeek [wtok .id 0 0 0, wtok .number 0 0 0, wtok .id 0 0 0] 0 2 = (some (wtok .id 0 0 0), 3) := by
  decide

example : queuePeek [wtok .id 0 0 0, wtok .number 0 0 0] 1 1 = (some (wtok .number 0 0 0), 2) :=
  (queue_transparent _ 1 1 (by decide)).1

end KotoVerif.C10
