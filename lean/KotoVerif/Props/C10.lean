import KotoVerif.Model.Cursor
namespace KotoVerif.C10
open KotoVerif.Lexer KotoVerif.Cursor

end KotoVerif.C10
