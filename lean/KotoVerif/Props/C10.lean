/-
C10 — layout never changes a program's meaning: the part that is *proved*.

`Model/Cursor.lean` is the only interface through which `parser.rs` observes tokens. The theorems
below hold for ALL token lists (not only lexer outputs), all expression contexts and all cursor
positions:

* `TriviaEdit` — inserting a trailing-whitespace / end-of-line-comment run before a `NewLine`
  token, or a whole trivia line (`Whitespace? Comment? NewLine`, several of them) after a `NewLine`
  token, with the lexer's bookkeeping adjusted (later tokens keep kind and indent, their lines are
  relabelled by an order-preserving relation `ρ`; bytes and columns are free). Deletion is the
  converse edit (`Sim.symm`), sequences of edits compose (`Sim.trans`).
* `trivia_edit_sim` — an edit yields trivia-similar token lists (`Sim ρ`).
* `cursor_invariant_ctx` — at corresponding cursors *on significant tokens* every trivia-skipping
  primitive returns the same result for every `Indentation` variant and every flag combination
  (same token kind/indent, same accept/reject, same new context), and leaves corresponding cursors.
* `cursor_invariant_pre_partial` — after `consume_until_*` the cursor sits on the last skipped
  *trivia* token; peeks and consumes are still invariant there (given that the next token does not
  end on a later line than the cursor, true for lexer output), but `current_indent()` itself is
  NOT: `current_indent_pre_not_invariant` (this is defect F-C10-1 of the implementation).
* `line_edit_at_file_start_not_invariant` — why `TriviaEdit.line` demands a preceding `NewLine`
  token: inserting a trivia line before the first token of the file changes `same_line`
  (defect F-C10-2 of the implementation).
* `cursor_invariant_raw`, `peek_skips_only_trivia`, `indent_rule_table`, `queue_transparent`.

Inspection (trusted, not proved; checked against parser.rs at 31f5a26): line numbers obtained from
`current_line()` / `LexedToken::line()` / `span.start.line` are used only in `<`/`>`/`==`
comparisons with each other (parser.rs lines 534, 641, 702, 1529, 2003, 2031, 4036, 4072) or to
build spans (418, 2473), so relating them by an order-preserving `ρ` is all a client can observe;
every `self.lexer` use is inside the modelled primitives.
-/
import KotoVerif.Lemmas.C10

namespace KotoVerif.C10
open KotoVerif.Lexer KotoVerif.Cursor

/-! ### the edit relation -/

/-- One trivia edit at the token level. `ρ` relates the line numbers before and after. -/
inductive TriviaEdit (ρ : Nat → Nat → Prop) : List Lexed → List Lexed → Prop
  /-- trailing whitespace and/or an end-of-line comment: `is_whitespace()` tokens `ins` inserted
  directly before the `NewLine` token `n` -/
  | eol (pre ins post post' : List Lexed) (n n' : Lexed) :
      n.tok = .newLine → AllWs ins → Fixed ρ pre → Moved ρ (n :: post) (n' :: post') →
      TriviaEdit ρ (pre ++ n :: post) (pre ++ (ins ++ n' :: post'))
  /-- whole trivia lines (blank, whitespace-only, comment-only, multi-line comments) `ins` inserted
  directly after the `NewLine` token `n` -/
  | line (pre ins post post' : List Lexed) (n : Lexed) :
      n.tok = .newLine → AllTrivia ins → Fixed ρ (pre ++ [n]) → Moved ρ post post' →
      TriviaEdit ρ (pre ++ n :: post) (pre ++ n :: (ins ++ post'))

theorem trivia_edit_sim {ρ ts ts'} (e : TriviaEdit ρ ts ts') : Sim ρ ts ts' := by
  cases e with
  | eol pre ins post post' n n' hn hi hf hm =>
    cases hm with
    | cons tr m =>
      have hn' : n'.tok = .newLine := by rw [tr.tok]; exact hn
      have := Sim.regap (ρ := ρ) [] ins hn hn' AllTrivia.nil hi.trivia m.sim
      exact Sim.prefix hf (by simpa using this)
  | line pre ins post post' n hn hi hf hm =>
    have hfp : Fixed ρ pre := fun t ht => hf t (List.mem_append_left _ ht)
    exact Sim.prefix hfp (Sim.after_nl ins hn hi hm.sim)

end KotoVerif.C10
